(* Layer mig — the compile-time baseline threading (Model/Compile.v). *)
From VV.MIG Require Import Compile.
From Coq Require Import Lia.

Section CompileP.
Variables (schema action : Type) (apply_mut : schema -> action -> schema * bool)
          (gen : schema -> list action -> option (list action_sql)).
Notation thread := (thread schema action apply_mut).
Notation compile := (compile schema action apply_mut gen).
Notation baseline_before := (baseline_before schema action apply_mut).

Lemma thread_app : forall a b s, thread s (a ++ b) = thread (thread s a) b.
Proof. intros a b s. unfold Compile.thread. apply fold_left_app. Qed.

(* a rejected action in the middle does not stop the rest: every later action is still applied *)
Lemma thread_past_rejected : forall s a1 x a2,
  thread s (a1 ++ x :: a2) = thread (fst (apply_mut (thread s a1) x)) a2.
Proof. intros s a1 x a2. rewrite thread_app. reflexivity. Qed.

(* the i-th migration is compiled against the fold of apply-and-ignore-the-result over ALL actions of ALL
   earlier migrations, and carries its own version and id *)
Theorem compile_nth : forall ps base ms i p,
  compile base ps = Some ms -> nth_error ps i = Some p ->
  exists sqls, gen (baseline_before base ps i) (p_actions action p) = Some sqls /\
               nth_error ms i = Some (mkMig (p_version action p) (p_id action p) sqls).
Proof.
  induction ps as [|q ps IH]; intros base ms i p Hc Hn; [destruct i; discriminate|].
  simpl in Hc. destruct (gen base (p_actions action q)) as [sq|] eqn:Eg; [|discriminate].
  destruct (compile (thread base (p_actions action q)) ps) as [ms'|] eqn:Ec; [|discriminate].
  injection Hc as <-. destruct i as [|i].
  - simpl in Hn. injection Hn as <-. exists sq. split; [exact Eg|reflexivity].
  - simpl in Hn. destruct (IH _ _ _ _ Ec Hn) as [sqls [A B]]. exists sqls. split; [|exact B].
    unfold Compile.baseline_before in *. simpl. rewrite thread_app. exact A.
Qed.

Lemma compile_length : forall ps base ms, compile base ps = Some ms -> List.length ms = List.length ps.
Proof.
  induction ps as [|q ps IH]; intros base ms H; simpl in H; [injection H as <-; reflexivity|].
  destruct (gen base (p_actions action q)); [|discriminate].
  destruct (compile (thread base (p_actions action q)) ps) eqn:E; [|discriminate].
  injection H as <-. simpl. f_equal. eapply IH. exact E.
Qed.

(* versions and ids are those of the plans, in the same order *)
Lemma compile_versions : forall ps base ms, compile base ps = Some ms ->
  map m_version ms = map (p_version action) ps /\ map m_id ms = map (p_id action) ps.
Proof.
  induction ps as [|q ps IH]; intros base ms H; simpl in H; [injection H as <-; split; reflexivity|].
  destruct (gen base (p_actions action q)); [|discriminate].
  destruct (compile (thread base (p_actions action q)) ps) eqn:E; [|discriminate].
  injection H as <-. destruct (IH _ _ E) as [A B]. simpl. rewrite A, B. split; reflexivity.
Qed.
End CompileP.

(* the short-circuiting variant is a different function: a toy schema (the list of table names), where
   dropping an unknown table is rejected, then a table is added *)
Definition toy_apply (s : list nat) (a : bool * nat) : list nat * bool :=
  if fst a then (s ++ [snd a], true)
  else if existsb (Nat.eqb (snd a)) s then (filter (fun x => negb (Nat.eqb x (snd a))) s, true) else (s, false).

Lemma short_circuit_differs : exists s acts,
  thread (list nat) (bool * nat) toy_apply s acts <> thread_short_circuit (list nat) (bool * nat) toy_apply s acts.
Proof. exists [1], [(false, 7); (true, 2)]. vm_compute. discriminate. Qed.
