(* Layer mig — the missing link between the two semantics: one instance alone, stepped by the scheduler,
   does exactly what [run] does (so the interleaving theorems of C11 specialise to the sequential theorems
   of C09 / C10, and the `run`-based statement of retry_converges speaks about the system semantics). *)
From VV.MIG Require Import Spec Basics SeqP ConcP TermP.
From Coq Require Import Lia.

Section Solo.
Variables (o : opts) (ms : list mig).

(* n scheduler steps of a single instance (nobody else holds a lock) *)
Fixpoint drive (n : nat) (cp : dbstate * pinst) : dbstate * pinst :=
  match n with O => cp | S n' => drive n' (pstep o ms [] (fst cp) (snd cp)) end.

Lemma drive_add : forall a b cp, drive (a + b) cp = drive b (drive a cp).
Proof. induction a as [|a IH]; intros b cp; simpl; [reflexivity|apply IH]. Qed.

Lemma pstep_finished : forall c p r, i_res (p_inst p) = Some r -> pstep o ms [] c p = (c, p).
Proof. intros c p r H. unfold pstep. rewrite H. reflexivity. Qed.
Lemma pstep_empty : forall c p, p_todo p = [] -> pstep o ms [] c p = (c, p).
Proof. intros c p H. unfold pstep. rewrite H. destruct (i_res (p_inst p)); reflexivity. Qed.
Lemma drive_finished : forall n c p r, i_res (p_inst p) = Some r -> drive n (c, p) = (c, p).
Proof. induction n as [|n IH]; intros c p r H; simpl; [reflexivity|]. rewrite (pstep_finished c p r H). eapply IH. exact H. Qed.
Lemma drive_empty : forall n c p, p_todo p = [] -> drive n (c, p) = (c, p).
Proof. induction n as [|n IH]; intros c p H; simpl; [reflexivity|]. rewrite (pstep_empty c p H). apply IH. exact H. Qed.

Lemma drive_finished' : forall n c i l F r, i_res i = Some r -> drive n (c, mkP i l F) = (c, mkP i l F).
Proof. intros n c i l F r H. apply (drive_finished n c (mkP i l F) r). exact H. Qed.

Lemma settle_finished : forall i l F r, i_res i = Some r -> settle (mkP i l F) = mkP i l F.
Proof. intros i l F r H. unfold settle; simpl. rewrite H. reflexivity. Qed.

Lemma settle_id : forall i x l F, (forall e, x <> IFail e) -> settle (mkP i (x :: l) F) = mkP i (x :: l) F.
Proof.
  intros i x l F H. unfold settle; simpl. destruct (i_res i); [reflexivity|].
  destruct x; try reflexivity. exfalso. eapply H. reflexivity.
Qed.

Definition not_readids (x : instr) : Prop := match x with IReadIds => False | _ => True end.
Definition obs (cp : dbstate * pinst) : dbstate * inst := (fst cp, p_inst (snd cp)).

(* one scheduler step on a call that is not the second read *)
Lemma drive_step : forall F n c i x l,
  i_res i = None -> not_readids x ->
  drive (S n) (c, mkP i (x :: l) F) =
  drive n (fst (exec F o [] x c i),
           settle (mkP (snd (exec F o [] x c i))
                       (match i_res (snd (exec F o [] x c i)) with Some _ => [] | None => l end) F)).
Proof.
  intros F n c i x l Hr Hx. simpl drive. unfold pstep. simpl p_inst. simpl p_todo. simpl p_faults. rewrite Hr.
  destruct x; simpl in Hx; try destruct Hx; reflexivity.
Qed.

(* the blocks: [run_list] over a list without IReadIds, IFail handled eagerly by [settle] *)
Lemma drive_plan : forall F l c i n,
  Forall not_readids l -> i_res i = None -> List.length l <= n ->
  obs (drive n (c, settle (mkP i l F))) = run_list F o [] l (c, i).
Proof.
  intros F l. induction l as [|x l IH]; intros c i n Hl Hr Hn.
  - unfold settle; simpl. rewrite Hr. rewrite drive_empty by reflexivity. reflexivity.
  - inversion Hl as [|? ? Hx Hl']; subst.
    assert (Hstep : (forall e, x <> IFail e) -> obs (drive n (c, mkP i (x :: l) F)) = run_list F o [] (x :: l) (c, i)).
    { intros Hnf. destruct n as [|n']; [simpl in Hn; lia|]. simpl in Hn.
      rewrite (drive_step F n' c i x l Hr Hx). rewrite run_list_cons_running by exact Hr.
      destruct (i_res (snd (exec F o [] x c i))) eqn:E1.
      - rewrite (settle_finished _ _ _ _ E1). rewrite (drive_finished' n' _ _ _ _ _ E1).
        rewrite (run_list_finished F o [] l (exec F o [] x c i) _ E1). unfold obs; simpl. symmetry. apply surjective_pairing.
      - rewrite (surjective_pairing (exec F o [] x c i)) at 3. apply IH; [exact Hl'|exact E1|lia]. }
    destruct x as [ | | | | | s | v id | | e]; try (rewrite settle_id by (intros e0; discriminate); apply Hstep; intros e0; discriminate).
    (* IFail at the head: settled at once *)
    rewrite run_list_cons_running by exact Hr.
    change (exec F o [] (IFail e) c i) with (c, fail_run e i).
    rewrite (run_list_finished F o [] l (c, fail_run e i) (RErr e) eq_refl).
    assert (Hs : settle (mkP i (IFail e :: l) F) = mkP (fail_run e i) [] F) by (unfold settle; simpl; rewrite Hr; reflexivity).
    rewrite Hs. rewrite (drive_finished' n c (fail_run e i) [] F (RErr e) eq_refl). reflexivity.
Qed.

Lemma plan_not_readids : forall ver ids, Forall not_readids (plan o ver ids ms).
Proof.
  intros ver ids. apply Forall_forall. intros x Hx.
  pose proof (plan_txn_instr o ver ids ms) as H. rewrite Forall_forall in H. specialize (H x Hx).
  destruct x; simpl in H; try destruct H; exact I.
Qed.

(* the calls in front of the second read: no IFail, no IReadIds among them; [rest] stays in the todo *)
Lemma drive_pre : forall F l c i rest,
  Forall (fun x => not_readids x /\ forall e, x <> IFail e) l -> i_res i = None ->
  (forall e r, rest <> IFail e :: r) ->
  drive (List.length l) (c, mkP i (l ++ rest) F) =
  (fst (run_list F o [] l (c, i)),
   match i_res (snd (run_list F o [] l (c, i))) with
   | Some _ => mkP (snd (run_list F o [] l (c, i))) [] F
   | None => mkP (snd (run_list F o [] l (c, i))) rest F
   end).
Proof.
  intros F l. induction l as [|x l IH]; intros c i rest Hl Hr Hrest.
  - simpl. rewrite Hr. reflexivity.
  - inversion Hl as [|? ? [Hx Hnf] Hl']; subst.
    simpl List.length. change ((x :: l) ++ rest) with (x :: (l ++ rest)).
    rewrite (drive_step F (List.length l) c i x (l ++ rest) Hr Hx). rewrite run_list_cons_running by exact Hr.
    destruct (i_res (snd (exec F o [] x c i))) eqn:E1.
    + rewrite (settle_finished _ _ _ _ E1). rewrite (drive_finished' _ _ _ _ _ _ E1).
      rewrite (run_list_finished F o [] l (exec F o [] x c i) _ E1). rewrite E1. reflexivity.
    + assert (Hs : settle (mkP (snd (exec F o [] x c i)) (l ++ rest) F) = mkP (snd (exec F o [] x c i)) (l ++ rest) F).
      { unfold settle; simpl. rewrite E1. destruct l as [|y l0]; simpl.
        - destruct rest as [|z rest0]; [reflexivity|]. destruct z; try reflexivity. exfalso. eapply Hrest. reflexivity.
        - inversion Hl' as [|? ? [_ Hy] _]; subst. destruct y; try reflexivity. exfalso. eapply Hy. reflexivity. }
      rewrite Hs. pose proof (IH (fst (exec F o [] x c i)) (snd (exec F o [] x c i)) rest Hl' E1 Hrest) as H.
      rewrite <- surjective_pairing in H. exact H.
Qed.

Theorem drive_is_run : forall F d n,
  steps_bound o ms <= n -> obs (drive n (d, mkP inst0 prelude F)) = run F o ms d.
Proof.
  intros F d n Hn. unfold steps_bound in Hn.
  replace n with (4 + (1 + (n - 5))) by lia. rewrite drive_add.
  change prelude with ([ICreate; IAlter; IBegin; IReadMax] ++ [IReadIds]).
  change 4 with (List.length [ICreate; IAlter; IBegin; IReadMax]).
  rewrite (drive_pre F [ICreate; IAlter; IBegin; IReadMax] d inst0 [IReadIds]);
    [ | repeat constructor; intros e; discriminate | reflexivity | intros e r; discriminate ].
  unfold run, run_from.
  rewrite (run_list_app F o [] [ICreate; IAlter; IBegin; IReadMax] [IReadIds]).
  set (ci4 := run_list F o [] [ICreate; IAlter; IBegin; IReadMax] (d, inst0)).
  destruct (i_res (snd ci4)) eqn:E4.
  - (* returned inside the first four calls *)
    rewrite (drive_finished' _ _ _ _ _ _ E4).
    rewrite (run_list_finished F o [] [IReadIds] ci4 _ E4). rewrite E4. unfold obs; simpl. symmetry. apply surjective_pairing.
  - rewrite drive_add.
    assert (E5 : run_list F o [] [IReadIds] ci4 = exec F o [] IReadIds (fst ci4) (snd ci4)).
    { simpl. rewrite E4. destruct (exec F o [] IReadIds (fst ci4) (snd ci4)). reflexivity. }
    rewrite E5.
    assert (D1 : drive 1 (fst ci4, mkP (snd ci4) [IReadIds] F) =
                 (fst (exec F o [] IReadIds (fst ci4) (snd ci4)),
                  settle (mkP (snd (exec F o [] IReadIds (fst ci4) (snd ci4)))
                              (match i_res (snd (exec F o [] IReadIds (fst ci4) (snd ci4))) with
                               | Some _ => []
                               | None => plan o (i_ver (snd (exec F o [] IReadIds (fst ci4) (snd ci4))))
                                              (i_ids (snd (exec F o [] IReadIds (fst ci4) (snd ci4)))) ms
                               end) F))).
    { simpl drive. unfold pstep. simpl p_inst. simpl p_todo. simpl p_faults. rewrite E4. reflexivity. }
    rewrite D1. set (ci5 := exec F o [] IReadIds (fst ci4) (snd ci4)).
    destruct (i_res (snd ci5)) eqn:E6.
    + rewrite (settle_finished _ _ _ _ E6). rewrite (drive_finished' _ _ _ _ _ _ E6). unfold obs; simpl. symmetry. apply surjective_pairing.
    + match goal with |- obs (drive ?k _) = _ =>
        assert (Hk : List.length (plan o (i_ver (snd ci5)) (i_ids (snd ci5)) ms) <= k)
          by (pose proof (plan_length o (i_ver (snd ci5)) (i_ids (snd ci5)) ms); simpl; lia);
        pose proof (drive_plan F (plan o (i_ver (snd ci5)) (i_ids (snd ci5)) ms) (fst ci5) (snd ci5) k
                      (plan_not_readids _ _) E6 Hk) as H
      end.
      rewrite <- surjective_pairing in H. exact H.
Qed.

Lemma steps_single : forall n c p,
  steps o ms (repeat 0 n) (mkSys c [p]) = mkSys (fst (drive n (c, p))) [snd (drive n (c, p))].
Proof.
  induction n as [|n IH]; intros c p; [reflexivity|].
  simpl repeat. unfold steps in *. simpl fold_left.
  assert (E : sys_step o ms (mkSys c [p]) 0 = mkSys (fst (pstep o ms [] c p)) [snd (pstep o ms [] c p)]) by reflexivity.
  rewrite E, IH. simpl drive. rewrite <- surjective_pairing. reflexivity.
Qed.
End Solo.

(* one instance, scheduled at least steps_bound times: committed database, result, call log — the whole
   instance record — are those of [run], for every fault set *)
Theorem steps_single_is_run : forall F o ms d n,
  steps_bound o ms <= n ->
  let s := steps o ms (repeat 0 n) (init_sys_faults [F] d) in
  s_db s = fst (run F o ms d) /\ map p_inst (s_insts s) = [snd (run F o ms d)].
Proof.
  intros F o ms d n Hn s.
  assert (E : s = mkSys (fst (drive o ms n (d, mkP inst0 prelude F))) [snd (drive o ms n (d, mkP inst0 prelude F))])
    by (unfold s, init_sys_faults; simpl map; apply steps_single).
  rewrite E. simpl. rewrite <- (drive_is_run o ms F d n Hn). unfold obs. simpl. split; reflexivity.
Qed.
