(* Layer mig — proofs for C11: any number of instances, any schedule.  The proof is an invariant, not an
   enumeration:  (1) the committed database is always one of  d, create(d), bootstrap(d), FIN  where FIN is
   the result of one sequential run;  (2) an instance that holds SHARED or more carries a private view from
   which running the rest of its program *alone* either changes nothing or publishes exactly FIN;
   (3) whoever changes the committed database held EXCLUSIVE, so nobody else had a view at that moment. *)
From VV.MIG Require Import Spec Basics SeqP.
From Coq Require Import Lia.

(* ---------- lists of instances ---------- *)
Lemma set_nth_In : forall {A} (l : list A) pid a p q,
  nth_error l pid = Some p -> In q (set_nth pid a l) -> q = a \/ In q (others_of pid l).
Proof.
  intros A l. induction l as [|x l IH]; intros pid a p q Hn Hin.
  - destruct pid; discriminate.
  - destruct pid as [|pid]; simpl in *.
    + destruct Hin as [<-|Hin]; [left; reflexivity | right; exact Hin].
    + destruct Hin as [<-|Hin]; [right; left; reflexivity|].
      destruct (IH pid a p q Hn Hin) as [H|H]; [left; exact H | right; right; exact H].
Qed.
Lemma others_of_In : forall {A} (l : list A) pid q, In q (others_of pid l) -> In q l.
Proof.
  intros A l. induction l as [|x l IH]; intros pid q H; [destruct pid; exact H|].
  destruct pid as [|pid]; simpl in *; [right; exact H|].
  destruct H as [<-|H]; [left; reflexivity | right; apply (IH pid); exact H].
Qed.
Lemma nth_error_In' : forall {A} (l : list A) n x, nth_error l n = Some x -> In x l.
Proof. intros A l n x H. eapply nth_error_In. exact H. Qed.

(* ---------- locks ---------- *)
Lemma can_exclusive_all : forall ls l, can_exclusive ls = true -> In l ls -> l = Unlocked.
Proof.
  intros ls l H Hin. unfold can_exclusive in H. rewrite forallb_forall in H. specialize (H l Hin).
  destruct l; try discriminate. reflexivity.
Qed.
Lemma can_autocommit_exclusive : forall ls, can_autocommit_write ls = true -> can_exclusive ls = true.
Proof. intros ls H. unfold can_autocommit_write in H. apply andb_true_iff in H. apply H. Qed.

(* ---------- one instruction under contention vs alone ---------- *)
Definition txn_instr (x : instr) : Prop :=
  match x with IExec _ | IInsert _ _ | ICommit | IFail _ => True | _ => False end.

Definition clean_fail (c : dbstate) (ci : dbstate * inst) : Prop :=
  fst ci = c /\ i_res (snd ci) = Some (RErr DatabaseError) /\ i_lock (snd ci) = Unlocked /\ i_buf (snd ci) = None.

Lemma exec_vs_solo : forall o oth x c i b,
  i_buf i = Some b -> (txn_instr x \/ x = IReadIds) ->
  exec [] o oth x c i = exec [] o [] x c i \/ clean_fail c (exec [] o oth x c i).
Proof.
  intros o oth x c i b Hb Hx. unfold clean_fail.
  destruct x; simpl in Hx; try (destruct Hx as [[]|Hx]; discriminate).
  - (* IReadIds *) left. simpl. unfold acquire_shared. rewrite Hb. reflexivity.
  - (* IExec *) simpl. unfold acquire_reserved, acquire_shared. rewrite Hb.
    destruct (lock_leb Reserved (i_lock i)); [left; reflexivity|].
    destruct (can_reserved oth); [left; reflexivity|]. right. simpl. auto.
  - (* IInsert *) simpl. unfold acquire_reserved, acquire_shared. rewrite Hb.
    destruct (lock_leb Reserved (i_lock i)); [left; reflexivity|].
    destruct (can_reserved oth); [left; reflexivity|]. right. simpl. auto.
  - (* ICommit *) simpl. destruct (lock_leb Reserved (i_lock i)); [|left; reflexivity].
    destruct (can_exclusive oth); [left; reflexivity|]. right. simpl. auto.
  - left. reflexivity.
Qed.

Lemma exec_finished_clean : forall F o oth x c i r,
  i_res i = None -> i_res (snd (exec F o oth x c i)) = Some r ->
  i_lock (snd (exec F o oth x c i)) = Unlocked /\ i_buf (snd (exec F o oth x c i)) = None.
Proof.
  intros F o oth x c i r Hi.
  destruct x; simpl;
    repeat match goal with
           | |- context [if ?b then _ else _] => destruct b; simpl
           | |- context [match ?e with _ => _ end] =>
               match e with
               | acquire_shared _ _ _ => destruct e eqn:?; simpl
               | acquire_reserved _ _ _ => destruct e eqn:?; simpl
               | sql_alter_vt _ => destruct e; simpl
               | sql_select_max _ => destruct e; simpl
               | sql_select_ids _ => destruct e; simpl
               | sql_insert_version _ _ _ => destruct e; simpl
               end
           end; intros H; try (split; reflexivity); try (rewrite Hi in H; discriminate).
  all: try (unfold acquire_shared in *; destruct (i_buf i); try destruct (can_shared oth);
            repeat match goal with H0 : Some _ = Some _ |- _ => injection H0 as <- | H0 : None = Some _ |- _ => discriminate end;
            simpl in H; rewrite Hi in H; discriminate).
  all: try (unfold acquire_reserved, acquire_shared in *; destruct (i_buf i); try destruct (can_shared oth); simpl in *;
            repeat match goal with
                   | H0 : context [if ?b then _ else _] |- _ => destruct b; simpl in H0
                   | H0 : Some _ = Some _ |- _ => injection H0 as <-
                   | H0 : None = Some _ |- _ => discriminate
                   end; simpl in H; rewrite Hi in H; discriminate).
Qed.

(* the committed database only changes under EXCLUSIVE *)
Lemma exec_db_change_exclusive : forall F o oth x c i,
  fst (exec F o oth x c i) <> c -> can_exclusive oth = true.
Proof.
  intros F o oth x c i.
  destruct x; simpl;
    repeat match goal with
           | |- context [if ?b then _ else _] => destruct b eqn:?; simpl
           | |- context [match ?e with _ => _ end] => destruct e eqn:?; simpl
           end; intros H; try (exfalso; apply H; reflexivity); auto using can_autocommit_exclusive.
Qed.

Lemma plan_txn_instr : forall o ver ids ms, Forall txn_instr (plan o ver ids ms).
Proof.
  intros o ver ids ms. induction ms as [|m ms IH]; simpl.
  - constructor; [exact I|constructor].
  - destruct (id_check ids m).
    + constructor; [exact I|constructor].
    + destruct (N.ltb ver (m_version m)); [|exact IH].
      apply Forall_app. split.
      * apply Forall_forall. intros x Hx. apply in_map_iff in Hx. destruct Hx as [s [<- _]]. exact I.
      * constructor; [exact I|exact IH].
Qed.

Lemma up_not_unlocked : forall l, up l <> Unlocked.
Proof. destruct l; discriminate. Qed.

Lemma exec_txn_running : forall o x c i b,
  txn_instr x -> i_buf i = Some b -> i_lock i <> Unlocked ->
  i_res (snd (exec [] o [] x c i)) = None ->
  fst (exec [] o [] x c i) = c /\ (exists b', i_buf (snd (exec [] o [] x c i)) = Some b') /\
  i_lock (snd (exec [] o [] x c i)) <> Unlocked.
Proof.
  intros o x c i b Hx Hb Hl.
  destruct x; simpl in Hx; try destruct Hx.
  - rewrite (exec_IExec_ok o s c i b Hb). simpl. intros _. split; [reflexivity|]. split; [eexists; reflexivity|apply up_not_unlocked].
  - simpl. unfold acquire_reserved, acquire_shared. rewrite Hb.
    destruct (lock_leb Reserved (i_lock i)) eqn:El; simpl.
    + destruct (sql_insert_version (Z.of_N v) id (view c i)); simpl; [|discriminate].
      intros _. split; [reflexivity|]. split; [eexists; reflexivity|exact Hl].
    + match goal with |- context [sql_insert_version ?a ?b ?c] => destruct (sql_insert_version a b c) end; simpl; [|discriminate].
      intros _. split; [reflexivity|]. split; [eexists; reflexivity|discriminate].
  - simpl. destruct (lock_leb Reserved (i_lock i)); simpl; discriminate.
  - simpl. discriminate.
Qed.

Lemma exec_readids_running : forall o c i b,
  i_buf i = Some b -> i_res (snd (exec [] o [] IReadIds c i)) = None ->
  fst (exec [] o [] IReadIds c i) = c /\ i_buf (snd (exec [] o [] IReadIds c i)) = Some b /\
  i_lock (snd (exec [] o [] IReadIds c i)) = i_lock i.
Proof.
  intros o c i b Hb. simpl. unfold acquire_shared. rewrite Hb.
  destruct (sql_select_ids (view c i)); simpl; [|discriminate].
  intros _. rewrite Hb. auto.
Qed.

Lemma exec_fst_readids : forall F o oth c i, fst (exec F o oth IReadIds c i) = c.
Proof.
  intros. destruct (exec_db F o oth IReadIds c i) as [H|[[H _]|[[H _]|[H _]]]]; try discriminate. exact H.
Qed.

Definition terminal (x : instr) : Prop := match x with ICommit | IFail _ => True | _ => False end.
Definition terminal_last (l : list instr) : Prop := exists pre t, l = pre ++ [t] /\ terminal t.

Lemma terminal_last_tail : forall x r, terminal_last (x :: r) -> (r = [] /\ terminal x) \/ terminal_last r.
Proof.
  intros x r [pre [t [H Ht]]]. destruct pre as [|a pre]; simpl in H.
  - injection H as -> ->. left. split; [reflexivity|exact Ht].
  - injection H as -> ->. right. exists pre, t. split; [reflexivity|exact Ht].
Qed.
Lemma plan_terminal_last : forall o ver ids ms, terminal_last (plan o ver ids ms).
Proof.
  intros o ver ids ms. induction ms as [|m ms IH]; simpl.
  - exists [], ICommit. split; [reflexivity|exact I].
  - destruct (id_check ids m).
    + exists [], (IFail m0). split; [reflexivity|exact I].
    + destruct (N.ltb ver (m_version m)); [|exact IH].
      destruct IH as [pre [t [H Ht]]]. rewrite H.
      exists (map IExec (stmts_of o m) ++ IInsert (m_version m) (m_id m) :: pre), t.
      split; [|exact Ht]. rewrite <- app_assoc. reflexivity.
Qed.
Lemma terminal_finishes : forall F o oth x c i, terminal x -> i_res (snd (exec F o oth x c i)) <> None.
Proof.
  intros F o oth x c i Hx. destruct x; simpl in Hx; try destruct Hx; simpl.
  - destruct (faulty F i); simpl; [discriminate|].
    destruct (lock_leb Reserved (i_lock i)); [destruct (can_exclusive oth)|]; simpl; discriminate.
  - discriminate.
Qed.

Lemma exec_db_same_or_exclusive : forall F o oth x c i,
  fst (exec F o oth x c i) = c \/ can_exclusive oth = true.
Proof.
  intros F o oth x c i.
  destruct x; simpl;
    repeat match goal with
           | |- context [if ?b then _ else _] => destruct b eqn:?; simpl
           | |- context [match ?e with _ => _ end] => destruct e eqn:?; simpl
           end; first [left; reflexivity | right; auto using can_autocommit_exclusive].
Qed.

Section Conc.
Variables (o : opts) (ms : list mig) (k : N) (d : dbstate).
Hypothesis Hasc : ascending ms = true.
Hypothesis Hi32 : versions_u32 ms = true.
Hypothesis Hat : at_version k d = true.

Definition FIN : dbstate := advanced o (pending k ms) d.
(* do all id comparisons pass on the ids recorded in d?  If not, nothing can ever be published *)
Definition OK : bool := ids_ok ms d.
Definition finp (x : dbstate) : Prop := OK = true /\ x = FIN.
Definition reach (c : dbstate) : Prop := c = d \/ c = sql_create_vt d \/ c = bootstrap d \/ finp c.
(* outcome of running the rest of an instance's program alone, from committed database c *)
Definition good (c : dbstate) (ci : dbstate * inst) : Prop :=
  (fst ci = c \/ finp (fst ci)) /\ (OK = false -> i_res (snd ci) <> Some ROk).

Lemma create_idem : forall c, sql_create_vt (sql_create_vt c) = sql_create_vt c.
Proof. intros [[t|] ap]; reflexivity. Qed.
Lemma alter_ok_bootstrap : forall c c', sql_alter_vt c = EngOk c' -> c' = bootstrap c.
Proof.
  intros [[[[] rows]|] ap] c'; simpl; intros H; try discriminate. injection H as <-. reflexivity.
Qed.

Lemma reach_create : forall c, reach c -> reach (sql_create_vt c).
Proof.
  intros c [ -> | [ -> | [ -> | [Hok ->] ]]]; unfold reach.
  - right; left; reflexivity.
  - right; left. apply create_idem.
  - right; right; left. apply bootstrap_idempotent.
  - right; right; right. split; [exact Hok|reflexivity].
Qed.
Lemma reach_alter : forall c c', reach c -> sql_alter_vt c = EngOk c' -> reach c'.
Proof.
  intros c c' Hc Ha. pose proof (alter_ok_bootstrap _ _ Ha) as ->.
  destruct Hc as [ -> | [ -> | [ -> | [Hok ->] ]]]; unfold reach.
  - right; right; left; reflexivity.
  - right; right; left. apply bootstrap_create.
  - right; right; left. apply bootstrap_idem.
  - unfold FIN, advanced in Ha. simpl in Ha. discriminate.
Qed.

Lemma has_id_bootstrap_fix : forall c rows, d_vt c = Some (mkVt true rows) -> bootstrap c = c.
Proof. intros [[[[] r]|] ap] rows H; simpl in H; try discriminate. reflexivity. Qed.

Lemma reach_has_id : forall c rows, reach c -> d_vt c = Some (mkVt true rows) -> c = bootstrap d \/ finp c.
Proof.
  intros c rows [ -> | [ -> | [ -> | Hfp ]]] H.
  - left. symmetry. eapply has_id_bootstrap_fix. exact H.
  - left. rewrite <- bootstrap_create. symmetry. eapply has_id_bootstrap_fix. exact H.
  - left. reflexivity.
  - right. exact Hfp.
Qed.

Lemma txn_complete : forall c k' rows i2,
  at_version k' c = true -> ids_ok ms c = true -> d_vt c = Some (mkVt true rows) ->
  i_res i2 = None -> i_buf i2 = Some c -> i_lock i2 = Shared ->
  fst (run_list [] o [] (plan o (decode_version (max_version rows)) (decode_ids rows) ms) (c, i2))
  = advanced o (pending k' ms) c.
Proof.
  intros c k' rows i2 Hk Hfree Hvt Hr Hb Hl.
  destruct (at_version_parts _ _ Hk) as [H1 [H2 H3]]. unfold db_rows in H2, H3. rewrite Hvt in H2, H3. simpl in H2, H3.
  rewrite (decode_max_at k' rows H1 H2 H3).
  destruct (plan_run o k' (decode_ids rows) ms c rows i2 c) as [n Hn]; auto.
  - intros m Hm. pose proof (ids_ok_spec ms c Hfree m Hm) as Hid.
    rewrite (has_id_bootstrap_fix c rows Hvt) in Hid. unfold db_rows in Hid. rewrite Hvt in Hid. exact Hid.
  - intros m r _ Hv Hin. pose proof (rows_within_In _ _ _ H2 Hin). apply N.ltb_lt in Hv. lia.
  - rewrite Hn, Hl. simpl. unfold advanced. rewrite (has_id_bootstrap_fix c rows Hvt). unfold db_rows. rewrite Hvt. simpl.
    destruct (pending k' ms); simpl; [|reflexivity].
    destruct c as [vt ap]; simpl in *. subst vt. unfold stmts_all; simpl. rewrite !app_nil_r. reflexivity.
Qed.

(* running the rest of an instance's program alone *)
Definition finish (c : dbstate) (p : pinst) : dbstate * inst :=
  match p_todo p with
  | IReadIds :: _ =>
      let ci := exec [] o [] IReadIds c (p_inst p) in
      match i_res (snd ci) with
      | Some _ => ci
      | None => run_list [] o [] (plan o (i_ver (snd ci)) (i_ids (snd ci)) ms) ci
      end
  | l => run_list [] o [] l (c, p_inst p)
  end.

Lemma finish_txn : forall c i l f, Forall txn_instr l -> finish c (mkP i l f) = run_list [] o [] l (c, i).
Proof.
  intros c i l f H. unfold finish; simpl. destruct l as [|x l]; [reflexivity|].
  inversion H as [|? ? Hx _]; subst. destruct x; simpl in Hx; try destruct Hx; reflexivity.
Qed.

Lemma at_version_FIN : at_version (top k ms) FIN = true.
Proof. unfold FIN. apply at_version_advanced; assumption. Qed.

Lemma txn_fails : forall c rows i2,
  ids_ok ms c = false -> d_vt c = Some (mkVt true rows) -> i_res i2 = None ->
  fst (run_list [] o [] (plan o (decode_version (max_version rows)) (decode_ids rows) ms) (c, i2)) = c /\
  i_res (snd (run_list [] o [] (plan o (decode_version (max_version rows)) (decode_ids rows) ms) (c, i2))) <> Some ROk.
Proof.
  intros c rows i2 Hno Hvt Hr. apply run_list_no_commit.
  - apply plan_no_commit. destruct (ids_not_ok_ex ms c Hno) as [m [Hm Hne]]. exists m. split; [exact Hm|].
    rewrite (has_id_bootstrap_fix c rows Hvt) in Hne. unfold db_rows in Hne. rewrite Hvt in Hne. exact Hne.
  - apply plan_instrs.
  - rewrite Hr. discriminate.
Qed.

(* the first read of the transaction: from here on, alone, the instance changes nothing or publishes FIN —
   and the latter only if every id comparison passes *)
Lemma txn_sound : forall c i oth,
  reach c -> i_res i = None -> i_buf i = None ->
  i_res (snd (exec [] o oth IReadMax c i)) = None ->
  fst (exec [] o oth IReadMax c i) = c /\
  i_buf (snd (exec [] o oth IReadMax c i)) = Some c /\
  i_lock (snd (exec [] o oth IReadMax c i)) = Shared /\
  good c (finish c (mkP (snd (exec [] o oth IReadMax c i)) [IReadIds] [])).
Proof.
  intros c i oth Hc Hr Hb. destruct i as [res txn buf lk ver ids lg n]. simpl in Hr, Hb. subst res buf.
  simpl. unfold acquire_shared. simpl.
  destruct (can_shared oth); simpl; [|discriminate].
  unfold sql_select_max, view; simpl. destruct (d_vt c) as [[hid rows]|] eqn:Evt; simpl; [|discriminate].
  intros _. split; [reflexivity|]. split; [reflexivity|]. split; [reflexivity|].
  unfold finish; simpl. unfold sql_select_ids, view; simpl. rewrite Evt. simpl.
  destruct hid; simpl; [|split; [left; reflexivity|intros _; discriminate]].
  destruct (ids_ok ms c) eqn:Eok.
  - (* every comparison passes on the ids of c *)
    destruct (reach_has_id c rows Hc Evt) as [Hc'|[Hok Hc']].
    + assert (Hk' : at_version k c = true) by (rewrite Hc'; apply at_version_bootstrap; exact Hat).
      assert (HOK : OK = true) by (unfold OK; rewrite <- ids_ok_bootstrap, <- Hc'; exact Eok).
      split; [right|intros Hno; rewrite HOK in Hno; discriminate].
      match goal with |- context [run_list [] o [] _ (c, ?i2)] => rewrite (txn_complete c k rows i2 Hk' Eok Evt eq_refl eq_refl eq_refl) end.
      split; [exact HOK|]. rewrite Hc'. unfold FIN. apply advanced_bootstrap.
    + assert (Hk' : at_version (top k ms) c = true) by (rewrite Hc'; apply at_version_FIN).
      split; [left|intros Hno; rewrite Hok in Hno; discriminate].
      match goal with |- context [run_list [] o [] _ (c, ?i2)] => rewrite (txn_complete c (top k ms) rows i2 Hk' Eok Evt eq_refl eq_refl eq_refl) end.
      rewrite pending_top. destruct c as [vt ap]; simpl in Evt; subst vt. apply advanced_nil_fix.
  - (* some comparison fails: the block returns Err before any COMMIT *)
    match goal with |- good c (run_list [] o [] _ (c, ?i2)) => destruct (txn_fails c rows i2 Eok Evt eq_refl) as [A B] end.
    split; [left; exact A|intros _; exact B].
Qed.

(* ---------- the invariant ---------- *)
Definition prelude_suffix (l : list instr) : Prop :=
  l = prelude \/ l = [IAlter; IBegin; IReadMax; IReadIds] \/ l = [IBegin; IReadMax; IReadIds] \/ l = [IReadMax; IReadIds].

Definition pinv (c : dbstate) (p : pinst) : Prop :=
  p_faults p = [] /\
  match i_res (p_inst p) with
  | Some _ => i_lock (p_inst p) = Unlocked /\ i_buf (p_inst p) = None /\ (OK = false -> i_res (p_inst p) <> Some ROk)
  | None =>
      match i_buf (p_inst p) with
      | None => i_lock (p_inst p) = Unlocked /\ prelude_suffix (p_todo p)
      | Some _ => i_lock (p_inst p) <> Unlocked /\
                  (p_todo p = [IReadIds] \/ (Forall txn_instr (p_todo p) /\ terminal_last (p_todo p))) /\
                  good c (finish c p)
      end
  end.

Lemma pinv_unlocked : forall c c' q, p_lock q = Unlocked -> pinv c q -> pinv c' q.
Proof.
  intros c c' q Hl [Hf H]. split; [exact Hf|]. unfold p_lock in Hl.
  destruct (i_res (p_inst q)); [exact H|]. destruct (i_buf (p_inst q)); [|exact H].
  destruct H as [H _]. contradiction.
Qed.

Lemma settle_inv : forall c ci l b1,
  fst ci = c -> i_res (snd ci) = None -> i_buf (snd ci) = Some b1 -> i_lock (snd ci) <> Unlocked ->
  Forall txn_instr l -> terminal_last l -> good c (run_list [] o [] l ci) ->
  pinv c (settle (mkP (snd ci) l [])).
Proof.
  intros c ci l b1 Hc Hr Hb Hl Hf Ht Hfin. subst c. unfold settle; simpl. rewrite Hr.
  assert (Hkeep : pinv (fst ci) (mkP (snd ci) l [])).
  { split; [reflexivity|]. simpl. rewrite Hr, Hb. split; [exact Hl|]. split; [right; split; [exact Hf|exact Ht]|].
    rewrite finish_txn by exact Hf. rewrite <- surjective_pairing. exact Hfin. }
  destruct l as [|x l]; [exact Hkeep|]. destruct x; try exact Hkeep.
  split; [reflexivity|]. simpl. split; [reflexivity|]. split; [reflexivity|]. intros _. discriminate.
Qed.

Lemma pinv_finished : forall c i1 l r,
  i_res i1 = Some r -> i_lock i1 = Unlocked -> i_buf i1 = None -> (OK = false -> i_res i1 <> Some ROk) ->
  pinv c (settle (mkP i1 l [])).
Proof.
  intros c i1 l r H A B N. unfold settle; simpl. rewrite H. split; [reflexivity|]. simpl. rewrite H.
  split; [exact A|]. split; [exact B|]. rewrite <- H. exact N.
Qed.

Lemma pstep_inv : forall oth c p,
  reach c -> pinv c p ->
  reach (fst (pstep o ms oth c p)) /\ pinv (fst (pstep o ms oth c p)) (snd (pstep o ms oth c p)) /\
  (fst (pstep o ms oth c p) = c \/ can_exclusive oth = true).
Proof.
  intros oth c p Hc [Hf Hp]. unfold pstep. rewrite Hf.
  destruct (i_res (p_inst p)) eqn:Er.
  { simpl. split; [exact Hc|]. split; [split; [exact Hf|rewrite Er; exact Hp]|]. left; reflexivity. }
  destruct (p_todo p) as [|x r] eqn:Et.
  { simpl. split; [exact Hc|]. split; [split; [exact Hf|rewrite Er, Et; exact Hp]|]. left; reflexivity. }
  cbv zeta. simpl fst. simpl snd.
  split; [|split]; [| |apply exec_db_same_or_exclusive].
  - (* reach *)
    destruct (exec_db [] o oth x c (p_inst p)) as [H|[[_ H]|[[_ H]|[Hx H]]]].
    + rewrite H. exact Hc.
    + rewrite H. apply reach_create. exact Hc.
    + eapply reach_alter; [exact Hc|exact H].
    + (* a commit went through *)
      subst x. destruct (i_buf (p_inst p)) as [b|] eqn:Eb.
      * destruct Hp as [Hl [Hshape [Hfin _]]].
        destruct (exec_vs_solo o oth ICommit c (p_inst p) b Eb (or_introl I)) as [He|[_ [He _]]];
          [|rewrite He in H; discriminate].
        unfold finish in Hfin. rewrite Et in Hfin.
        assert (Hfin' : fst (run_list [] o [] r (exec [] o [] ICommit c (p_inst p))) = c \/
                        finp (fst (run_list [] o [] r (exec [] o [] ICommit c (p_inst p))))).
        { simpl run_list in Hfin. rewrite Er in Hfin. exact Hfin. }
        rewrite <- He in Hfin'. rewrite (run_list_finished _ _ _ _ _ _ H) in Hfin'.
        destruct Hfin' as [Hfin'|Hfin']; [rewrite Hfin'; exact Hc|right; right; right; exact Hfin'].
      * destruct Hp as [_ [Hs|[Hs|[Hs|Hs]]]]; discriminate.
  - (* the instance's own invariant *)
    destruct (i_buf (p_inst p)) as [b|] eqn:Eb.
    + destruct Hp as [Hl [Hshape Hfin]].
      destruct Hshape as [Hs|Hs].
      * (* [IReadIds] *)
        injection Hs as -> ->.
        rewrite exec_fst_readids.
        destruct (exec_vs_solo o oth IReadIds c (p_inst p) b Eb (or_intror eq_refl)) as [He|[_ [He [Hl1 Hb1]]]].
        -- rewrite He. unfold finish in Hfin. rewrite Et in Hfin. cbv zeta in Hfin.
           pose proof (exec_finished_clean [] o [] IReadIds c (p_inst p)) as Hclean.
           pose proof (exec_readids_running o c (p_inst p) b Eb) as Hrun.
           set (E := exec [] o [] IReadIds c (p_inst p)) in *.
           destruct (i_res (snd E)) eqn:Er1.
           ++ destruct (Hclean _ Er eq_refl) as [A B].
              eapply pinv_finished; [exact Er1|exact A|exact B|exact (proj2 Hfin)].
           ++ destruct (Hrun eq_refl) as [A [B C]]. cbv iota.
              eapply settle_inv; [exact A | exact Er1 | exact B | rewrite C; exact Hl | apply plan_txn_instr | apply plan_terminal_last | exact Hfin].
        -- eapply pinv_finished; [exact He|exact Hl1|exact Hb1|intros _; rewrite He; discriminate].
      * (* inside the blocks *)
        destruct Hs as [Hs Hterm].
        inversion Hs as [|? ? Hx Hr']; subst.
        assert (Hnx : (match x with IReadIds => plan o (i_ver (snd (exec [] o oth x c (p_inst p)))) (i_ids (snd (exec [] o oth x c (p_inst p)))) ms | _ => r end) = r)
          by (destruct x; simpl in Hx; try destruct Hx; reflexivity).
        rewrite Hnx. clear Hnx.
        destruct (exec_vs_solo o oth x c (p_inst p) b Eb (or_introl Hx)) as [He|[Hc1 [He [Hl1 Hb1]]]].
        -- rewrite He. unfold finish in Hfin. rewrite Et in Hfin.
           assert (Hfin' : good c (run_list [] o [] r (exec [] o [] x c (p_inst p)))).
           { destruct x; simpl in Hx; try destruct Hx; simpl run_list in Hfin; rewrite Er in Hfin; exact Hfin. }
           pose proof (exec_finished_clean [] o [] x c (p_inst p)) as Hclean.
           pose proof (exec_txn_running o x c (p_inst p) b Hx Eb Hl) as Hrun.
           set (E := exec [] o [] x c (p_inst p)) in *.
           destruct (i_res (snd E)) eqn:Er1.
           ++ destruct (Hclean _ Er eq_refl) as [A B].
              rewrite (run_list_finished _ _ _ r E _ Er1) in Hfin'.
              eapply pinv_finished; [exact Er1|exact A|exact B|exact (proj2 Hfin')].
           ++ destruct (Hrun eq_refl) as [A [[b' B] C]].
              assert (Hterm' : terminal_last r).
              { destruct (terminal_last_tail _ _ Hterm) as [[_ Htx]|Ht']; [|exact Ht'].
                exfalso. apply (terminal_finishes [] o [] x c (p_inst p) Htx). exact Er1. }
              rewrite A. eapply settle_inv; [exact A | exact Er1 | exact B | exact C | exact Hr' | exact Hterm' | exact Hfin'].
        -- rewrite Hc1. eapply pinv_finished; [exact He|exact Hl1|exact Hb1|intros _; rewrite He; discriminate].
    + (* still outside the transaction's first read *)
      destruct Hp as [Hl Hsuf].
      destruct p as [[res txn buf lk ver ids lg n] todo fl]. simpl in Hf, Er, Eb, Et, Hl. subst res buf fl lk todo.
      destruct Hsuf as [Hs|[Hs|[Hs|Hs]]]; injection Hs as -> ->.
      * (* ICreate *)
        simpl. destruct (create_is_write c); [destruct (can_autocommit_write oth)|destruct (can_shared oth)];
          unfold pinv, settle; simpl; repeat split; auto; unfold prelude_suffix; auto; try (intros _; discriminate).
      * (* IAlter *)
        simpl. destruct (sql_alter_vt c); [destruct (can_autocommit_write oth)|];
          unfold pinv, settle; simpl; repeat split; auto; unfold prelude_suffix; auto.
      * (* IBegin *)
        unfold pinv, settle; simpl; repeat split; auto; unfold prelude_suffix; auto.
      * (* IReadMax *)
        simpl p_inst.
        pose proof (exec_finished_clean [] o oth IReadMax c (mkInst None txn None Unlocked ver ids lg n)) as Hclean.
        pose proof (txn_sound c (mkInst None txn None Unlocked ver ids lg n) oth Hc eq_refl eq_refl) as Hsound.
        set (E := exec [] o oth IReadMax c (mkInst None txn None Unlocked ver ids lg n)) in *.
        destruct (i_res (snd E)) eqn:Er1.
        -- destruct (Hclean _ eq_refl eq_refl) as [A B].
           eapply pinv_finished; [exact Er1|exact A|exact B|].
           intros _ Hok. unfold E in Hok.
           apply (exec_ok_only_commit [] o oth IReadMax c (mkInst None txn None Unlocked ver ids lg n) eq_refl) in Hok. discriminate.
        -- destruct (Hsound eq_refl) as [A [B [C D]]].
           rewrite A. unfold settle; simpl. rewrite Er1. split; [reflexivity|]. simpl. rewrite Er1, B.
           split; [rewrite C; discriminate|]. split; [left; reflexivity|exact D].
Qed.

Definition Inv (s : system) : Prop := reach (s_db s) /\ forall p, In p (s_insts s) -> pinv (s_db s) p.

Lemma sys_step_inv : forall s pid, Inv s -> Inv (sys_step o ms s pid).
Proof.
  intros s pid [Hr Hall]. unfold sys_step.
  destruct (nth_error (s_insts s) pid) as [p|] eqn:En; [|split; assumption].
  destruct (pstep_inv (map p_lock (others_of pid (s_insts s))) (s_db s) p Hr (Hall p (nth_error_In' _ _ _ En))) as [R [P X]].
  split; simpl; [exact R|].
  intros q Hq. destruct (set_nth_In _ _ _ _ _ En Hq) as [->|Hoth]; [exact P|].
  pose proof (Hall q (others_of_In _ _ _ Hoth)) as Hq0.
  destruct X as [X|X]; [rewrite X; exact Hq0|].
  eapply pinv_unlocked; [|exact Hq0].
  apply (can_exclusive_all _ _ X). apply in_map. exact Hoth.
Qed.

Lemma steps_inv : forall sched s, Inv s -> Inv (steps o ms sched s).
Proof.
  induction sched as [|pid sched IH]; intros s H; [exact H|].
  unfold steps. simpl. apply IH. apply sys_step_inv. exact H.
Qed.

Lemma init_inv : forall n, Inv (init_sys n d).
Proof.
  intros n. split; [left; reflexivity|]. simpl. intros p Hp. apply repeat_spec in Hp. subst p.
  split; [reflexivity|]. simpl. split; [reflexivity|left; reflexivity].
Qed.

(* C11: whatever the schedule and the number of instances, the committed database is the original one
   (possibly with the bookkeeping table created / upgraded) or exactly the result of ONE sequential run *)
Theorem at_most_once_reach : forall n sched,
  reach (s_db (steps o ms sched (init_sys n d))).
Proof. intros n sched. apply (steps_inv sched (init_sys n d) (init_inv n)). Qed.

Theorem instances_ok_or_err : forall n sched p,
  In p (s_insts (steps o ms sched (init_sys n d))) ->
  match i_res (p_inst p) with
  | Some r => (r = ROk \/ exists e, r = RErr e) /\ i_lock (p_inst p) = Unlocked /\ i_buf (p_inst p) = None
  | None => p_todo p <> []
  end.
Proof.
  intros n sched p Hp.
  destruct (steps_inv sched (init_sys n d) (init_inv n)) as [_ Hall]. destruct (Hall p Hp) as [_ H].
  destruct (i_res (p_inst p)) as [r|].
  - split; [destruct r; [left; reflexivity|right; eexists; reflexivity]|]. destruct H as [A [B _]]. split; assumption.
  - destruct (i_buf (p_inst p)).
    + destruct H as [_ [[Hs|[_ [pre [t [Hs _]]]]] _]]; rewrite Hs; [discriminate|].
      destruct pre; discriminate.
    + destruct H as [_ [Hs|[Hs|[Hs|Hs]]]]; rewrite Hs; discriminate.
Qed.
(* when some id comparison fails on the recorded ids: nothing is ever committed, nobody returns Ok *)
Theorem conflict_commits_nothing : forall n sched, OK = false ->
  let c := s_db (steps o ms sched (init_sys n d)) in c = d \/ c = sql_create_vt d \/ c = bootstrap d.
Proof.
  intros n sched Hno c. destruct (at_most_once_reach n sched) as [H|[H|[H|[Hok _]]]]; auto.
  rewrite Hno in Hok. discriminate.
Qed.

Theorem conflict_never_ok : forall n sched p, OK = false ->
  In p (s_insts (steps o ms sched (init_sys n d))) -> i_res (p_inst p) <> Some ROk.
Proof.
  intros n sched p Hno Hp.
  destruct (steps_inv sched (init_sys n d) (init_inv n)) as [_ Hall]. destruct (Hall p Hp) as [_ H].
  destruct (i_res (p_inst p)) as [r|] eqn:E; [|discriminate].
  destruct H as [_ [_ N]]. exact (N Hno).
Qed.
End Conc.

(* ---------- the statements pinned in Properties/C11.v ---------- *)
Lemma finp_run : forall o ms k d c, ascending ms = true -> at_version k d = true ->
  finp o ms k d c -> c = fst (run [] o ms d).
Proof.
  intros o ms k d c Ha Hk [Hok ->]. destruct (run_from_k_gen o ms k d Ha Hk Hok) as [Hd _]. symmetry. exact Hd.
Qed.

Theorem at_most_once : forall o ms k d n sched,
  ascending ms = true -> versions_u32 ms = true -> at_version k d = true ->
  let c := s_db (steps o ms sched (init_sys n d)) in
  c = d \/ c = sql_create_vt d \/ c = bootstrap d \/ c = fst (run [] o ms d).
Proof.
  intros o ms k d n sched Ha Hi Hk c.
  destruct (at_most_once_reach o ms k d Ha Hi Hk n sched) as [H|[H|[H|H]]]; auto.
  right; right; right. eapply finp_run; eassumption.
Qed.

(* the same, spelled out: the statements of the pending migrations are in the committed database zero
   times or exactly once, all of them, in order, and so are their version rows *)
Theorem committed_once : forall o ms k d n sched,
  ascending ms = true -> versions_u32 ms = true -> at_version k d = true ->
  let c := s_db (steps o ms sched (init_sys n d)) in
  exists l, (l = [] \/ l = pending k ms) /\
    d_applied c = d_applied d ++ stmts_all o l /\
    recorded_versions c = recorded_versions d ++ map (fun m => Z.of_N (m_version m)) l.
Proof.
  intros o ms k d n sched Ha Hi Hk c.
  destruct (at_most_once_reach o ms k d Ha Hi Hk n sched) as [H|[H|[H|[_ H]]]]; fold c in H; rewrite H.
  - exists []. split; [left; reflexivity|]. unfold stmts_all; simpl. rewrite !app_nil_r. split; reflexivity.
  - exists []. split; [left; reflexivity|]. destruct (bookkeeping_create d) as [A B].
    unfold stmts_all; simpl. rewrite !app_nil_r. split; assumption.
  - exists []. split; [left; reflexivity|]. destruct (bookkeeping_bootstrap d) as [A B].
    unfold stmts_all; simpl. rewrite !app_nil_r. split; assumption.
  - exists (pending k ms). split; [right; reflexivity|]. unfold FIN, advanced. simpl. split; [reflexivity|].
    unfold recorded_versions, db_rows at 1; simpl. rewrite map_app.
    destruct (bookkeeping_bootstrap d) as [_ B]. unfold recorded_versions in B. rewrite B.
    f_equal. unfold rows_of. rewrite map_map. reflexivity.
Qed.

Theorem each_instance_ok_or_err : forall o ms k d n sched p,
  ascending ms = true -> versions_u32 ms = true -> at_version k d = true ->
  In p (s_insts (steps o ms sched (init_sys n d))) ->
  match i_res (p_inst p) with
  | Some r => (r = ROk \/ exists e, r = RErr e) /\ i_lock (p_inst p) = Unlocked /\ i_buf (p_inst p) = None
  | None => p_todo p <> []
  end.
Proof. intros o ms k d n sched p Ha Hi Hk. exact (instances_ok_or_err o ms k d Ha Hi Hk n sched p). Qed.

(* a recorded id that conflicts with a compiled one: whatever the schedule, nothing is committed and no
   instance returns Ok *)
Theorem conflict_blocks_everyone : forall o ms k d n sched,
  ascending ms = true -> versions_u32 ms = true -> at_version k d = true -> ids_ok ms d = false ->
  let s := steps o ms sched (init_sys n d) in
  (s_db s = d \/ s_db s = sql_create_vt d \/ s_db s = bootstrap d) /\
  forall p, In p (s_insts s) -> i_res (p_inst p) <> Some ROk.
Proof.
  intros o ms k d n sched Ha Hi Hk Hno s. split.
  - exact (conflict_commits_nothing o ms k d Ha Hi Hk n sched Hno).
  - intros p Hp. exact (conflict_never_ok o ms k d Ha Hi Hk n sched p Hno Hp).
Qed.

Lemma run_from_reach : forall o ms k d c,
  ascending ms = true -> versions_u32 ms = true -> at_version k d = true ->
  reach o ms k d c -> fst (run [] o ms c) = fst (run [] o ms d).
Proof.
  intros o ms k d c Ha Hi Hk Hc.
  destruct (ids_ok ms d) eqn:Eok.
  - destruct (run_from_k_gen o ms k d Ha Hk Eok) as [Hd _].
    destruct Hc as [ -> | [ -> | [ -> | [_ ->] ]]].
    + reflexivity.
    + assert (E : ids_ok ms (sql_create_vt d) = true) by (rewrite ids_ok_create; exact Eok).
      destruct (run_from_k_gen o ms k _ Ha (at_version_create _ _ Hk) E) as [H1 _]. rewrite H1, Hd. apply advanced_create.
    + assert (E : ids_ok ms (bootstrap d) = true) by (rewrite ids_ok_bootstrap; exact Eok).
      destruct (run_from_k_gen o ms k _ Ha (at_version_bootstrap _ _ Hk) E) as [H1 _]. rewrite H1, Hd. apply advanced_bootstrap.
    + (* already complete: whatever the comparisons say on the new rows, nothing changes *)
      rewrite Hd. unfold FIN.
      pose proof (at_version_advanced o ms k d Hk Hi) as Hat'.
      destruct (ids_ok ms (advanced o (pending k ms) d)) eqn:E2.
      * destruct (run_from_k_gen o ms _ _ Ha Hat' E2) as [H1 _]. rewrite H1, pending_top.
        unfold advanced at 2. apply advanced_nil_fix.
      * destruct (run_ids_not_ok o ms _ E2) as [H1 _]. rewrite H1. reflexivity.
  - destruct (run_ids_not_ok o ms d Eok) as [Hd _]. rewrite Hd.
    destruct Hc as [ -> | [ -> | [ -> | [Hok _] ]]].
    + exact Hd.
    + assert (E : ids_ok ms (sql_create_vt d) = false) by (rewrite ids_ok_create; exact Eok).
      destruct (run_ids_not_ok o ms _ E) as [H1 _]. rewrite H1. apply bootstrap_create.
    + assert (E : ids_ok ms (bootstrap d) = false) by (rewrite ids_ok_bootstrap; exact Eok).
      destruct (run_ids_not_ok o ms _ E) as [H1 _]. rewrite H1. apply bootstrap_idem.
    + unfold OK in Hok. rewrite Eok in Hok. discriminate.
Qed.

(* once everybody has finished, any number (>= 1) of sequential re-runs ends in the sequential result *)
Theorem retry_converges : forall o ms k d n sched retries,
  ascending ms = true -> versions_u32 ms = true -> at_version k d = true ->
  all_finished (steps o ms sched (init_sys n d)) = true ->
  Nat.iter (S retries) (fun c => fst (run [] o ms c)) (s_db (steps o ms sched (init_sys n d))) = fst (run [] o ms d).
Proof.
  intros o ms k d n sched retries Ha Hi Hk _.
  assert (Hfin : reach o ms k d (fst (run [] o ms d))).
  { destruct (ids_ok ms d) eqn:Eok.
    - destruct (run_from_k_gen o ms k d Ha Hk Eok) as [Hd _]. rewrite Hd. right; right; right. split; [exact Eok|reflexivity].
    - destruct (run_ids_not_ok o ms d Eok) as [Hd _]. rewrite Hd. right; right; left. reflexivity. }
  induction retries as [|r IH].
  - simpl. apply (run_from_reach o ms k d _ Ha Hi Hk). exact (at_most_once_reach o ms k d Ha Hi Hk n sched).
  - change (Nat.iter (S (S r)) (fun c => fst (run [] o ms c)) (s_db (steps o ms sched (init_sys n d))))
      with (fst (run [] o ms (Nat.iter (S r) (fun c => fst (run [] o ms c)) (s_db (steps o ms sched (init_sys n d)))))).
    rewrite IH. apply (run_from_reach o ms k d _ Ha Hi Hk). exact Hfin.
Qed.
