(* Layer mig — proofs for C09 / C10: one instance alone on its connection ([run]). *)
From VV.MIG Require Import Spec Basics.
From Coq Require Import Lia.

(* ---------- reading the version table ---------- *)
Lemma max_version_spec : forall rows m, max_version rows = Some m ->
  (exists id, In (m, id) rows) /\ forall r, In r rows -> (fst r <= m)%Z.
Proof.
  induction rows as [|[w j] rows IH]; simpl; intros m H; [discriminate|].
  destruct (max_version rows) as [m'|] eqn:E.
  - injection H as <-. destruct (IH m' eq_refl) as [[id Hid] Hle].
    split.
    + destruct (Z.max_spec w m') as [[_ ->]|[_ ->]]; [exists id; right; exact Hid | exists j; left; reflexivity].
    + intros r [<-|Hr]; simpl; [lia|]. specialize (Hle r Hr). lia.
  - injection H as <-. split; [exists j; left; reflexivity|].
    intros r [<-|Hr]; simpl; [lia|]. destruct rows as [|[a b] rows]; [destruct Hr|].
    simpl in E. destruct (max_version rows); discriminate.
Qed.

Lemma max_version_none : forall rows, max_version rows = None -> rows = [].
Proof. destruct rows as [|[w j] rows]; simpl; [reflexivity|]. destruct (max_version rows); discriminate. Qed.

Lemma rows_within_In : forall k rows r, rows_within k rows = true -> In r rows -> (0 <= fst r <= Z.of_N k)%Z.
Proof.
  intros k rows r H Hr. unfold rows_within in H. rewrite forallb_forall in H. specialize (H r Hr).
  apply andb_true_iff in H. destruct H as [H1 H2]. apply Z.leb_le in H1, H2. lia.
Qed.

Lemma as_i32_small : forall z, (0 <= z < 2147483648)%Z -> as_i32 z = Some z.
Proof.
  intros z H. unfold as_i32.
  destruct (Z.leb_spec (-2147483648) z); [|lia]. destruct (Z.ltb_spec z 2147483648); [|lia]. reflexivity.
Qed.
Lemma as_i32_some : forall z w, as_i32 z = Some w -> w = z /\ (-2147483648 <= z < 2147483648)%Z.
Proof.
  intros z w. unfold as_i32.
  destruct (Z.leb_spec (-2147483648) z); simpl; [|discriminate].
  destruct (Z.ltb_spec z 2147483648); [|discriminate]. intros Hs. injection Hs as <-. split; [reflexivity|lia].
Qed.
Lemma i32_as_u32_small : forall z, (0 <= z < 2147483648)%Z -> i32_as_u32 z = Z.to_N z.
Proof. intros z H. unfold i32_as_u32. rewrite Z.mod_small by lia. reflexivity. Qed.

Lemma decode_max_at : forall k rows,
  N.ltb k 2147483648 = true -> rows_within k rows = true ->
  (N.eqb k 0 || has_version (Z.of_N k) rows)%bool = true ->
  decode_version (max_version rows) = k.
Proof.
  intros k rows Hk Hw Hh. apply N.ltb_lt in Hk.
  destruct (max_version rows) as [m|] eqn:E.
  - destruct (max_version_spec _ _ E) as [[id Hid] Hle].
    pose proof (rows_within_In _ _ _ Hw Hid) as Hm. simpl in Hm.
    assert (m = Z.of_N k) as ->.
    { apply orb_true_iff in Hh. destruct Hh as [H0|Hh].
      - apply N.eqb_eq in H0. subst k. simpl in Hm. lia.
      - destruct (has_version_In _ _ Hh) as [id' Hin]. specialize (Hle _ Hin). simpl in Hle. lia. }
    unfold decode_version. rewrite as_i32_small by lia. rewrite i32_as_u32_small by lia. apply N2Z.id.
  - apply max_version_none in E. subst rows. simpl in Hh. rewrite orb_false_r in Hh. apply N.eqb_eq in Hh. subst. reflexivity.
Qed.

Lemma ids_get_fold : forall rows acc v x,
  ids_get v (fold_left (fun acc r => match as_i32 (fst r) with Some w => (i32_as_u32 w, snd r) :: acc | None => acc end) rows acc) = Some x ->
  ids_get v acc = Some x \/ exists r w, In r rows /\ as_i32 (fst r) = Some w /\ i32_as_u32 w = v.
Proof.
  induction rows as [|a rows IH]; intros acc v x H; simpl in H; [left; exact H|].
  destruct (IH _ _ _ H) as [H1|[r [w [Hr [Ha Hu]]]]].
  - destruct (as_i32 (fst a)) as [w|] eqn:E; [|left; exact H1].
    simpl in H1. destruct (N.eqb_spec v (i32_as_u32 w)).
    + right. exists a, w. split; [left; reflexivity|]. split; [exact E|symmetry; assumption].
    + left. exact H1.
  - right. exists r, w. split; [right; exact Hr|]. split; assumption.
Qed.

Lemma ids_get_decode : forall rows v x, ids_get v (decode_ids rows) = Some x ->
  exists r w, In r rows /\ as_i32 (fst r) = Some w /\ i32_as_u32 w = v.
Proof. intros rows v x H. destruct (ids_get_fold _ _ _ _ H) as [H1|H1]; [discriminate|exact H1]. Qed.

Lemma id_check_none_at : forall k rows m,
  rows_within k rows = true -> N.ltb k (m_version m) = true -> id_check (decode_ids rows) m = None.
Proof.
  intros k rows m Hw Hlt. unfold id_check.
  destruct (ids_get (m_version m) (decode_ids rows)) as [x|] eqn:E; [|reflexivity].
  exfalso. destruct (ids_get_decode _ _ _ E) as [r [w [Hr [Ha Hu]]]].
  destruct (as_i32_some _ _ Ha) as [-> Hrange].
  pose proof (rows_within_In _ _ _ Hw Hr) as Hb.
  rewrite i32_as_u32_small in Hu by lia. apply N.ltb_lt in Hlt. lia.
Qed.

(* ---------- the two statements outside the transaction ---------- *)
Lemma bootstrap_shape : forall d, exists rows,
  bootstrap d = mkDb (Some (mkVt true rows)) (d_applied d) /\ map fst rows = map fst (db_rows d).
Proof.
  intros [[[[] rows]|] ap]; unfold bootstrap, db_rows; simpl.
  - exists rows. split; reflexivity.
  - exists (map (fun r => (fst r, "")) rows). split; [reflexivity|]. rewrite map_map. reflexivity.
  - exists []. split; reflexivity.
Qed.

Lemma rows_within_map_fst : forall k r1 r2, map fst r1 = map fst r2 -> rows_within k r1 = rows_within k r2.
Proof.
  intros k r1. induction r1 as [|a r1 IH]; intros [|b r2] H; simpl in *; try discriminate; [reflexivity|].
  injection H as H1 H2. rewrite H1, (IH _ H2). reflexivity.
Qed.
Lemma has_version_map_fst : forall v r1 r2, map fst r1 = map fst r2 -> has_version v r1 = has_version v r2.
Proof.
  intros v r1. induction r1 as [|[a x] r1 IH]; intros [|[b y] r2] H; simpl in *; try discriminate; [reflexivity|].
  injection H as H1 H2. subst. rewrite (IH _ H2). reflexivity.
Qed.
Lemma max_version_map_fst : forall r1 r2, map fst r1 = map fst r2 -> max_version r1 = max_version r2.
Proof.
  induction r1 as [|[a x] r1 IH]; intros [|[b y] r2] H; simpl in *; try discriminate; [reflexivity|].
  injection H as H1 H2. subst. rewrite (IH _ H2). reflexivity.
Qed.

Lemma at_version_parts : forall k d, at_version k d = true ->
  N.ltb k 2147483648 = true /\ rows_within k (db_rows d) = true /\
  (N.eqb k 0 || has_version (Z.of_N k) (db_rows d))%bool = true.
Proof.
  intros k d H. unfold at_version in H. apply andb_true_iff in H. destruct H as [H H3].
  apply andb_true_iff in H. destruct H as [H1 H2]. auto.
Qed.

Lemma at_version_bootstrap : forall k d, at_version k d = true -> at_version k (bootstrap d) = true.
Proof.
  intros k d H. destruct (at_version_parts _ _ H) as [H1 [H2 H3]].
  destruct (bootstrap_shape d) as [rows [Hb Hm]]. unfold at_version. rewrite Hb. unfold db_rows at 1 2; simpl.
  rewrite (rows_within_map_fst k _ _ Hm), (has_version_map_fst _ _ _ Hm), H1, H2, H3. reflexivity.
Qed.
Lemma at_version_create : forall k d, at_version k d = true -> at_version k (sql_create_vt d) = true.
Proof. intros k [[t|] ap] H; [exact H|]. unfold at_version in *. simpl in *. exact H. Qed.

Lemma bootstrap_create : forall d, bootstrap (sql_create_vt d) = bootstrap d.
Proof. intros [[[[] rows]|] ap]; reflexivity. Qed.
Lemma bootstrap_idem : forall d, bootstrap (bootstrap d) = bootstrap d.
Proof. intros [[[[] rows]|] ap]; reflexivity. Qed.

(* the prelude, no faults, alone *)
Lemma prelude_ok : forall o k d, at_version k d = true ->
  exists rows,
    bootstrap d = mkDb (Some (mkVt true rows)) (d_applied d) /\ rows_within k rows = true /\
    run_list [] o [] prelude (d, inst0) =
    (bootstrap d, mkInst None true (Some (bootstrap d)) Shared k (decode_ids rows) (prelude_log o d) 5).
Proof.
  intros o k d H. destruct (at_version_parts _ _ H) as [H1 [H2 H3]].
  destruct (bootstrap_shape d) as [rows [Hb Hm]].
  exists rows. split; [exact Hb|]. split; [rewrite (rows_within_map_fst k _ _ Hm); exact H2|].
  assert (Hdec : decode_version (max_version rows) = k).
  { apply decode_max_at; [exact H1 | rewrite (rows_within_map_fst k _ _ Hm); exact H2
                          | rewrite (has_version_map_fst _ _ _ Hm); exact H3]. }
  destruct d as [[[[] rows0]|] ap]; unfold bootstrap in *; simpl in Hb; injection Hb as Hb; subst rows;
    unfold prelude_log, is_legacy; simpl; first [rewrite Hdec; reflexivity | simpl in Hdec; rewrite <- Hdec; reflexivity].
Qed.

(* ---------- the blocks ---------- *)
Lemma ascending_tail : forall m r, ascending (m :: r) = true -> ascending r = true.
Proof. intros m [|m' r] H; [reflexivity|]. simpl in H. apply andb_true_iff in H. apply H. Qed.
Lemma ascending_head_lt : forall m r m', ascending (m :: r) = true -> In m' r -> (m_version m < m_version m')%N.
Proof.
  intros m r. revert m. induction r as [|a r IH]; intros m m' H Hin; [destruct Hin|].
  simpl in H. apply andb_true_iff in H. destruct H as [H1 H2]. apply N.ltb_lt in H1.
  destruct Hin as [<-|Hin]; [exact H1|]. specialize (IH a m' H2 Hin). lia.
Qed.

Definition block_evs (o : opts) (l : list mig) : list ev :=
  map (fun s => ETxnExec s true) (List.concat (map (block_sqls o) l)).

Lemma plan_run : forall o ver ids ms b rows i c,
  ascending ms = true ->
  (forall m, In m ms -> N.ltb ver (m_version m) = true -> id_check ids m = None) ->
  (forall m r, In m ms -> N.ltb ver (m_version m) = true -> In r rows -> (fst r < Z.of_N (m_version m))%Z) ->
  i_res i = None -> i_buf i = Some b -> d_vt b = Some (mkVt true rows) ->
  exists n,
  run_list [] o [] (plan o ver ids ms) (c, i) =
  ( if (lock_leb Reserved (i_lock i) || negb (match pending ver ms with [] => true | _ => false end))%bool
    then mkDb (Some (mkVt true (rows ++ rows_of (pending ver ms)))) (d_applied b ++ stmts_all o (pending ver ms))
    else c,
    mkInst (Some ROk) false None Unlocked (i_ver i) (i_ids i)
           (i_log i ++ block_evs o (pending ver ms) ++ [ECommit true]) n ).
Proof.
  intros o ver ids ms. induction ms as [|m ms IH]; intros b rows i c Hasc Hid Hlt Hr Hb Hvt.
  - simpl. rewrite Hr. unfold block_evs; simpl.
    rewrite orb_false_r. destruct (lock_leb Reserved (i_lock i)).
    + simpl. eexists. f_equal. unfold view. rewrite Hb. destruct b as [vt ap]; simpl in *. subst vt.
      rewrite !app_nil_r. reflexivity.
    + eexists. reflexivity.
  - simpl plan. unfold pending; simpl filter. fold (pending ver ms).
    destruct (N.ltb ver (m_version m)) eqn:Ever.
    + rewrite (Hid m (or_introl eq_refl) Ever).
      rewrite run_list_app. rewrite (exec_stmts o _ c i b Hr Hb).
      rewrite run_list_cons_running by exact Hr.
      erewrite exec_IInsert_ok; [ | reflexivity | simpl; exact Hvt | intros r Hin; apply (Hlt m r (or_introl eq_refl) Ever Hin) ].
      match goal with |- context [run_list _ _ _ _ (c, ?i')] => set (i1 := i') end.
      destruct (IH (mkDb (Some (mkVt true (rows ++ [(Z.of_N (m_version m), m_id m)]))) (d_applied b ++ stmts_of o m))
                   (rows ++ [(Z.of_N (m_version m), m_id m)]) i1 c) as [n Hn].
      * eapply ascending_tail; exact Hasc.
      * intros m' Hin Hv. apply Hid; [right; exact Hin | exact Hv].
      * intros m' r Hin Hv Hr'. apply in_app_or in Hr'. destruct Hr' as [Hr'|[<-|[]]].
        -- apply (Hlt m' r); [right; exact Hin | exact Hv | exact Hr'].
        -- simpl. pose proof (ascending_head_lt _ _ _ Hasc Hin). lia.
      * reflexivity.
      * reflexivity.
      * reflexivity.
      * exists n. rewrite Hn. subst i1. unfold with_exec; simpl.
        replace (lock_leb Reserved (up (lock_after (stmts_of o m) (i_lock i)))) with true by (symmetry; apply up_reserved).
        rewrite orb_true_r. simpl. f_equal.
        -- f_equal.
           ++ f_equal. f_equal. rewrite <- app_assoc. reflexivity.
           ++ unfold stmts_all; simpl. rewrite <- app_assoc. reflexivity.
        -- f_equal. unfold block_evs, block_sqls; simpl.
           rewrite !map_app. simpl. rewrite <- !app_assoc. simpl. reflexivity.
    + apply IH; auto.
      * eapply ascending_tail; exact Hasc.
      * intros m' Hin Hv. apply Hid; [right; exact Hin | exact Hv].
      * intros m' r Hin Hv Hr'. apply (Hlt m' r); [right; exact Hin | exact Hv | exact Hr'].
Qed.

(* ---------- C09 ---------- *)
Lemma pending_lt : forall k ms m, In m (pending k ms) -> In m ms /\ N.ltb k (m_version m) = true.
Proof. intros k ms m H. unfold pending in H. apply filter_In in H. exact H. Qed.

Theorem run_from_k : forall o ms k d,
  ascending ms = true -> at_version k d = true ->
  fst (run [] o ms d) = advanced o (pending k ms) d /\
  i_res (snd (run [] o ms d)) = Some ROk /\
  i_log (snd (run [] o ms d)) = prelude_log o d ++ block_evs o (pending k ms) ++ [ECommit true].
Proof.
  intros o ms k d Hasc Hat. unfold run, run_from.
  destruct (prelude_ok o k d Hat) as [rows [Hb [Hw Hp]]]. rewrite Hp. simpl snd. cbv beta iota.
  simpl i_res. cbv iota. simpl i_ver. simpl i_ids.
  destruct (plan_run o k (decode_ids rows) ms (bootstrap d) rows
              (mkInst None true (Some (bootstrap d)) Shared k (decode_ids rows) (prelude_log o d) 5) (bootstrap d)) as [n Hn].
  - exact Hasc.
  - intros m _ Hv. eapply id_check_none_at; eauto.
  - intros m r _ Hv Hr. pose proof (rows_within_In _ _ _ Hw Hr). apply N.ltb_lt in Hv. lia.
  - reflexivity.
  - reflexivity.
  - rewrite Hb. reflexivity.
  - rewrite Hn. simpl. split; [|split; reflexivity].
    unfold advanced. rewrite Hb. unfold db_rows; simpl.
    destruct (pending k ms); simpl; [|reflexivity].
    unfold stmts_all; simpl. rewrite !app_nil_r. reflexivity.
Qed.
