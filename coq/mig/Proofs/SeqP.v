(* Layer mig — proofs for C09 / C10: one instance alone on its connection ([run]). *)
From VV.MIG Require Import Spec Basics.
From Coq Require Import Lia.

(* ---------- reading the version table ---------- *)
Lemma max_version_spec : forall rows m, max_version rows = Some m ->
  (exists id, In (m, id) rows) /\ forall r, In r rows -> (fst r <= m)%Z.
Proof.
  induction rows as [|[w j] rows IH]; simpl; intros m H; [discriminate|].
  destruct (max_version rows) as [m'|] eqn:E.
  - injection H as <-. destruct (IH m' eq_refl) as [[id Hid] Hle].
    split.
    + destruct (Z.max_spec w m') as [[_ ->]|[_ ->]]; [exists id; right; exact Hid | exists j; left; reflexivity].
    + intros r [<-|Hr]; simpl; [lia|]. specialize (Hle r Hr). lia.
  - injection H as <-. split; [exists j; left; reflexivity|].
    intros r [<-|Hr]; simpl; [lia|]. destruct rows as [|[a b] rows]; [destruct Hr|].
    simpl in E. destruct (max_version rows); discriminate.
Qed.

Lemma max_version_none : forall rows, max_version rows = None -> rows = [].
Proof. destruct rows as [|[w j] rows]; simpl; [reflexivity|]. destruct (max_version rows); discriminate. Qed.

Lemma rows_within_In : forall k rows r, rows_within k rows = true -> In r rows -> (0 <= fst r <= Z.of_N k)%Z.
Proof.
  intros k rows r H Hr. unfold rows_within in H. rewrite forallb_forall in H. specialize (H r Hr).
  apply andb_true_iff in H. destruct H as [H1 H2]. apply Z.leb_le in H1, H2. lia.
Qed.

Lemma i64_as_u32_small : forall z, (0 <= z < 4294967296)%Z -> i64_as_u32 z = Z.to_N z.
Proof. intros z H. unfold i64_as_u32. rewrite Z.mod_small by lia. reflexivity. Qed.

Lemma decode_max_at : forall k rows,
  N.ltb k 4294967296 = true -> rows_within k rows = true ->
  (N.eqb k 0 || has_version (Z.of_N k) rows)%bool = true ->
  decode_version (max_version rows) = k.
Proof.
  intros k rows Hk Hw Hh. apply N.ltb_lt in Hk.
  destruct (max_version rows) as [m|] eqn:E.
  - destruct (max_version_spec _ _ E) as [[id Hid] Hle].
    pose proof (rows_within_In _ _ _ Hw Hid) as Hm. simpl in Hm.
    assert (m = Z.of_N k) as ->.
    { apply orb_true_iff in Hh. destruct Hh as [H0|Hh].
      - apply N.eqb_eq in H0. subst k. simpl in Hm. lia.
      - destruct (has_version_In _ _ Hh) as [id' Hin]. specialize (Hle _ Hin). simpl in Hle. lia. }
    unfold decode_version. rewrite i64_as_u32_small by lia. apply N2Z.id.
  - apply max_version_none in E. subst rows. simpl in Hh. rewrite orb_false_r in Hh. apply N.eqb_eq in Hh. subst. reflexivity.
Qed.

Lemma ids_get_fold : forall rows acc v x,
  ids_get v (fold_left (fun acc r => (i64_as_u32 (fst r), snd r) :: acc) rows acc) = Some x ->
  ids_get v acc = Some x \/ exists r, In r rows /\ i64_as_u32 (fst r) = v /\ snd r = x.
Proof.
  induction rows as [|a rows IH]; intros acc v x H; simpl in H; [left; exact H|].
  destruct (IH _ _ _ H) as [H1|[r [Hr [Hu Hx]]]].
  - simpl in H1. destruct (N.eqb_spec v (i64_as_u32 (fst a))).
    + right. exists a. injection H1 as <-. split; [left; reflexivity|]. split; [symmetry; assumption|reflexivity].
    + left. exact H1.
  - right. exists r. split; [right; exact Hr|]. split; assumption.
Qed.

Lemma ids_get_decode : forall rows v x, ids_get v (decode_ids rows) = Some x ->
  exists r, In r rows /\ i64_as_u32 (fst r) = v /\ snd r = x.
Proof. intros rows v x H. destruct (ids_get_fold _ _ _ _ H) as [H1|H1]; [discriminate|exact H1]. Qed.

(* lookups that find nothing newer than k *)
Lemma id_check_none_at : forall k rows m,
  N.ltb k 4294967296 = true -> rows_within k rows = true -> N.ltb k (m_version m) = true ->
  id_check (decode_ids rows) m = None.
Proof.
  intros k rows m Hk Hw Hlt. unfold id_check.
  destruct (ids_get (m_version m) (decode_ids rows)) as [x|] eqn:E; [|reflexivity].
  exfalso. destruct (ids_get_decode _ _ _ E) as [r [Hr [Hu _]]].
  pose proof (rows_within_In _ _ _ Hw Hr) as Hb. apply N.ltb_lt in Hk, Hlt.
  rewrite i64_as_u32_small in Hu by lia. lia.
Qed.

(* recorded ids that agree with the compiled ones never trip the comparison *)
Lemma conflict_free : forall ms d m r,
  id_conflict ms d = false -> In m ms -> In r (db_rows (bootstrap d)) -> conflicts m r = false.
Proof.
  intros ms d m r H Hm Hr. unfold id_conflict in H.
  destruct (conflicts m r) eqn:E; [|reflexivity]. exfalso.
  assert (Ht : existsb (fun m => existsb (conflicts m) (db_rows (bootstrap d))) ms = true).
  { apply existsb_exists. exists m. split; [exact Hm|]. apply existsb_exists. exists r. split; assumption. }
  rewrite Ht in H. discriminate.
Qed.

Lemma id_check_none_free : forall k rows m,
  N.ltb k 4294967296 = true -> rows_within k rows = true ->
  (forall r, In r rows -> conflicts m r = false) -> id_check (decode_ids rows) m = None.
Proof.
  intros k rows m Hk Hw Hfree. unfold id_check.
  destruct (ids_get (m_version m) (decode_ids rows)) as [x|] eqn:E; [|reflexivity].
  destruct (ids_get_decode _ _ _ E) as [r [Hr [Hu Hx]]].
  pose proof (rows_within_In _ _ _ Hw Hr) as Hb. apply N.ltb_lt in Hk.
  rewrite i64_as_u32_small in Hu by lia.
  specialize (Hfree r Hr). unfold conflicts in Hfree. subst x.
  assert (Hv : Z.eqb (fst r) (Z.of_N (m_version m)) = true) by (apply Z.eqb_eq; lia).
  rewrite Hv in Hfree. simpl in Hfree. rewrite Hfree. reflexivity.
Qed.

(* ---------- the two statements outside the transaction ---------- *)
Lemma bootstrap_shape : forall d, exists rows,
  bootstrap d = mkDb (Some (mkVt true rows)) (d_applied d) /\ map fst rows = map fst (db_rows d).
Proof.
  intros [[[[] rows]|] ap]; unfold bootstrap, db_rows; simpl.
  - exists rows. split; reflexivity.
  - exists (map (fun r => (fst r, "")) rows). split; [reflexivity|]. rewrite map_map. reflexivity.
  - exists []. split; reflexivity.
Qed.

Lemma rows_within_map_fst : forall k r1 r2, map fst r1 = map fst r2 -> rows_within k r1 = rows_within k r2.
Proof.
  intros k r1. induction r1 as [|a r1 IH]; intros [|b r2] H; simpl in *; try discriminate; [reflexivity|].
  injection H as H1 H2. rewrite H1, (IH _ H2). reflexivity.
Qed.
Lemma has_version_map_fst : forall v r1 r2, map fst r1 = map fst r2 -> has_version v r1 = has_version v r2.
Proof.
  intros v r1. induction r1 as [|[a x] r1 IH]; intros [|[b y] r2] H; simpl in *; try discriminate; [reflexivity|].
  injection H as H1 H2. subst. rewrite (IH _ H2). reflexivity.
Qed.
Lemma max_version_map_fst : forall r1 r2, map fst r1 = map fst r2 -> max_version r1 = max_version r2.
Proof.
  induction r1 as [|[a x] r1 IH]; intros [|[b y] r2] H; simpl in *; try discriminate; [reflexivity|].
  injection H as H1 H2. subst. rewrite (IH _ H2). reflexivity.
Qed.

Lemma at_version_parts : forall k d, at_version k d = true ->
  N.ltb k 4294967296 = true /\ rows_within k (db_rows d) = true /\
  (N.eqb k 0 || has_version (Z.of_N k) (db_rows d))%bool = true.
Proof.
  intros k d H. unfold at_version in H. apply andb_true_iff in H. destruct H as [H H3].
  apply andb_true_iff in H. destruct H as [H1 H2]. auto.
Qed.

Lemma at_version_bootstrap : forall k d, at_version k d = true -> at_version k (bootstrap d) = true.
Proof.
  intros k d H. destruct (at_version_parts _ _ H) as [H1 [H2 H3]].
  destruct (bootstrap_shape d) as [rows [Hb Hm]]. unfold at_version. rewrite Hb. unfold db_rows at 1 2; simpl.
  rewrite (rows_within_map_fst k _ _ Hm), (has_version_map_fst _ _ _ Hm), H1, H2, H3. reflexivity.
Qed.
Lemma at_version_create : forall k d, at_version k d = true -> at_version k (sql_create_vt d) = true.
Proof. intros k [[t|] ap] H; [exact H|]. unfold at_version in *. simpl in *. exact H. Qed.

Lemma has_id_bootstrap_fix0 : forall c rows, d_vt c = Some (mkVt true rows) -> bootstrap c = c.
Proof. intros [[[[] r]|] ap] rows H; simpl in H; try discriminate. reflexivity. Qed.
Lemma bootstrap_create : forall d, bootstrap (sql_create_vt d) = bootstrap d.
Proof. intros [[[[] rows]|] ap]; reflexivity. Qed.
Lemma bootstrap_idem : forall d, bootstrap (bootstrap d) = bootstrap d.
Proof. intros [[[[] rows]|] ap]; reflexivity. Qed.

(* the prelude, no faults, alone *)
Lemma prelude_ok : forall o k d, at_version k d = true ->
  exists rows,
    bootstrap d = mkDb (Some (mkVt true rows)) (d_applied d) /\ rows_within k rows = true /\
    run_list [] o [] prelude (d, inst0) =
    (bootstrap d, mkInst None true (Some (bootstrap d)) Shared k (decode_ids rows) (prelude_log o d) 5).
Proof.
  intros o k d H. destruct (at_version_parts _ _ H) as [H1 [H2 H3]].
  destruct (bootstrap_shape d) as [rows [Hb Hm]].
  exists rows. split; [exact Hb|]. split; [rewrite (rows_within_map_fst k _ _ Hm); exact H2|].
  assert (Hdec : decode_version (max_version rows) = k).
  { apply decode_max_at; [exact H1 | rewrite (rows_within_map_fst k _ _ Hm); exact H2
                          | rewrite (has_version_map_fst _ _ _ Hm); exact H3]. }
  destruct d as [[[[] rows0]|] ap]; unfold bootstrap in *; simpl in Hb; injection Hb as Hb; subst rows;
    unfold prelude_log, is_legacy; simpl; first [rewrite Hdec; reflexivity | simpl in Hdec; rewrite <- Hdec; reflexivity].
Qed.

(* ---------- the blocks ---------- *)
Lemma ascending_tail : forall m r, ascending (m :: r) = true -> ascending r = true.
Proof. intros m [|m' r] H; [reflexivity|]. simpl in H. apply andb_true_iff in H. apply H. Qed.
Lemma ascending_head_lt : forall m r m', ascending (m :: r) = true -> In m' r -> (m_version m < m_version m')%N.
Proof.
  intros m r. revert m. induction r as [|a r IH]; intros m m' H Hin; [destruct Hin|].
  simpl in H. apply andb_true_iff in H. destruct H as [H1 H2]. apply N.ltb_lt in H1.
  destruct Hin as [<-|Hin]; [exact H1|]. specialize (IH a m' H2 Hin). lia.
Qed.

Definition block_evs (o : opts) (l : list mig) : list ev :=
  map (fun s => ETxnExec s true) (List.concat (map (block_sqls o) l)).

Lemma plan_run : forall o ver ids ms b rows i c,
  ascending ms = true ->
  (forall m, In m ms -> id_check ids m = None) ->
  (forall m r, In m ms -> N.ltb ver (m_version m) = true -> In r rows -> (fst r < Z.of_N (m_version m))%Z) ->
  i_res i = None -> i_buf i = Some b -> d_vt b = Some (mkVt true rows) ->
  exists n,
  run_list [] o [] (plan o ver ids ms) (c, i) =
  ( if (lock_leb Reserved (i_lock i) || negb (match pending ver ms with [] => true | _ => false end))%bool
    then mkDb (Some (mkVt true (rows ++ rows_of (pending ver ms)))) (d_applied b ++ stmts_all o (pending ver ms))
    else c,
    mkInst (Some ROk) false None Unlocked (i_ver i) (i_ids i)
           (i_log i ++ block_evs o (pending ver ms) ++ [ECommit true]) n ).
Proof.
  intros o ver ids ms. induction ms as [|m ms IH]; intros b rows i c Hasc Hid Hlt Hr Hb Hvt.
  - simpl. rewrite Hr. unfold block_evs; simpl.
    rewrite orb_false_r. destruct (lock_leb Reserved (i_lock i)).
    + simpl. eexists. f_equal. unfold view. rewrite Hb. destruct b as [vt ap]; simpl in *. subst vt.
      rewrite !app_nil_r. reflexivity.
    + eexists. reflexivity.
  - simpl plan. unfold pending; simpl filter. fold (pending ver ms).
    rewrite (Hid m (or_introl eq_refl)).
    destruct (N.ltb ver (m_version m)) eqn:Ever.
    + rewrite run_list_app. rewrite (exec_stmts o _ c i b Hr Hb).
      rewrite run_list_cons_running by exact Hr.
      erewrite exec_IInsert_ok; [ | reflexivity | simpl; exact Hvt | intros r Hin; apply (Hlt m r (or_introl eq_refl) Ever Hin) ].
      match goal with |- context [run_list _ _ _ _ (c, ?i')] => set (i1 := i') end.
      destruct (IH (mkDb (Some (mkVt true (rows ++ [(Z.of_N (m_version m), m_id m)]))) (d_applied b ++ stmts_of o m))
                   (rows ++ [(Z.of_N (m_version m), m_id m)]) i1 c) as [n Hn].
      * eapply ascending_tail; exact Hasc.
      * intros m' Hin. apply Hid. right. exact Hin.
      * intros m' r Hin Hv Hr'. apply in_app_or in Hr'. destruct Hr' as [Hr'|[<-|[]]].
        -- apply (Hlt m' r); [right; exact Hin | exact Hv | exact Hr'].
        -- simpl. pose proof (ascending_head_lt _ _ _ Hasc Hin). lia.
      * subst i1. simpl. exact Hr.
      * reflexivity.
      * reflexivity.
      * exists n. rewrite Hn. subst i1. unfold with_exec; simpl.
        replace (lock_leb Reserved (up (lock_after (stmts_of o m) (i_lock i)))) with true by (symmetry; apply up_reserved).
        rewrite orb_true_r. simpl. f_equal.
        -- f_equal.
           ++ f_equal. f_equal. rewrite <- app_assoc. reflexivity.
           ++ unfold stmts_all; simpl. rewrite <- app_assoc. reflexivity.
        -- f_equal. unfold block_evs, block_sqls; simpl.
           rewrite !map_app. simpl. rewrite <- !app_assoc. simpl. reflexivity.
    + apply IH; auto.
      * eapply ascending_tail; exact Hasc.
      * intros m' Hin. apply Hid. right. exact Hin.
      * intros m' r Hin Hv Hr'. apply (Hlt m' r); [right; exact Hin | exact Hv | exact Hr'].
Qed.

(* ---------- C09 ---------- *)
Lemma pending_lt : forall k ms m, In m (pending k ms) -> In m ms /\ N.ltb k (m_version m) = true.
Proof. intros k ms m H. unfold pending in H. apply filter_In in H. exact H. Qed.

Lemma free_id_checks : forall ms k d rows,
  at_version k d = true -> bootstrap d = mkDb (Some (mkVt true rows)) (d_applied d) -> rows_within k rows = true ->
  id_conflict ms d = false -> forall m, In m ms -> id_check (decode_ids rows) m = None.
Proof.
  intros ms k d rows Hat Hb Hw Hfree m Hm.
  destruct (at_version_parts _ _ Hat) as [H1 _].
  apply (id_check_none_free k rows m H1 Hw). intros r Hr.
  apply (conflict_free ms d m r Hfree Hm). rewrite Hb. exact Hr.
Qed.

Lemma ids_ok_spec : forall ms d, ids_ok ms d = true ->
  forall m, In m ms -> id_check (decode_ids (db_rows (bootstrap d))) m = None.
Proof.
  intros ms d H m Hm. unfold ids_ok in H. rewrite forallb_forall in H. specialize (H m Hm).
  destruct (id_check (decode_ids (db_rows (bootstrap d))) m); [discriminate|reflexivity].
Qed.

Theorem run_from_k_gen : forall o ms k d,
  ascending ms = true -> at_version k d = true -> ids_ok ms d = true ->
  fst (run [] o ms d) = advanced o (pending k ms) d /\
  i_res (snd (run [] o ms d)) = Some ROk /\
  i_log (snd (run [] o ms d)) = prelude_log o d ++ block_evs o (pending k ms) ++ [ECommit true].
Proof.
  intros o ms k d Hasc Hat Hok. unfold run, run_from.
  destruct (prelude_ok o k d Hat) as [rows [Hb [Hw Hp]]]. rewrite Hp. simpl snd. cbv beta iota.
  simpl i_res. cbv iota. simpl i_ver. simpl i_ids.
  destruct (plan_run o k (decode_ids rows) ms (bootstrap d) rows
              (mkInst None true (Some (bootstrap d)) Shared k (decode_ids rows) (prelude_log o d) 5) (bootstrap d)) as [n Hn].
  - exact Hasc.
  - intros m Hm. pose proof (ids_ok_spec ms d Hok m Hm) as H. rewrite Hb in H. exact H.
  - intros m r _ Hv Hr. pose proof (rows_within_In _ _ _ Hw Hr). apply N.ltb_lt in Hv. lia.
  - reflexivity.
  - reflexivity.
  - rewrite Hb. reflexivity.
  - rewrite Hn. simpl. split; [|split; reflexivity].
    unfold advanced. rewrite Hb. unfold db_rows; simpl.
    destruct (pending k ms); simpl; [|reflexivity].
    unfold stmts_all; simpl. rewrite !app_nil_r. reflexivity.
Qed.

Lemma free_ids_ok : forall ms k d, at_version k d = true -> id_conflict ms d = false -> ids_ok ms d = true.
Proof.
  intros ms k d Hat Hfree. destruct (prelude_ok (mkOpts Sqlite "" None false) k d Hat) as [rows [Hb [Hw _]]].
  unfold ids_ok. rewrite forallb_forall. intros m Hm.
  rewrite Hb. unfold db_rows; simpl. rewrite (free_id_checks ms k d rows Hat Hb Hw Hfree m Hm). reflexivity.
Qed.

Theorem run_from_k : forall o ms k d,
  ascending ms = true -> at_version k d = true -> id_conflict ms d = false ->
  fst (run [] o ms d) = advanced o (pending k ms) d /\
  i_res (snd (run [] o ms d)) = Some ROk /\
  i_log (snd (run [] o ms d)) = prelude_log o d ++ block_evs o (pending k ms) ++ [ECommit true].
Proof. intros o ms k d Ha Hk Hf. apply run_from_k_gen; [exact Ha|exact Hk|eapply free_ids_ok; eassumption]. Qed.

Lemma txn_execs_app : forall a b, txn_execs (a ++ b) = txn_execs a ++ txn_execs b.
Proof. intros a b. unfold txn_execs. rewrite map_app, concat_app. reflexivity. Qed.
Lemma txn_execs_block_evs : forall o l, txn_execs (block_evs o l) = List.concat (map (block_sqls o) l).
Proof.
  intros o l. unfold block_evs. generalize (List.concat (map (block_sqls o) l)). intros ss.
  induction ss as [|s ss IH]; [reflexivity|]. unfold txn_execs in *. simpl. rewrite IH. reflexivity.
Qed.
Lemma txn_execs_prelude : forall o d, txn_execs (prelude_log o d) = [].
Proof. reflexivity. Qed.

(* exactly the statements of the migrations with version > k, ascending, each followed by its version row *)
Corollary run_from_k_statements : forall o ms k d,
  ascending ms = true -> at_version k d = true -> id_conflict ms d = false ->
  txn_execs (i_log (snd (run [] o ms d))) = List.concat (map (block_sqls o) (pending k ms)).
Proof.
  intros o ms k d Ha Hk Hf. destruct (run_from_k o ms k d Ha Hk Hf) as [_ [_ Hl]]. rewrite Hl.
  rewrite !txn_execs_app, txn_execs_prelude, txn_execs_block_evs. simpl. rewrite app_nil_r. reflexivity.
Qed.

(* ---------- idempotence ---------- *)
Fixpoint top (k : N) (ms : list mig) : N :=
  match ms with [] => k | m :: r => top (N.max k (m_version m)) r end.

Lemma top_ge : forall ms k, (k <= top k ms)%N.
Proof. induction ms as [|m ms IH]; intros k; simpl; [lia|]. specialize (IH (N.max k (m_version m))). lia. Qed.
Lemma top_ge_all : forall ms k m, In m ms -> (m_version m <= top k ms)%N.
Proof.
  induction ms as [|a ms IH]; intros k m H; [destruct H|]. simpl. destruct H as [<-|H].
  - pose proof (top_ge ms (N.max k (m_version a))). lia.
  - apply IH. exact H.
Qed.
Lemma top_cases : forall ms k, top k ms = k \/ exists m, In m ms /\ m_version m = top k ms /\ (k < m_version m)%N.
Proof.
  induction ms as [|a ms IH]; intros k; simpl; [left; reflexivity|].
  destruct (IH (N.max k (m_version a))) as [H|[m [Hin [Hv Hlt]]]].
  - rewrite H. destruct (N.max_spec k (m_version a)) as [[Hlt ->]|[Hle ->]].
    + right. exists a. split; [left; reflexivity|]. split; [reflexivity|exact Hlt].
    + left. reflexivity.
  - right. exists m. split; [right; exact Hin|]. split; [exact Hv|lia].
Qed.
Lemma top_u32 : forall ms k, (k < 4294967296)%N -> versions_u32 ms = true -> (top k ms < 4294967296)%N.
Proof.
  induction ms as [|a ms IH]; intros k Hk H; simpl; [exact Hk|].
  simpl in H. apply andb_true_iff in H. destruct H as [H1 H2]. apply N.ltb_lt in H1.
  apply IH; [lia|exact H2].
Qed.
Lemma pending_top : forall ms k, pending (top k ms) ms = [].
Proof.
  intros ms k. unfold pending.
  assert (H : forall m, In m ms -> N.ltb (top k ms) (m_version m) = false).
  { intros m Hm. apply N.ltb_ge. apply top_ge_all. exact Hm. }
  revert H. generalize (top k ms). intros t H. induction ms as [|a ms IH]; [reflexivity|].
  simpl. rewrite (H a (or_introl eq_refl)). apply IH. intros m Hm. apply H. right. exact Hm.
Qed.

Lemma has_version_app : forall v a b, has_version v (a ++ b) = (has_version v a || has_version v b)%bool.
Proof. intros v a b. induction a as [|[w j] a IH]; simpl; [reflexivity|]. rewrite IH, orb_assoc. reflexivity. Qed.
Lemma has_version_rows_of : forall m l, In m l -> has_version (Z.of_N (m_version m)) (rows_of l) = true.
Proof.
  intros m l. induction l as [|a l IH]; intros H; [destruct H|]. simpl. destruct H as [->|H].
  - rewrite Z.eqb_refl. reflexivity.
  - rewrite (IH H). apply orb_true_r.
Qed.

Lemma at_version_advanced : forall o ms k d,
  at_version k d = true -> versions_u32 ms = true ->
  at_version (top k ms) (advanced o (pending k ms) d) = true.
Proof.
  intros o ms k d Hat Hi. destruct (at_version_parts _ _ Hat) as [H1 [H2 H3]].
  destruct (bootstrap_shape d) as [rows [Hb Hm]].
  unfold at_version, advanced. rewrite Hb. unfold db_rows; simpl.
  apply N.ltb_lt in H1. pose proof (top_u32 ms k H1 Hi) as Ht. pose proof (top_ge ms k) as Hge.
  apply andb_true_iff. split; [apply andb_true_iff; split|].
  - apply N.ltb_lt. exact Ht.
  - unfold rows_within. rewrite forallb_forall. intros r Hr. apply in_app_or in Hr. destruct Hr as [Hr|Hr].
    + rewrite <- (rows_within_map_fst k _ _ Hm) in H2. pose proof (rows_within_In _ _ _ H2 Hr).
      apply andb_true_iff. split; apply Z.leb_le; lia.
    + unfold rows_of in Hr. apply in_map_iff in Hr. destruct Hr as [m [<- Hin]]. simpl.
      destruct (pending_lt _ _ _ Hin) as [Hin' _]. pose proof (top_ge_all ms k m Hin').
      apply andb_true_iff. split; apply Z.leb_le; lia.
  - destruct (top_cases ms k) as [Heq|[m [Hin [Hv Hlt]]]].
    + rewrite Heq. rewrite has_version_app. rewrite <- (has_version_map_fst _ _ _ Hm) in H3.
      apply orb_true_iff in H3. destruct H3 as [H3|H3]; [rewrite H3; reflexivity|].
      rewrite H3. simpl. apply orb_true_r.
    + rewrite has_version_app. rewrite <- Hv.
      rewrite (has_version_rows_of m (pending k ms)); [rewrite !orb_true_r; reflexivity|].
      unfold pending. apply filter_In. split; [exact Hin|]. apply N.ltb_lt. exact Hlt.
Qed.

Lemma advanced_nil_fix : forall o rows ap, advanced o [] (mkDb (Some (mkVt true rows)) ap) = mkDb (Some (mkVt true rows)) ap.
Proof. intros. unfold advanced, bootstrap, db_rows, stmts_all; simpl. rewrite !app_nil_r. reflexivity. Qed.

(* ---------- recorded ids that agree with the compiled ones stay that way ---------- *)
Lemma ascending_version_inj : forall ms a b,
  ascending ms = true -> In a ms -> In b ms -> m_version a = m_version b -> a = b.
Proof.
  induction ms as [|m ms IH]; intros a b Ha Hia Hib Hv; [destruct Hia|].
  pose proof (ascending_tail _ _ Ha) as Ht.
  destruct Hia as [<-|Hia], Hib as [<-|Hib].
  - reflexivity.
  - pose proof (ascending_head_lt _ _ _ Ha Hib). lia.
  - pose proof (ascending_head_lt _ _ _ Ha Hia). lia.
  - apply IH; assumption.
Qed.

Lemma id_conflict_false_intro : forall ms d,
  (forall m r, In m ms -> In r (db_rows (bootstrap d)) -> conflicts m r = false) -> id_conflict ms d = false.
Proof.
  intros ms d H. unfold id_conflict. destruct (existsb _ ms) eqn:E; [|reflexivity].
  apply existsb_exists in E. destruct E as [m [Hm E]]. apply existsb_exists in E. destruct E as [r [Hr E]].
  rewrite (H m r Hm Hr) in E. discriminate.
Qed.

Lemma id_conflict_create : forall ms d, id_conflict ms (sql_create_vt d) = id_conflict ms d.
Proof. intros. unfold id_conflict. rewrite bootstrap_create. reflexivity. Qed.
Lemma id_conflict_bootstrap : forall ms d, id_conflict ms (bootstrap d) = id_conflict ms d.
Proof. intros. unfold id_conflict. rewrite bootstrap_idem. reflexivity. Qed.

Lemma no_conflict_advanced_sub : forall o ms l d,
  ascending ms = true -> (forall m', In m' l -> In m' ms) -> id_conflict ms d = false ->
  id_conflict ms (advanced o l d) = false.
Proof.
  intros o ms l d Ha Hsub Hf. apply id_conflict_false_intro. intros m r Hm Hr.
  unfold advanced, bootstrap, db_rows in Hr. simpl in Hr. fold (bootstrap d) in Hr.
  apply in_app_or in Hr. destruct Hr as [Hr|Hr].
  - apply (conflict_free ms d m r Hf Hm). exact Hr.
  - unfold rows_of in Hr. apply in_map_iff in Hr. destruct Hr as [m' [<- Hin]].
    unfold conflicts. simpl. destruct (Z.eqb_spec (Z.of_N (m_version m')) (Z.of_N (m_version m))) as [E|E]; [|reflexivity].
    assert (m' = m) as -> by (apply (ascending_version_inj ms); auto; lia).
    rewrite String.eqb_refl. simpl. rewrite !andb_false_r. reflexivity.
Qed.

Lemma no_conflict_advanced : forall o ms k d,
  ascending ms = true -> id_conflict ms d = false -> id_conflict ms (advanced o (pending k ms) d) = false.
Proof.
  intros o ms k d Ha Hf. apply no_conflict_advanced_sub; [exact Ha| |exact Hf].
  intros m' Hin. apply (pending_lt _ _ _ Hin).
Qed.

Theorem run_idempotent : forall o ms k d,
  ascending ms = true -> versions_u32 ms = true -> at_version k d = true -> id_conflict ms d = false ->
  let d1 := fst (run [] o ms d) in
  fst (run [] o ms d1) = d1 /\ i_res (snd (run [] o ms d1)) = Some ROk /\ txn_execs (i_log (snd (run [] o ms d1))) = [].
Proof.
  intros o ms k d Ha Hi Hk Hf d1.
  destruct (run_from_k o ms k d Ha Hk Hf) as [Hd _]. fold d1 in Hd.
  assert (Hat : at_version (top k ms) d1 = true) by (rewrite Hd; apply at_version_advanced; assumption).
  assert (Hf1 : id_conflict ms d1 = false) by (rewrite Hd; apply no_conflict_advanced; assumption).
  destruct (run_from_k o ms (top k ms) d1 Ha Hat Hf1) as [H1 [H2 H3]].
  rewrite pending_top in H1, H3. split; [|split].
  - rewrite H1. rewrite Hd. unfold advanced at 2. apply advanced_nil_fix.
  - exact H2.
  - rewrite H3. reflexivity.
Qed.

(* ---------- the id comparison (lib.rs:151-163 / 196-208) ---------- *)
Lemma plan_no_fail : forall o ver ids ms,
  (forall m, In m ms -> id_check ids m = None) ->
  forall x, In x (plan o ver ids ms) -> forall e, x <> IFail e.
Proof.
  intros o ver ids ms. induction ms as [|m ms IH]; intros H x Hx e.
  - simpl in Hx. destruct Hx as [<-|[]]. discriminate.
  - simpl in Hx. rewrite (H m (or_introl eq_refl)) in Hx.
    assert (H' : forall m', In m' ms -> id_check ids m' = None) by (intros m' Hm'; apply H; right; exact Hm').
    destruct (N.ltb ver (m_version m)) eqn:Ev.
    + apply in_app_or in Hx. destruct Hx as [Hx|[<-|Hx]].
      * apply in_map_iff in Hx. destruct Hx as [s [<- _]]. discriminate.
      * discriminate.
      * apply IH; [exact H'|exact Hx].
    + apply IH; [exact H'|exact Hx].
Qed.

Lemma run_list_res_plain : forall F o oth l ci,
  (forall x, In x l -> forall e, x <> IFail e) -> res_plain (i_res (snd ci)) ->
  res_plain (i_res (snd (run_list F o oth l ci))).
Proof.
  intros F o oth l. induction l as [|x l IH]; intros [c i] Hl Hp; simpl; [exact Hp|].
  simpl in Hp. destruct (i_res i) eqn:E; [simpl; rewrite E; exact Hp|].
  apply IH; [intros y Hy; apply Hl; right; exact Hy|].
  apply exec_res_plain; [apply Hl; left; reflexivity | exact E].
Qed.

Lemma res_plain_not_mismatch : forall r v e f, res_plain r -> r <> Some (RErr (IdMismatch v e f)).
Proof. intros r v e f [ -> | [ -> | -> ]]; discriminate. Qed.

(* the prelude under arbitrary fault injection, one call at a time *)
Definition pre_txn (i : inst) : Prop := i_res i = None /\ i_buf i = None /\ i_lock i = Unlocked.

Lemma create_step : forall F o c i, pre_txn i ->
  res_plain (i_res (snd (exec F o [] ICreate c i))) /\
  (fst (exec F o [] ICreate c i) = c \/ fst (exec F o [] ICreate c i) = sql_create_vt c) /\
  (i_res (snd (exec F o [] ICreate c i)) = None ->
     pre_txn (snd (exec F o [] ICreate c i)) /\ fst (exec F o [] ICreate c i) = sql_create_vt c).
Proof.
  intros F o c i [Hr [Hb Hl]]. unfold res_plain, pre_txn. simpl.
  destruct (faulty F i); simpl; [split; [auto|split; [auto|discriminate]]|].
  destruct c as [[t|] ap]; simpl; rewrite Hr, Hb, Hl; auto 10.
Qed.

Lemma alter_step : forall F o c i, pre_txn i ->
  pre_txn (snd (exec F o [] IAlter c i)) /\
  (fst (exec F o [] IAlter c i) = c \/ sql_alter_vt c = EngOk (fst (exec F o [] IAlter c i))).
Proof.
  intros F o c i [Hr [Hb Hl]]. unfold pre_txn. simpl.
  destruct (faulty F i); simpl; [rewrite Hr, Hb, Hl; auto|].
  destruct (sql_alter_vt c) eqn:E; simpl; rewrite Hr, Hb, Hl; auto.
Qed.

Lemma begin_step : forall F o c i, pre_txn i ->
  res_plain (i_res (snd (exec F o [] IBegin c i))) /\ fst (exec F o [] IBegin c i) = c /\
  (i_res (snd (exec F o [] IBegin c i)) = None -> pre_txn (snd (exec F o [] IBegin c i))).
Proof.
  intros F o c i [Hr [Hb Hl]]. unfold res_plain, pre_txn. simpl.
  destruct (faulty F i); simpl; [auto 10|]. rewrite Hr, Hb, Hl. auto 10.
Qed.

Lemma readmax_step : forall F o c i, pre_txn i ->
  res_plain (i_res (snd (exec F o [] IReadMax c i))) /\ fst (exec F o [] IReadMax c i) = c /\
  (i_res (snd (exec F o [] IReadMax c i)) = None ->
     exists t, d_vt c = Some t /\ i_buf (snd (exec F o [] IReadMax c i)) = Some c /\
               i_ver (snd (exec F o [] IReadMax c i)) = decode_version (max_version (vt_rows t))).
Proof.
  intros F o c i [Hr [Hb Hl]]. unfold res_plain. simpl.
  destruct (faulty F i); simpl; [split; [auto|split; [auto|discriminate]]|].
  unfold acquire_shared. rewrite Hb. simpl. unfold sql_select_max, view; simpl.
  destruct (d_vt c) as [t|]; simpl; [|split; [auto|split; [auto|discriminate]]].
  rewrite Hr. split; [auto|]. split; [auto|]. intros _. exists t. auto.
Qed.

Lemma readids_step : forall F o c i, i_buf i = Some c -> i_res i = None ->
  res_plain (i_res (snd (exec F o [] IReadIds c i))) /\ fst (exec F o [] IReadIds c i) = c /\
  (i_res (snd (exec F o [] IReadIds c i)) = None ->
     exists rows, d_vt c = Some (mkVt true rows) /\ i_buf (snd (exec F o [] IReadIds c i)) = Some c /\
                  i_ver (snd (exec F o [] IReadIds c i)) = i_ver i /\
                  i_ids (snd (exec F o [] IReadIds c i)) = decode_ids rows).
Proof.
  intros F o c i Hb Hr. unfold res_plain. simpl.
  destruct (faulty F i); simpl; [split; [auto|split; [auto|discriminate]]|].
  assert (Ha : acquire_shared [] c i = Some i) by (unfold acquire_shared; rewrite Hb; reflexivity).
  assert (Hv : view c i = c) by (unfold view; rewrite Hb; reflexivity).
  rewrite Ha, Hv. unfold sql_select_ids.
  destruct (d_vt c) as [[[] rows]|]; simpl; try (split; [auto|split; [auto|discriminate]]).
  rewrite Hr, Hb. split; [auto|]. split; [auto|]. intros _. exists rows. auto.
Qed.

Lemma create_rows : forall d, db_rows (sql_create_vt d) = db_rows d.
Proof. intros [[t|] ap]; reflexivity. Qed.

Local Opaque exec.
Lemma prelude_gen : forall F o d,
  let ci := run_list F o [] prelude (d, inst0) in
  res_plain (i_res (snd ci)) /\
  (fst ci = d \/ fst ci = sql_create_vt d \/ fst ci = bootstrap d) /\
  (i_res (snd ci) = None -> exists rows, map fst rows = map fst (db_rows d) /\
      i_ver (snd ci) = decode_version (max_version rows) /\ i_ids (snd ci) = decode_ids rows /\
      i_buf (snd ci) = Some (fst ci) /\ d_vt (fst ci) = Some (mkVt true rows)).
Proof.
  intros F o d. cbv zeta. unfold prelude.
  assert (H0 : pre_txn inst0) by (repeat split).
  rewrite run_list_cons_running by reflexivity.
  destruct (create_step F o d inst0 H0) as [P1 [D1 N1]].
  destruct (exec F o [] ICreate d inst0) as [c1 i1]. cbn [fst snd] in *.
  destruct (i_res i1) eqn:E1.
  { rewrite (run_list_finished _ _ _ _ (c1, i1) _ E1). simpl. rewrite E1.
    split; [exact P1|]. split; [destruct D1; auto|discriminate]. }
  destruct (N1 eq_refl) as [T1 ->]. clear N1 D1 P1.
  rewrite run_list_cons_running by exact E1.
  destruct (alter_step F o (sql_create_vt d) i1 T1) as [T2 D2].
  destruct (exec F o [] IAlter (sql_create_vt d) i1) as [c2 i2]. cbn [fst snd] in *.
  assert (Hc2 : c2 = sql_create_vt d \/ c2 = bootstrap d).
  { destruct D2 as [->|D2]; [left; reflexivity|right]. unfold bootstrap. rewrite D2. reflexivity. }
  assert (Hrows2 : map fst (db_rows c2) = map fst (db_rows d)).
  { destruct Hc2 as [->| ->]; [rewrite create_rows; reflexivity|].
    destruct (bootstrap_shape d) as [rows [Hb Hm]]. rewrite Hb. exact Hm. }
  assert (Hdb2 : c2 = d \/ c2 = sql_create_vt d \/ c2 = bootstrap d) by (destruct Hc2; auto).
  clear D2 Hc2.
  destruct T2 as [E2 [B2 L2]].
  rewrite run_list_cons_running by exact E2.
  destruct (begin_step F o c2 i2 (conj E2 (conj B2 L2))) as [P3 [D3 N3]].
  destruct (exec F o [] IBegin c2 i2) as [c3 i3]. cbn [fst snd] in *. subst c3.
  destruct (i_res i3) eqn:E3.
  { rewrite (run_list_finished _ _ _ _ (c2, i3) _ E3). simpl. rewrite E3.
    split; [exact P3|]. split; [exact Hdb2|discriminate]. }
  pose proof (N3 eq_refl) as T3. clear N3 P3.
  rewrite run_list_cons_running by exact E3.
  destruct (readmax_step F o c2 i3 T3) as [P4 [D4 N4]].
  destruct (exec F o [] IReadMax c2 i3) as [c4 i4]. cbn [fst snd] in *. subst c4.
  destruct (i_res i4) eqn:E4.
  { rewrite (run_list_finished _ _ _ _ (c2, i4) _ E4). simpl. rewrite E4.
    split; [exact P4|]. split; [exact Hdb2|discriminate]. }
  destruct (N4 eq_refl) as [t [Ht [B4 V4]]]. clear N4 P4.
  rewrite run_list_cons_running by exact E4.
  destruct (readids_step F o c2 i4 B4 E4) as [P5 [D5 N5]].
  destruct (exec F o [] IReadIds c2 i4) as [c5 i5]. cbn [fst snd] in *. subst c5.
  simpl run_list.
  split; [exact P5|]. split; [exact Hdb2|]. intros E5.
  destruct (N5 E5) as [rows [Hvt [B5 [V5 I5]]]].
  exists rows. rewrite Hvt in Ht. injection Ht as <-. cbn [fst snd].
  split; [|split; [rewrite V5, V4; reflexivity|split; [exact I5|split; [exact B5|exact Hvt]]]].
  rewrite <- Hrows2. unfold db_rows. rewrite Hvt. reflexivity.
Qed.
Local Transparent exec.


(* whatever fails by injection: recorded ids that agree with the compiled ones never produce IdMismatch *)
Theorem id_mismatch_only_on_conflict : forall F o ms k d v e f,
  at_version k d = true -> id_conflict ms d = false ->
  i_res (snd (run F o ms d)) <> Some (RErr (IdMismatch v e f)).
Proof.
  intros F o ms k d v e f Hat Hfree. apply res_plain_not_mismatch.
  unfold run, run_from. destruct (prelude_gen F o d) as [Hp [Hdb Hn]].
  destruct (i_res (snd (run_list F o [] prelude (d, inst0)))) eqn:E; [rewrite E; exact Hp|].
  destruct (Hn eq_refl) as [rows [Hm [Hv [Hi [_ Hvt]]]]].
  apply run_list_res_plain; [|rewrite E; left; reflexivity].
  apply plan_no_fail. intros m Hin. rewrite Hi.
  destruct (at_version_parts _ _ Hat) as [H1 [H2 _]].
  apply (id_check_none_free k rows m H1); [rewrite (rows_within_map_fst k _ _ Hm); exact H2|].
  intros r Hr. apply (conflict_free ms d m r Hfree Hin).
  (* the rows read are those of bootstrap d *)
  destruct Hdb as [Hc|[Hc|Hc]]; rewrite Hc in Hvt.
  - rewrite (has_id_bootstrap_fix0 d rows Hvt). unfold db_rows. rewrite Hvt. exact Hr.
  - rewrite <- bootstrap_create. rewrite (has_id_bootstrap_fix0 _ rows Hvt). unfold db_rows. rewrite Hvt. exact Hr.
  - unfold db_rows. rewrite Hvt. exact Hr.
Qed.

(* ---------- a recorded id that differs from the compiled one IS reported (fix 9bf06ee) ---------- *)
Lemma has_version_false_inv : forall v rows r, has_version v rows = false -> In r rows -> fst r <> v.
Proof.
  intros v rows. induction rows as [|[w j] rows IH]; intros r H Hr; [destruct Hr|].
  simpl in H. apply orb_false_iff in H. destruct H as [H1 H2]. apply Z.eqb_neq in H1.
  destruct Hr as [<-|Hr]; [simpl; intros E; apply H1; symmetry; exact E|apply IH; assumption].
Qed.

Lemma ids_get_fold_none : forall rows acc v,
  (forall r, In r rows -> i64_as_u32 (fst r) <> v) ->
  ids_get v (fold_left (fun acc r => (i64_as_u32 (fst r), snd r) :: acc) rows acc) = ids_get v acc.
Proof.
  induction rows as [|a rows IH]; intros acc v H; simpl; [reflexivity|].
  rewrite IH by (intros r Hr; apply H; right; exact Hr). simpl.
  destruct (N.eqb_spec v (i64_as_u32 (fst a))) as [E|E]; [|reflexivity].
  exfalso. apply (H a (or_introl eq_refl)). symmetry. exact E.
Qed.

Lemma ids_get_fold_in : forall rows acc z x,
  versions_distinct rows = true -> (forall r, In r rows -> (0 <= fst r < 4294967296)%Z) -> In (z, x) rows ->
  ids_get (Z.to_N z) (fold_left (fun acc r => (i64_as_u32 (fst r), snd r) :: acc) rows acc) = Some x.
Proof.
  induction rows as [|[w j] rows IH]; intros acc z x Hd Hrange Hin; [destruct Hin|].
  simpl in Hd. apply andb_true_iff in Hd. destruct Hd as [Hd1 Hd2]. apply negb_true_iff in Hd1.
  assert (Hrange' : forall r, In r rows -> (0 <= fst r < 4294967296)%Z) by (intros r Hr; apply Hrange; right; exact Hr).
  simpl. destruct Hin as [E|Hin].
  - injection E as -> ->. rewrite ids_get_fold_none.
    + simpl. pose proof (Hrange (z, x) (or_introl eq_refl)) as Hz. simpl in Hz.
      rewrite i64_as_u32_small by lia. rewrite N.eqb_refl. reflexivity.
    + intros r Hr. pose proof (has_version_false_inv _ _ _ Hd1 Hr). pose proof (Hrange' r Hr).
      pose proof (Hrange (z, x) (or_introl eq_refl)) as Hz. simpl in Hz.
      rewrite i64_as_u32_small by lia. lia.
  - apply IH; assumption.
Qed.

Lemma conflicts_true : forall m r, conflicts m r = true ->
  fst r = Z.of_N (m_version m) /\ (nonempty (m_id m) && nonempty (snd r) && negb (String.eqb (snd r) (m_id m)))%bool = true.
Proof.
  intros m r H. unfold conflicts in H.
  destruct (Z.eqb_spec (fst r) (Z.of_N (m_version m))) as [E|E]; simpl in H; [|discriminate].
  split; [exact E|exact H].
Qed.

Lemma plan_hits_conflict : forall o k rows ms,
  ascending ms = true -> N.ltb k 4294967296 = true -> rows_within k rows = true -> versions_distinct rows = true ->
  (exists m r, In m ms /\ In r rows /\ conflicts m r = true) ->
  exists m r, In m ms /\ In r rows /\ conflicts m r = true /\
    forall c i, i_res i = None ->
      run_list [] o [] (plan o k (decode_ids rows) ms) (c, i) = (c, fail_run (IdMismatch (m_version m) (m_id m) (snd r)) i).
Proof.
  intros o k rows ms. induction ms as [|m0 ms IH]; intros Ha Hk Hw Hd [m [r [Hm [Hr Hc]]]]; [destruct Hm|].
  assert (Hrange : forall r, In r rows -> (0 <= fst r < 4294967296)%Z).
  { intros r0 Hr0. pose proof (rows_within_In _ _ _ Hw Hr0). apply N.ltb_lt in Hk. lia. }
  simpl plan. destruct (id_check (decode_ids rows) m0) as [e|] eqn:Eid.
  - (* the head migration trips the comparison *)
    unfold id_check in Eid.
    destruct (ids_get (m_version m0) (decode_ids rows)) as [db_id|] eqn:Eg; [|discriminate].
    destruct (nonempty (m_id m0) && nonempty db_id && negb (String.eqb db_id (m_id m0)))%bool eqn:Ec; [|discriminate].
    injection Eid as <-.
    destruct (ids_get_decode _ _ _ Eg) as [r0 [Hr0 [Hu Hx]]].
    pose proof (Hrange r0 Hr0) as Hz. rewrite i64_as_u32_small in Hu by lia.
    exists m0, r0. split; [left; reflexivity|]. split; [exact Hr0|]. split.
    + unfold conflicts. subst db_id. assert (Hv : Z.eqb (fst r0) (Z.of_N (m_version m0)) = true) by (apply Z.eqb_eq; lia).
      rewrite Hv. simpl. exact Ec.
    + intros c i Hi. subst db_id. simpl. rewrite Hi. reflexivity.
  - (* the head agrees: the conflict is further down, and everything before it is already applied *)
    destruct Hm as [<-|Hm].
    + exfalso. destruct (conflicts_true _ _ Hc) as [Hv Hcond].
      unfold id_check in Eid. unfold decode_ids in Eid.
      assert (Hg : ids_get (m_version m0) (fold_left (fun acc r => (i64_as_u32 (fst r), snd r) :: acc) rows []) = Some (snd r)).
      { rewrite <- (N2Z.id (m_version m0)). rewrite <- Hv. apply ids_get_fold_in; [exact Hd|exact Hrange|].
        destruct r; exact Hr. }
      rewrite Hg in Eid. rewrite Hcond in Eid. discriminate.
    + destruct (conflicts_true _ _ Hc) as [Hv _].
      pose proof (ascending_head_lt _ _ _ Ha Hm) as Hlt.
      pose proof (rows_within_In _ _ _ Hw Hr) as Hb.
      assert (Hng : N.ltb k (m_version m0) = false) by (apply N.ltb_ge; lia).
      rewrite Hng.
      destruct (IH (ascending_tail _ _ Ha) Hk Hw Hd (ex_intro _ m (ex_intro _ r (conj Hm (conj Hr Hc)))))
        as [m1 [r1 [A [B [C D]]]]].
      exists m1, r1. split; [right; exact A|]. split; [exact B|]. split; [exact C|exact D].
Qed.

Lemma versions_distinct_map_fst : forall r1 r2, map fst r1 = map fst r2 -> versions_distinct r1 = versions_distinct r2.
Proof.
  induction r1 as [|[a x] r1 IH]; intros [|[b y] r2] H; simpl in *; try discriminate; [reflexivity|].
  injection H as H1 H2. subst. rewrite (has_version_map_fst _ _ _ H2), (IH _ H2). reflexivity.
Qed.

Theorem id_mismatch_reported : forall o ms k d,
  ascending ms = true -> at_version k d = true -> versions_distinct (db_rows d) = true ->
  id_conflict ms d = true ->
  exists m r, In m ms /\ In r (db_rows (bootstrap d)) /\ conflicts m r = true /\
    i_res (snd (run [] o ms d)) = Some (RErr (IdMismatch (m_version m) (m_id m) (snd r))) /\
    txn_execs (i_log (snd (run [] o ms d))) = [] /\ fst (run [] o ms d) = bootstrap d.
Proof.
  intros o ms k d Ha Hat Hd Hc.
  destruct (at_version_parts _ _ Hat) as [H1 _].
  destruct (prelude_ok o k d Hat) as [rows [Hb [Hw Hp]]].
  destruct (bootstrap_shape d) as [rows' [Hb' Hm]]. rewrite Hb in Hb'. injection Hb' as <-.
  assert (Hd' : versions_distinct rows = true) by (rewrite (versions_distinct_map_fst _ _ Hm); exact Hd).
  assert (Hex : exists m r, In m ms /\ In r rows /\ conflicts m r = true).
  { unfold id_conflict in Hc. apply existsb_exists in Hc. destruct Hc as [m [Hm' Hc]].
    apply existsb_exists in Hc. destruct Hc as [r [Hr Hc]]. exists m, r. rewrite Hb in Hr. auto. }
  destruct (plan_hits_conflict o k rows ms Ha H1 Hw Hd' Hex) as [m [r [Hm' [Hr [Hcf Hrun]]]]].
  exists m, r. split; [exact Hm'|]. split; [rewrite Hb; exact Hr|]. split; [exact Hcf|].
  unfold run, run_from. rewrite Hp. simpl snd. simpl i_res. cbv iota. simpl i_ver. simpl i_ids.
  rewrite Hrun by reflexivity. simpl. auto.
Qed.

(* ---------- C10 ---------- *)
Lemma plan_instrs : forall o ver ids ms x, In x (plan o ver ids ms) -> x <> ICreate /\ x <> IAlter.
Proof.
  intros o ver ids ms. induction ms as [|m ms IH]; intros x Hx.
  - simpl in Hx. destruct Hx as [<-|[]]. split; discriminate.
  - simpl in Hx. destruct (id_check ids m).
    + destruct Hx as [<-|[]]. split; discriminate.
    + destruct (N.ltb ver (m_version m)); [|apply IH; exact Hx].
      apply in_app_or in Hx. destruct Hx as [Hx|[<-|Hx]].
      * apply in_map_iff in Hx. destruct Hx as [s [<- _]]. split; discriminate.
      * split; discriminate.
      * apply IH; exact Hx.
Qed.

Lemma run_list_keeps_db : forall F o oth l c i,
  (forall x, In x l -> x <> ICreate /\ x <> IAlter) ->
  fst (run_list F o oth l (c, i)) = c \/ i_res (snd (run_list F o oth l (c, i))) = Some ROk.
Proof.
  intros F o oth l. induction l as [|x l IH]; intros c i Hl; simpl; [left; reflexivity|].
  destruct (i_res i) eqn:E; [left; reflexivity|].
  destruct (Hl x (or_introl eq_refl)) as [Hc Ha].
  destruct (exec_db F o oth x c i) as [H|[[H _]|[[H _]|[_ H]]]]; try contradiction.
  - destruct (exec F o oth x c i) as [c1 i1] eqn:Ex. simpl in H. subst c1.
    apply IH. intros y Hy. apply Hl. right. exact Hy.
  - right. erewrite run_list_finished; [exact H|exact H].
Qed.

Theorem fail_leaves_db : forall F o ms d e,
  i_res (snd (run F o ms d)) = Some (RErr e) ->
  fst (run F o ms d) = d \/ fst (run F o ms d) = sql_create_vt d \/ fst (run F o ms d) = bootstrap d.
Proof.
  intros F o ms d e. unfold run, run_from. destruct (prelude_gen F o d) as [_ [Hdb _]].
  destruct (run_list F o [] prelude (d, inst0)) as [c1 i1] eqn:Ep. simpl in *.
  destruct (i_res i1) eqn:E; [intros _; exact Hdb|].
  intros Herr.
  destruct (run_list_keeps_db F o [] (plan o (i_ver i1) (i_ids i1) ms) c1 i1 (plan_instrs _ _ _ _)) as [H|H].
  - rewrite H. exact Hdb.
  - rewrite H in Herr. discriminate.
Qed.

Lemma bookkeeping_create : forall d, same_but_bookkeeping d (sql_create_vt d).
Proof. intros [[t|] ap]; split; reflexivity. Qed.
Lemma bookkeeping_bootstrap : forall d, same_but_bookkeeping d (bootstrap d).
Proof.
  intros d. destruct (bootstrap_shape d) as [rows [Hb Hm]]. rewrite Hb. split; [reflexivity|].
  unfold recorded_versions, db_rows at 1; simpl. exact Hm.
Qed.

Theorem fail_at_j_rolls_back : forall j o ms d e,
  i_res (snd (run [j] o ms d)) = Some (RErr e) -> same_but_bookkeeping d (fst (run [j] o ms d)).
Proof.
  intros j o ms d e H. destruct (fail_leaves_db [j] o ms d e H) as [ -> | [ -> | -> ]].
  - split; reflexivity.
  - apply bookkeeping_create.
  - apply bookkeeping_bootstrap.
Qed.

Lemma advanced_create : forall o l d, advanced o l (sql_create_vt d) = advanced o l d.
Proof. intros o l d. unfold advanced. rewrite bootstrap_create. destruct d as [[t|] ap]; reflexivity. Qed.
Lemma advanced_bootstrap : forall o l d, advanced o l (bootstrap d) = advanced o l d.
Proof.
  intros o l d. unfold advanced. rewrite bootstrap_idem.
  destruct (bootstrap_shape d) as [rows [Hb _]]. rewrite Hb. reflexivity.
Qed.

Theorem rerun_completes : forall F o ms k d e,
  ascending ms = true -> at_version k d = true -> id_conflict ms d = false ->
  i_res (snd (run F o ms d)) = Some (RErr e) ->
  fst (run [] o ms (fst (run F o ms d))) = fst (run [] o ms d) /\
  i_res (snd (run [] o ms (fst (run F o ms d)))) = Some ROk.
Proof.
  intros F o ms k d e Ha Hk Hf Herr.
  destruct (run_from_k o ms k d Ha Hk Hf) as [Hd _]. rewrite Hd.
  destruct (fail_leaves_db F o ms d e Herr) as [ -> | [ -> | -> ]].
  - destruct (run_from_k o ms k d Ha Hk Hf) as [H1 [H2 _]]. split; assumption.
  - assert (Hf' : id_conflict ms (sql_create_vt d) = false) by (rewrite id_conflict_create; exact Hf).
    destruct (run_from_k o ms k _ Ha (at_version_create _ _ Hk) Hf') as [H1 [H2 _]].
    rewrite H1, advanced_create. split; [reflexivity|exact H2].
  - assert (Hf' : id_conflict ms (bootstrap d) = false) by (rewrite id_conflict_bootstrap; exact Hf).
    destruct (run_from_k o ms k _ Ha (at_version_bootstrap _ _ Hk) Hf') as [H1 [H2 _]].
    rewrite H1, advanced_bootstrap. split; [reflexivity|exact H2].
Qed.

Theorem bootstrap_idempotent : forall d,
  bootstrap (bootstrap d) = bootstrap d /\ sql_create_vt (bootstrap d) = bootstrap d /\ sql_alter_vt (bootstrap d) = EngErr.
Proof. intros [[[[] rows]|] ap]; repeat split; reflexivity. Qed.

(* the two statements outside the transaction as the generated code runs them, twice in a row *)
Lemma prelude_nofault : forall o d,
  run_list [] o [] prelude (d, inst0) =
  (bootstrap d, mkInst None true (Some (bootstrap d)) Shared (decode_version (max_version (db_rows (bootstrap d))))
                       (decode_ids (db_rows (bootstrap d))) (prelude_log o d) 5).
Proof. intros o [[[[] rows]|] ap]; reflexivity. Qed.

(* ---------- process death ---------- *)
Lemma run_calls_finished : forall F o fuel l ci r, i_res (snd ci) = Some r -> run_calls F o fuel l ci = ci.
Proof. intros F o fuel l ci r H. destruct l; simpl; [reflexivity|rewrite H; reflexivity]. Qed.

Lemma run_calls_db : forall F o l fuel c i,
  (forall x, In x l -> x <> ICreate /\ x <> IAlter) ->
  fst (run_calls F o fuel l (c, i)) = c \/ run_calls F o fuel l (c, i) = run_list F o [] l (c, i).
Proof.
  intros F o l. induction l as [|x l IH]; intros fuel c i Hl; simpl; [left; reflexivity|].
  destruct (i_res i) eqn:E; [left; reflexivity|].
  destruct (Hl x (or_introl eq_refl)) as [Hc Ha].
  assert (Hl' : forall y, In y l -> y <> ICreate /\ y <> IAlter) by (intros y Hy; apply Hl; right; exact Hy).
  assert (Hstep : forall f, fst (run_calls F o f l (exec F o [] x c i)) = c \/
                            run_calls F o f l (exec F o [] x c i) = run_list F o [] l (exec F o [] x c i)).
  { intros f. destruct (exec_db F o [] x c i) as [H|[[H _]|[[H _]|[_ H]]]]; try contradiction.
    - destruct (exec F o [] x c i) as [c1 i1] eqn:Ex. simpl in H. subst c1. apply IH. exact Hl'.
    - right. rewrite (run_calls_finished _ _ _ _ _ _ H). symmetry. eapply run_list_finished. exact H. }
  destruct x; try (destruct fuel as [|f]; [left; reflexivity | apply Hstep]).
  apply Hstep.
Qed.

Lemma run_calls_enough : forall F o l fuel ci,
  List.length l <= fuel -> run_calls F o fuel l ci = run_list F o [] l ci.
Proof.
  intros F o l. induction l as [|x l IH]; intros fuel ci H; simpl; [reflexivity|].
  destruct (i_res (snd ci)); [reflexivity|]. simpl in H.
  destruct fuel as [|f]; [lia|].
  destruct x; try (apply IH; lia).
Qed.

Theorem crash_before_commit : forall j o ms d,
  crash j o ms d = d \/ crash j o ms d = sql_create_vt d \/ crash j o ms d = bootstrap d
  \/ crash j o ms d = fst (run [] o ms d).
Proof.
  intros j o ms d. unfold crash.
  destruct j as [|[|[|[|[|j]]]]].
  - left. reflexivity.
  - destruct d as [[[[] rows]|] ap]; simpl; auto.
  - destruct d as [[[[] rows]|] ap]; simpl; auto.
  - destruct d as [[[[] rows]|] ap]; simpl; auto.
  - destruct d as [[[[] rows]|] ap]; simpl; auto.
  - assert (Hp : run_calls [] o (S (S (S (S (S j))))) prelude (d, inst0) = run_list [] o [] prelude (d, inst0))
      by (apply run_calls_enough; simpl; lia).
    rewrite Hp, prelude_nofault. simpl snd. simpl i_n. simpl Nat.ltb. cbv iota. simpl i_res. cbv iota.
    simpl i_ver. simpl i_ids. simpl fst.
    unfold run, run_from. rewrite prelude_nofault. simpl.
    match goal with |- context [run_calls [] o ?f ?l (?c, ?i)] =>
      destruct (run_calls_db [] o l f c i (plan_instrs _ _ _ _)) as [H|H] end.
    + right; right; left. exact H.
    + right; right; right. rewrite H. reflexivity.
Qed.

(* ---------- a run whose id comparison fails somewhere commits nothing and never returns Ok ---------- *)
Lemma exec_ok_only_commit : forall F o oth x c i,
  i_res i = None -> i_res (snd (exec F o oth x c i)) = Some ROk -> x = ICommit.
Proof.
  intros F o oth x c i Hi H. destruct x; try reflexivity; exfalso;
    unfold exec, acquire_reserved, acquire_shared in H;
    repeat match type of H with
           | context [if ?b then _ else _] => destruct b; simpl in H
           | context [match ?e with _ => _ end] => destruct e; simpl in H
           end; try discriminate; try (rewrite Hi in H; discriminate).
Qed.

Lemma plan_no_commit : forall o ver ids ms,
  (exists m, In m ms /\ id_check ids m <> None) -> ~ In ICommit (plan o ver ids ms).
Proof.
  intros o ver ids ms. induction ms as [|m ms IH]; intros [m0 [Hm0 Hne]] Hin; [destruct Hm0|].
  simpl in Hin. destruct (id_check ids m) eqn:E.
  - destruct Hin as [Hin|[]]. discriminate.
  - assert (Hex : exists m1, In m1 ms /\ id_check ids m1 <> None).
    { destruct Hm0 as [<-|Hm0]; [exfalso; apply Hne; exact E|]. exists m0. split; assumption. }
    destruct (N.ltb ver (m_version m)); [|apply (IH Hex Hin)].
    apply in_app_or in Hin. destruct Hin as [Hin|[Hin|Hin]].
    + apply in_map_iff in Hin. destruct Hin as [s [Hs _]]. discriminate.
    + discriminate.
    + apply (IH Hex Hin).
Qed.

Lemma run_list_no_commit : forall F o oth l c i,
  ~ In ICommit l -> (forall x, In x l -> x <> ICreate /\ x <> IAlter) -> i_res i <> Some ROk ->
  fst (run_list F o oth l (c, i)) = c /\ i_res (snd (run_list F o oth l (c, i))) <> Some ROk.
Proof.
  intros F o oth l. induction l as [|x l IH]; intros c i Hnc Hl Hi; simpl; [split; [reflexivity|exact Hi]|].
  destruct (i_res i) eqn:E; [split; [reflexivity|simpl; rewrite E; exact Hi]|].
  assert (Hx : x <> ICommit) by (intros ->; apply Hnc; left; reflexivity).
  destruct (Hl x (or_introl eq_refl)) as [Hc Ha].
  destruct (exec_db F o oth x c i) as [H|[[H _]|[[H _]|[H _]]]]; try contradiction.
  destruct (exec F o oth x c i) as [c1 i1] eqn:Ex. simpl in H. subst c1.
  apply IH.
  - intros Hin. apply Hnc. right. exact Hin.
  - intros y Hy. apply Hl. right. exact Hy.
  - intros Hok. apply Hx. apply (exec_ok_only_commit F o oth x c i E). rewrite Ex. exact Hok.
Qed.

Lemma ids_not_ok_ex : forall ms d, ids_ok ms d = false ->
  exists m, In m ms /\ id_check (decode_ids (db_rows (bootstrap d))) m <> None.
Proof.
  intros ms d H. unfold ids_ok in H.
  induction ms as [|m ms IH]; simpl in H; [discriminate|].
  destruct (id_check (decode_ids (db_rows (bootstrap d))) m) eqn:E.
  - exists m. split; [left; reflexivity|]. rewrite E. discriminate.
  - simpl in H. destruct (IH H) as [m0 [A B]]. exists m0. split; [right; exact A|exact B].
Qed.

Lemma ids_ok_create : forall ms d, ids_ok ms (sql_create_vt d) = ids_ok ms d.
Proof. intros. unfold ids_ok. rewrite bootstrap_create. reflexivity. Qed.
Lemma ids_ok_bootstrap : forall ms d, ids_ok ms (bootstrap d) = ids_ok ms d.
Proof. intros. unfold ids_ok. rewrite bootstrap_idem. reflexivity. Qed.

(* alone, without faults: the two bookkeeping statements go through, then the block returns Err *)
Theorem run_ids_not_ok : forall o ms d, ids_ok ms d = false ->
  fst (run [] o ms d) = bootstrap d /\ i_res (snd (run [] o ms d)) <> Some ROk.
Proof.
  intros o ms d H. unfold run, run_from. rewrite prelude_nofault. simpl snd. simpl i_res. cbv iota.
  simpl i_ver. simpl i_ids.
  apply run_list_no_commit.
  - apply plan_no_commit. exact (ids_not_ok_ex ms d H).
  - apply plan_instrs.
  - simpl. discriminate.
Qed.

(* ---------- a call that fails makes the run fail, whatever the failure is ---------- *)
(* The model has no access to the engine's error value: [eng] has a single [EngErr], a fault set is a set of
   call indices.  Made explicit: a fault point may carry any error text; it is dropped before [run] sees it. *)
Definition fault_points (fe : list (nat * string)) : list nat := map fst fe.

Lemma exec_n : forall F o oth x c i, (forall e, x <> IFail e) -> i_res i = None ->
  i_n (snd (exec F o oth x c i)) = S (i_n i).
Proof.
  intros F o oth x c i Hx Hi. destruct x; try (exfalso; eapply Hx; reflexivity);
    unfold exec, acquire_reserved, acquire_shared;
    repeat match goal with
           | |- context [if ?b then _ else _] => destruct b; simpl
           | |- context [match ?e with _ => _ end] => destruct e; simpl
           end; reflexivity.
Qed.

Lemma exec_fault_aborts : forall F o oth x c i,
  x <> IAlter -> (forall e, x <> IFail e) -> faulty F i = true ->
  i_res (snd (exec F o oth x c i)) = Some (RErr DatabaseError).
Proof.
  intros F o oth x c i Ha Hx Hf. destruct x; try (exfalso; eapply Hx; reflexivity); try contradiction;
    simpl; rewrite Hf; reflexivity.
Qed.

Lemma exec_IFail_n : forall F o oth e c i, i_n (snd (exec F o oth (IFail e) c i)) = i_n i /\
  i_res (snd (exec F o oth (IFail e) c i)) = Some (RErr e).
Proof. intros. split; reflexivity. Qed.

(* every faulty call index (other than the ignored ALTER) that has been issued has ended the run with Err *)
Definition hit_inv (F : list nat) (i : inst) : Prop :=
  forall j, In j F -> j <> 1 -> j < i_n i -> exists e, i_res i = Some (RErr e).

Lemma faulty_In : forall F i, In (i_n i) F -> faulty F i = true.
Proof. intros F i H. unfold faulty. apply existsb_exists. exists (i_n i). split; [exact H|apply Nat.eqb_refl]. Qed.

Lemma run_list_hit : forall F o oth l c i,
  ~ In IAlter l -> hit_inv F i -> hit_inv F (snd (run_list F o oth l (c, i))).
Proof.
  intros F o oth l. induction l as [|x l IH]; intros c i Hl Hinv; simpl; [exact Hinv|].
  destruct (i_res i) eqn:E; [exact Hinv|].
  assert (Hx : x <> IAlter) by (intros ->; apply Hl; left; reflexivity).
  assert (Hl' : ~ In IAlter l) by (intros H; apply Hl; right; exact H).
  destruct (exec F o oth x c i) as [c1 i1] eqn:Ex.
  apply IH; [exact Hl'|].
  assert (Hi1 : i1 = snd (exec F o oth x c i)) by (rewrite Ex; reflexivity).
  intros j Hj Hj1 Hlt.
  destruct x; try (
    assert (Hn : i_n i1 = S (i_n i)) by (rewrite Hi1; apply exec_n; [intros e0; discriminate|exact E]);
    rewrite Hn in Hlt;
    destruct (Nat.eq_dec j (i_n i)) as [->|Hne];
    [ exists DatabaseError; rewrite Hi1; apply exec_fault_aborts; [discriminate|intros e0; discriminate|apply faulty_In; exact Hj]
    | destruct (Hinv j Hj Hj1) as [e0 He0]; [lia|rewrite E in He0; discriminate] ]).
  - contradiction.
  - (* IFail: no call issued *)
    exists e. rewrite Hi1. reflexivity.
Qed.

Lemma plan_no_alter : forall o ver ids ms, ~ In IAlter (plan o ver ids ms).
Proof. intros o ver ids ms H. destruct (plan_instrs o ver ids ms IAlter H) as [_ Hn]. apply Hn. reflexivity. Qed.

Theorem fault_hit_aborts : forall F o ms d j,
  In j F -> j <> 1 -> j < i_n (snd (run F o ms d)) ->
  exists e, i_res (snd (run F o ms d)) = Some (RErr e).
Proof.
  intros F o ms d j Hj Hj1 Hlt.
  assert (Hall : hit_inv F (snd (run F o ms d))).
  { unfold run, run_from.
    (* ICreate, IAlter by hand; the rest contains no IAlter *)
    assert (H2 : hit_inv F (snd (run_list F o [] [ICreate; IAlter] (d, inst0))) /\
                 (i_res (snd (run_list F o [] [ICreate; IAlter] (d, inst0))) = None ->
                  i_n (snd (run_list F o [] [ICreate; IAlter] (d, inst0))) = 2)).
    { rewrite run_list_cons_running by reflexivity.
      destruct (exec F o [] ICreate d inst0) as [c1 i1] eqn:E1.
      assert (Hi1 : i1 = snd (exec F o [] ICreate d inst0)) by (rewrite E1; reflexivity).
      assert (Hn1 : i_n i1 = 1) by (rewrite Hi1; apply (exec_n F o [] ICreate d inst0); [intros e0; discriminate|reflexivity]).
      destruct (i_res i1) eqn:R1.
      - rewrite (run_list_finished F o [] [IAlter] (c1, i1) _ R1). simpl snd.
        split; [|intros Hc; rewrite R1 in Hc; discriminate].
        intros j0 Hj0 Hne Hl0. rewrite Hn1 in Hl0. assert (j0 = 0) by lia. subst j0.
        assert (Hf : i_res (snd (exec F o [] ICreate d inst0)) = Some (RErr DatabaseError))
          by (apply exec_fault_aborts; [discriminate|intros e0; discriminate|apply faulty_In; exact Hj0]).
        rewrite <- Hi1, R1 in Hf. exists DatabaseError. rewrite R1. exact Hf.
      - rewrite run_list_cons_running by exact R1.
        assert (Hn2 : i_n (snd (exec F o [] IAlter c1 i1)) = 2)
          by (rewrite (exec_n F o [] IAlter c1 i1); [rewrite Hn1; reflexivity|intros e0; discriminate|exact R1]).
        destruct (exec F o [] IAlter c1 i1) as [c2 i2] eqn:E2. simpl run_list. cbn [snd] in *.
        split; [|intros _; exact Hn2].
        intros j0 Hj0 Hne Hl0. rewrite Hn2 in Hl0.
        assert (j0 = 0) by lia. subst j0. exfalso.
        assert (Hf : i_res (snd (exec F o [] ICreate d inst0)) = Some (RErr DatabaseError))
          by (apply exec_fault_aborts; [discriminate|intros e0; discriminate|apply faulty_In; exact Hj0]).
        rewrite <- Hi1, R1 in Hf. discriminate. }
    destruct H2 as [H2 _].
    change prelude with ([ICreate; IAlter] ++ [IBegin; IReadMax; IReadIds]).
    rewrite run_list_app.
    destruct (run_list F o [] [ICreate; IAlter] (d, inst0)) as [c2 i2] eqn:E12. cbn [snd] in H2.
    assert (H5 : hit_inv F (snd (run_list F o [] [IBegin; IReadMax; IReadIds] (c2, i2)))).
    { apply run_list_hit; [|exact H2]. intros [H|[H|[H|[]]]]; discriminate. }
    destruct (run_list F o [] [IBegin; IReadMax; IReadIds] (c2, i2)) as [c5 i5] eqn:E5. cbn [snd] in *.
    destruct (i_res i5) eqn:R5; [exact H5|].
    apply run_list_hit; [apply plan_no_alter|exact H5]. }
  exact (Hall j Hj Hj1 Hlt).
Qed.

(* the error text attached to a fault point is irrelevant, and a fault point that is reached — at whatever
   statement, with whatever error — ends the run with Err and leaves the database as it was *)
Theorem failure_value_irrelevant : forall (fe : list (nat * string)) o ms d j,
  In j (fault_points fe) -> j <> 1 -> j < i_n (snd (run (fault_points fe) o ms d)) ->
  (exists e, i_res (snd (run (fault_points fe) o ms d)) = Some (RErr e)) /\
  (fst (run (fault_points fe) o ms d) = d \/ fst (run (fault_points fe) o ms d) = sql_create_vt d \/
   fst (run (fault_points fe) o ms d) = bootstrap d) /\
  (forall fe', map fst fe' = map fst fe -> run (fault_points fe') o ms d = run (fault_points fe) o ms d).
Proof.
  intros fe o ms d j Hj Hj1 Hlt.
  destruct (fault_hit_aborts _ o ms d j Hj Hj1 Hlt) as [e He].
  split; [exists e; exact He|]. split; [exact (fail_leaves_db _ o ms d e He)|].
  intros fe' H. unfold fault_points. rewrite H. reflexivity.
Qed.

(* ---------- every pending migration gets its version row, also when it issues no statement ---------- *)
Theorem every_pending_version_recorded : forall o ms k d m,
  ascending ms = true -> at_version k d = true -> id_conflict ms d = false ->
  In m ms -> N.ltb k (m_version m) = true ->
  In (Z.of_N (m_version m), m_id m) (db_rows (fst (run [] o ms d))) /\
  In (insert_sql o (m_version m) (m_id m)) (txn_execs (i_log (snd (run [] o ms d)))).
Proof.
  intros o ms k d m Ha Hk Hf Hm Hv.
  assert (Hp : In m (pending k ms)) by (unfold pending; apply filter_In; split; assumption).
  destruct (run_from_k o ms k d Ha Hk Hf) as [Hd _]. split.
  - rewrite Hd. unfold advanced, db_rows at 1; simpl. apply in_or_app. right.
    unfold rows_of. apply in_map_iff. exists m. split; [reflexivity|exact Hp].
  - rewrite (run_from_k_statements o ms k d Ha Hk Hf). apply in_concat.
    exists (block_sqls o m). split; [apply in_map; exact Hp|].
    unfold block_sqls. apply in_or_app. right. left. reflexivity.
Qed.

(* ---------- no retry: the first failing execution is the last call of the run ---------- *)
Lemma run_list_stop : forall F o oth j l c i,
  ~ In IAlter l -> In j F -> i_res i = None -> i_n i <= j ->
  j < i_n (snd (run_list F o oth l (c, i))) -> i_n (snd (run_list F o oth l (c, i))) = S j.
Proof.
  intros F o oth j l. induction l as [|x l IH]; intros c i Hl Hj Hr Hle Hlt; [simpl in *; lia|].
  rewrite run_list_cons_running in Hlt by exact Hr. rewrite run_list_cons_running by exact Hr.
  assert (Hx : x <> IAlter) by (intros ->; apply Hl; left; reflexivity).
  assert (Hl' : ~ In IAlter l) by (intros H; apply Hl; right; exact H).
  destruct (exec F o oth x c i) as [c1 i1] eqn:Ex.
  assert (Hi1 : i1 = snd (exec F o oth x c i)) by (rewrite Ex; reflexivity).
  destruct x; try (
    assert (Hn : i_n i1 = S (i_n i)) by (rewrite Hi1; apply exec_n; [intros e0; discriminate|exact Hr]);
    destruct (Nat.eq_dec (i_n i) j) as [E|E];
    [ assert (Hf : i_res i1 = Some (RErr DatabaseError))
        by (rewrite Hi1; apply exec_fault_aborts; [discriminate|intros e0; discriminate|apply faulty_In; rewrite E; exact Hj]);
      rewrite (run_list_finished F o oth l (c1, i1) _ Hf) in *; simpl; lia
    | destruct (i_res i1) eqn:R1;
      [ rewrite (run_list_finished F o oth l (c1, i1) _ R1) in *; simpl in *; lia
      | apply IH; [exact Hl'|exact Hj|exact R1|lia|exact Hlt] ] ]).
  - contradiction.
  - (* IFail issues no call *)
    assert (Hf : i_res i1 = Some (RErr e)) by (rewrite Hi1; reflexivity).
    assert (Hn : i_n i1 = i_n i) by (rewrite Hi1; reflexivity).
    rewrite (run_list_finished F o oth l (c1, i1) _ Hf) in *. simpl in *. lia.
Qed.

Theorem first_failure_ends_run : forall F o ms d j,
  In j F -> j <> 1 -> (forall j', In j' F -> j' <> 1 -> j <= j') ->
  j < i_n (snd (run F o ms d)) -> i_n (snd (run F o ms d)) = S j.
Proof.
  intros F o ms d j Hj Hj1 Hmin Hlt. unfold run, run_from in *.
  change prelude with ([ICreate; IAlter] ++ [IBegin; IReadMax; IReadIds]) in *.
  rewrite run_list_app in *.
  (* the two calls outside the transaction *)
  assert (H2 : forall r, r = run_list F o [] [ICreate; IAlter] (d, inst0) ->
            (i_res (snd r) = None /\ i_n (snd r) = 2 /\ j <> 0) \/
            (exists e, i_res (snd r) = Some e) /\ i_n (snd r) = 1 /\ (j = 0 \/ 1 <= j)).
  { intros r ->. rewrite run_list_cons_running by reflexivity.
    destruct (exec F o [] ICreate d inst0) as [c1 i1] eqn:E1.
    assert (Hi1 : i1 = snd (exec F o [] ICreate d inst0)) by (rewrite E1; reflexivity).
    assert (Hn1 : i_n i1 = 1) by (rewrite Hi1; apply (exec_n F o [] ICreate d inst0); [intros e0; discriminate|reflexivity]).
    destruct (i_res i1) eqn:R1.
    - right. rewrite (run_list_finished F o [] [IAlter] (c1, i1) _ R1). simpl. split; [eexists; exact R1|]. split; [exact Hn1|lia].
    - left. rewrite run_list_cons_running by exact R1.
      assert (Hn2 : i_n (snd (exec F o [] IAlter c1 i1)) = 2)
        by (rewrite (exec_n F o [] IAlter c1 i1); [rewrite Hn1; reflexivity|intros e0; discriminate|exact R1]).
      assert (Hr2 : i_res (snd (exec F o [] IAlter c1 i1)) = None).
      { simpl. destruct (faulty F i1); simpl; [exact R1|]. destruct (sql_alter_vt c1); [destruct (can_autocommit_write [])|]; simpl; exact R1. }
      destruct (exec F o [] IAlter c1 i1) as [c2 i2]. simpl run_list. cbn [snd] in *.
      split; [exact Hr2|]. split; [exact Hn2|].
      intros ->. assert (Hf : i_res (snd (exec F o [] ICreate d inst0)) = Some (RErr DatabaseError))
        by (apply exec_fault_aborts; [discriminate|intros e0; discriminate|apply faulty_In; exact Hj]).
      rewrite <- Hi1, R1 in Hf. discriminate. }
  destruct (H2 _ eq_refl) as [[R2 [N2 J0]]|[[e R2] [N2 J0]]].
  - destruct (run_list F o [] [ICreate; IAlter] (d, inst0)) as [c2 i2]. cbn [snd] in *.
    assert (Hge : 2 <= j) by lia.
    (* the rest contains no IAlter: one list *)
    destruct (i_res (snd (run_list F o [] [IBegin; IReadMax; IReadIds] (c2, i2)))) eqn:R5.
    + apply run_list_stop; [intros [H|[H|[H|[]]]]; discriminate|exact Hj|exact R2|lia|exact Hlt].
    + assert (H5 : i_n (snd (run_list F o [] [IBegin; IReadMax; IReadIds] (c2, i2))) <= j).
      { destruct (le_lt_dec (i_n (snd (run_list F o [] [IBegin; IReadMax; IReadIds] (c2, i2)))) j) as [L|L]; [exact L|].
        pose proof (run_list_stop F o [] j [IBegin; IReadMax; IReadIds] c2 i2) as Hs.
        assert (Hhit : hit_inv F (snd (run_list F o [] [IBegin; IReadMax; IReadIds] (c2, i2)))).
        { apply run_list_hit; [intros [H|[H|[H|[]]]]; discriminate|].
          intros j0 Hj0 Hne Hl0. rewrite N2 in Hl0. pose proof (Hmin j0 Hj0 Hne). lia. }
        destruct (Hhit j Hj Hj1 L) as [e He]. rewrite R5 in He. discriminate. }
      destruct (run_list F o [] [IBegin; IReadMax; IReadIds] (c2, i2)) as [c5 i5]. cbn [snd] in *.
      apply run_list_stop; [apply plan_no_alter|exact Hj|exact R5|exact H5|exact Hlt].
  - (* ICreate failed: one call was made *)
    destruct (run_list F o [] [ICreate; IAlter] (d, inst0)) as [c2 i2]. cbn [snd] in *.
    rewrite (run_list_finished F o [] [IBegin; IReadMax; IReadIds] (c2, i2) _ R2) in *. cbn [snd] in *. rewrite R2 in *.
    cbn [snd] in *. lia.
Qed.
