(* Layer mig — migrating in two hops (first the migrations up to version k, later all of them) ends in the
   same database as migrating a fresh database in one go (C09: "the same schema as a fresh database
   migrated from zero", at the level of the committed statement list and the version rows). *)
From VV.MIG Require Import Spec Basics SeqP.
From Coq Require Import Lia.

Lemma ascending_cons : forall m r,
  (forall m', In m' r -> (m_version m < m_version m')%N) -> ascending r = true -> ascending (m :: r) = true.
Proof.
  intros m [|a r] H Hr; [reflexivity|]. simpl. apply andb_true_iff. split; [|exact Hr].
  apply N.ltb_lt. apply H. left. reflexivity.
Qed.

Lemma ascending_filter : forall f ms, ascending ms = true -> ascending (filter f ms) = true.
Proof.
  intros f ms. induction ms as [|m ms IH]; intros H; [reflexivity|].
  pose proof (ascending_tail _ _ H) as Ht. simpl. destruct (f m); [|apply IH; exact Ht].
  apply ascending_cons; [|apply IH; exact Ht].
  intros m' Hin. apply filter_In in Hin. destruct Hin as [Hin _]. eapply ascending_head_lt; eassumption.
Qed.

Lemma versions_u32_filter : forall f ms, versions_u32 ms = true -> versions_u32 (filter f ms) = true.
Proof.
  intros f ms H. unfold versions_u32 in *. rewrite forallb_forall in *. intros m Hm.
  apply filter_In in Hm. apply H. apply Hm.
Qed.

(* on an ascending list, two filters whose hits are ordered concatenate to the filter of the disjunction *)
Lemma filter_split : forall (P Q : mig -> bool) ms,
  ascending ms = true ->
  (forall a b, In a ms -> In b ms -> P a = true -> Q b = true -> (m_version a < m_version b)%N) ->
  filter P ms ++ filter Q ms = filter (fun m => P m || Q m) ms.
Proof.
  intros P Q ms. induction ms as [|m ms IH]; intros Ha Hord; [reflexivity|].
  pose proof (ascending_tail _ _ Ha) as Ht.
  assert (IH' : filter P ms ++ filter Q ms = filter (fun m => P m || Q m) ms).
  { apply IH; [exact Ht|]. intros a b Hia Hib. apply Hord; right; assumption. }
  simpl. destruct (P m) eqn:EP; simpl.
  - destruct (Q m) eqn:EQ.
    + exfalso. pose proof (Hord m m (or_introl eq_refl) (or_introl eq_refl) EP EQ). lia.
    + simpl. f_equal. exact IH'.
  - destruct (Q m) eqn:EQ; [|exact IH'].
    assert (Hnil : filter P ms = []).
    { destruct (filter P ms) as [|a l] eqn:Ef; [reflexivity|]. exfalso.
      assert (Hin : In a (filter P ms)) by (rewrite Ef; left; reflexivity).
      apply filter_In in Hin. destruct Hin as [Hin HPa].
      pose proof (Hord a m (or_intror Hin) (or_introl eq_refl) HPa EQ).
      pose proof (ascending_head_lt _ _ _ Ha Hin). lia. }
    rewrite Hnil in *. simpl in *. f_equal. exact IH'.
Qed.

Lemma filter_filter_and : forall {A} (f g : A -> bool) l, filter f (filter g l) = filter (fun x => f x && g x)%bool l.
Proof.
  intros A f g l. induction l as [|a l IH]; [reflexivity|]. simpl.
  destruct (g a); simpl; [destruct (f a); simpl; rewrite IH; reflexivity|].
  rewrite andb_false_r. exact IH.
Qed.

Lemma pending_two_hops : forall k ms, ascending ms = true ->
  pending 0 (applied_upto k ms) ++ pending (top 0 (applied_upto k ms)) ms = pending 0 ms.
Proof.
  intros k ms Ha. set (t := top 0 (applied_upto k ms)).
  assert (Ht : forall m, In m ms -> (m_version m <= k)%N -> (m_version m <= t)%N).
  { intros m Hin Hle. apply top_ge_all. unfold applied_upto. apply filter_In. split; [exact Hin|]. apply N.leb_le. exact Hle. }
  assert (Htk : (t <= k)%N).
  { unfold t. destruct (top_cases (applied_upto k ms) 0) as [->|[m [Hin [<- _]]]]; [lia|].
    unfold applied_upto in Hin. apply filter_In in Hin. destruct Hin as [_ H]. apply N.leb_le in H. exact H. }
  unfold pending at 1. unfold applied_upto. rewrite filter_filter_and.
  unfold pending.
  rewrite (filter_split (fun m => N.ltb 0 (m_version m) && N.leb (m_version m) k)%bool (fun m => N.ltb t (m_version m)) ms Ha).
  - apply filter_ext_in. intros m Hin.
    destruct (N.ltb_spec 0 (m_version m)); destruct (N.leb_spec (m_version m) k); destruct (N.ltb_spec t (m_version m)); simpl; try reflexivity; try lia.
  - intros a b Hia Hib Pa Qb. apply andb_true_iff in Pa. destruct Pa as [_ Pa]. apply N.leb_le in Pa. apply N.ltb_lt in Qb.
    specialize (Ht a Hia Pa). lia.
Qed.

Definition fresh : dbstate := mkDb None [].

Lemma rows_of_app : forall a b, rows_of (a ++ b) = rows_of a ++ rows_of b.
Proof. intros. unfold rows_of. apply map_app. Qed.
Lemma stmts_all_app : forall o a b, stmts_all o (a ++ b) = stmts_all o a ++ stmts_all o b.
Proof. intros. unfold stmts_all. rewrite map_app, concat_app. reflexivity. Qed.

Theorem run_equals_fresh : forall o ms k,
  ascending ms = true -> versions_u32 ms = true ->
  fst (run [] o ms (fst (run [] o (applied_upto k ms) fresh))) = fst (run [] o ms fresh).
Proof.
  intros o ms k Ha Hi.
  assert (Hf : at_version 0 fresh = true) by reflexivity.
  assert (Hnc : forall l, id_conflict l fresh = false).
  { intros l. unfold id_conflict. simpl. induction l; [reflexivity|exact IHl]. }
  pose proof (ascending_filter (fun m => N.leb (m_version m) k) ms Ha) as HaA.
  pose proof (versions_u32_filter (fun m => N.leb (m_version m) k) ms Hi) as HiA.
  fold (applied_upto k ms) in HaA, HiA.
  destruct (run_from_k o (applied_upto k ms) 0 fresh HaA Hf (Hnc _)) as [H1 _]. rewrite H1.
  pose proof (at_version_advanced o (applied_upto k ms) 0 fresh Hf HiA) as Hat.
  assert (Hnc1 : id_conflict ms (advanced o (pending 0 (applied_upto k ms)) fresh) = false).
  { apply no_conflict_advanced_sub; [exact Ha| |apply Hnc].
    intros m' Hin. apply pending_lt in Hin. destruct Hin as [Hin _].
    unfold applied_upto in Hin. apply filter_In in Hin. apply Hin. }
  destruct (run_from_k o ms _ _ Ha Hat Hnc1) as [H2 _]. rewrite H2.
  destruct (run_from_k o ms 0 fresh Ha Hf (Hnc _)) as [H3 _]. rewrite H3.
  rewrite <- (pending_two_hops k ms Ha).
  unfold advanced, bootstrap, db_rows, fresh; simpl.
  rewrite rows_of_app, stmts_all_app. reflexivity.
Qed.

(* ---------- at catalog level ---------- *)
(* the catalog effect of a statement list, for an ARBITRARY engine step function *)
Section Catalog.
Variable catalog : Type.
Variable apply_stmt : catalog -> string -> catalog.
Variable empty : catalog.

Definition catalog_of (l : list string) : catalog := fold_left apply_stmt l empty.

(* from version k the run extends the catalog of the database by exactly the pending statements *)
Theorem run_from_k_catalog : forall o ms k d,
  ascending ms = true -> at_version k d = true -> id_conflict ms d = false ->
  catalog_of (d_applied (fst (run [] o ms d))) =
  fold_left apply_stmt (stmts_all o (pending k ms)) (catalog_of (d_applied d)).
Proof.
  intros o ms k d Ha Hk Hf. destruct (run_from_k o ms k d Ha Hk Hf) as [H _]. rewrite H.
  unfold advanced, catalog_of; simpl. apply fold_left_app.
Qed.

(* running on the state produced by the migrations up to version k gives the catalog of a fresh run *)
Theorem run_equals_fresh_catalog : forall o ms k,
  ascending ms = true -> versions_u32 ms = true ->
  catalog_of (d_applied (fst (run [] o ms (fst (run [] o (applied_upto k ms) fresh))))) =
  catalog_of (d_applied (fst (run [] o ms fresh))).
Proof. intros o ms k Ha Hi. rewrite (run_equals_fresh o ms k Ha Hi). reflexivity. Qed.

(* ... which is the fold of the engine step over all statements of all migrations with version > 0, in order *)
Theorem fresh_catalog : forall o ms,
  ascending ms = true ->
  catalog_of (d_applied (fst (run [] o ms fresh))) = fold_left apply_stmt (stmts_all o (pending 0 ms)) empty.
Proof.
  intros o ms Ha.
  assert (Hnc : id_conflict ms fresh = false).
  { unfold id_conflict. simpl. induction ms; [reflexivity|]. simpl. apply IHms. eapply ascending_tail. exact Ha. }
  rewrite (run_from_k_catalog o ms 0 fresh Ha eq_refl Hnc). reflexivity.
Qed.
End Catalog.
