(* Layer mig — on histories without transaction control inside statements the extended semantics
   (MigratorX.v, what K-mig evaluates) is the semantics the C09-C11 theorems are about. *)
From VV.MIG Require Import Spec Basics.
From Coq Require Import Lia.

Lemma plan_x_plain : forall o ver ids ms, plain_ms o ms = true ->
  plan_x o ver ids ms = map XI (plan o ver ids ms).
Proof.
  intros o ver ids ms. induction ms as [|m ms IH]; intros H; simpl; [reflexivity|].
  simpl in H. apply andb_true_iff in H. destruct H as [Hm Hr].
  destruct (id_check ids m); [reflexivity|].
  destruct (N.ltb ver (m_version m)); [|apply IH; exact Hr].
  rewrite map_app. simpl. rewrite (IH Hr). f_equal.
  rewrite map_map. rewrite forallb_forall in Hm. apply map_ext_in. intros s Hs.
  unfold instr_of_stmt. specialize (Hm s Hs). apply negb_true_iff in Hm. rewrite Hm. reflexivity.
Qed.

(* the engine-level transaction stays open while the block runs *)
Lemma exec_txn_mono : forall F o oth x c i,
  i_res (snd (exec F o oth x c i)) = None -> (i_txn i = true \/ x = IBegin) ->
  i_txn (snd (exec F o oth x c i)) = true.
Proof.
  intros F o oth x c i.
  destruct x; unfold exec, acquire_reserved, acquire_shared;
    repeat match goal with
           | |- context [if ?b then _ else _] => destruct b; simpl
           | |- context [match ?e with _ => _ end] => destruct e; simpl
           end; intros H [H1|H1]; try discriminate; try assumption; try reflexivity.
Qed.

Definition txn_or_pre (x : instr) : bool := match x with IExec _ | IInsert _ _ | ICommit => false | _ => true end.

Lemma exec_x_XI : forall F o oth x c i, (i_txn i = true \/ txn_or_pre x = true) ->
  exec_x F o oth (XI x) c i = exec F o oth x c i.
Proof.
  intros F o oth x c i [H|H]; unfold exec_x; [rewrite H; reflexivity|].
  destruct (i_txn i); [reflexivity|]. destruct x; simpl in H; try discriminate; reflexivity.
Qed.

Lemma run_list_x_XI : forall F o oth l ci, i_txn (snd ci) = true ->
  run_list_x F o oth (map XI l) ci = run_list F o oth l ci.
Proof.
  intros F o oth l. induction l as [|x l IH]; intros [c i] Ht; cbn [map run_list_x run_list snd fst]; [reflexivity|].
  destruct (i_res i) eqn:E; [reflexivity|]. cbn [snd] in Ht.
  rewrite exec_x_XI by (left; exact Ht).
  destruct (i_res (snd (exec F o oth x c i))) eqn:E1.
  - rewrite (run_list_finished F o oth l _ _ E1).
    destruct l as [|y l]; cbn [map run_list_x]; [reflexivity|]. rewrite E1. reflexivity.
  - apply IH. apply exec_txn_mono; [exact E1|left; exact Ht].
Qed.

Lemma run_list_txn_open : forall F o oth l ci,
  (i_txn (snd ci) = true \/ In IBegin l) ->
  i_res (snd (run_list F o oth l ci)) = None -> i_txn (snd (run_list F o oth l ci)) = true.
Proof.
  intros F o oth l. induction l as [|x l IH]; intros [c i] Ht Hn.
  - simpl in *. destruct Ht as [Ht|[]]. exact Ht.
  - destruct (i_res i) eqn:E.
    + rewrite (run_list_finished F o oth (x :: l) (c, i) _ E) in Hn. simpl in Hn. rewrite E in Hn. discriminate.
    + rewrite run_list_cons_running in * by exact E.
      destruct (i_res (snd (exec F o oth x c i))) eqn:E1.
      * rewrite (run_list_finished F o oth l _ _ E1) in Hn. rewrite E1 in Hn. discriminate.
      * rewrite (surjective_pairing (exec F o oth x c i)) in *. apply IH; [|exact Hn].
        cbn [snd]. destruct Ht as [Ht|[Hx|Hin]].
        -- left. apply exec_txn_mono; [exact E1|left; exact Ht].
        -- left. apply exec_txn_mono; [exact E1|right; exact Hx].
        -- right. exact Hin.
Qed.

Lemma prelude_txn : forall F o d,
  i_res (snd (run_list F o [] prelude (d, inst0))) = None -> i_txn (snd (run_list F o [] prelude (d, inst0))) = true.
Proof.
  intros F o d Hn. apply run_list_txn_open; [|exact Hn]. right. unfold prelude. simpl. auto.
Qed.

Theorem run_x_plain : forall F o ms d, plain_ms o ms = true -> run_x F o ms d = run F o ms d.
Proof.
  intros F o ms d Hp. unfold run_x, run, run_from.
  destruct (i_res (snd (run_list F o [] prelude (d, inst0)))) eqn:E; [reflexivity|].
  rewrite (plan_x_plain o _ _ ms Hp). apply run_list_x_XI. apply prelude_txn. exact E.
Qed.

(* ---------- interleaved ---------- *)
Definition pre_cmd (x : instr) : Prop := x = ICreate \/ x = IAlter.
(* either the engine transaction is open, or BEGIN is still ahead and only the two bookkeeping calls precede it *)
Definition tinv (p : pinst) : Prop :=
  i_res (p_inst p) = None ->
  i_txn (p_inst p) = true \/ exists pre rest, p_todo p = pre ++ IBegin :: rest /\ Forall pre_cmd pre.

Lemma settle_lift : forall p, settle_x (lift_p p) = lift_p (settle p).
Proof.
  intros [i l F]. unfold settle_x, settle, lift_p; simpl. destruct (i_res i); [reflexivity|].
  destruct l as [|x l]; [reflexivity|]. destruct x; reflexivity.
Qed.

Lemma settle_tinv : forall p, tinv p -> tinv (settle p).
Proof.
  intros [i l F] H. unfold settle; simpl. destruct (i_res i) eqn:E; [exact H|].
  destruct l as [|x l]; [exact H|]. destruct x; try exact H.
  intros Hn. simpl in Hn. discriminate.
Qed.

Lemma pstep_bridge : forall o ms oth c p, plain_ms o ms = true -> tinv p ->
  pstep_x o ms oth c (lift_p p) = (fst (pstep o ms oth c p), lift_p (snd (pstep o ms oth c p))) /\
  tinv (snd (pstep o ms oth c p)).
Proof.
  intros o ms oth c [i l F] Hp Ht. unfold pstep_x, pstep, lift_p; cbn [px_inst px_todo px_faults p_inst p_todo p_faults].
  destruct (i_res i) eqn:E; [split; [reflexivity|exact Ht]|].
  destruct l as [|x l]; [split; [reflexivity|exact Ht]|]. cbn [map].
  assert (Hx : i_txn i = true \/ txn_or_pre x = true).
  { destruct (Ht E) as [H|[pre [rest [Hl Hpre]]]]; [left; exact H|]. right. simpl in Hl.
    destruct pre as [|y pre]; simpl in Hl; injection Hl as -> _; [reflexivity|].
    inversion Hpre as [|? ? [-> | ->] _]; reflexivity. }
  rewrite (exec_x_XI F o oth x c i Hx). cbv zeta.
  set (E1 := exec F o oth x c i).
  assert (Htodo : match i_res (snd E1) with
                  | Some _ => []
                  | None => match XI x with XI IReadIds => plan_x o (i_ver (snd E1)) (i_ids (snd E1)) ms | _ => map XI l end
                  end =
                  map XI (match i_res (snd E1) with
                          | Some _ => []
                          | None => match x with IReadIds => plan o (i_ver (snd E1)) (i_ids (snd E1)) ms | _ => l end
                          end)).
  { destruct (i_res (snd E1)); [reflexivity|]. destruct x; try reflexivity. apply plan_x_plain. exact Hp. }
  rewrite Htodo. split.
  - simpl fst. simpl snd. f_equal.
    exact (settle_lift (mkP (snd E1) _ F)).
  - apply settle_tinv. intros Hn. simpl in Hn. simpl p_inst. simpl p_todo. rewrite Hn.
    destruct (Ht E) as [H|[pre [rest [Hl Hpre]]]].
    + left. apply exec_txn_mono; [exact Hn|left; exact H].
    + simpl in Hl. destruct pre as [|y pre]; simpl in Hl; injection Hl as -> ->.
      * left. apply exec_txn_mono; [exact Hn|right; reflexivity].
      * right. inversion Hpre as [|? ? Hy Hpre']; subst.
        exists pre, rest. split; [|exact Hpre'].
        destruct Hy as [-> | ->]; reflexivity.
Qed.

Definition sinv (s : system) : Prop := forall p, In p (s_insts s) -> tinv p.

Lemma others_lift : forall pid l, map (fun q => i_lock (px_inst q)) (others_of pid (map lift_p l)) = map p_lock (others_of pid l).
Proof.
  intros pid l. revert pid. induction l as [|x l IH]; intros pid; destruct pid; simpl; try reflexivity.
  - rewrite map_map. reflexivity.
  - rewrite IH. reflexivity.
Qed.
Lemma set_nth_lift : forall pid p l, set_nth pid (lift_p p) (map lift_p l) = map lift_p (set_nth pid p l).
Proof. intros pid p l. revert pid. induction l as [|x l IH]; intros pid; destruct pid; simpl; try reflexivity. rewrite IH. reflexivity. Qed.
Lemma set_nth_In2 : forall {A} (l : list A) pid a q, In q (set_nth pid a l) -> q = a \/ In q l.
Proof.
  intros A l. induction l as [|x l IH]; intros pid a q H.
  - destruct pid; destruct H.
  - destruct pid as [|pid]; simpl in H.
    + destruct H as [<-|H]; [left; reflexivity|right; right; exact H].
    + destruct H as [<-|H]; [right; left; reflexivity|].
      destruct (IH _ _ _ H) as [E|E]; [left; exact E|right; right; exact E].
Qed.

Lemma sys_step_bridge : forall o ms s pid, plain_ms o ms = true -> sinv s ->
  sys_step_x o ms (lift_sys s) pid = lift_sys (sys_step o ms s pid) /\ sinv (sys_step o ms s pid).
Proof.
  intros o ms s pid Hp Hs. unfold sys_step_x, sys_step, lift_sys. simpl sx_insts. simpl sx_db.
  rewrite nth_error_map. destruct (nth_error (s_insts s) pid) as [p|] eqn:En; simpl; [|split; [reflexivity|exact Hs]].
  rewrite others_lift.
  destruct (pstep_bridge o ms (map p_lock (others_of pid (s_insts s))) (s_db s) p Hp (Hs p (nth_error_In _ _ En))) as [A B].
  rewrite A. simpl. split.
  - rewrite set_nth_lift. reflexivity.
  - intros q Hq. simpl in Hq. destruct (set_nth_In2 _ _ _ _ Hq) as [->|Hq']; [exact B|apply Hs; exact Hq'].
Qed.

Lemma steps_x_lift : forall o ms sched s, plain_ms o ms = true -> sinv s ->
  steps_x o ms sched (lift_sys s) = lift_sys (steps o ms sched s).
Proof.
  intros o ms sched. induction sched as [|pid sched IH]; intros s Hp Hi; [reflexivity|].
  unfold steps_x, steps in *. simpl.
  destruct (sys_step_bridge o ms s pid Hp Hi) as [A B]. rewrite A. apply IH; assumption.
Qed.

Theorem steps_x_plain : forall o ms sched fs d, plain_ms o ms = true ->
  steps_x o ms sched (init_sys_x fs d) = lift_sys (steps o ms sched (init_sys_faults fs d)).
Proof.
  intros o ms sched fs d Hp.
  assert (H0 : init_sys_x fs d = lift_sys (init_sys_faults fs d)).
  { unfold init_sys_x, init_sys_faults, lift_sys; simpl. rewrite map_map. reflexivity. }
  rewrite H0. apply steps_x_lift; [exact Hp|].
  intros p Hin. unfold init_sys_faults in Hin; simpl in Hin. apply in_map_iff in Hin. destruct Hin as [f [<- _]].
  intros _. right. exists [ICreate; IAlter], [IReadMax; IReadIds]. split; [reflexivity|].
  constructor; [left; reflexivity|]. constructor; [right; reflexivity|constructor].
Qed.
