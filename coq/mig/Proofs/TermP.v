(* Layer mig — every instance returns after a bounded number of its own scheduler steps, whatever the
   other instances do (C11: "each instance either succeeds or returns an error"). *)
From VV.MIG Require Import Spec Basics SeqP ConcP.
From Coq Require Import Lia.

Definition is_readids (x : instr) : bool := match x with IReadIds => true | _ => false end.

(* remaining work of an instance: its pending calls, plus the blocks not yet planned *)
Definition mu (o : opts) (ms : list mig) (p : pinst) : nat :=
  match i_res (p_inst p) with
  | Some _ => 0
  | None => if existsb is_readids (p_todo p) then List.length (p_todo p) + plan_bound o ms else List.length (p_todo p)
  end.

Lemma plan_length : forall o ver ids ms, List.length (plan o ver ids ms) <= plan_bound o ms.
Proof.
  intros o ver ids ms. unfold plan_bound. induction ms as [|m ms IH]; simpl; [lia|].
  destruct (id_check ids m); simpl; [lia|].
  destruct (N.ltb ver (m_version m)); [|lia].
  rewrite app_length, map_length. simpl. lia.
Qed.
Lemma plan_no_readids : forall o ver ids ms, existsb is_readids (plan o ver ids ms) = false.
Proof.
  intros o ver ids ms. induction ms as [|m ms IH]; simpl; [reflexivity|].
  destruct (id_check ids m); simpl; [reflexivity|].
  destruct (N.ltb ver (m_version m)); [|exact IH].
  rewrite existsb_app. simpl. rewrite IH, orb_false_r.
  induction (stmts_of o m) as [|s l IHl]; simpl; [reflexivity|exact IHl].
Qed.

Lemma settle_mu : forall o ms p, mu o ms (settle p) <= mu o ms p.
Proof.
  intros o ms p. unfold settle. destruct (i_res (p_inst p)) eqn:E; [lia|].
  destruct (p_todo p) as [|x r]; [lia|]. destruct x; try lia.
  unfold mu at 1. simpl. lia.
Qed.

Lemma pstep_mu : forall o ms oth c p,
  i_res (p_inst p) = None -> p_todo p <> [] ->
  mu o ms (snd (pstep o ms oth c p)) < mu o ms p.
Proof.
  intros o ms oth c p Hr Ht. unfold pstep. rewrite Hr.
  destruct (p_todo p) as [|x r] eqn:Et; [contradiction|]. cbv zeta. simpl snd.
  eapply Nat.le_lt_trans; [apply settle_mu|].
  set (E := exec (p_faults p) o oth x c (p_inst p)).
  unfold mu at 2. rewrite Hr, Et.
  unfold mu at 1. simpl p_inst. simpl p_todo.
  destruct (i_res (snd E)) eqn:E1.
  - destruct (existsb is_readids (x :: r)); simpl; lia.
  - destruct x; simpl existsb; simpl List.length;
      try (destruct (existsb is_readids r); simpl; lia).
    (* IReadIds: the blocks get planned *)
    rewrite plan_no_readids. pose proof (plan_length o (i_ver (snd E)) (i_ids (snd E)) ms). lia.
Qed.

(* ---------- lists ---------- *)
Lemma set_nth_same : forall {A} (l : list A) pid a p, nth_error l pid = Some p -> nth_error (set_nth pid a l) pid = Some a.
Proof.
  intros A l. induction l as [|x l IH]; intros pid a p H; destruct pid; simpl in *; try discriminate; [reflexivity|].
  eapply IH. exact H.
Qed.
Lemma set_nth_other : forall {A} (l : list A) q pid a, q <> pid -> nth_error (set_nth q a l) pid = nth_error l pid.
Proof.
  intros A l. induction l as [|x l IH]; intros q pid a H; destruct q, pid; simpl; try reflexivity.
  - exfalso. apply H. reflexivity.
  - apply IH. intros E. apply H. f_equal. exact E.
Qed.

Lemma set_nth_length : forall {A} (l : list A) pid a, List.length (set_nth pid a l) = List.length l.
Proof. intros A l. induction l as [|x l IH]; intros pid a; destruct pid; simpl; auto. Qed.
Lemma steps_length : forall o ms sched s, List.length (s_insts (steps o ms sched s)) = List.length (s_insts s).
Proof.
  intros o ms sched. induction sched as [|q r IH]; intros s; [reflexivity|].
  unfold steps in *. simpl. rewrite IH. unfold sys_step.
  destruct (nth_error (s_insts s) q); [|reflexivity]. simpl. apply set_nth_length.
Qed.

Definition rem (o : opts) (ms : list mig) (s : system) (pid : nat) : nat :=
  match nth_error (s_insts s) pid with Some p => mu o ms p | None => 0 end.

Lemma steps_app : forall o ms a b s, steps o ms (a ++ b) s = steps o ms b (steps o ms a s).
Proof. intros. unfold steps. apply fold_left_app. Qed.

Section Term.
Variables (o : opts) (ms : list mig) (k : N) (d : dbstate) (n : nat).
Hypothesis Hasc : ascending ms = true.
Hypothesis Hi32 : versions_u32 ms = true.
Hypothesis Hat : at_version k d = true.

Lemma step_rem : forall sched q pid,
  let s := steps o ms sched (init_sys n d) in
  rem o ms (sys_step o ms s q) pid <= rem o ms s pid - (if Nat.eqb q pid then 1 else 0).
Proof.
  intros sched q pid s. unfold sys_step.
  destruct (nth_error (s_insts s) q) as [p|] eqn:En.
  - destruct (Nat.eqb_spec q pid) as [->|Hne].
    + unfold rem. simpl s_insts. rewrite (set_nth_same _ _ _ _ En), En.
      pose proof (instances_ok_or_err o ms k d Hasc Hi32 Hat n sched p (nth_error_In' _ _ _ En)) as Hp.
      fold s in Hp.
      destruct (i_res (p_inst p)) eqn:Er.
      * unfold pstep. rewrite Er. simpl. unfold mu. rewrite Er. lia.
      * pose proof (pstep_mu o ms (map p_lock (others_of pid (s_insts s))) (s_db s) p Er Hp). lia.
    + unfold rem. simpl s_insts. rewrite (set_nth_other _ _ _ _ Hne). lia.
  - destruct (Nat.eqb_spec q pid) as [->|Hne]; [unfold rem; rewrite En; lia|lia].
Qed.

Lemma steps_rem : forall sched2 sched1 pid,
  rem o ms (steps o ms (sched1 ++ sched2) (init_sys n d)) pid
  <= rem o ms (steps o ms sched1 (init_sys n d)) pid - count_occ Nat.eq_dec sched2 pid.
Proof.
  induction sched2 as [|q r IH]; intros sched1 pid.
  - rewrite app_nil_r. simpl. lia.
  - replace (sched1 ++ q :: r) with ((sched1 ++ [q]) ++ r) by (rewrite <- app_assoc; reflexivity).
    specialize (IH (sched1 ++ [q]) pid).
    assert (Hq : steps o ms (sched1 ++ [q]) (init_sys n d) = sys_step o ms (steps o ms sched1 (init_sys n d)) q)
      by (rewrite steps_app; reflexivity).
    rewrite Hq in IH.
    pose proof (step_rem sched1 q pid) as Hs. cbv zeta in Hs.
    simpl count_occ. destruct (Nat.eq_dec q pid) as [->|Hne].
    + rewrite Nat.eqb_refl in Hs. lia.
    + destruct (Nat.eqb_spec q pid); [contradiction|]. lia.
Qed.

Theorem instance_terminates_sec : forall sched pid,
  pid < n -> steps_bound o ms <= count_occ Nat.eq_dec sched pid ->
  exists p, nth_error (s_insts (steps o ms sched (init_sys n d))) pid = Some p /\ finished p = true.
Proof.
  intros sched pid Hpid Hcount.
  pose proof (steps_rem sched [] pid) as H. simpl app in H.
  assert (Hinit : rem o ms (steps o ms [] (init_sys n d)) pid = steps_bound o ms).
  { unfold rem, steps, init_sys. simpl. rewrite (nth_error_repeat pinst0 Hpid). reflexivity. }
  rewrite Hinit in H.
  assert (Hz : rem o ms (steps o ms sched (init_sys n d)) pid = 0) by lia.
  unfold rem in Hz.
  destruct (nth_error (s_insts (steps o ms sched (init_sys n d))) pid) as [p|] eqn:En.
  - exists p. split; [reflexivity|].
    pose proof (instances_ok_or_err o ms k d Hasc Hi32 Hat n sched p (nth_error_In' _ _ _ En)) as Hp.
    unfold finished. unfold mu in Hz. destruct (i_res (p_inst p)); [reflexivity|].
    exfalso. destruct (p_todo p) as [|x r]; [apply Hp; reflexivity|].
    destruct (existsb is_readids (x :: r)); simpl in Hz; lia.
  - exfalso. apply nth_error_None in En. rewrite steps_length in En. unfold init_sys in En. simpl in En.
    rewrite repeat_length in En. lia.
Qed.
End Term.

Theorem instance_terminates : forall o ms k d n sched pid,
  ascending ms = true -> versions_u32 ms = true -> at_version k d = true ->
  pid < n -> steps_bound o ms <= count_occ Nat.eq_dec sched pid ->
  exists p, nth_error (s_insts (steps o ms sched (init_sys n d))) pid = Some p /\ finished p = true.
Proof. intros o ms k d n sched pid Ha Hi Hk. exact (instance_terminates_sec o ms k d n Ha Hi Hk sched pid). Qed.
