(* Layer mig — C14 at runtime level: the table prefix of the configuration reaches the generated block only
   through the name of the version table, which it prefixes literally — the default name and an explicit
   `version_table = "…"` alike (lib.rs:369-372).  The user statements arrive already prefixed (compile time,
   MigrationPlan::with_prefix, layers m1 / sql).  Everything else the block does is independent of the prefix. *)
From VV.MIG Require Import Spec.

Lemma apply_prefix_literal : forall p t, apply_prefix p t = p +++ t.
Proof. intros p t. unfold apply_prefix. destruct (String.eqb_spec p ""); [subst; reflexivity|reflexivity]. Qed.

Theorem vt_name_prefixed : forall b p vt v, vt_name (mkOpts b p vt v) = p +++ vt_name (mkOpts b "" vt v).
Proof. intros b p vt v. unfold vt_name; simpl. rewrite !apply_prefix_literal. reflexivity. Qed.

(* forget the SQL texts of a call log / an instance *)
Definition erase_ev (e : ev) : ev :=
  match e with
  | EPoolExec _ ok => EPoolExec "" ok | EBegin ok => EBegin ok | EQueryOne _ ok => EQueryOne "" ok
  | EQueryAll _ ok => EQueryAll "" ok | ETxnExec _ ok => ETxnExec "" ok | ECommit ok => ECommit ok
  end.
Definition erase (i : inst) : inst :=
  mkInst (i_res i) (i_txn i) (i_buf i) (i_lock i) (i_ver i) (i_ids i) (map erase_ev (i_log i)) (i_n i).

(* [exec] never reads the log, and reads the options only to build the texts it logs *)
Lemma exec_erase : forall F o1 o2 oth x c i1 i2, erase i1 = erase i2 ->
  fst (exec F o1 oth x c i1) = fst (exec F o2 oth x c i2) /\
  erase (snd (exec F o1 oth x c i1)) = erase (snd (exec F o2 oth x c i2)).
Proof.
  intros F o1 o2 oth x c [r1 t1 b1 l1 v1 d1 g1 n1] [r2 t2 b2 l2 v2 d2 g2 n2] H.
  unfold erase in H; simpl in H. injection H as -> -> -> -> -> -> Hg ->.
  destruct x; unfold exec, faulty, acquire_reserved, acquire_shared, view, emit, fail_run, set_buf, erase; simpl;
    repeat match goal with
           | |- context [if ?b then _ else _] => destruct b; simpl
           | |- context [match ?e with _ => _ end] => destruct e; simpl
           end; rewrite ?map_app, ?Hg; simpl; split; reflexivity.
Qed.

Lemma run_list_erase : forall F o1 o2 oth l c i1 i2, erase i1 = erase i2 ->
  fst (run_list F o1 oth l (c, i1)) = fst (run_list F o2 oth l (c, i2)) /\
  erase (snd (run_list F o1 oth l (c, i1))) = erase (snd (run_list F o2 oth l (c, i2))).
Proof.
  intros F o1 o2 oth l. induction l as [|x l IH]; intros c i1 i2 H; simpl; [split; [reflexivity|exact H]|].
  assert (Hr : i_res i1 = i_res i2) by (apply (f_equal i_res) in H; exact H).
  rewrite Hr. destruct (i_res i2); [split; [reflexivity|exact H]|].
  destruct (exec_erase F o1 o2 oth x c i1 i2 H) as [A B].
  destruct (exec F o1 oth x c i1) as [c1 j1]. destruct (exec F o2 oth x c i2) as [c2 j2]. simpl in A, B. subst c2.
  apply IH. exact B.
Qed.

Lemma plan_prefix : forall b p1 p2 vt v ver ids ms,
  plan (mkOpts b p1 vt v) ver ids ms = plan (mkOpts b p2 vt v) ver ids ms.
Proof.
  intros b p1 p2 vt v ver ids ms. induction ms as [|m ms IH]; simpl; [reflexivity|]. rewrite IH. reflexivity.
Qed.

(* the committed database, the result, the read version / ids, and the call log up to the SQL texts do not
   depend on the prefix; the texts of the bookkeeping statements name prefix + table (vt_name_prefixed) *)
Theorem run_prefix_independent : forall F b p vt v ms d,
  fst (run F (mkOpts b p vt v) ms d) = fst (run F (mkOpts b "" vt v) ms d) /\
  erase (snd (run F (mkOpts b p vt v) ms d)) = erase (snd (run F (mkOpts b "" vt v) ms d)).
Proof.
  intros F b p vt v ms d. unfold run, run_from.
  destruct (run_list_erase F (mkOpts b p vt v) (mkOpts b "" vt v) [] prelude d inst0 inst0 eq_refl) as [A B].
  destruct (run_list F (mkOpts b p vt v) [] prelude (d, inst0)) as [c1 i1].
  destruct (run_list F (mkOpts b "" vt v) [] prelude (d, inst0)) as [c2 i2]. simpl in A, B. subst c2.
  simpl snd. assert (Hr : i_res i1 = i_res i2) by (apply (f_equal i_res) in B; exact B).
  rewrite Hr. destruct (i_res i2); [split; [reflexivity|exact B]|].
  assert (Hv : i_ver i1 = i_ver i2) by (apply (f_equal i_ver) in B; exact B).
  assert (Hd : i_ids i1 = i_ids i2) by (apply (f_equal i_ids) in B; exact B).
  rewrite Hv, Hd, (plan_prefix b p "" vt v). apply run_list_erase. exact B.
Qed.
