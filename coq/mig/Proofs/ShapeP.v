(* Layer mig — the verbose and the non-verbose code shape issue the same statements (lib.rs:82-231). *)
From VV.MIG Require Import Spec.
From Coq Require Import Lia.

Lemma filter_concat : forall {A} (f : A -> bool) (ll : list (list A)),
  filter f (List.concat ll) = List.concat (map (filter f) ll).
Proof.
  intros A f ll. induction ll as [|l ll IH]; simpl; [reflexivity|]. rewrite filter_app, IH. reflexivity.
Qed.

Lemma padded_nil : forall n s, filter nonempty (map (fun i => nth i ([] : list string) "") (seq s n)) = [].
Proof.
  induction n as [|n IH]; intros s; simpl; [reflexivity|].
  destruct s; simpl; apply IH.
Qed.

Lemma padded_filter : forall (l : list string) n,
  List.length l <= n -> filter nonempty (map (fun i => nth i l "") (seq 0 n)) = filter nonempty l.
Proof.
  induction l as [|a l IH]; intros n Hn.
  - apply padded_nil.
  - destruct n as [|n]; [simpl in Hn; lia|].
    simpl seq. simpl map. rewrite <- seq_shift, map_map. simpl.
    rewrite (IH n) by (simpl in Hn; lia). reflexivity.
Qed.

Lemma verbose_action_filter : forall b a, verbose_action b a = filter nonempty (sel b a).
Proof.
  intros b a. unfold verbose_action. apply padded_filter.
  unfold max3. destruct b; simpl; lia.
Qed.

Theorem verbose_same_log : forall b m, verbose_stmts b m = flat_stmts b m.
Proof.
  intros b m. unfold verbose_stmts, flat_stmts. rewrite filter_concat, map_map.
  f_equal. apply map_ext. intros a. apply verbose_action_filter.
Qed.

Corollary stmts_of_verbose_irrelevant : forall b p vt v1 v2 m,
  stmts_of (mkOpts b p vt v1) m = stmts_of (mkOpts b p vt v2) m.
Proof.
  intros b p vt v1 v2 m. unfold stmts_of; simpl. destruct v1, v2; try reflexivity;
  [apply verbose_same_log | symmetry; apply verbose_same_log].
Qed.

(* ---------- ... and the same failure behaviour: the whole run is the same function ---------- *)
Lemma exec_verbose : forall F b p vt v1 v2 oth x c i,
  exec F (mkOpts b p vt v1) oth x c i = exec F (mkOpts b p vt v2) oth x c i.
Proof. intros. destruct x; reflexivity. Qed.

Lemma run_list_verbose : forall F b p vt v1 v2 oth l ci,
  run_list F (mkOpts b p vt v1) oth l ci = run_list F (mkOpts b p vt v2) oth l ci.
Proof.
  intros F b p vt v1 v2 oth l. induction l as [|x l IH]; intros ci; simpl; [reflexivity|].
  destruct (i_res (snd ci)); [reflexivity|]. rewrite (exec_verbose F b p vt v1 v2). apply IH.
Qed.

Lemma plan_verbose : forall b p vt v1 v2 ver ids ms,
  plan (mkOpts b p vt v1) ver ids ms = plan (mkOpts b p vt v2) ver ids ms.
Proof.
  intros b p vt v1 v2 ver ids ms. induction ms as [|m ms IH]; simpl; [reflexivity|].
  rewrite IH. rewrite (stmts_of_verbose_irrelevant b p vt v1 v2 m). reflexivity.
Qed.

(* for every fault set: committed database, result and complete call log coincide *)
Theorem verbose_same_result : forall F b p vt ms d,
  run F (mkOpts b p vt true) ms d = run F (mkOpts b p vt false) ms d.
Proof.
  intros F b p vt ms d. unfold run, run_from.
  rewrite (run_list_verbose F b p vt true false [] prelude).
  destruct (i_res (snd (run_list F (mkOpts b p vt false) [] prelude (d, inst0)))); [reflexivity|].
  rewrite (plan_verbose b p vt true false). apply run_list_verbose.
Qed.

(* ... also under contention: the interleaved system steps identically *)
Theorem verbose_same_steps : forall b p vt ms sched s,
  steps (mkOpts b p vt true) ms sched s = steps (mkOpts b p vt false) ms sched s.
Proof.
  intros b p vt ms sched. unfold steps. induction sched as [|pid sched IH]; intros s; simpl; [reflexivity|].
  assert (E : sys_step (mkOpts b p vt true) ms s pid = sys_step (mkOpts b p vt false) ms s pid).
  { unfold sys_step. destruct (nth_error (s_insts s) pid) as [q|]; [|reflexivity].
    unfold pstep. destruct (i_res (p_inst q)); [reflexivity|]. destruct (p_todo q) as [|x r]; [reflexivity|].
    rewrite (exec_verbose (p_faults q) b p vt true false). cbv zeta.
    rewrite (plan_verbose b p vt true false). reflexivity. }
  rewrite E. apply IH.
Qed.
