(* Layer mig — the verbose and the non-verbose code shape issue the same statements (lib.rs:82-231). *)
From VV.MIG Require Import Spec.
From Coq Require Import Lia.

Lemma filter_concat : forall {A} (f : A -> bool) (ll : list (list A)),
  filter f (List.concat ll) = List.concat (map (filter f) ll).
Proof.
  intros A f ll. induction ll as [|l ll IH]; simpl; [reflexivity|]. rewrite filter_app, IH. reflexivity.
Qed.

Lemma padded_nil : forall n s, filter nonempty (map (fun i => nth i ([] : list string) "") (seq s n)) = [].
Proof.
  induction n as [|n IH]; intros s; simpl; [reflexivity|].
  destruct s; simpl; apply IH.
Qed.

Lemma padded_filter : forall (l : list string) n,
  List.length l <= n -> filter nonempty (map (fun i => nth i l "") (seq 0 n)) = filter nonempty l.
Proof.
  induction l as [|a l IH]; intros n Hn.
  - apply padded_nil.
  - destruct n as [|n]; [simpl in Hn; lia|].
    simpl seq. simpl map. rewrite <- seq_shift, map_map. simpl.
    rewrite (IH n) by (simpl in Hn; lia). reflexivity.
Qed.

Lemma verbose_action_filter : forall b a, verbose_action b a = filter nonempty (sel b a).
Proof.
  intros b a. unfold verbose_action. apply padded_filter.
  unfold max3. destruct b; simpl; lia.
Qed.

Theorem verbose_same_log : forall b m, verbose_stmts b m = flat_stmts b m.
Proof.
  intros b m. unfold verbose_stmts, flat_stmts. rewrite filter_concat, map_map.
  f_equal. apply map_ext. intros a. apply verbose_action_filter.
Qed.

Corollary stmts_of_verbose_irrelevant : forall b p vt v1 v2 m,
  stmts_of (mkOpts b p vt v1) m = stmts_of (mkOpts b p vt v2) m.
Proof.
  intros b p vt v1 v2 m. unfold stmts_of; simpl. destruct v1, v2; try reflexivity;
  [apply verbose_same_log | symmetry; apply verbose_same_log].
Qed.
