(* Layer mig — general lemmas about [exec] / [run_list] used by the C09-C11 proofs. *)
From VV.MIG Require Import Spec.
From Coq Require Import Lia.

Global Opaque create_sql alter_sql select_max_sql select_ids_sql insert_sql.

(* ---------- run_list ---------- *)
Lemma run_list_finished : forall F o oth l ci r,
  i_res (snd ci) = Some r -> run_list F o oth l ci = ci.
Proof. intros F o oth l ci r H. destruct l; simpl; [reflexivity | rewrite H; reflexivity]. Qed.

Lemma run_list_app : forall F o oth l1 l2 ci,
  run_list F o oth (l1 ++ l2) ci = run_list F o oth l2 (run_list F o oth l1 ci).
Proof.
  intros F o oth l1. induction l1 as [|x l1 IH]; intros l2 ci; simpl; [reflexivity|].
  destruct (i_res (snd ci)) eqn:E.
  - symmetry. eapply run_list_finished. exact E.
  - apply IH.
Qed.

Lemma run_list_cons_running : forall F o oth x l c i,
  i_res i = None -> run_list F o oth (x :: l) (c, i) = run_list F o oth l (exec F o oth x c i).
Proof. intros. simpl. rewrite H. reflexivity. Qed.

(* ---------- no faults, nobody else ---------- *)
Lemma faulty_nil : forall i, faulty [] i = false.
Proof. reflexivity. Qed.

Definition up (l : lock) : lock := if lock_leb Reserved l then l else Reserved.
Lemma up_up : forall l, up (up l) = up l.
Proof. destruct l; reflexivity. Qed.
Lemma up_reserved : forall l, lock_leb Reserved (up l) = true.
Proof. destruct l; reflexivity. Qed.

Definition with_exec (i : inst) (b : dbstate) (l : lock) (evs : list ev) (n : nat) : inst :=
  mkInst (i_res i) (i_txn i) (Some b) l (i_ver i) (i_ids i) (i_log i ++ evs) (i_n i + n).

Lemma with_exec_nil : forall i b, i_buf i = Some b -> with_exec i b (i_lock i) [] 0 = i.
Proof. intros i b H. destruct i; simpl in *. unfold with_exec; simpl. rewrite app_nil_r, Nat.add_0_r, H. reflexivity. Qed.

Lemma exec_IExec_ok : forall o s c i b,
  i_buf i = Some b ->
  exec [] o [] (IExec s) c i = (c, with_exec i (push_stmt b s) (up (i_lock i)) [ETxnExec s true] 1).
Proof.
  intros o s c i b Hb. unfold exec. rewrite faulty_nil.
  unfold acquire_reserved, acquire_shared. rewrite Hb.
  unfold up. destruct (lock_leb Reserved (i_lock i)) eqn:E.
  - unfold view, set_buf, emit, with_exec; simpl. rewrite Hb. rewrite Nat.add_1_r. reflexivity.
  - simpl. unfold view, set_buf, emit, with_exec; simpl. rewrite Hb. rewrite Nat.add_1_r. reflexivity.
Qed.

Definition lock_after {A} (ss : list A) (l : lock) : lock := match ss with [] => l | _ => up l end.

Lemma exec_stmts : forall o ss c i b,
  i_res i = None -> i_buf i = Some b ->
  run_list [] o [] (map IExec ss) (c, i) =
  (c, with_exec i (mkDb (d_vt b) (d_applied b ++ ss)) (lock_after ss (i_lock i)) (map (fun s => ETxnExec s true) ss) (List.length ss)).
Proof.
  intros o ss. induction ss as [|s ss IH]; intros c i b Hr Hb.
  - simpl. f_equal. destruct b as [vt ap]; simpl. rewrite app_nil_r.
    symmetry. apply (with_exec_nil i (mkDb vt ap)). exact Hb.
  - simpl map. rewrite run_list_cons_running by exact Hr.
    rewrite (exec_IExec_ok o s c i b Hb).
    rewrite (IH c _ (push_stmt b s)); [| exact Hr | reflexivity].
    f_equal. unfold with_exec, push_stmt; simpl.
    f_equal.
    + f_equal. f_equal. rewrite <- app_assoc. reflexivity.
    + destruct ss; simpl; [reflexivity | apply up_up].
    + rewrite <- app_assoc. reflexivity.
    + lia.
Qed.

(* ---------- version-table arithmetic ---------- *)
Lemma insert_row_append : forall v id rows,
  (forall r, In r rows -> (fst r < v)%Z) -> insert_row v id rows = rows ++ [(v, id)].
Proof.
  intros v id rows. induction rows as [|[w j] rows IH]; intros H; simpl; [reflexivity|].
  assert (Hw : (w < v)%Z) by (apply (H (w, j)); left; reflexivity).
  destruct (Z.ltb_spec v w); [lia|]. f_equal. apply IH. intros r Hr. apply H. right. exact Hr.
Qed.

Lemma has_version_false : forall v rows,
  (forall r, In r rows -> (fst r < v)%Z) -> has_version v rows = false.
Proof.
  intros v rows. induction rows as [|[w j] rows IH]; intros H; simpl; [reflexivity|].
  assert (Hw : (w < v)%Z) by (apply (H (w, j)); left; reflexivity).
  destruct (Z.eqb_spec v w); [lia|]. simpl. apply IH. intros r Hr. apply H. right. exact Hr.
Qed.

Lemma has_version_In : forall v rows, has_version v rows = true -> exists id, In (v, id) rows.
Proof.
  intros v rows. induction rows as [|[w j] rows IH]; simpl; intros H; [discriminate|].
  apply orb_true_iff in H. destruct H as [H|H].
  - apply Z.eqb_eq in H. subst. exists j. left. reflexivity.
  - destruct (IH H) as [id Hid]. exists id. right. exact Hid.
Qed.

Lemma exec_IInsert_ok : forall o v id c i b rows,
  i_buf i = Some b -> d_vt b = Some (mkVt true rows) ->
  (forall r, In r rows -> (fst r < Z.of_N v)%Z) ->
  exec [] o [] (IInsert v id) c i =
  (c, with_exec i (mkDb (Some (mkVt true (rows ++ [(Z.of_N v, id)]))) (d_applied b)) (up (i_lock i))
        [ETxnExec (insert_sql o v id) true] 1).
Proof.
  intros o v id c i b rows Hb Hvt Hlt. unfold exec. rewrite faulty_nil.
  unfold acquire_reserved, acquire_shared. rewrite Hb.
  assert (Hins : forall i1, i_buf i1 = Some b ->
            sql_insert_version (Z.of_N v) id (view c i1) = EngOk (mkDb (Some (mkVt true (rows ++ [(Z.of_N v, id)]))) (d_applied b))).
  { intros i1 H1. unfold view. rewrite H1. unfold sql_insert_version. rewrite Hvt. simpl.
    rewrite (has_version_false _ _ Hlt). rewrite (insert_row_append _ _ _ Hlt). reflexivity. }
  unfold up. destruct (lock_leb Reserved (i_lock i)) eqn:E.
  - rewrite (Hins i Hb). unfold set_buf, emit, with_exec; simpl. rewrite Nat.add_1_r. reflexivity.
  - simpl. rewrite Hins by (simpl; exact Hb). unfold set_buf, emit, with_exec; simpl. rewrite Nat.add_1_r. reflexivity.
Qed.

(* ---------- what can change the committed database ---------- *)
Lemma exec_db : forall F o oth x c i,
  fst (exec F o oth x c i) = c
  \/ (x = ICreate /\ fst (exec F o oth x c i) = sql_create_vt c)
  \/ (x = IAlter /\ sql_alter_vt c = EngOk (fst (exec F o oth x c i)))
  \/ (x = ICommit /\ i_res (snd (exec F o oth x c i)) = Some ROk).
Proof.
  intros F o oth x c i. destruct x; simpl.
  - destruct (faulty F i); [left; reflexivity|].
    destruct (create_is_write c).
    + destruct (can_autocommit_write oth); [right; left; split; reflexivity | left; reflexivity].
    + destruct (can_shared oth); left; reflexivity.
  - destruct (faulty F i); [left; reflexivity|].
    destruct (sql_alter_vt c) eqn:E; [|left; reflexivity].
    destruct (can_autocommit_write oth); [right; right; left; split; reflexivity | left; reflexivity].
  - destruct (faulty F i); left; reflexivity.
  - destruct (faulty F i); [left; reflexivity|].
    destruct (acquire_shared oth c i); [|left; reflexivity].
    destruct (sql_select_max (view c i0)); left; reflexivity.
  - destruct (faulty F i); [left; reflexivity|].
    destruct (acquire_shared oth c i); [|left; reflexivity].
    destruct (sql_select_ids (view c i0)); left; reflexivity.
  - destruct (faulty F i); [left; reflexivity|].
    destruct (acquire_reserved oth c i); left; reflexivity.
  - destruct (faulty F i); [left; reflexivity|].
    destruct (acquire_reserved oth c i); [|left; reflexivity].
    destruct (sql_insert_version (Z.of_N v) id (view c i0)); left; reflexivity.
  - destruct (faulty F i); [left; reflexivity|].
    destruct (lock_leb Reserved (i_lock i)).
    + destruct (can_exclusive oth); [right; right; right; split; reflexivity | left; reflexivity].
    + right; right; right. split; reflexivity.
  - left; reflexivity.
Qed.

(* results an instruction can produce *)
Definition res_plain (r : option outcome) : Prop := r = None \/ r = Some ROk \/ r = Some (RErr DatabaseError).

Lemma exec_res_plain : forall F o oth x c i,
  (forall e, x <> IFail e) -> i_res i = None -> res_plain (i_res (snd (exec F o oth x c i))).
Proof.
  intros F o oth x c i Hx Hi. unfold res_plain.
  destruct x; simpl.
  - destruct (faulty F i); [right; right; reflexivity|].
    destruct (create_is_write c).
    + destruct (can_autocommit_write oth); simpl; auto.
    + destruct (can_shared oth); simpl; auto.
  - destruct (faulty F i); simpl; auto.
    destruct (sql_alter_vt c); [destruct (can_autocommit_write oth)|]; simpl; auto.
  - destruct (faulty F i); simpl; auto.
  - destruct (faulty F i); simpl; auto.
    unfold acquire_shared. destruct (i_buf i) eqn:Eb.
    + destruct (sql_select_max (view c i)); simpl; auto.
    + destruct (can_shared oth); simpl; auto.
      destruct (sql_select_max (view c (set_buf i c Shared))); simpl; auto.
  - destruct (faulty F i); simpl; auto.
    unfold acquire_shared. destruct (i_buf i) eqn:Eb.
    + destruct (sql_select_ids (view c i)); simpl; auto.
    + destruct (can_shared oth); simpl; auto.
      destruct (sql_select_ids (view c (set_buf i c Shared))); simpl; auto.
  - destruct (faulty F i); simpl; auto.
    unfold acquire_reserved, acquire_shared. destruct (i_buf i) eqn:Eb.
    + destruct (lock_leb Reserved (i_lock i)); simpl; auto.
      destruct (can_reserved oth); simpl; auto.
    + destruct (can_shared oth); simpl; auto.
      destruct (can_reserved oth); simpl; auto.
  - destruct (faulty F i); simpl; auto.
    unfold acquire_reserved, acquire_shared. destruct (i_buf i) eqn:Eb.
    + destruct (lock_leb Reserved (i_lock i)); simpl.
      * destruct (sql_insert_version (Z.of_N v) id (view c i)); simpl; auto.
      * destruct (can_reserved oth); simpl; auto.
        match goal with |- context [sql_insert_version ?a ?b ?c] => destruct (sql_insert_version a b c) end; simpl; auto.
    + destruct (can_shared oth); simpl; auto.
      destruct (can_reserved oth); simpl; auto.
      match goal with |- context [sql_insert_version ?a ?b ?c] => destruct (sql_insert_version a b c) end; simpl; auto.
  - destruct (faulty F i); simpl; auto.
    destruct (lock_leb Reserved (i_lock i)); [destruct (can_exclusive oth)|]; simpl; auto.
  - exfalso. apply (Hx e). reflexivity.
Qed.
