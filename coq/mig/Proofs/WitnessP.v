(* Layer mig — the one corner the repaired code leaves (closed by computation): a version-table value
   outside the u32 range — which the migrator never writes — is read modulo 2^32 (`as u32`, lib.rs:302/320). *)
From VV.MIG Require Import Spec.

Definition wrap_o : opts := mkOpts Sqlite "" None false.
Definition wrap_ms : list mig :=
  [mkMig 1 "a" [mkAct [] [] ["CREATE TABLE t (id integer)"]]; mkMig 2 "b" [mkAct [] [] ["ALTER TABLE t ADD COLUMN a text"]]].
(* a foreign row with version 2^32 + 1 and no id *)
Definition wrap_d : dbstate := mkDb (Some (mkVt true [(4294967297%Z, "")])) [].

Lemma tampered_version_wraps : exists o ms d,
  ascending ms = true /\ versions_u32 ms = true /\ rows_u32 d = false /\
  i_res (snd (run [] o ms d)) = Some ROk /\
  txn_execs (i_log (snd (run [] o ms d))) =
    ["ALTER TABLE t ADD COLUMN a text"; "INSERT INTO ""vespertide_version"" (version, id) VALUES (2, 'b')"].
Proof. exists wrap_o, wrap_ms, wrap_d. vm_compute. repeat split. Qed.

(* a raw_sql script with a bare COMMIT / END ends the migrator's own transaction (extended semantics
   MigratorX.v, validated against libsqlite3 by K-mig on corpus/mig/h10_txn_bare): the start returns Err —
   nothing injected — although it changed the database *)
Definition bare_ms : list mig :=
  [mkMig 1 "a" [mkAct [] [] ["CREATE TABLE ba (id integer)"]];
   mkMig 2 "b" [mkAct [] [] ["CREATE TABLE b_c (x INTEGER); COMMIT;"]];
   mkMig 3 "c" [mkAct [] [] ["ALTER TABLE ba ADD COLUMN b text"]]].

Lemma raw_end_breaks_atomicity_refuted : exists o ms d,
  existsb (fun m => existsb breaks_out (stmts_of o m)) ms = true /\
  i_res (snd (run_x [] o ms d)) = Some (RErr DatabaseError) /\
  d_applied (fst (run_x [] o ms d)) = ["CREATE TABLE ba (id integer)"; "CREATE TABLE b_c (x INTEGER)"; "ALTER TABLE ba ADD COLUMN b text"] /\
  db_rows (fst (run_x [] o ms d)) = [(1%Z, "a"); (2%Z, "b"); (3%Z, "c")].
Proof. exists (mkOpts Sqlite "" None false), bare_ms, (mkDb None []). vm_compute. repeat split. Qed.
