(* Layer mig — the one corner the repaired code leaves (closed by computation): a version-table value
   outside the u32 range — which the migrator never writes — is read modulo 2^32 (`as u32`, lib.rs:302/320). *)
From VV.MIG Require Import Spec.

Definition wrap_o : opts := mkOpts Sqlite "" None false.
Definition wrap_ms : list mig :=
  [mkMig 1 "a" [mkAct [] [] ["CREATE TABLE t (id integer)"]]; mkMig 2 "b" [mkAct [] [] ["ALTER TABLE t ADD COLUMN a text"]]].
(* a foreign row with version 2^32 + 1 and no id *)
Definition wrap_d : dbstate := mkDb (Some (mkVt true [(4294967297%Z, "")])) [].

Lemma tampered_version_wraps : exists o ms d,
  ascending ms = true /\ versions_u32 ms = true /\ rows_u32 d = false /\
  i_res (snd (run [] o ms d)) = Some ROk /\
  txn_execs (i_log (snd (run [] o ms d))) =
    ["ALTER TABLE t ADD COLUMN a text"; "INSERT INTO ""vespertide_version"" (version, id) VALUES (2, 'b')"].
Proof. exists wrap_o, wrap_ms, wrap_d. vm_compute. repeat split. Qed.
