(* Layer mig — concrete witnesses on which the faithful model violates two clauses of C09
   (closed by computation; both are replayed on the real code by checks/c09.py on every run:
   corpus/mig/h4_idmismatch and corpus/mig/h5_bigversion). *)
From VV.MIG Require Import Spec.

(* D9: a recorded id that differs from the compiled id is not reported *)
Definition idm_o : opts := mkOpts Sqlite "" None false.
Definition idm_ms : list mig := [mkMig 1 "bbb" [mkAct [] [] ["CREATE TABLE t (id integer)"]]].
Definition idm_d : dbstate := mkDb (Some (mkVt true [(1%Z, "aaa")])) ["CREATE TABLE t (id integer)"].

Lemma id_mismatch_refuted : exists o ms d,
  ascending ms = true /\ at_version 1 d = true /\ id_conflict ms d = true /\
  i_res (snd (run [] o ms d)) = Some ROk /\ db_rows (fst (run [] o ms d)) = db_rows d.
Proof. exists idm_o, idm_ms, idm_d. vm_compute. repeat split. Qed.

(* a version >= 2^31 is read back as 0 (lib.rs:293): the second start re-executes the migration *)
Definition big_ms : list mig :=
  [mkMig 2147483648 "0190d000-0000-7000-8000-000000000001"
     [mkAct ["PRAGMA user_version = 7"] ["PRAGMA user_version = 7"] ["PRAGMA user_version = 7"]]].

Lemma run_idempotent_full_refuted : exists o ms k d,
  ascending ms = true /\ at_version k d = true /\
  let d1 := fst (run [] o ms d) in
  i_res (snd (run [] o ms d1)) = Some (RErr DatabaseError) /\
  txn_execs (i_log (snd (run [] o ms d1))) = ["PRAGMA user_version = 7"].
Proof. exists (mkOpts Sqlite "" None false), big_ms, 0%N, (mkDb None []). vm_compute. repeat split. Qed.
