(* Layer mig — what the macro does at compile time (crates/vespertide-macro/src/lib.rs:57-81 and 397-412):
   the migrations, in loader order, are turned into the baked-in SQL lists one after the other, each one
   generated against the baseline schema obtained by replaying ALL actions of ALL earlier migrations.
   The schema algebra itself (apply_action, build_plan_queries) belongs to the layers m1 / sql; here it is
   abstract, so that exactly the threading is modelled.  No proofs here.

     lib.rs:66     let queries = build_plan_queries(migration, baseline_schema)…?      -> [gen]
     lib.rs:73-76  for action in &migration.actions { let _ = apply_action(baseline_schema, action); }
                   -> [thread]: every action is attempted; apply_action works on `&mut Vec<TableDef>`, its
                      Result is dropped, so whatever the schema is after the call — changed, or left as it was
                      by an action it rejects — is what the next action and the next migration see
     lib.rs:402-411 for migration in &migrations { … build_migration_block(&prefixed, &mut baseline_schema, …) } *)
From VV.MIG Require Export Migrator.

Section Compile.
Variable schema : Type.
Variable action : Type.
(* apply_action on the mutable baseline: the schema afterwards, and whether it returned Ok *)
Variable apply_mut : schema -> action -> schema * bool.
(* build_plan_queries + `.build(backend)` per statement; None = QueryError (the macro emits compile_error!) *)
Variable gen : schema -> list action -> option (list action_sql).

Record plan := mkPlan { p_version : N; p_id : string; p_actions : list action }.

(* lib.rs:73-76 — errors ignored per action, all actions attempted *)
Definition thread (s : schema) (acts : list action) : schema :=
  fold_left (fun s a => fst (apply_mut s a)) acts s.

(* what `iter().try_for_each(|a| apply_action(..))` would do instead: stop at the first rejected action *)
Fixpoint thread_short_circuit (s : schema) (acts : list action) : schema :=
  match acts with
  | [] => s
  | a :: r => let sa := apply_mut s a in if snd sa then thread_short_circuit (fst sa) r else fst sa
  end.

(* lib.rs:397-412 *)
Fixpoint compile (base : schema) (ps : list plan) : option (list mig) :=
  match ps with
  | [] => Some []
  | p :: r =>
      match gen base (p_actions p) with
      | None => None
      | Some sqls =>
          match compile (thread base (p_actions p)) r with
          | None => None
          | Some ms => Some (mkMig (p_version p) (p_id p) sqls :: ms)
          end
      end
  end.

(* the baseline the i-th migration is compiled against *)
Definition baseline_before (base : schema) (ps : list plan) (i : nat) : schema :=
  thread base (List.concat (map p_actions (firstn i ps))).
End Compile.
