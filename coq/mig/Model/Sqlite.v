(* Layer mig — abstract transactional store and the SQLite file-lock rules the runtime migrator
   (crates/vespertide-macro/src/lib.rs) is judged against.  No proofs here.

   The store is abstract on purpose: user statements are opaque texts, their effect on the database is
   "appended to the committed statement list" (the real catalog of a statement list is obtained from the
   real engine by the harness, see Corr/Corr.v).  What is modelled concretely is the migrator's own
   bookkeeping table, because the generated code branches on its contents.

   Lock rules: https://www.sqlite.org/lockingv3.html (rollback-journal mode), as confirmed against
   libsqlite3 3.40.1 by the K-mig interleaving runs:  a deferred BEGIN takes nothing; the first read takes
   SHARED (refused while another connection holds PENDING or EXCLUSIVE); the first write needs RESERVED
   (refused while another connection holds RESERVED or more); COMMIT of a writer needs EXCLUSIVE (refused
   while any other connection holds SHARED or more; the writer sits at PENDING meanwhile); with
   busy_timeout = 0 every refusal is an immediate SQLITE_BUSY error. *)
From Coq Require Export List String Ascii ZArith NArith Bool DecimalString.
Export ListNotations.
Open Scope string_scope.
Open Scope list_scope.
Infix "+++" := String.append (right associativity, at level 60).

(* ---------- the version table ---------- *)
(* rows are (version, id); SQLite stores version as a 64-bit rowid alias, hence Z.  A NULL id reads as ""
   (lib.rs:318 unwrap_or_default) and is represented as "".  [vt_has_id = false] is the legacy layout the
   ALTER at lib.rs:270-278 upgrades.  Rows are kept in ascending version order (= rowid scan order). *)
Record vtable := mkVt { vt_has_id : bool; vt_rows : list (Z * string) }.

(* committed user statements, in execution order, since the (arbitrary) initial database *)
Record dbstate := mkDb { d_vt : option vtable; d_applied : list string }.

Definition set_vt (d : dbstate) (v : option vtable) : dbstate := mkDb v (d_applied d).
Definition push_stmt (d : dbstate) (s : string) : dbstate := mkDb (d_vt d) (d_applied d ++ [s]).

Fixpoint has_version (v : Z) (rows : list (Z * string)) : bool :=
  match rows with [] => false | (w, _) :: r => Z.eqb v w || has_version v r end.

(* sorted insertion (rowid order); the caller has checked the PRIMARY KEY *)
Fixpoint insert_row (v : Z) (id : string) (rows : list (Z * string)) : list (Z * string) :=
  match rows with
  | [] => [(v, id)]
  | (w, j) :: r => if Z.ltb v w then (v, id) :: (w, j) :: r else (w, j) :: insert_row v id r
  end.

(* SELECT MAX(version): NULL on an empty table *)
Fixpoint max_version (rows : list (Z * string)) : option Z :=
  match rows with
  | [] => None
  | (w, _) :: r => match max_version r with None => Some w | Some m => Some (Z.max w m) end
  end.

(* engine-level outcome of a statement that touches the version table *)
Inductive eng (A : Type) := EngOk (a : A) | EngErr.
Arguments EngOk {A} a.
Arguments EngErr {A}.

(* CREATE TABLE IF NOT EXISTS vt (version INTEGER PRIMARY KEY, id TEXT DEFAULT '', created_at …) *)
Definition sql_create_vt (d : dbstate) : dbstate :=
  match d_vt d with Some _ => d | None => set_vt d (Some (mkVt true [])) end.
Definition create_is_write (d : dbstate) : bool := match d_vt d with Some _ => false | None => true end.

(* ALTER TABLE vt ADD COLUMN id TEXT DEFAULT '': "duplicate column name" when the column exists,
   "no such table" when the table does not; existing rows receive the default '' *)
Definition sql_alter_vt (d : dbstate) : eng dbstate :=
  match d_vt d with
  | Some (mkVt false rows) => EngOk (set_vt d (Some (mkVt true (map (fun r => (fst r, "")) rows))))
  | _ => EngErr
  end.

(* SELECT MAX(version) as version FROM vt *)
Definition sql_select_max (d : dbstate) : eng (option Z) :=
  match d_vt d with Some t => EngOk (max_version (vt_rows t)) | None => EngErr end.

(* SELECT version, id FROM vt : "no such column: id" on the legacy layout *)
Definition sql_select_ids (d : dbstate) : eng (list (Z * string)) :=
  match d_vt d with
  | Some t => if vt_has_id t then EngOk (vt_rows t) else EngErr
  | None => EngErr
  end.

(* INSERT INTO vt (version, id) VALUES (v, 'id') : PRIMARY KEY violation when v is recorded *)
Definition sql_insert_version (v : Z) (id : string) (d : dbstate) : eng dbstate :=
  match d_vt d with
  | Some t =>
      if vt_has_id t then
        if has_version v (vt_rows t) then EngErr
        else EngOk (set_vt d (Some (mkVt true (insert_row v id (vt_rows t)))))
      else EngErr
  | None => EngErr
  end.

(* ---------- file locks ---------- *)
Inductive lock := Unlocked | Shared | Reserved | Pending | Exclusive.

Definition lock_rank (l : lock) : nat :=
  match l with Unlocked => 0 | Shared => 1 | Reserved => 2 | Pending => 3 | Exclusive => 4 end.
Definition lock_ltb (a b : lock) : bool := Nat.ltb (lock_rank a) (lock_rank b).
Definition lock_leb (a b : lock) : bool := Nat.leb (lock_rank a) (lock_rank b).

(* [others] = the locks held by every other connection to the same file *)
Definition can_shared (others : list lock) : bool := forallb (fun l => lock_ltb l Pending) others.
Definition can_reserved (others : list lock) : bool := forallb (fun l => lock_ltb l Reserved) others.
Definition can_exclusive (others : list lock) : bool := forallb (fun l => lock_ltb l Shared) others.

(* an autocommit statement that writes: SHARED, RESERVED, then EXCLUSIVE for its own commit, all inside
   the one statement *)
Definition can_autocommit_write (others : list lock) : bool :=
  can_shared others && can_reserved others && can_exclusive others.
