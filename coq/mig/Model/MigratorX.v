(* Layer mig — the generated block on histories whose statements contain transaction control (Script.v).
   [exec_x] extends [exec] (Migrator.v, unchanged, the subject of the C09-C11 theorems):
     - a statement with transaction-control components is executed component by component ([IScript]);
     - once a COMMIT / END / ROLLBACK inside a statement has ended the migrator's transaction the connection
       is in auto-commit mode although `__txn` is still alive: every later statement and version INSERT is
       published at once, and the final `__txn.commit()` fails ("no transaction is active").
   [i_txn] is the engine-level "a transaction is open on this connection".
   On histories without transaction control [run_x] = [run], [steps_x] = [steps] (Proofs/BridgeP.v).
   Not modelled: SAVEPOINT / RELEASE outside an open transaction (the generators do not produce it).
   No proofs here. *)
From VV.MIG Require Export Locking Script.

Inductive instr_x := XI (x : instr) | XScript (s : string) (ops : list tctl).

Definition instr_of_stmt (s : string) : instr_x := if has_ctl s then XScript s (script_ops s) else XI (IExec s).

Definition set_txn (i : inst) (t : bool) (b : option dbstate) (l : lock) : inst :=
  mkInst (i_res i) t b l (i_ver i) (i_ids i) (i_log i) (i_n i).

(* one component of a script; None = the engine refuses (the rest of the script is not executed) *)
Definition ctl_step (others : list lock) (t : tctl) (c : dbstate) (i : inst) : option (dbstate * inst) :=
  if i_txn i then
    match t with
    | TPiece s => match acquire_reserved others c i with
                  | Some i1 => Some (c, set_buf i1 (push_stmt (view c i1) s) (i_lock i1))
                  | None => None
                  end
    | TBegin => None                                   (* cannot start a transaction within a transaction *)
    | TEnd => if lock_leb Reserved (i_lock i) then
                if can_exclusive others then Some (view c i, set_txn i false None Unlocked) else None
              else Some (c, set_txn i false None Unlocked)
    | TRollback => Some (c, set_txn i false None Unlocked)
    | TSavepoint | TRelease => Some (c, i)
    end
  else
    match t with
    | TPiece s => if can_autocommit_write others then Some (push_stmt c s, i) else None
    | TBegin => Some (c, set_txn i true None Unlocked)
    | TEnd | TRollback => None                         (* no transaction is active *)
    | TSavepoint | TRelease => None                    (* not modelled outside a transaction *)
    end.

Fixpoint ctl_run (others : list lock) (ops : list tctl) (c : dbstate) (i : inst) : (dbstate * inst) * bool :=
  match ops with
  | [] => ((c, i), true)
  | t :: r => match ctl_step others t c i with
              | Some ci => ctl_run others r (fst ci) (snd ci)
              | None => ((c, i), false)
              end
  end.

Definition exec_x (faults : list nat) (o : opts) (others : list lock) (x : instr_x) (c : dbstate) (i : inst)
  : dbstate * inst :=
  match x with
  | XScript s ops =>
      if faulty faults i then (c, fail_run DatabaseError (emit (ETxnExec s false) i))
      else match ctl_run others ops c i with
           | (ci, true) => (fst ci, emit (ETxnExec s true) (snd ci))
           | (ci, false) => (fst ci, fail_run DatabaseError (emit (ETxnExec s false) (snd ci)))
           end
  | XI x0 =>
      if i_txn i then exec faults o others x0 c i
      else match x0 with
           | IExec s =>                                  (* auto-commit *)
               if faulty faults i then (c, fail_run DatabaseError (emit (ETxnExec s false) i))
               else if can_autocommit_write others then (push_stmt c s, emit (ETxnExec s true) i)
               else (c, fail_run DatabaseError (emit (ETxnExec s false) i))
           | IInsert v id =>
               let sql := insert_sql o v id in
               if faulty faults i then (c, fail_run DatabaseError (emit (ETxnExec sql false) i))
               else if can_autocommit_write others then
                 match sql_insert_version (Z.of_N v) id c with
                 | EngOk c' => (c', emit (ETxnExec sql true) i)
                 | EngErr => (c, fail_run DatabaseError (emit (ETxnExec sql false) i))
                 end
               else (c, fail_run DatabaseError (emit (ETxnExec sql false) i))
           | ICommit => (c, fail_run DatabaseError (emit (ECommit false) i))     (* no transaction is active *)
           | _ => exec faults o others x0 c i             (* before BEGIN: the calls outside the transaction *)
           end
  end.

Fixpoint plan_x (o : opts) (ver : N) (ids : list (N * string)) (ms : list mig) : list instr_x :=
  match ms with
  | [] => [XI ICommit]
  | m :: r =>
      match id_check ids m with
      | Some e => [XI (IFail e)]
      | None =>
          if N.ltb ver (m_version m) then
            map instr_of_stmt (stmts_of o m) ++ XI (IInsert (m_version m) (m_id m)) :: plan_x o ver ids r
          else plan_x o ver ids r
      end
  end.

Fixpoint run_list_x (faults : list nat) (o : opts) (others : list lock) (l : list instr_x) (ci : dbstate * inst)
  : dbstate * inst :=
  match l with
  | [] => ci
  | x :: r =>
      match i_res (snd ci) with
      | Some _ => ci
      | None => run_list_x faults o others r (exec_x faults o others x (fst ci) (snd ci))
      end
  end.

Definition run_x (faults : list nat) (o : opts) (ms : list mig) (c : dbstate) : dbstate * inst :=
  let ci := run_list faults o [] prelude (c, inst0) in
  match i_res (snd ci) with
  | Some _ => ci
  | None => run_list_x faults o [] (plan_x o (i_ver (snd ci)) (i_ids (snd ci)) ms) ci
  end.

(* ---------- interleaved ---------- *)
Record pinst_x := mkPX { px_inst : inst; px_todo : list instr_x; px_faults : list nat }.
Record system_x := mkSysX { sx_db : dbstate; sx_insts : list pinst_x }.

Definition settle_x (p : pinst_x) : pinst_x :=
  match i_res (px_inst p), px_todo p with
  | None, XI (IFail e) :: _ => mkPX (fail_run e (px_inst p)) [] (px_faults p)
  | _, _ => p
  end.

Definition pstep_x (o : opts) (ms : list mig) (others : list lock) (c : dbstate) (p : pinst_x) : dbstate * pinst_x :=
  match i_res (px_inst p), px_todo p with
  | Some _, _ => (c, p)
  | None, [] => (c, p)
  | None, x :: r =>
      let ci := exec_x (px_faults p) o others x c (px_inst p) in
      let i' := snd ci in
      let todo' := match i_res i' with
                   | Some _ => []
                   | None => match x with
                             | XI IReadIds => plan_x o (i_ver i') (i_ids i') ms
                             | _ => r
                             end
                   end in
      (fst ci, settle_x (mkPX i' todo' (px_faults p)))
  end.

Definition sys_step_x (o : opts) (ms : list mig) (s : system_x) (pid : nat) : system_x :=
  match nth_error (sx_insts s) pid with
  | None => s
  | Some p =>
      let cp := pstep_x o ms (map (fun q => i_lock (px_inst q)) (others_of pid (sx_insts s))) (sx_db s) p in
      mkSysX (fst cp) (set_nth pid (snd cp) (sx_insts s))
  end.
Definition steps_x (o : opts) (ms : list mig) (sched : list nat) (s : system_x) : system_x :=
  fold_left (sys_step_x o ms) sched s.
Definition init_sys_x (fs : list (list nat)) (c : dbstate) : system_x :=
  mkSysX c (map (fun f => mkPX inst0 (map XI prelude) f) fs).
Definition all_finished_x (s : system_x) : bool :=
  forallb (fun p => match i_res (px_inst p) with Some _ => true | None => false end) (sx_insts s).

(* ---------- process death ---------- *)
Fixpoint run_calls_x (faults : list nat) (o : opts) (fuel : nat) (l : list instr_x) (ci : dbstate * inst) : dbstate * inst :=
  match l with
  | [] => ci
  | x :: r =>
      match i_res (snd ci) with
      | Some _ => ci
      | None => match x with
                | XI (IFail _) => run_calls_x faults o fuel r (exec_x faults o [] x (fst ci) (snd ci))
                | _ => match fuel with
                       | O => ci
                       | S f => run_calls_x faults o f r (exec_x faults o [] x (fst ci) (snd ci))
                       end
                end
      end
  end.
Definition crash_x (j : nat) (o : opts) (ms : list mig) (c : dbstate) : dbstate :=
  let ci := run_calls [] o j prelude (c, inst0) in
  let k := i_n (snd ci) in
  if Nat.ltb k 5 then fst ci
  else match i_res (snd ci) with
       | Some _ => fst ci
       | None => fst (run_calls_x [] o (j - k) (plan_x o (i_ver (snd ci)) (i_ids (snd ci)) ms) ci)
       end.
