(* Layer mig — transaction control inside user statements.  A raw_sql action is handed to the engine as ONE
   statement text; sqlx-sqlite executes a text with several `;`-separated statements one after the other and
   stops at the first error.  For the migrator what matters is whether a component is BEGIN / COMMIT (END) /
   ROLLBACK / SAVEPOINT / RELEASE, because these act on the migrator's own transaction:
     SQLite: BEGIN inside a transaction is an error ("cannot start a transaction within a transaction");
     COMMIT / END commits the open transaction, afterwards every statement auto-commits; COMMIT / ROLLBACK
     without an open transaction is an error ("no transaction is active").
   The splitter is deliberately naive (split at every `;`, compare the leading keyword): texts with `;`
   inside string literals or trigger bodies (CREATE TRIGGER … BEGIN … END) are outside what the generators
   produce; named in the evidence.  No proofs here. *)
From VV.MIG Require Export Sqlite.

Inductive tctl := TBegin | TEnd | TRollback | TSavepoint | TRelease | TPiece (s : string).

Definition is_ws (a : ascii) : bool :=
  let n := N_of_ascii a in (N.eqb n 32 || N.eqb n 9 || N.eqb n 10 || N.eqb n 13)%bool.
Fixpoint ltrim (s : string) : string :=
  match s with EmptyString => EmptyString | String a r => if is_ws a then ltrim r else s end.
Fixpoint srev_acc (s acc : string) : string :=
  match s with EmptyString => acc | String a r => srev_acc r (String a acc) end.
Definition srev (s : string) : string := srev_acc s EmptyString.
Definition strim (s : string) : string := srev (ltrim (srev (ltrim s))).

Definition upper_char (a : ascii) : ascii :=
  let n := N_of_ascii a in if (N.leb 97 n && N.leb n 122)%bool then ascii_of_N (n - 32) else a.
Fixpoint supper (s : string) : string :=
  match s with EmptyString => EmptyString | String a r => String (upper_char a) (supper r) end.

Fixpoint split_semi_aux (s cur : string) : list string :=
  match s with
  | EmptyString => [srev cur]
  | String a r => if Ascii.eqb a ";" then srev cur :: split_semi_aux r EmptyString else split_semi_aux r (String a cur)
  end.
Definition split_semi (s : string) : list string :=
  filter (fun p => negb (String.eqb p "")) (map strim (split_semi_aux s EmptyString)).

(* keyword = the whole piece, or the piece starts with keyword followed by a blank *)
Definition kw (k p : string) : bool := (String.eqb p k || prefix (k +++ " ") p)%bool.

Definition classify (piece : string) : tctl :=
  let u := supper piece in
  if kw "BEGIN" u then TBegin
  else if (kw "COMMIT" u || kw "END" u)%bool then TEnd
  else if prefix "ROLLBACK TO" u then TPiece piece
  else if kw "ROLLBACK" u then TRollback
  else if kw "SAVEPOINT" u then TSavepoint
  else if kw "RELEASE" u then TRelease
  else TPiece piece.

Definition script_ops (s : string) : list tctl := map classify (split_semi s).
Definition is_ctl (t : tctl) : bool := match t with TPiece _ => false | _ => true end.
Definition has_ctl (s : string) : bool := existsb is_ctl (script_ops s).

(* a script that ends the surrounding transaction: a COMMIT / END / ROLLBACK not preceded, in the same script,
   by a BEGIN that it closes.  (On the engine such a BEGIN fails first, so a balanced script never gets there.) *)
Fixpoint ends_outer (ops : list tctl) (opened : bool) : bool :=
  match ops with
  | [] => false
  | TBegin :: r => ends_outer r true
  | (TEnd | TRollback) :: r => if opened then ends_outer r false else true
  | _ :: r => ends_outer r opened
  end.
Definition breaks_out (s : string) : bool := ends_outer (script_ops s) false.
