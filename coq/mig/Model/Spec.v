(* Layer mig — the vocabulary of the C09-C11 theorem statements: input classes (as booleans, so the
   harness can evaluate them on every generated case), the expected results, and the known-finding
   classifiers.  Definitions only, no proofs. *)
From VV.MIG Require Export Locking.

(* loader order with distinct versions (vespertide-loader sorts by version but does not reject duplicates) *)
Fixpoint ascending (ms : list mig) : bool :=
  match ms with
  | [] => true
  | m :: r => match r with
              | [] => true
              | m' :: _ => N.ltb (m_version m) (m_version m') && ascending r
              end
  end.
(* `MigrationPlan::version` is a Rust u32: [m_version : N] ranges over u32 values only *)
Definition versions_u32 (ms : list mig) : bool := forallb (fun m => N.ltb (m_version m) 4294967296) ms.

Definition db_rows (d : dbstate) : list (Z * string) := match d_vt d with Some t => vt_rows t | None => [] end.
Definition rows_within (k : N) (rows : list (Z * string)) : bool :=
  forallb (fun r => Z.leb 0 (fst r) && Z.leb (fst r) (Z.of_N k)) rows.
(* "a database recorded at version k": no version table yet or an empty one (k = 0), or a version table
   (current or legacy layout) whose largest recorded version is k *)
Definition at_version (k : N) (d : dbstate) : bool :=
  N.ltb k 4294967296 && rows_within k (db_rows d) && (N.eqb k 0 || has_version (Z.of_N k) (db_rows d)).
(* recorded versions are u32 values (anything the migrator itself ever wrote); a tampered value outside
   this range is read modulo 2^32 (`as u32`, lib.rs:302/320) *)
Definition rows_u32 (d : dbstate) : bool :=
  forallb (fun r => Z.leb 0 (fst r) && Z.ltb (fst r) 4294967296) (db_rows d).
(* PRIMARY KEY: no version recorded twice *)
Fixpoint versions_distinct (rows : list (Z * string)) : bool :=
  match rows with [] => true | (v, _) :: r => negb (has_version v r) && versions_distinct r end.

Definition pending (k : N) (ms : list mig) : list mig := filter (fun m => N.ltb k (m_version m)) ms.
Definition applied_upto (k : N) (ms : list mig) : list mig := filter (fun m => N.leb (m_version m) k) ms.
Definition rows_of (l : list mig) : list (Z * string) := map (fun m => (Z.of_N (m_version m), m_id m)) l.
Definition stmts_all (o : opts) (l : list mig) : list string := List.concat (map (stmts_of o) l).
(* what one applied migration sends through the transaction *)
Definition block_sqls (o : opts) (m : mig) : list string := stmts_of o m ++ [insert_sql o (m_version m) (m_id m)].

(* the two statements outside the transaction *)
Definition bootstrap (d : dbstate) : dbstate :=
  match sql_alter_vt (sql_create_vt d) with EngOk d' => d' | EngErr => sql_create_vt d end.
Definition is_legacy (d : dbstate) : bool :=
  match d_vt d with Some t => negb (vt_has_id t) | None => false end.
Definition prelude_log (o : opts) (d : dbstate) : list ev :=
  [EPoolExec (create_sql o) true; EPoolExec (alter_sql o) (is_legacy d); EBegin true;
   EQueryOne (select_max_sql o) true; EQueryAll (select_ids_sql o) true].

(* the database after the pending migrations have been applied on top of [d] *)
Definition advanced (o : opts) (l : list mig) (d : dbstate) : dbstate :=
  mkDb (Some (mkVt true (db_rows (bootstrap d) ++ rows_of l))) (d_applied d ++ stmts_all o l).

Definition txn_execs (log : list ev) : list string :=
  List.concat (map (fun e => match e with ETxnExec s true => [s] | _ => [] end) log).

(* "unchanged except for the migrator's own bookkeeping table" *)
Definition recorded_versions (d : dbstate) : list Z := map fst (db_rows d).
Definition same_but_bookkeeping (d d' : dbstate) : Prop :=
  d_applied d' = d_applied d /\ recorded_versions d' = recorded_versions d.

(* ---------- recorded ids vs compiled ids ---------- *)
(* a recorded (version, id) whose id differs from the compiled migration's id, both non-empty
   (ids of a legacy-layout table read as '' after the ALTER, hence [bootstrap]) *)
Definition conflicts (m : mig) (r : Z * string) : bool :=
  Z.eqb (fst r) (Z.of_N (m_version m)) && nonempty (m_id m) && nonempty (snd r) && negb (String.eqb (snd r) (m_id m)).
Definition id_conflict (ms : list mig) (d : dbstate) : bool :=
  existsb (fun m => existsb (conflicts m) (db_rows (bootstrap d))) ms.

(* every comparison of lib.rs:153/198 passes on the ids the run will read (implied by [id_conflict = false]
   on a database recorded at some version; false as soon as one recorded id conflicts) *)
Definition ids_ok (ms : list mig) (d : dbstate) : bool :=
  forallb (fun m => match id_check (decode_ids (db_rows (bootstrap d))) m with None => true | Some _ => false end) ms.

(* ---------- how many connection calls one instance can make (C11, termination) ---------- *)
Definition plan_bound (o : opts) (ms : list mig) : nat :=
  S (fold_right (fun m acc => List.length (stmts_of o m) + 1 + acc) 0 ms).
Definition steps_bound (o : opts) (ms : list mig) : nat := 5 + plan_bound o ms.

(* ---------- histories without transaction control inside statements ---------- *)
(* (MigratorX.v models the others; on plain histories it coincides with Migrator.v / Locking.v) *)
From VV.MIG Require Export MigratorX.
Definition plain_ms (o : opts) (ms : list mig) : bool :=
  forallb (fun m => forallb (fun s => negb (has_ctl s)) (stmts_of o m)) ms.
Definition lift_p (p : pinst) : pinst_x := mkPX (p_inst p) (map XI (p_todo p)) (p_faults p).
Definition lift_sys (s : system) : system_x := mkSysX (s_db s) (map lift_p (s_insts s)).
