(* Layer mig — several instances of the generated block on one SQLite database file, interleaved at
   connection-call granularity by an arbitrary scheduler.  No proofs here.

   One scheduler step of instance [pid] = its next connection call (with the lock acquisition the call
   implies, Sqlite.v) followed by whatever the block does before its next call: a `return Err(IdMismatch)`
   or the end of the block, including the rollback-on-drop that releases the connection's lock.
   Each instance has its own connection (own pool of one), so the locks seen by an instance are the
   locks of all *other* instances. *)
From VV.MIG Require Export Migrator.

Record pinst := mkP { p_inst : inst; p_todo : list instr; p_faults : list nat }.
Record system := mkSys { s_db : dbstate; s_insts : list pinst }.

Definition p_lock (p : pinst) : lock := i_lock (p_inst p).

Fixpoint others_of {A} (pid : nat) (l : list A) : list A :=
  match l, pid with
  | [], _ => []
  | _ :: r, O => r
  | x :: r, S k => x :: others_of k r
  end.
Fixpoint set_nth {A} (pid : nat) (a : A) (l : list A) : list A :=
  match l, pid with
  | [], _ => []
  | _ :: r, O => a :: r
  | x :: r, S k => x :: set_nth k a r
  end.

(* instructions that are not connection calls run eagerly *)
Definition settle (p : pinst) : pinst :=
  match i_res (p_inst p), p_todo p with
  | None, IFail e :: _ => mkP (fail_run e (p_inst p)) [] (p_faults p)
  | _, _ => p
  end.

Definition pstep (o : opts) (ms : list mig) (others : list lock) (c : dbstate) (p : pinst) : dbstate * pinst :=
  match i_res (p_inst p), p_todo p with
  | Some _, _ => (c, p)
  | None, [] => (c, p)
  | None, x :: r =>
      let ci := exec (p_faults p) o others x c (p_inst p) in
      let i' := snd ci in
      let todo' := match i_res i' with
                   | Some _ => []
                   | None => match x with
                             | IReadIds => plan o (i_ver i') (i_ids i') ms
                             | _ => r
                             end
                   end in
      (fst ci, settle (mkP i' todo' (p_faults p)))
  end.

Definition sys_step (o : opts) (ms : list mig) (s : system) (pid : nat) : system :=
  match nth_error (s_insts s) pid with
  | None => s
  | Some p =>
      let cp := pstep o ms (map p_lock (others_of pid (s_insts s))) (s_db s) p in
      mkSys (fst cp) (set_nth pid (snd cp) (s_insts s))
  end.

Definition steps (o : opts) (ms : list mig) (sched : list nat) (s : system) : system :=
  fold_left (sys_step o ms) sched s.

Definition pinst0 : pinst := mkP inst0 prelude [].
Definition init_sys (n : nat) (c : dbstate) : system := mkSys c (repeat pinst0 n).
Definition init_sys_faults (fs : list (list nat)) (c : dbstate) : system :=
  mkSys c (map (fun f => mkP inst0 prelude f) fs).

Definition finished (p : pinst) : bool := match i_res (p_inst p) with Some _ => true | None => false end.
Definition all_finished (s : system) : bool := forallb finished (s_insts s).
