(* Correspondence driver K-mig: checks/migrun.py prints, for every run of the REAL generated code over
   real SQLite, the input (what the macro baked in, the prepared database, fault points, the effective
   schedule) and everything the harness observed (per-instance call log and result, version table and
   catalog afterwards) as terms of these types; [check_case] recomputes the observables with the model
   and returns the ids of the sub-checks that differ.  No proofs here. *)
From VV.MIG Require Export Spec MigratorX.

(* ---------- boolean equalities ---------- *)
Fixpoint list_eqb {A} (f : A -> A -> bool) (a b : list A) : bool :=
  match a, b with
  | [], [] => true
  | x :: r, y :: s => f x y && list_eqb f r s
  | _, _ => false
  end.
Definition opt_eqb {A} (f : A -> A -> bool) (a b : option A) : bool :=
  match a, b with Some x, Some y => f x y | None, None => true | _, _ => false end.
Definition pair_eqb {A B} (f : A -> A -> bool) (g : B -> B -> bool) (a b : A * B) : bool :=
  f (fst a) (fst b) && g (snd a) (snd b).

Definition ev_eqb (a b : ev) : bool :=
  match a, b with
  | EPoolExec s x, EPoolExec t y => String.eqb s t && Bool.eqb x y
  | EBegin x, EBegin y => Bool.eqb x y
  | EQueryOne s x, EQueryOne t y => String.eqb s t && Bool.eqb x y
  | EQueryAll s x, EQueryAll t y => String.eqb s t && Bool.eqb x y
  | ETxnExec s x, ETxnExec t y => String.eqb s t && Bool.eqb x y
  | ECommit x, ECommit y => Bool.eqb x y
  | _, _ => false
  end.
Definition err_eqb (a b : mig_err) : bool :=
  match a, b with
  | DatabaseError, DatabaseError => true
  | IdMismatch v e f, IdMismatch w g h => N.eqb v w && String.eqb e g && String.eqb f h
  | _, _ => false
  end.
Definition outcome_eqb (a b : outcome) : bool :=
  match a, b with ROk, ROk => true | RErr x, RErr y => err_eqb x y | _, _ => false end.
Definition rows_eqb : list (Z * string) -> list (Z * string) -> bool := list_eqb (pair_eqb Z.eqb String.eqb).

(* ---------- what the harness observes of a database file ---------- *)
Record obs_db := mkObs {
  ob_vt : option (bool * list (Z * string));     (* exists?, has id column, rows ORDER BY version *)
  ob_catalog : string                            (* sqlite_master minus the version table, canonical text *)
}.
Definition vt_obs (d : dbstate) : option (bool * list (Z * string)) :=
  match d_vt d with Some t => Some (vt_has_id t, vt_rows t) | None => None end.
Definition vt_obs_eqb := opt_eqb (pair_eqb Bool.eqb rows_eqb).

(* catalogs of statement lists, obtained by the harness from the real engine (direct execution on a
   fresh database, no migrator involved) *)
Fixpoint cat_lookup (k : list string) (t : list (list string * string)) : option string :=
  match t with
  | [] => None
  | (k', c) :: r => if list_eqb String.eqb k k' then Some c else cat_lookup k r
  end.

Definition db_matches (dry : bool) (refcats : list (list string * string)) (d : dbstate) (o : obs_db) : list nat :=
  (if vt_obs_eqb (vt_obs d) (ob_vt o) then [] else [3]) ++
  (if dry then []
   else match cat_lookup (d_applied d) refcats with
        | Some c => if String.eqb c (ob_catalog o) then [] else [4]
        | None => [4]
        end).

Record mig_case := mkCase {
  k_opts : opts;
  k_ms : list mig;
  k_init : dbstate;
  k_faults : list (list nat);                        (* per instance *)
  k_sched : list nat;                                (* the steps the scheduler granted *)
  k_sequential : bool;                               (* instances ran one after the other, in pid order *)
  k_dry : bool;                                      (* fake backend: migration statements logged only *)
  k_crash : option nat;                              (* process killed before its j-th call (one instance) *)
  k_refcats : list (list string * string);
  k_obs_insts : list (option outcome * list ev);
  k_obs_mid : list obs_db;                           (* sequential runs: database after each instance *)
  k_obs_db : obs_db;
  k_src_raw : list string                           (* the raw_sql scripts of the history, as written in the migration files *)
}.

Definition inst_obs (p : pinst_x) : option outcome * list ev := (i_res (px_inst p), i_log (px_inst p)).
Definition inst_obs_eqb := pair_eqb (opt_eqb outcome_eqb) (list_eqb ev_eqb).

(* the extended semantics (MigratorX.v); equal to [steps] / [run] / [crash] on histories without transaction
   control inside statements (Proofs/BridgeP.v) *)
Definition model_system (c : mig_case) : system_x :=
  steps_x (k_opts c) (k_ms c) (k_sched c) (init_sys_x (k_faults c) (k_init c)).

(* sequential composition of [run] (the function the C09/C10 theorems speak about) *)
Fixpoint seq_runs (o : opts) (ms : list mig) (fs : list (list nat)) (d : dbstate)
  : list ((option outcome * list ev) * dbstate) :=
  match fs with
  | [] => []
  | f :: r => let ci := run_x f o ms d in
              ((i_res (snd ci), i_log (snd ci)), fst ci) :: seq_runs o ms r (fst ci)
  end.

Fixpoint mids_match (dry : bool) (refcats : list (list string * string)) (ds : list dbstate) (os : list obs_db) : list nat :=
  match ds, os with
  | d :: r, o :: s => db_matches dry refcats d o ++ mids_match dry refcats r s
  | _, [] => []
  | [], _ :: _ => [7]
  end.

Definition check_case (c : mig_case) : list nat :=
  match k_crash c with
  | Some j =>
      (* 8/9: committed database after a kill before call j *)
      map (fun n => n + 5) (db_matches (k_dry c) (k_refcats c) (crash_x j (k_opts c) (k_ms c) (k_init c)) (k_obs_db c))
  | None =>
      let s := model_system c in
      let mo := map inst_obs (sx_insts s) in
      (if list_eqb (opt_eqb outcome_eqb) (map fst mo) (map fst (k_obs_insts c)) then [] else [1]) ++
      (if list_eqb (list_eqb ev_eqb) (map snd mo) (map snd (k_obs_insts c)) then [] else [2]) ++
      db_matches (k_dry c) (k_refcats c) (sx_db s) (k_obs_db c) ++
      (if all_finished_x s then [] else [5]) ++
      (if k_sequential c then
         let rs := seq_runs (k_opts c) (k_ms c) (k_faults c) (k_init c) in
         (if list_eqb inst_obs_eqb (map fst rs) (k_obs_insts c) then [] else [6]) ++
         match mids_match (k_dry c) (k_refcats c) (map snd rs) (k_obs_mid c) with [] => [] | _ => [7] end
       else [])
  end.

Fixpoint mismatches_from (n : nat) (l : list mig_case) : list (nat * list nat) :=
  match l with
  | [] => []
  | c :: r => match check_case c with
              | [] => mismatches_from (S n) r
              | b => (n, b) :: mismatches_from (S n) r
              end
  end.
Definition mismatches (l : list mig_case) : list (nat * list nat) := mismatches_from 0 l.

(* for replay files: what the model says *)
Definition model_view (c : mig_case) :=
  let s := model_system c in (map inst_obs (sx_insts s), vt_obs (sx_db s), d_applied (sx_db s)).


(* theorem hypotheses / classifiers evaluated on a case (bit set, decoded by checks/migrun.py):
   1 ascending, 2 versions_u32, 4 rows_u32, 8 recorded at some version k (at_version), 16 id_conflict,
   32 every compiled version < 2^31 (classifier of the repaired finding C09-version-beyond-i32-reapplied),
   64 versions_distinct, 128 some raw_sql script of the history ends the surrounding transaction (breaks_out),
   256 some compiled statement contains transaction control *)
Definition recorded_k (d : dbstate) : N :=
  match max_version (db_rows d) with Some m => Z.to_N m | None => 0%N end.
Definition flag_code (c : mig_case) : nat :=
  (if ascending (k_ms c) then 1 else 0) + (if versions_u32 (k_ms c) then 2 else 0) +
  (if rows_u32 (k_init c) then 4 else 0) + (if at_version (recorded_k (k_init c)) (k_init c) then 8 else 0) +
  (if id_conflict (k_ms c) (k_init c) then 16 else 0) +
  (if forallb (fun m => N.ltb (m_version m) 2147483648) (k_ms c) then 32 else 0) +
  (if versions_distinct (db_rows (k_init c)) then 64 else 0) +
  (if existsb breaks_out (k_src_raw c) then 128 else 0) +
  (if existsb (fun m => existsb has_ctl (stmts_of (k_opts c) m)) (k_ms c) then 256 else 0).
