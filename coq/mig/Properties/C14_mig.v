(* C14 at runtime level (layer mig) — a table prefix renames tables and nothing else: what the generated startup
   migrator contributes.  Pinned statements only.  Model: Model/Migrator.v; the user statements reach the block
   already prefixed (MigrationPlan::with_prefix at compile time, property C14 in the layers m1 / sql); the block
   itself uses the prefix only for the name of its version table (lib.rs:369-372). *)
From VV.MIG Require Import Spec PrefixP.

(* the version table is renamed literally — the default name and an explicit `version_table = "…"` alike *)
Theorem C14_mig_version_table_prefixed : forall b p vt v,
  vt_name (mkOpts b p vt v) = p +++ vt_name (mkOpts b "" vt v).
Proof. exact vt_name_prefixed. Qed.
Print Assumptions C14_mig_version_table_prefixed.
Check C14_mig_version_table_prefixed : forall b p vt v,
  vt_name (mkOpts b p vt v) = p +++ vt_name (mkOpts b "" vt v).

(* ... and nothing else: under any prefix, for every fault set, the run commits the same database (statement
   list, version rows), returns the same result, reads the same version and ids, and issues the same calls with
   the same outcomes — only the SQL texts of the bookkeeping statements differ, by that name *)
Theorem C14_mig_run_prefix_independent : forall F b p vt v ms d,
  fst (run F (mkOpts b p vt v) ms d) = fst (run F (mkOpts b "" vt v) ms d) /\
  erase (snd (run F (mkOpts b p vt v) ms d)) = erase (snd (run F (mkOpts b "" vt v) ms d)).
Proof. exact run_prefix_independent. Qed.
Print Assumptions C14_mig_run_prefix_independent.
Check C14_mig_run_prefix_independent : forall F b p vt v ms d,
  fst (run F (mkOpts b p vt v) ms d) = fst (run F (mkOpts b "" vt v) ms d) /\
  erase (snd (run F (mkOpts b p vt v) ms d)) = erase (snd (run F (mkOpts b "" vt v) ms d)).

(* non-vacuity: prefix app_ with the default and with a custom version table *)
Example C14_mig_nonvacuous :
  vt_name (mkOpts Sqlite "app_" None false) = "app_vespertide_version" /\
  vt_name (mkOpts Sqlite "app_" (Some "schema_versions") true) = "app_schema_versions" /\
  create_sql (mkOpts Sqlite "app_" (Some "schema_versions") false) =
    "CREATE TABLE IF NOT EXISTS ""app_schema_versions"" (version INTEGER PRIMARY KEY, id TEXT DEFAULT '', created_at TIMESTAMP DEFAULT CURRENT_TIMESTAMP)".
Proof. vm_compute. repeat split. Qed.
