(* C10 — a failed or interrupted run changes nothing and can be re-run.
   Pinned statements only.  Engine assumption carried by the model (Model/Sqlite.v): DDL is transactional —
   everything executed through the transaction is buffered and only COMMIT publishes (SQLite, PostgreSQL;
   MySQL is excluded by the property itself). *)
From VV.MIG Require Import Spec SeqP BridgeP WitnessP.

(* whichever set of calls fails: if the run returns Err the committed database is the original one, or
   the original one with the (empty) bookkeeping table created, or with its legacy layout upgraded *)
Theorem C10_fail_leaves_db : forall F o ms d e,
  i_res (snd (run F o ms d)) = Some (RErr e) ->
  fst (run F o ms d) = d \/ fst (run F o ms d) = sql_create_vt d \/ fst (run F o ms d) = bootstrap d.
Proof. exact fail_leaves_db. Qed.
Print Assumptions C10_fail_leaves_db.
Check C10_fail_leaves_db : forall F o ms d e,
  i_res (snd (run F o ms d)) = Some (RErr e) ->
  fst (run F o ms d) = d \/ fst (run F o ms d) = sql_create_vt d \/ fst (run F o ms d) = bootstrap d.

(* for every j: schema/data (the committed statement list) and recorded versions are unchanged *)
Theorem C10_fail_at_j_rolls_back : forall j o ms d e,
  i_res (snd (run [j] o ms d)) = Some (RErr e) -> same_but_bookkeeping d (fst (run [j] o ms d)).
Proof. exact fail_at_j_rolls_back. Qed.
Print Assumptions C10_fail_at_j_rolls_back.
Check C10_fail_at_j_rolls_back : forall j o ms d e,
  i_res (snd (run [j] o ms d)) = Some (RErr e) -> same_but_bookkeeping d (fst (run [j] o ms d)).

(* a later run completes the whole upgrade to the same final state as an uninterrupted run
   ([id_conflict ms d = false]: with a foreign recorded id every run must fail, C09_id_mismatch_reported) *)
Theorem C10_rerun_completes : forall F o ms k d e,
  ascending ms = true -> at_version k d = true -> id_conflict ms d = false ->
  i_res (snd (run F o ms d)) = Some (RErr e) ->
  fst (run [] o ms (fst (run F o ms d))) = fst (run [] o ms d) /\
  i_res (snd (run [] o ms (fst (run F o ms d)))) = Some ROk.
Proof. exact rerun_completes. Qed.
Print Assumptions C10_rerun_completes.
Check C10_rerun_completes : forall F o ms k d e,
  ascending ms = true -> at_version k d = true -> id_conflict ms d = false ->
  i_res (snd (run F o ms d)) = Some (RErr e) ->
  fst (run [] o ms (fst (run F o ms d))) = fst (run [] o ms d) /\
  i_res (snd (run [] o ms (fst (run F o ms d)))) = Some ROk.

(* a failing call makes the run fail — whichever call (except the ALTER whose result the code ignores,
   index 1), whatever the error: if a fault point j has been reached (issued: j < number of calls made) the run
   returned Err.  In particular a refusal by the engine is never swallowed. *)
Theorem C10_fault_hit_aborts : forall F o ms d j,
  In j F -> j <> 1 -> j < i_n (snd (run F o ms d)) ->
  exists e, i_res (snd (run F o ms d)) = Some (RErr e).
Proof. exact fault_hit_aborts. Qed.
Print Assumptions C10_fault_hit_aborts.
Check C10_fault_hit_aborts : forall F o ms d j,
  In j F -> j <> 1 -> j < i_n (snd (run F o ms d)) ->
  exists e, i_res (snd (run F o ms d)) = Some (RErr e).

(* ... for every error value: fault points may carry any error text (an "already exists", a constraint
   violation, a lost connection, …); the outcome does not depend on it — Err, and the database as it was *)
Theorem C10_failure_value_irrelevant : forall (fe : list (nat * string)) o ms d j,
  In j (fault_points fe) -> j <> 1 -> j < i_n (snd (run (fault_points fe) o ms d)) ->
  (exists e, i_res (snd (run (fault_points fe) o ms d)) = Some (RErr e)) /\
  (fst (run (fault_points fe) o ms d) = d \/ fst (run (fault_points fe) o ms d) = sql_create_vt d \/
   fst (run (fault_points fe) o ms d) = bootstrap d) /\
  (forall fe', map fst fe' = map fst fe -> run (fault_points fe') o ms d = run (fault_points fe) o ms d).
Proof. exact failure_value_irrelevant. Qed.
Print Assumptions C10_failure_value_irrelevant.
Check C10_failure_value_irrelevant : forall (fe : list (nat * string)) o ms d j,
  In j (fault_points fe) -> j <> 1 -> j < i_n (snd (run (fault_points fe) o ms d)) ->
  (exists e, i_res (snd (run (fault_points fe) o ms d)) = Some (RErr e)) /\
  (fst (run (fault_points fe) o ms d) = d \/ fst (run (fault_points fe) o ms d) = sql_create_vt d \/
   fst (run (fault_points fe) o ms d) = bootstrap d) /\
  (forall fe', map fst fe' = map fst fe -> run (fault_points fe') o ms d = run (fault_points fe) o ms d).

(* ... and there is no retry: the first failing execution (the smallest fault point other than the ignored
   ALTER that is reached) is the LAST call the run makes; in particular a statement that keeps failing is
   executed once *)
Theorem C10_first_failure_ends_run : forall F o ms d j,
  In j F -> j <> 1 -> (forall j', In j' F -> j' <> 1 -> j <= j') ->
  j < i_n (snd (run F o ms d)) -> i_n (snd (run F o ms d)) = S j.
Proof. exact first_failure_ends_run. Qed.
Print Assumptions C10_first_failure_ends_run.
Check C10_first_failure_ends_run : forall F o ms d j,
  In j F -> j <> 1 -> (forall j', In j' F -> j' <> 1 -> j <= j') ->
  j < i_n (snd (run F o ms d)) -> i_n (snd (run F o ms d)) = S j.

(* statements that carry their own transaction control (raw_sql scripts with BEGIN / COMMIT / END / ROLLBACK /
   SAVEPOINT) are modelled by the extended semantics [run_x] (Model/MigratorX.v + Script.v: a nested BEGIN is
   refused, COMMIT / END publishes and leaves the connection in auto-commit, the final commit then fails) — that
   is what K-mig evaluates.  On every history WITHOUT such statements it is the [run] of the theorems above: *)
Theorem C10_plain_run_x_is_run : forall F o ms d, plain_ms o ms = true -> run_x F o ms d = run F o ms d.
Proof. exact run_x_plain. Qed.
Print Assumptions C10_plain_run_x_is_run.
Check C10_plain_run_x_is_run : forall F o ms d, plain_ms o ms = true -> run_x F o ms d = run F o ms d.

(* ... and outside that class C10 is FALSE of the faithful model: a script with a bare COMMIT / END / ROLLBACK
   ends the migrator's transaction mid-run; the start returns Err with nothing injected and the database changed
   (known finding C10-raw-sql-ends-migrator-transaction, witness corpus/mig/h10_txn_bare) *)
Theorem C10_raw_end_breaks_atomicity_refuted : exists o ms d,
  existsb (fun m => existsb breaks_out (stmts_of o m)) ms = true /\
  i_res (snd (run_x [] o ms d)) = Some (RErr DatabaseError) /\
  d_applied (fst (run_x [] o ms d)) = ["CREATE TABLE ba (id integer)"; "CREATE TABLE b_c (x INTEGER)"; "ALTER TABLE ba ADD COLUMN b text"] /\
  db_rows (fst (run_x [] o ms d)) = [(1%Z, "a"); (2%Z, "b"); (3%Z, "c")].
Proof. exact raw_end_breaks_atomicity_refuted. Qed.
Print Assumptions C10_raw_end_breaks_atomicity_refuted.
Check C10_raw_end_breaks_atomicity_refuted : exists o ms d,
  existsb (fun m => existsb breaks_out (stmts_of o m)) ms = true /\
  i_res (snd (run_x [] o ms d)) = Some (RErr DatabaseError) /\
  d_applied (fst (run_x [] o ms d)) = ["CREATE TABLE ba (id integer)"; "CREATE TABLE b_c (x INTEGER)"; "ALTER TABLE ba ADD COLUMN b text"] /\
  db_rows (fst (run_x [] o ms d)) = [(1%Z, "a"); (2%Z, "b"); (3%Z, "c")].

(* the two statements outside the transaction are idempotent *)
Theorem C10_bootstrap_idempotent : forall d,
  bootstrap (bootstrap d) = bootstrap d /\ sql_create_vt (bootstrap d) = bootstrap d /\ sql_alter_vt (bootstrap d) = EngErr.
Proof. exact bootstrap_idempotent. Qed.
Print Assumptions C10_bootstrap_idempotent.
Check C10_bootstrap_idempotent : forall d,
  bootstrap (bootstrap d) = bootstrap d /\ sql_create_vt (bootstrap d) = bootstrap d /\ sql_alter_vt (bootstrap d) = EngErr.

(* the process dies before its j-th connection call, for every j: the committed database is the original
   one up to bookkeeping, or (j beyond the COMMIT) the complete result *)
Theorem C10_crash_before_commit : forall j o ms d,
  crash j o ms d = d \/ crash j o ms d = sql_create_vt d \/ crash j o ms d = bootstrap d
  \/ crash j o ms d = fst (run [] o ms d).
Proof. exact crash_before_commit. Qed.
Print Assumptions C10_crash_before_commit.
Check C10_crash_before_commit : forall j o ms d,
  crash j o ms d = d \/ crash j o ms d = sql_create_vt d \/ crash j o ms d = bootstrap d
  \/ crash j o ms d = fst (run [] o ms d).

(* non-vacuity: a fault at every call but the ignored ALTER (index 1) makes the run fail; the fault at the
   ALTER is swallowed (`let _ =`) *)
Definition ex_ms : list mig :=
  [mkMig 1 "a" [mkAct [] [] ["CREATE TABLE t (a)"]]; mkMig 2 "b" [mkAct [] [] ["ALTER 1"; "ALTER 2"]]].
Definition ex_o : opts := mkOpts Sqlite "" None false.
Example C10_nonvacuous :
  map (fun j => i_res (snd (run [j] ex_o ex_ms (mkDb None [])))) (seq 0 12) =
  [Some (RErr DatabaseError); Some ROk] ++ repeat (Some (RErr DatabaseError)) 9 ++ [Some ROk] /\
  map (fun j => crash j ex_o ex_ms (mkDb None [])) [0; 1; 10] =
  [mkDb None []; mkDb (Some (mkVt true [])) []; mkDb (Some (mkVt true [])) []] /\
  crash 11 ex_o ex_ms (mkDb None []) = mkDb (Some (mkVt true [(1%Z, "a"); (2%Z, "b")])) ["CREATE TABLE t (a)"; "ALTER 1"; "ALTER 2"].
Proof. vm_compute. repeat split. Qed.

(* non-vacuity: the engine refuses call 5 (the first CREATE TABLE: "table t already exists") — Err, nothing but
   the bookkeeping table changed; whereas a failure of call 1 (the ignored ALTER) is swallowed by design *)
Example C10_refusal_nonvacuous :
  (let r := run (fault_points [(5, "table t already exists")]) ex_o ex_ms (mkDb None ["CREATE TABLE t (obstacle)"]) in
   Nat.ltb 5 (i_n (snd r)) = true /\ i_res (snd r) = Some (RErr DatabaseError) /\ fst r = mkDb (Some (mkVt true [])) ["CREATE TABLE t (obstacle)"]) /\
  i_res (snd (run (fault_points [(1, "duplicate column name: id")]) ex_o ex_ms (mkDb None []))) = Some ROk.
Proof. vm_compute. repeat split. Qed.

Example C10_no_retry_nonvacuous :
  i_n (snd (run (fault_points [(6, "database is locked")]) ex_o ex_ms (mkDb None []))) = 7 /\
  i_res (snd (run (fault_points [(6, "database is locked")]) ex_o ex_ms (mkDb None []))) = Some (RErr DatabaseError).
Proof. vm_compute. split; reflexivity. Qed.

(* non-vacuity: plain histories exist (all of the corpus but h9 / h10), and a wrapped script is refused at its BEGIN
   with everything rolled back *)
Example C10_script_nonvacuous :
  plain_ms ex_o ex_ms = true /\
  (let r := run_x [] ex_o [mkMig 1 "a" [mkAct [] [] ["CREATE TABLE wa (id integer)"]];
                           mkMig 2 "b" [mkAct [] [] ["BEGIN; CREATE TABLE w_be (x INTEGER); END;"]]] (mkDb None []) in
   i_res (snd r) = Some (RErr DatabaseError) /\ fst r = mkDb (Some (mkVt true [])) []).
Proof. vm_compute. repeat split. Qed.
