(* C11 — concurrent starts never double-apply.
   Pinned statements only.  Model: Model/Locking.v (any number of instances, arbitrary schedule at
   connection-call granularity) over the SQLite file-lock rules of Model/Sqlite.v with busy_timeout = 0.
   Hypotheses: [ascending ms] (loader order, distinct versions), [versions_u32 ms] (the Rust type of the
   version field), [at_version k d] (a database recorded at version k).  No hypothesis on the recorded ids
   any more: the case of an id that conflicts with the compiled one is carried through the invariant
   (then nothing is ever committed and nobody returns Ok, C11_conflict_blocks_everyone). *)
From VV.MIG Require Import Spec SeqP ShapeP ConcP TermP SoloP BridgeP.

(* for any number n of instances and any schedule: the committed database is the original one (up to the
   bookkeeping table) or exactly the result of ONE sequential run *)
Theorem C11_at_most_once : forall o ms k d n sched,
  ascending ms = true -> versions_u32 ms = true -> at_version k d = true ->
  let c := s_db (steps o ms sched (init_sys n d)) in
  c = d \/ c = sql_create_vt d \/ c = bootstrap d \/ c = fst (run [] o ms d).
Proof. exact at_most_once. Qed.
Print Assumptions C11_at_most_once.
Check C11_at_most_once : forall o ms k d n sched,
  ascending ms = true -> versions_u32 ms = true -> at_version k d = true ->
  let c := s_db (steps o ms sched (init_sys n d)) in
  c = d \/ c = sql_create_vt d \/ c = bootstrap d \/ c = fst (run [] o ms d).

(* spelled out: each pending migration's statements and its version row are committed zero times or
   exactly once, all together and in order *)
Theorem C11_committed_once : forall o ms k d n sched,
  ascending ms = true -> versions_u32 ms = true -> at_version k d = true ->
  let c := s_db (steps o ms sched (init_sys n d)) in
  exists l, (l = [] \/ l = pending k ms) /\
    d_applied c = d_applied d ++ stmts_all o l /\
    recorded_versions c = recorded_versions d ++ map (fun m => Z.of_N (m_version m)) l.
Proof. exact committed_once. Qed.
Print Assumptions C11_committed_once.
Check C11_committed_once : forall o ms k d n sched,
  ascending ms = true -> versions_u32 ms = true -> at_version k d = true ->
  let c := s_db (steps o ms sched (init_sys n d)) in
  exists l, (l = [] \/ l = pending k ms) /\
    d_applied c = d_applied d ++ stmts_all o l /\
    recorded_versions c = recorded_versions d ++ map (fun m => Z.of_N (m_version m)) l.

(* every instance, at any moment: finished with Ok or Err, holding no lock and no open transaction view;
   or still running and able to take its next step (never stuck) *)
Theorem C11_each_instance_ok_or_err : forall o ms k d n sched p,
  ascending ms = true -> versions_u32 ms = true -> at_version k d = true ->
  In p (s_insts (steps o ms sched (init_sys n d))) ->
  match i_res (p_inst p) with
  | Some r => (r = ROk \/ exists e, r = RErr e) /\ i_lock (p_inst p) = Unlocked /\ i_buf (p_inst p) = None
  | None => p_todo p <> []
  end.
Proof. exact each_instance_ok_or_err. Qed.
Print Assumptions C11_each_instance_ok_or_err.
Check C11_each_instance_ok_or_err : forall o ms k d n sched p,
  ascending ms = true -> versions_u32 ms = true -> at_version k d = true ->
  In p (s_insts (steps o ms sched (init_sys n d))) ->
  match i_res (p_inst p) with
  | Some r => (r = ROk \/ exists e, r = RErr e) /\ i_lock (p_inst p) = Unlocked /\ i_buf (p_inst p) = None
  | None => p_todo p <> []
  end.

(* ... and it does return: after steps_bound = 5 + (1 + sum over migrations of (statements + 1)) of its own
   scheduler steps an instance has finished, whatever the other instances do in between (no hang, no
   unbounded retry inside the generated code) *)
Theorem C11_instance_terminates : forall o ms k d n sched pid,
  ascending ms = true -> versions_u32 ms = true -> at_version k d = true ->
  pid < n -> steps_bound o ms <= count_occ Nat.eq_dec sched pid ->
  exists p, nth_error (s_insts (steps o ms sched (init_sys n d))) pid = Some p /\ finished p = true.
Proof. exact instance_terminates. Qed.
Print Assumptions C11_instance_terminates.
Check C11_instance_terminates : forall o ms k d n sched pid,
  ascending ms = true -> versions_u32 ms = true -> at_version k d = true ->
  pid < n -> steps_bound o ms <= count_occ Nat.eq_dec sched pid ->
  exists p, nth_error (s_insts (steps o ms sched (init_sys n d))) pid = Some p /\ finished p = true.

(* once all have finished, re-running (any loser, any number >= 1 of times, one after the other) ends in
   the database of one sequential run *)
Theorem C11_retry_converges : forall o ms k d n sched retries,
  ascending ms = true -> versions_u32 ms = true -> at_version k d = true ->
  all_finished (steps o ms sched (init_sys n d)) = true ->
  Nat.iter (S retries) (fun c => fst (run [] o ms c)) (s_db (steps o ms sched (init_sys n d))) = fst (run [] o ms d).
Proof. exact retry_converges. Qed.
Print Assumptions C11_retry_converges.
Check C11_retry_converges : forall o ms k d n sched retries,
  ascending ms = true -> versions_u32 ms = true -> at_version k d = true ->
  all_finished (steps o ms sched (init_sys n d)) = true ->
  Nat.iter (S retries) (fun c => fst (run [] o ms c)) (s_db (steps o ms sched (init_sys n d))) = fst (run [] o ms d).

(* the link to the sequential semantics: ONE instance, scheduled at least steps_bound times, ends with exactly
   the committed database, result and call log of [run], for every fault set — so the theorems above
   specialise to C09 / C10, and the [run] in C11_retry_converges is what a lone retry does in the system *)
Theorem C11_steps_single_is_run : forall F o ms d n,
  steps_bound o ms <= n ->
  let s := steps o ms (repeat 0 n) (init_sys_faults [F] d) in
  s_db s = fst (run F o ms d) /\ map p_inst (s_insts s) = [snd (run F o ms d)].
Proof. exact steps_single_is_run. Qed.
Print Assumptions C11_steps_single_is_run.
Check C11_steps_single_is_run : forall F o ms d n,
  steps_bound o ms <= n ->
  let s := steps o ms (repeat 0 n) (init_sys_faults [F] d) in
  s_db s = fst (run F o ms d) /\ map p_inst (s_insts s) = [snd (run F o ms d)].

(* a recorded id that makes some comparison of lib.rs:153/198 fail ([ids_ok ms d = false]; implied by
   [id_conflict ms d = true] on a table with distinct versions, C09_id_mismatch_reported): whatever the
   schedule and the number of instances, nothing is committed and no instance returns Ok *)
Theorem C11_conflict_blocks_everyone : forall o ms k d n sched,
  ascending ms = true -> versions_u32 ms = true -> at_version k d = true -> ids_ok ms d = false ->
  let s := steps o ms sched (init_sys n d) in
  (s_db s = d \/ s_db s = sql_create_vt d \/ s_db s = bootstrap d) /\
  forall p, In p (s_insts s) -> i_res (p_inst p) <> Some ROk.
Proof. exact conflict_blocks_everyone. Qed.
Print Assumptions C11_conflict_blocks_everyone.
Check C11_conflict_blocks_everyone : forall o ms k d n sched,
  ascending ms = true -> versions_u32 ms = true -> at_version k d = true -> ids_ok ms d = false ->
  let s := steps o ms sched (init_sys n d) in
  (s_db s = d \/ s_db s = sql_create_vt d \/ s_db s = bootstrap d) /\
  forall p, In p (s_insts s) -> i_res (p_inst p) <> Some ROk.

(* the verbose flag changes nothing under contention either *)
Theorem C11_verbose_same_steps : forall b p vt ms sched s,
  steps (mkOpts b p vt true) ms sched s = steps (mkOpts b p vt false) ms sched s.
Proof. exact verbose_same_steps. Qed.
Print Assumptions C11_verbose_same_steps.
Check C11_verbose_same_steps : forall b p vt ms sched s,
  steps (mkOpts b p vt true) ms sched s = steps (mkOpts b p vt false) ms sched s.

(* K-mig evaluates the extended interleaving semantics [steps_x] (Model/MigratorX.v: statements with their own
   transaction control); on every history without such statements it is the [steps] of the theorems above *)
Theorem C11_plain_steps_x_is_steps : forall o ms sched fs d, plain_ms o ms = true ->
  steps_x o ms sched (init_sys_x fs d) = lift_sys (steps o ms sched (init_sys_faults fs d)).
Proof. exact steps_x_plain. Qed.
Print Assumptions C11_plain_steps_x_is_steps.
Check C11_plain_steps_x_is_steps : forall o ms sched fs d, plain_ms o ms = true ->
  steps_x o ms sched (init_sys_x fs d) = lift_sys (steps o ms sched (init_sys_faults fs d)).

(* non-vacuity: three instances on a fresh database; under one schedule the first wins and the others get
   Busy, under another a reader blocks the writer's COMMIT and a later instance does the work; under a
   third nobody has committed yet — the three disjuncts of the theorem are all inhabited *)
Definition ex_ms : list mig :=
  [mkMig 1 "a" [mkAct [] [] ["CREATE TABLE t (a)"]]; mkMig 2 "b" [mkAct [] [] ["ALTER 1"; "ALTER 2"]]].
Definition ex_o : opts := mkOpts Sqlite "" None false.
Definition alt3 : list nat := List.concat (repeat [0; 1; 2] 12).
Example C11_nonvacuous :
  ascending ex_ms = true /\ versions_u32 ex_ms = true /\ at_version 0 (mkDb None []) = true /\
  (let s := steps ex_o ex_ms alt3 (init_sys 3 (mkDb None [])) in
   all_finished s = true /\ s_db s = fst (run [] ex_o ex_ms (mkDb None [])) /\
   map (fun p => i_res (p_inst p)) (s_insts s) = [Some ROk; Some (RErr DatabaseError); Some (RErr DatabaseError)]) /\
  (let s := steps ex_o ex_ms ([0;0;0] ++ [1;1;1;1;1] ++ repeat 0 12 ++ repeat 1 12) (init_sys 2 (mkDb None [])) in
   map (fun p => i_res (p_inst p)) (s_insts s) = [Some (RErr DatabaseError); Some ROk] /\
   s_db s = fst (run [] ex_o ex_ms (mkDb None []))) /\
  (let s := steps ex_o ex_ms [0;1;0;1;0;1;0;1;0;1;0;0] (init_sys 2 (mkDb None [])) in
   all_finished s = false /\ s_db s = sql_create_vt (mkDb None [])).
Proof. vm_compute. repeat split. Qed.

(* non-vacuity of the conflict theorem: a foreign id on version 1, two instances alternating: both return
   IdMismatch, nothing is committed *)
Definition cf_d : dbstate := mkDb (Some (mkVt true [(1%Z, "someone-else")])) ["CREATE TABLE t (a)"].
Example C11_conflict_nonvacuous :
  at_version 1 cf_d = true /\ ids_ok ex_ms cf_d = false /\
  (let s := steps ex_o ex_ms (List.concat (repeat [0; 1] 8)) (init_sys 2 cf_d) in
   s_db s = cf_d /\
   map (fun p => i_res (p_inst p)) (s_insts s) =
     [Some (RErr (IdMismatch 1 "a" "someone-else")); Some (RErr (IdMismatch 1 "a" "someone-else"))]).
Proof. vm_compute. repeat split. Qed.
Example C11_single_nonvacuous :
  steps_bound ex_o ex_ms = 11 /\
  (let s := steps ex_o ex_ms (repeat 0 11) (init_sys_faults [[6]] (mkDb None [])) in
   map (fun p => i_res (p_inst p)) (s_insts s) = [Some (RErr DatabaseError)] /\ s_db s = fst (run [6] ex_o ex_ms (mkDb None []))).
Proof. vm_compute. repeat split. Qed.
