(* C19, PostgreSQL part — names symmetric between the create and the drop paths of the generator.
   Pinned statements only; the tie to the code is K-sql(pg) (gen_plan = the parsed statements of the implementation). *)
From VV.PG Require Import NamesP.

(* AddConstraint creates exactly what RemoveConstraint drops, for every constraint kind *)
Theorem C19_pg_add_remove_symmetric : forall tn k,
  created_names (gen_add_constraint tn k) = dropped_names (gen_remove_constraint tn k).
Proof. exact add_remove_symmetric. Qed.
Print Assumptions C19_pg_add_remove_symmetric.
Check C19_pg_add_remove_symmetric : forall tn k,
  created_names (gen_add_constraint tn k) = dropped_names (gen_remove_constraint tn k).

Theorem C19_pg_remove_drops_one_name : forall tn k, dropped_names (gen_remove_constraint tn k) = [dropped_name tn k].
Proof. exact remove_drops_dropped_name. Qed.
Print Assumptions C19_pg_remove_drops_one_name.
Check C19_pg_remove_drops_one_name : forall tn k, dropped_names (gen_remove_constraint tn k) = [dropped_name tn k].

(* CreateTable path: every normalised constraint except CHECK is created under the name RemoveConstraint drops *)
Theorem C19_pg_create_table_names : forall tn cols ks n q,
  normalize (mkTable tn None cols ks) = Ok n -> gen_create_table tn cols ks = Ok q ->
  forall k, In k (t_constraints n) -> is_check k = false ->
  In (dropped_name tn k) (created_names q).
Proof. exact create_table_names. Qed.
Print Assumptions C19_pg_create_table_names.
Check C19_pg_create_table_names : forall tn cols ks n q,
  normalize (mkTable tn None cols ks) = Ok n -> gen_create_table tn cols ks = Ok q ->
  forall k, In k (t_constraints n) -> is_check k = false ->
  In (dropped_name tn k) (created_names q).

(* the CHECK exception is real (D11): never created on the CreateTable path, dropped by RemoveConstraint *)
Theorem C19_pg_create_table_check_refuted :
  exists tn cols ks q k, gen_create_table tn cols ks = Ok q /\ In k ks /\
    ~ In (dropped_name tn k) (created_names q).
Proof. exact create_table_check_refuted. Qed.
Print Assumptions C19_pg_create_table_check_refuted.
Check C19_pg_create_table_check_refuted :
  exists tn cols ks q k, gen_create_table tn cols ks = Ok q /\ In k ks /\
    ~ In (dropped_name tn k) (created_names q).

(* enum types: AddColumn creates the type DeleteColumn drops (string enums) ... *)
Theorem C19_pg_enum_add_delete_symmetric : forall s tn col fw,
  is_string_enum (c_type col) = true ->
  find_column_s s tn (c_name col) = Some col ->
  created_types (gen_add_column tn col fw) = dropped_types (gen_delete_column s tn (c_name col)).
Proof. exact enum_add_delete_symmetric. Qed.
Print Assumptions C19_pg_enum_add_delete_symmetric.
Check C19_pg_enum_add_delete_symmetric : forall s tn col fw,
  is_string_enum (c_type col) = true ->
  find_column_s s tn (c_name col) = Some col ->
  created_types (gen_add_column tn col fw) = dropped_types (gen_delete_column s tn (c_name col)).

Theorem C19_pg_enum_create_table_name : forall tn name vals c rest,
  ev_is_integer vals = false -> c_type c = TEnum name vals ->
  created_types (create_enum_types tn (c :: rest) [])
  = build_enum_type_name tn name :: created_types (create_enum_types tn rest [name]).
Proof. exact enum_create_table_name. Qed.
Print Assumptions C19_pg_enum_create_table_name.
Check C19_pg_enum_create_table_name : forall tn name vals c rest,
  ev_is_integer vals = false -> c_type c = TEnum name vals ->
  created_types (create_enum_types tn (c :: rest) [])
  = build_enum_type_name tn name :: created_types (create_enum_types tn rest [name]).

(* ... the enum-to-enum value change goes through {t}_{e}_new and ends under the original name *)
Theorem C19_pg_enum_values_change_keeps_name : forall tn c e v1 v2 d,
  v1 <> v2 ->
  let s := [mkTable tn None [mkCol c (TEnum e v1) true d None None None None None] []] in
  exists rest, gen_modify_column_type s tn c (TEnum e v2) None
    = SCreateType (build_enum_type_name tn e +++ "_new") (enum_sql_values v2) :: rest
    /\ In (SDropType (build_enum_type_name tn e)) rest
    /\ In (SRenameType (build_enum_type_name tn e +++ "_new") (build_enum_type_name tn e)) rest.
Proof. exact enum_values_change_keeps_name. Qed.
Print Assumptions C19_pg_enum_values_change_keeps_name.
Check C19_pg_enum_values_change_keeps_name : forall tn c e v1 v2 d,
  v1 <> v2 ->
  let s := [mkTable tn None [mkCol c (TEnum e v1) true d None None None None None] []] in
  exists rest, gen_modify_column_type s tn c (TEnum e v2) None
    = SCreateType (build_enum_type_name tn e +++ "_new") (enum_sql_values v2) :: rest
    /\ In (SDropType (build_enum_type_name tn e)) rest
    /\ In (SRenameType (build_enum_type_name tn e +++ "_new") (build_enum_type_name tn e)) rest.

(* ... but an integer enum is dropped without ever having been created (D13) *)
Theorem C19_pg_int_enum_refuted :
  exists s tn col, find_column_s s tn (c_name col) = Some col /\
    created_types (gen_add_column tn col None) = [] /\
    dropped_types (gen_delete_column s tn (c_name col)) = ["t_level"].
Proof. exact int_enum_refuted. Qed.
Print Assumptions C19_pg_int_enum_refuted.
Check C19_pg_int_enum_refuted :
  exists s tn col, find_column_s s tn (c_name col) = Some col /\
    created_types (gen_add_column tn col None) = [] /\
    dropped_types (gen_delete_column s tn (c_name col)) = ["t_level"].

(* symmetry is lost across RenameTable (D13): created under the old table name, dropped under the new one *)
Theorem C19_pg_rename_table_refuted :
  exists old new k, created_names (gen_add_constraint old k) <> dropped_names (gen_remove_constraint new k)
    /\ (forall s, gen s [] (RenameTable old new) = Ok [SAlterTable old [ARenameTo new]]).
Proof. exact rename_table_refuted. Qed.
Print Assumptions C19_pg_rename_table_refuted.
Check C19_pg_rename_table_refuted :
  exists old new k, created_names (gen_add_constraint old k) <> dropped_names (gen_remove_constraint new k)
    /\ (forall s, gen s [] (RenameTable old new) = Ok [SAlterTable old [ARenameTo new]]).

Theorem C19_pg_rename_table_index_refuted :
  created_names (gen_add_constraint "t" (CIndex None ["a"])) = ["ix_t__a"] /\
  dropped_names (gen_remove_constraint "u" (CIndex None ["a"])) = ["ix_u__a"].
Proof. exact rename_table_index_refuted. Qed.
Print Assumptions C19_pg_rename_table_index_refuted.
Check C19_pg_rename_table_index_refuted :
  created_names (gen_add_constraint "t" (CIndex None ["a"])) = ["ix_t__a"] /\
  dropped_names (gen_remove_constraint "u" (CIndex None ["a"])) = ["ix_u__a"].

Example ex_create_table_names :
  In "fk_post__user_id" (created_names (match gen_create_table "post" [icol "id"; ncol "user_id" (TSimple Integer)] [pk_id; w_fk] with Ok q => q | Err _ => [] end)).
Proof. vm_compute. auto. Qed.
