(* C14, PostgreSQL part — a table prefix renames tables (and the table part of derived names) and nothing else:
   the generator is equivariant under the literal renaming of the project.  Pinned statements only; the tie to the
   code is K-sql(pg). *)
From VV.M1 Require Import PrefixHyp PrefixP PrefixApplyP.
From VV.PG Require Import PrefixPlanP WitnessP.

(* one action, all 13 builders *)
Theorem C14_pg_gen_equivariant : forall p s a P P', no_dot p -> side_pg s a = true ->
  gen (literal_schema p s) P' (literal_action p a)
  = match gen s P a with Ok q => Ok (map (rename_stmt p) q) | Err e => Err e end.
Proof. exact gen_equivariant. Qed.
Print Assumptions C14_pg_gen_equivariant.
Check C14_pg_gen_equivariant : forall p s a P P', no_dot p -> side_pg s a = true ->
  gen (literal_schema p s) P' (literal_action p a)
  = match gen s P a with Ok q => Ok (map (rename_stmt p) q) | Err e => Err e end.

(* a whole plan, with the evolving schema of build_plan_queries *)
Theorem C14_pg_gen_plan_equivariant : forall p, no_dot p -> forall acts s, side_plan p s acts = true ->
  gen_plan (literal_schema p s) (map (literal_action p) acts)
  = match gen_plan s acts with Ok qs => Ok (map (map (rename_stmt p)) qs) | Err e => Err e end.
Proof. exact gen_plan_equivariant. Qed.
Print Assumptions C14_pg_gen_plan_equivariant.
Check C14_pg_gen_plan_equivariant : forall p, no_dot p -> forall acts s, side_plan p s acts = true ->
  gen_plan (literal_schema p s) (map (literal_action p) acts)
  = match gen_plan s acts with Ok qs => Ok (map (map (rename_stmt p)) qs) | Err e => Err e end.

(* MigrationPlan::with_prefix itself (after the D10 repair it also prefixes inline foreign_key targets): the SQL of the
   prefixed plan on the literally renamed baseline is the renamed SQL, when the inline references parse *)
Theorem C14_pg_with_prefix_gen_plan : forall p pl s, p <> "" -> no_dot p ->
  forallb inline_fks_parse (p_actions pl) = true -> side_plan p s (p_actions pl) = true ->
  gen_plan (literal_schema p s) (p_actions (plan_with_prefix p pl))
  = match gen_plan s (p_actions pl) with Ok qs => Ok (map (map (rename_stmt p)) qs) | Err e => Err e end.
Proof. exact with_prefix_gen_plan. Qed.
Print Assumptions C14_pg_with_prefix_gen_plan.
Check C14_pg_with_prefix_gen_plan : forall p pl s, p <> "" -> no_dot p ->
  forallb inline_fks_parse (p_actions pl) = true -> side_plan p s (p_actions pl) = true ->
  gen_plan (literal_schema p s) (p_actions (plan_with_prefix p pl))
  = match gen_plan s (p_actions pl) with Ok qs => Ok (map (map (rename_stmt p)) qs) | Err e => Err e end.

Theorem C14_pg_with_prefix_gen : forall p s a P P', p <> "" -> no_dot p -> inline_fks_parse a = true -> side_pg s a = true ->
  gen (literal_schema p s) P' (action_with_prefix p a)
  = match gen s P a with Ok q => Ok (map (rename_stmt p) q) | Err e => Err e end.
Proof. exact with_prefix_gen. Qed.
Print Assumptions C14_pg_with_prefix_gen.
Check C14_pg_with_prefix_gen : forall p s a P P', p <> "" -> no_dot p -> inline_fks_parse a = true -> side_pg s a = true ->
  gen (literal_schema p s) P' (action_with_prefix p a)
  = match gen s P a with Ok q => Ok (map (rename_stmt p) q) | Err e => Err e end.

(* the repaired behaviour on the D10 witness: the inline reference "user.id" now yields REFERENCES "app_user" *)
Example ex_d10_fixed :
  gen [] [] (action_with_prefix "app_" (CreateTable "post"
     [mkCol "id" (TSimple Integer) false None None (Some (PKBool true)) None None None;
      mkCol "user_id" (TSimple Integer) true None None None None None (Some (FKStr "user.id"))] []))
  = Ok [SCreateTable "app_post"
          [mkCd "id" (mkTy "integer" false) true None false; mkCd "user_id" (mkTy "integer" false) false None false]
          [["id"]] [mkFk (Some "fk_app_post__user_id") ["user_id"] "app_user" ["id"] None None] []].
Proof. vm_compute. reflexivity. Qed.

(* the renaming touches table names and the table part of derived names only *)
Theorem C14_pg_names : forall p t cols key e,
  build_index_name (p +++ t) cols key = rn3 p (build_index_name t cols key) /\
  build_unique_constraint_name (p +++ t) cols key = rn3 p (build_unique_constraint_name t cols key) /\
  build_foreign_key_name (p +++ t) cols key = rn3 p (build_foreign_key_name t cols key) /\
  build_enum_type_name (p +++ t) e = p +++ build_enum_type_name t e.
Proof.
  intros. repeat split; [apply ix_name_prefix|apply uq_name_prefix|apply fk_name_prefix|apply enum_name_prefix].
Qed.
Print Assumptions C14_pg_names.
Check C14_pg_names : forall p t cols key e,
  build_index_name (p +++ t) cols key = rn3 p (build_index_name t cols key) /\
  build_unique_constraint_name (p +++ t) cols key = rn3 p (build_unique_constraint_name t cols key) /\
  build_foreign_key_name (p +++ t) cols key = rn3 p (build_foreign_key_name t cols key) /\
  build_enum_type_name (p +++ t) e = p +++ build_enum_type_name t e.

(* the side condition on CHECK names is needed: a CHECK called like the table's key is renamed by mistake *)
Theorem C14_pg_check_name_side_needed :
  exists p t k, gen_remove_constraint (p +++ t) (literal_constraint p k)
                <> map (rename_stmt p) (gen_remove_constraint t k).
Proof. exists "app_", "t", (CCheck "t_pkey" "id > 0"). vm_compute. discriminate. Qed.
Print Assumptions C14_pg_check_name_side_needed.
Check C14_pg_check_name_side_needed :
  exists p t k, gen_remove_constraint (p +++ t) (literal_constraint p k)
                <> map (rename_stmt p) (gen_remove_constraint t k).

(* non-vacuity: a plan with a create, an enum column, constraints and drops satisfies the side conditions *)
Example ex_side_plan :
  side_plan "app_" w_d2
    [AddColumn "post" (ncol "st" w_status) None; AddConstraint "post" (CIndex None ["st"]);
     CreateTable "tag" [icol "id"; ncol "post_id" (TSimple Integer)] [pk_id; CForeignKey None ["post_id"] "post" ["id"] (Some Cascade) None];
     RemoveConstraint "post" w_fk; DeleteColumn "post" "st"; DeleteTable "user"] = true.
Proof. vm_compute. reflexivity. Qed.
Example ex_equivariant_computes :
  gen_plan (literal_schema "app_" w_d2) (map (literal_action "app_") [RemoveConstraint "post" w_fk; DeleteTable "user"])
  = Ok [[SAlterTable "app_post" [ADropConstraint "fk_app_post__user_id"]]; [SDropTable "app_user"]].
Proof. vm_compute. reflexivity. Qed.
