(* C03 — PostgreSQL statement sequences are executable and leave the declared schema (interpreted by a
   PostgreSQL catalog model).  Pinned statements only. *)
From VV.PG Require Import WitnessP.

(* the full-strength target (a definition, not a claim): for every baseline and every action list, executing
   gen_plan from catalog_of (baseline) never errors and ends in catalog_of (replayed baseline) *)
Definition C03_full_statement : Prop :=
  forall s acts s', apply_all s acts = Ok s' ->
    exists stmts c', gen_plan s acts = Ok stmts /\ run_actions (catalog_of s) 0 stmts = Ok c'
                     /\ cat_equiv c' (catalog_of s') = true.

Theorem C03_refuted : ~ C03_full_statement.
Proof. exact c03_refuted. Qed.
Print Assumptions C03_refuted.
Check C03_refuted : ~ C03_full_statement.
