(* C03 — PostgreSQL statement sequences are executable and leave the declared schema (interpreted by a
   PostgreSQL catalog model: coq/pg/Model/Engine.v, modelled, not verified).  Pinned statements only. *)
From VV.PG Require Import WitnessP SimKindsP SimCreateP SimColumnP EnumP RenameColP DefaultP RenameTableP DeleteColP PendingP.

(* ---------- the full-strength target (a definition, not a claim) ----------
   for every baseline and every action list whose replay succeeds, executing gen_plan from
   catalog_of (baseline) never errors and ends in catalog_of (replayed baseline) *)
Definition C03_full_statement : Prop :=
  forall s acts s', apply_all s acts = Ok s' ->
    exists stmts c', gen_plan s acts = Ok stmts /\ run_actions (catalog_of s) 0 stmts = Ok c'
                     /\ cat_equiv c' (catalog_of s') = true.

(* it is FALSE of the faithful model *)
Theorem C03_refuted : ~ C03_full_statement.
Proof. exact c03_refuted. Qed.
Print Assumptions C03_refuted.
Check C03_refuted : ~ C03_full_statement.

(* ---------- refutation witnesses (each is a corpus file replayed on the real code by every run) ---------- *)
Theorem C03_drop_type_shared_refuted :
  run_plan w_shared [DeleteColumn "t" "b"] = Some (Err (0, 1, ETypeInUse "t_status"))%nat.
Proof. exact drop_type_shared_refuted. Qed.
Print Assumptions C03_drop_type_shared_refuted.
Check C03_drop_type_shared_refuted :
  run_plan w_shared [DeleteColumn "t" "b"] = Some (Err (0, 1, ETypeInUse "t_status"))%nat.

Theorem C03_drop_type_int_enum_refuted :
  run_plan w_int [DeleteColumn "t" "lvl"] = Some (Err (0, 1, ENoType "t_level"))%nat.
Proof. exact drop_type_int_enum_refuted. Qed.
Print Assumptions C03_drop_type_int_enum_refuted.
Check C03_drop_type_int_enum_refuted :
  run_plan w_int [DeleteColumn "t" "lvl"] = Some (Err (0, 1, ENoType "t_level"))%nat.

Theorem C03_drop_table_order_refuted :
  run_plan w_d2 [DeleteTable "user"; RemoveConstraint "post" w_fk]
  = Some (Err (0, 0, EDependentFk "user" "post" "fk_post__user_id"))%nat.
Proof. exact drop_table_order_refuted. Qed.
Print Assumptions C03_drop_table_order_refuted.
Check C03_drop_table_order_refuted :
  run_plan w_d2 [DeleteTable "user"; RemoveConstraint "post" w_fk]
  = Some (Err (0, 0, EDependentFk "user" "post" "fk_post__user_id"))%nat.

Theorem C03_check_dropped_refuted :
  match run_plan [] w_check with
  | Some (Ok c) => cat_diff c (catalog_of (after_of [] w_check)) = [DMissingConstraint "t" "chk_pos"]
  | _ => False
  end.
Proof. exact check_dropped_refuted. Qed.
Print Assumptions C03_check_dropped_refuted.
Check C03_check_dropped_refuted :
  match run_plan [] w_check with
  | Some (Ok c) => cat_diff c (catalog_of (after_of [] w_check)) = [DMissingConstraint "t" "chk_pos"]
  | _ => False
  end.

Theorem C03_pkey_after_rename_refuted :
  run_plan w_t [RenameTable "t" "u"; RemoveConstraint "u" pk_id] = Some (Err (1, 0, ENoConstraint "u" "u_pkey"))%nat.
Proof. exact pkey_after_rename_refuted. Qed.
Print Assumptions C03_pkey_after_rename_refuted.
Check C03_pkey_after_rename_refuted :
  run_plan w_t [RenameTable "t" "u"; RemoveConstraint "u" pk_id] = Some (Err (1, 0, ENoConstraint "u" "u_pkey"))%nat.

Theorem C03_composite_member_refuted :
  run_plan w_d18 [DeleteColumn "t" "b"; RemoveConstraint "t" (CIndex None ["a"; "b"]); AddConstraint "t" (CIndex None ["a"])]
  = Some (Err (1, 0, ENoIndex "ix_t__a_b"))%nat.
Proof. exact composite_member_refuted. Qed.
Print Assumptions C03_composite_member_refuted.
Check C03_composite_member_refuted :
  run_plan w_d18 [DeleteColumn "t" "b"; RemoveConstraint "t" (CIndex None ["a"; "b"]); AddConstraint "t" (CIndex None ["a"])]
  = Some (Err (1, 0, ENoIndex "ix_t__a_b"))%nat.

Theorem C03_enum_left_by_drop_table_refuted :
  match run_plan w_enum_t [DeleteTable "t"] with
  | Some (Ok c) => cat_diff c (catalog_of []) = [DExtraType "t_status"]
  | _ => False
  end.
Proof. exact enum_left_by_drop_table_refuted. Qed.
Print Assumptions C03_enum_left_by_drop_table_refuted.
Check C03_enum_left_by_drop_table_refuted :
  match run_plan w_enum_t [DeleteTable "t"] with
  | Some (Ok c) => cat_diff c (catalog_of []) = [DExtraType "t_status"]
  | _ => False
  end.

Theorem C03_enum_case_fold_refuted :
  run_plan [] [CreateTable "t" [icol "id"; ncol "s" (TEnum "Status" (EVString ["on"]))] [pk_id]]
  = Some (Err (0, 1, ENoType "t_status"))%nat.
Proof. exact enum_case_fold_refuted. Qed.
Print Assumptions C03_enum_case_fold_refuted.
Check C03_enum_case_fold_refuted :
  run_plan [] [CreateTable "t" [icol "id"; ncol "s" (TEnum "Status" (EVString ["on"]))] [pk_id]]
  = Some (Err (0, 1, ENoType "t_status"))%nat.

Theorem C03_rename_column_names_refuted :
  run_plan w_ix [RenameColumn "t" "a" "b"; RemoveConstraint "t" (CIndex None ["b"])]
  = Some (Err (1, 0, ENoIndex "ix_t__b"))%nat.
Proof. exact rename_column_names_refuted. Qed.
Print Assumptions C03_rename_column_names_refuted.
Check C03_rename_column_names_refuted :
  run_plan w_ix [RenameColumn "t" "a" "b"; RemoveConstraint "t" (CIndex None ["b"])]
  = Some (Err (1, 0, ENoIndex "ix_t__b"))%nat.

(* D18, the sequel one migration later: the replayed baseline holds two primary keys (RemoveConstraint compares by
   equality and missed the shrunk key), a foreign key to the intended key has no unique index to use *)
Theorem C03_stale_key_refuted :
  run_plan (after_of w_stale0 w_stale_plan)
    [AddColumn "a" (ncol "b_author_id" (TSimple Integer)) None;
     AddConstraint "a" (CForeignKey None ["b_author_id"] "a_b" ["author_id"] None None)]
  = Some (Err (1, 0, EFkNoUniqueTarget "a" "a_b"))%nat.
Proof. exact stale_key_refuted. Qed.
Print Assumptions C03_stale_key_refuted.
Check C03_stale_key_refuted :
  run_plan (after_of w_stale0 w_stale_plan)
    [AddColumn "a" (ncol "b_author_id" (TSimple Integer)) None;
     AddConstraint "a" (CForeignKey None ["b_author_id"] "a_b" ["author_id"] None None)]
  = Some (Err (1, 0, EFkNoUniqueTarget "a" "a_b"))%nat.
Example ex_stale_key_shape : base_stale_key_tables (after_of w_stale0 w_stale_plan) = ["a_b"] /\ base_stale_key_tables w_d2 = [].
Proof. vm_compute. split; reflexivity. Qed.

(* ---------- the simulation invariant Sim s c := c = catalog_of s, lifted over plans and histories (no bound) ---------- *)
Theorem C03_Sim_plan : forall acts s n,
  all_steps step_sim s acts ->
  exists qs, gen_plan s acts = Ok qs /\
             run_actions (catalog_of s) n qs = Ok (catalog_of (final_schema s acts)).
Proof. exact Sim_plan. Qed.
Print Assumptions C03_Sim_plan.
Check C03_Sim_plan : forall acts s n,
  all_steps step_sim s acts ->
  exists qs, gen_plan s acts = Ok qs /\
             run_actions (catalog_of s) n qs = Ok (catalog_of (final_schema s acts)).

Theorem C03_Sim_history : forall h s,
  all_history step_sim s h ->
  run_history (catalog_of s) s h = Some (catalog_of (fold_left final_schema h s)).
Proof. exact Sim_history. Qed.
Print Assumptions C03_Sim_history.
Check C03_Sim_history : forall h s,
  all_history step_sim s h ->
  run_history (catalog_of s) s h = Some (catalog_of (fold_left final_schema h s)).

Theorem C03_final_schema_is_replay : forall acts s s', apply_all s acts = Ok s' -> final_schema s acts = s'.
Proof. exact final_schema_apply_all. Qed.
Print Assumptions C03_final_schema_is_replay.
Check C03_final_schema_is_replay : forall acts s s', apply_all s acts = Ok s' -> final_schema s acts = s'.

(* ---------- one lemma per action kind: decidable hypothesis -> the step preserves Sim ---------- *)
Theorem C03_sim_pg_raw_sql : forall s sql, step_sim s (RawSql sql).
Proof. exact sim_pg_raw_sql. Qed.
Print Assumptions C03_sim_pg_raw_sql.
Check C03_sim_pg_raw_sql : forall s sql, step_sim s (RawSql sql).

Theorem C03_sim_pg_modify_column_comment : forall s tn cn d,
  hyp_modify_comment s tn cn = true -> step_sim s (ModifyColumnComment tn cn d).
Proof. exact sim_pg_modify_column_comment. Qed.
Print Assumptions C03_sim_pg_modify_column_comment.
Check C03_sim_pg_modify_column_comment : forall s tn cn d,
  hyp_modify_comment s tn cn = true -> step_sim s (ModifyColumnComment tn cn d).

(* all five kinds: Index / Unique (CREATE INDEX), Check, ForeignKey (the target has a key over exactly the referenced
   columns: A1 on the database as it is), PrimaryKey (no key yet, auto_increment false — with auto_increment the
   statement is refuted: K12).  The name keeps its _partial suffix for continuity; nothing is left out *)
Theorem C03_sim_pg_add_constraint_partial : forall s tn k,
  hyp_add_constraint s tn k = true -> step_sim s (AddConstraint tn k).
Proof. exact sim_pg_add_constraint. Qed.
Print Assumptions C03_sim_pg_add_constraint_partial.
Check C03_sim_pg_add_constraint_partial : forall s tn k,
  hyp_add_constraint s tn k = true -> step_sim s (AddConstraint tn k).

(* Index / Unique / Check / ForeignKey (Unique: no foreign key needs the index); the primary key is the next theorem *)
Theorem C03_sim_pg_remove_constraint_partial : forall s tn k,
  hyp_remove_constraint s tn k = true -> step_sim s (RemoveConstraint tn k).
Proof. exact sim_pg_remove_constraint. Qed.
Print Assumptions C03_sim_pg_remove_constraint_partial.
Check C03_sim_pg_remove_constraint_partial : forall s tn k,
  hyp_remove_constraint s tn k = true -> step_sim s (RemoveConstraint tn k).

(* the primary key: outside K12 (auto_increment), K15 (a foreign key needs the key's index); key columns declared
   NOT NULL (A2) *)
Theorem C03_sim_pg_remove_pk : forall s tn k, hyp_remove_pk s tn k = true -> step_sim s (RemoveConstraint tn k).
Proof. exact sim_pg_remove_pk. Qed.
Print Assumptions C03_sim_pg_remove_pk.
Check C03_sim_pg_remove_pk : forall s tn k, hyp_remove_pk s tn k = true -> step_sim s (RemoveConstraint tn k).

(* SET / DROP NOT NULL (with the back-fill UPDATE); DROP NOT NULL not on a key column (A2) *)
Theorem C03_sim_pg_modify_column_nullable : forall s tn cn b fw,
  hyp_modify_nullable s tn cn b = true -> step_sim s (ModifyColumnNullable tn cn b fw).
Proof. exact sim_pg_modify_column_nullable. Qed.
Print Assumptions C03_sim_pg_modify_column_nullable.
Check C03_sim_pg_modify_column_nullable : forall s tn cn b fw,
  hyp_modify_nullable s tn cn b = true -> step_sim s (ModifyColumnNullable tn cn b fw).

(* SET / DROP DEFAULT.  _partial: the text SET DEFAULT stores must be the text the baseline renders (they differ for
   now() vs CURRENT_TIMESTAMP and the like: the oracle compares such defaults modulo canon_default, the theorem
   literally) *)
Theorem C03_sim_pg_modify_column_default_partial : forall s tn cn d,
  hyp_modify_default s tn cn d = true -> step_sim s (ModifyColumnDefault tn cn d).
Proof. exact sim_pg_modify_column_default. Qed.
Print Assumptions C03_sim_pg_modify_column_default_partial.
Check C03_sim_pg_modify_column_default_partial : forall s tn cn d,
  hyp_modify_default s tn cn d = true -> step_sim s (ModifyColumnDefault tn cn d).

(* ALTER COLUMN .. TYPE.  _partial: between two non-enum types (the enum paths are K2/K3/K9 or still unproved) *)
Theorem C03_sim_pg_modify_column_type_partial : forall s tn cn ty fw,
  hyp_modify_type s tn cn ty = true -> step_sim s (ModifyColumnType tn cn ty fw).
Proof. exact sim_pg_modify_column_type. Qed.
Print Assumptions C03_sim_pg_modify_column_type_partial.
Check C03_sim_pg_modify_column_type_partial : forall s tn cn ty fw,
  hyp_modify_type s tn cn ty = true -> step_sim s (ModifyColumnType tn cn ty fw).

(* outside K4 (inbound foreign key) and K8 (string enum column) *)
Theorem C03_sim_pg_delete_table : forall s tn, hyp_delete_table s tn = true -> step_sim s (DeleteTable tn).
Proof. exact sim_pg_delete_table. Qed.
Print Assumptions C03_sim_pg_delete_table.
Check C03_sim_pg_delete_table : forall s tn, hyp_delete_table s tn = true -> step_sim s (DeleteTable tn).

(* _partial: no string-enum type to create (integer enums are covered), re-normalisation promotes nothing; this is the
   single-statement path, the back-fill sequence is the next theorem *)
Theorem C03_sim_pg_add_column_partial : forall s tn col fw,
  hyp_add_column s tn col fw = true -> step_sim s (AddColumn tn col fw).
Proof. exact sim_pg_add_column. Qed.
Print Assumptions C03_sim_pg_add_column_partial.
Check C03_sim_pg_add_column_partial : forall s tn col fw,
  hyp_add_column s tn col fw = true -> step_sim s (AddColumn tn col fw).

(* ADD COLUMN (nullable); UPDATE; ALTER COLUMN .. TYPE .., ALTER COLUMN .. SET NOT NULL *)
Theorem C03_sim_pg_add_column_backfill_partial : forall s tn col fw,
  hyp_add_column_backfill s tn col fw = true -> step_sim s (AddColumn tn col fw).
Proof. exact sim_pg_add_column_backfill. Qed.
Print Assumptions C03_sim_pg_add_column_backfill_partial.
Check C03_sim_pg_add_column_backfill_partial : forall s tn col fw,
  hyp_add_column_backfill s tn col fw = true -> step_sim s (AddColumn tn col fw).

(* _partial: the plain path only — the column has no enum type, belongs to no constraint or index, no CHECK mentions
   it and no foreign key references it (outside K2, K3, K4, K5) *)
Theorem C03_sim_pg_delete_column_partial : forall s tn cn,
  hyp_delete_column s tn cn = true -> step_sim s (DeleteColumn tn cn).
Proof. exact sim_pg_delete_column. Qed.
Print Assumptions C03_sim_pg_delete_column_partial.
Check C03_sim_pg_delete_column_partial : forall s tn cn,
  hyp_delete_column s tn cn = true -> step_sim s (DeleteColumn tn cn).

(* outside K1 (CHECK), K9/K10 (enum type name folded / clashing), K11 (name clashes), K17 (foreign-key target not
   ready): enum types, primary key, serial columns, foreign keys (self references included), unique and plain indexes
   are all covered.  The name keeps its _partial suffix for continuity *)
Theorem C03_sim_pg_create_table_partial : forall s tn cols ks,
  hyp_create_table s tn cols ks = true -> step_sim s (CreateTable tn cols ks).
Proof. exact sim_pg_create_table. Qed.
Print Assumptions C03_sim_pg_create_table_partial.
Check C03_sim_pg_create_table_partial : forall s tn cols ks,
  hyp_create_table s tn cols ks = true -> step_sim s (CreateTable tn cols ks).

(* AddColumn of a string-enum column: CREATE TYPE first, then either sequence of AddColumn.  Outside the shared-enum,
   case-fold and integer-enum classes (the type name is new, resolves to itself, no other column of the table carries
   the enum name) *)
Theorem C03_sim_pg_add_column_enum_partial : forall s tn col fw,
  hyp_add_column_enum s tn col fw = true -> step_sim s (AddColumn tn col fw).
Proof. exact sim_pg_add_column_enum. Qed.
Print Assumptions C03_sim_pg_add_column_enum_partial.
Check C03_sim_pg_add_column_enum_partial : forall s tn col fw,
  hyp_add_column_enum s tn col fw = true -> step_sim s (AddColumn tn col fw).

(* DeleteColumn of a string-enum column: DROP COLUMN, then DROP TYPE (no other column uses the type) *)
Theorem C03_sim_pg_delete_column_enum_partial : forall s tn cn,
  hyp_delete_column_enum s tn cn = true -> step_sim s (DeleteColumn tn cn).
Proof. exact sim_pg_delete_column_enum. Qed.
Print Assumptions C03_sim_pg_delete_column_enum_partial.
Check C03_sim_pg_delete_column_enum_partial : forall s tn cn,
  hyp_delete_column_enum s tn cn = true -> step_sim s (DeleteColumn tn cn).

(* ModifyColumnType with a string enum on either side, all four statement sequences of modify_column_type.rs:
   plain -> enum (CREATE TYPE, ALTER TYPE), enum -> plain (ALTER TYPE, DROP TYPE), enum -> enum of another name
   (CREATE TYPE, [DROP DEFAULT], ALTER TYPE USING, DROP TYPE, [SET DEFAULT]) and enum -> the same name with other
   values (the same through the temporary type {name}_new, then RENAME) *)
Theorem C03_sim_pg_modify_column_type_enum_partial : forall s tn cn ty fw,
  hyp_modify_type_enum s tn cn ty = true -> step_sim s (ModifyColumnType tn cn ty fw).
Proof. exact sim_pg_modify_column_type_enum. Qed.
Print Assumptions C03_sim_pg_modify_column_type_enum_partial.
Check C03_sim_pg_modify_column_type_enum_partial : forall s tn cn ty fw,
  hyp_modify_type_enum s tn cn ty = true -> step_sim s (ModifyColumnType tn cn ty fw).

(* RenameColumn: no unnamed index / unique / foreign key of the table contains the column (their derived names would
   embed it), no foreign key of another table references it, no foreign key of the table to ANOTHER table has a
   referenced column of that name (apply.rs renames those too), the new name is not in the primary key *)
Theorem C03_sim_pg_rename_column_partial : forall s tn a b,
  hyp_rename_column s tn a b = true -> step_sim s (RenameColumn tn a b).
Proof. exact sim_pg_rename_column. Qed.
Print Assumptions C03_sim_pg_rename_column_partial.
Check C03_sim_pg_rename_column_partial : forall s tn a b,
  hyp_rename_column s tn a b = true -> step_sim s (RenameColumn tn a b).

(* ModifyColumnDefault (Some x) with the stored text characterised: x is none of the spellings
   convert_default_for_backend rewrites and carries no type cast; no comparison of rendered texts is assumed *)
Theorem C03_sim_pg_modify_column_default_plain : forall s tn cn x,
  hyp_modify_default_plain s tn cn x = true -> step_sim s (ModifyColumnDefault tn cn (Some x)).
Proof. exact sim_pg_modify_column_default_plain. Qed.
Print Assumptions C03_sim_pg_modify_column_default_plain.
Check C03_sim_pg_modify_column_default_plain : forall s tn cn x,
  hyp_modify_default_plain s tn cn x = true -> step_sim s (ModifyColumnDefault tn cn (Some x)).

(* RenameTable, for the tables nothing derived from the table name and no foreign key depends on: CHECK constraints
   only (so no primary key: with one the statement is refuted, C03_pkey_after_rename_refuted), no enum column, no
   foreign key of any table references it, the new name is free *)
Theorem C03_sim_pg_rename_table_partial : forall s a b,
  hyp_rename_table s a b = true -> step_sim s (RenameTable a b).
Proof. exact sim_pg_rename_table. Qed.
Print Assumptions C03_sim_pg_rename_table_partial.
Check C03_sim_pg_rename_table_partial : forall s a b,
  hyp_rename_table s a b = true -> step_sim s (RenameTable a b).

(* DeleteColumn where a unique / index / foreign key over exactly this column goes with it (PostgreSQL drops the
   object with the column, apply.rs drops the emptied constraint); every other constraint avoids the column (D18) *)
Theorem C03_sim_pg_delete_column_goes_partial : forall s tn cn,
  hyp_delete_column_goes s tn cn = true -> step_sim s (DeleteColumn tn cn).
Proof. exact sim_pg_delete_column_goes. Qed.
Print Assumptions C03_sim_pg_delete_column_goes_partial.
Check C03_sim_pg_delete_column_goes_partial : forall s tn cn,
  hyp_delete_column_goes s tn cn = true -> step_sim s (DeleteColumn tn cn).

(* ---------- the decidable hypotheses are sound: what the check counts is what the theorems cover ---------- *)
(* sim_hyp is the disjunction of the hypotheses above, by action kind; no action kind is excluded wholesale *)
Theorem C03_sim_hyp_sound : forall s a, sim_hyp s a = true -> step_sim s a.
Proof. exact sim_hyp_sound. Qed.
Print Assumptions C03_sim_hyp_sound.
Check C03_sim_hyp_sound : forall s a, sim_hyp s a = true -> step_sim s a.

Theorem C03_Sim_plan_dec : forall acts s n, plan_hyp s acts = true ->
  exists qs, gen_plan s acts = Ok qs /\ run_actions (catalog_of s) n qs = Ok (catalog_of (final_schema s acts)).
Proof. exact Sim_plan_dec. Qed.
Print Assumptions C03_Sim_plan_dec.
Check C03_Sim_plan_dec : forall acts s n, plan_hyp s acts = true ->
  exists qs, gen_plan s acts = Ok qs /\ run_actions (catalog_of s) n qs = Ok (catalog_of (final_schema s acts)).

(* ---------- the pending-set invariant ----------
   apply.rs promotes the inline unique / index / foreign_key / primary_key declaration of an added column to a table
   constraint at once (AddColumn re-normalises the table); the database receives that constraint only when the later
   AddConstraint of the plan runs, which is a no-op for the planner's schema.  The database's schema d evolves by
   the same actions with the added column stripped of its inline declarations (db_step); the pending set is what the
   planner's schema s has and d has not.  Invariant: the catalog is catalog_of d, for every action kind, as long as
   s and d have the same tables and columns (same_core) and the step on d falls under a per-step lemma. *)
Theorem C03_Sim_plan_db : forall acts s d n, all_sim2 s d acts = true ->
  exists qs, gen_plan s acts = Ok qs /\ run_actions (catalog_of d) n qs = Ok (catalog_of (final_db d acts)).
Proof. exact Sim_plan_db. Qed.
Print Assumptions C03_Sim_plan_db.
Check C03_Sim_plan_db : forall acts s d n, all_sim2 s d acts = true ->
  exists qs, gen_plan s acts = Ok qs /\ run_actions (catalog_of d) n qs = Ok (catalog_of (final_db d acts)).

(* once the pending set is settled (both schemas describe the same catalog at the end of the plan) the plan takes
   catalog_of s to catalog_of of the planner's final schema: AddColumn with an inline declaration is no longer
   excluded by hypothesis *)
Theorem C03_Sim_plan_pending : forall acts s n, plan_hyp_pending s acts = true ->
  exists qs, gen_plan s acts = Ok qs /\ run_actions (catalog_of s) n qs = Ok (catalog_of (final_schema s acts)).
Proof. exact Sim_plan_pending. Qed.
Print Assumptions C03_Sim_plan_pending.
Check C03_Sim_plan_pending : forall acts s n, plan_hyp_pending s acts = true ->
  exists qs, gen_plan s acts = Ok qs /\ run_actions (catalog_of s) n qs = Ok (catalog_of (final_schema s acts)).

Theorem C03_Sim_history_pending : forall h s, history_ok s h = true ->
  run_history (catalog_of s) s h = Some (catalog_of (fold_left final_schema h s)).
Proof. exact Sim_history_pending. Qed.
Print Assumptions C03_Sim_history_pending.
Check C03_Sim_history_pending : forall h s, history_ok s h = true ->
  run_history (catalog_of s) s h = Some (catalog_of (fold_left final_schema h s)).

(* ---------- the hypotheses are satisfiable by non-trivial values ---------- *)
Example ex_modify_comment : hyp_modify_comment w_d2 "post" "user_id" = true.
Proof. vm_compute. reflexivity. Qed.
Example ex_add_index : hyp_add_constraint w_d2 "post" (CIndex None ["user_id"]) = true.
Proof. vm_compute. reflexivity. Qed.
Example ex_add_unique : hyp_add_constraint w_d2 "post" (CUnique (Some "k") ["user_id"; "id"]) = true.
Proof. vm_compute. reflexivity. Qed.
Example ex_add_check : hyp_add_constraint w_d2 "post" (CCheck "chk_pos" "id > 0") = true.
Proof. vm_compute. reflexivity. Qed.
Example ex_remove_fk : hyp_remove_constraint w_d2 "post" w_fk = true.
Proof. vm_compute. reflexivity. Qed.
Example ex_remove_index : hyp_remove_constraint w_d18 "t" (CIndex None ["a"; "b"]) = true.
Proof. vm_compute. reflexivity. Qed.
Example ex_delete_table : hyp_delete_table w_d2 "post" = true.
Proof. vm_compute. reflexivity. Qed.
Example ex_add_column : hyp_add_column w_d2 "post" (mkCol "title" (TVarchar 32) false (Some (DStr "'x'")) None None None None None) None = true.
Proof. vm_compute. reflexivity. Qed.
Example ex_delete_column : hyp_delete_column w_d18 "t" "a" = false /\ hyp_delete_column w_shared "t" "id" = false
  /\ hyp_delete_column [mkTable "t" None [icol "id"; ncol "note" (TSimple Text)] [pk_id; CCheck "c" "id > 0"]] "t" "note" = true.
Proof. vm_compute. repeat split. Qed.
Example ex_create_table :
  hyp_create_table w_t "post"
    [mkCol "id" (TSimple BigInt) false None None (Some (PKObj true)) None None None;
     mkCol "t_id" (TSimple Integer) true None None None None (Some (SBool true)) (Some (FKStr "t.id"));
     mkCol "parent" (TSimple BigInt) true None None None None None None;
     mkCol "title" (TVarchar 32) false (Some (DStr "'x'")) None None (Some (SStr "k")) None None]
    [CForeignKey None ["parent"] "post" ["id"] (Some Cascade) None] = true.
Proof. vm_compute. reflexivity. Qed.
Example ex_add_fk : hyp_add_constraint w_d2 "post" (CForeignKey (Some "k") ["id"] "user" ["id"] (Some Cascade) None) = true.
Proof. vm_compute. reflexivity. Qed.
Example ex_add_pk : hyp_add_constraint [mkTable "t" None [icol "id"; ncol "a" (TSimple Integer)] []] "t" (CPrimaryKey false ["id"]) = true.
Proof. vm_compute. reflexivity. Qed.
Example ex_remove_unique :
  hyp_remove_constraint [mkTable "t" None [icol "id"; ncol "a" (TSimple Integer)] [pk_id; CUnique None ["a"]]] "t" (CUnique None ["a"]) = true.
Proof. vm_compute. reflexivity. Qed.
Example ex_remove_pk : hyp_remove_pk w_t "t" pk_id = true /\ hyp_remove_pk w_d2 "user" pk_id = false.
Proof. vm_compute. split; reflexivity. Qed.
Example ex_modify_nullable : hyp_modify_nullable w_d2 "post" "user_id" false = true /\ hyp_modify_nullable w_d2 "post" "id" true = false.
Proof. vm_compute. split; reflexivity. Qed.
Example ex_modify_default : hyp_modify_default w_d2 "post" "user_id" (Some "42") = true /\ hyp_modify_default w_d2 "post" "user_id" (Some "now()") = false.
Proof. vm_compute. split; reflexivity. Qed.
Example ex_modify_type : hyp_modify_type w_d2 "post" "user_id" (TNumeric 10 2) = true.
Proof. vm_compute. reflexivity. Qed.
Example ex_create_table_enum :
  hyp_create_table w_t "post" [icol "id"; ncol "st" w_status; ncol "st2" w_status; ncol "lvl" w_level] [pk_id] = true.
Proof. vm_compute. reflexivity. Qed.
Example ex_add_column_backfill :
  hyp_add_column_backfill w_d2 "post" (mkCol "rank" (TSimple Integer) false None None None None None None) (Some "0") = true.
Proof. vm_compute. reflexivity. Qed.
Example ex_add_column_enum : hyp_add_column_enum w_t "t" (ncol "s" w_status) None = true
  /\ hyp_add_column_enum w_enum_t "t" (ncol "s2" w_status) None = false.
Proof. vm_compute. split; reflexivity. Qed.
Example ex_delete_column_enum : hyp_delete_column_enum w_enum_t "t" "s" = true /\ hyp_delete_column_enum w_shared "t" "b" = false.
Proof. vm_compute. split; reflexivity. Qed.
Example ex_modify_type_enum :
  hyp_modify_type_enum w_enum_t "t" "s" (TSimple Text) = true
  /\ hyp_modify_type_enum w_enum_t "t" "s" (TEnum "status" (EVString ["on"; "off"; "idle"])) = true
  /\ hyp_modify_type_enum w_enum_t "t" "s" (TEnum "state" (EVString ["a"])) = true
  /\ hyp_modify_type_enum [mkTable "t" None [icol "id"; ncol "note" (TSimple Text)] [pk_id]] "t" "note" w_status = true
  /\ hyp_modify_type_enum w_shared "t" "b" (TSimple Text) = false
  /\ hyp_modify_type_enum w_enum_t "t" "s" w_level = false.
Proof. vm_compute. repeat split. Qed.
Example ex_rename_column : hyp_rename_column w_enum_t "t" "s" "state" = true /\ hyp_rename_column w_ix "t" "a" "b" = false
  /\ hyp_rename_column w_d2 "user" "id" "uid" = false
  /\ hyp_rename_column [mkTable "t" None [icol "id"; ncol "a" (TSimple Integer)] [pk_id; CIndex (Some "k") ["a"]]] "t" "a" "b" = true.
Proof. vm_compute. repeat split. Qed.
Example ex_modify_default_plain : hyp_modify_default_plain w_d2 "post" "user_id" "42" = true
  /\ hyp_modify_default_plain w_d2 "post" "user_id" "now()" = false
  /\ hyp_modify_default_plain w_enum_t "t" "s" "on" = true.
Proof. vm_compute. repeat split. Qed.
Example ex_rename_table :
  hyp_rename_table [mkTable "t" None [ncol "a" (TSimple Integer)] [CCheck "c" "a > 0"]] "t" "u" = true
  /\ hyp_rename_table w_t "t" "u" = false.
Proof. vm_compute. split; reflexivity. Qed.
Example ex_delete_column_goes : hyp_delete_column_goes w_ix "t" "a" = true /\ hyp_delete_column w_ix "t" "a" = false
  /\ hyp_delete_column_goes w_d18 "t" "a" = false.
Proof. vm_compute. repeat split. Qed.
Example ex_remove_pk_auto :
  hyp_remove_pk [mkTable "t" None [mkCol "code" (TSimple Text) false None None None None None None] [CPrimaryKey true ["code"]]]
                "t" (CPrimaryKey true ["code"]) = true
  /\ hyp_remove_pk [mkTable "t" None [icol "id"] [CPrimaryKey true ["id"]]] "t" (CPrimaryKey true ["id"]) = false.
Proof. vm_compute. split; reflexivity. Qed.
(* the pending set: two columns with inline declarations, their constraints added later in the other order; Sim_plan
   does not apply (the first step leaves catalog_of of the planner's schema), Sim_plan_pending does; without the
   AddConstraint the pending set is not settled *)
Definition w_pending_plan : list action :=
  [AddColumn "t" (mkCol "a" (TSimple Integer) true None None None None (Some (SBool true)) None) None;
   AddColumn "t" (mkCol "b" (TSimple Text) true None None None (Some (SBool true)) None None) None;
   AddConstraint "t" (CUnique None ["b"]);
   AddConstraint "t" (CIndex None ["a"])].
Example ex_plan_pending :
  plan_hyp w_t w_pending_plan = false /\ plan_hyp_pending w_t w_pending_plan = true
  /\ plan_hyp_pending w_t (firstn 3 w_pending_plan) = false
  /\ all_sim2 w_t w_t (firstn 3 w_pending_plan) = true.
Proof. vm_compute. repeat split. Qed.
Example ex_history_pending :
  run_history (catalog_of w_t) w_t [w_pending_plan; [DeleteColumn "t" "a"]]
  = Some (catalog_of (fold_left final_schema [w_pending_plan; [DeleteColumn "t" "a"]] w_t)).
Proof. apply Sim_history_pending. vm_compute. reflexivity. Qed.
(* a two-migration history every step of which falls under a proved lemma, hence (C03_Sim_history) runs to catalog_of *)
Example ex_history :
  run_history (catalog_of w_d2) w_d2
    [[AddColumn "post" (mkCol "title" (TSimple Text) true None None None None None None) None;
      AddConstraint "post" (CIndex None ["title"])];
     [RemoveConstraint "post" w_fk; DeleteTable "user"]]
  = Some (catalog_of (fold_left final_schema
       [[AddColumn "post" (mkCol "title" (TSimple Text) true None None None None None None) None;
         AddConstraint "post" (CIndex None ["title"])];
        [RemoveConstraint "post" w_fk; DeleteTable "user"]] w_d2)).
Proof.
  apply Sim_history. cbn [all_history all_steps]. repeat split.
  - apply sim_pg_add_column. vm_compute. reflexivity.
  - apply sim_pg_add_constraint. vm_compute. reflexivity.
  - apply sim_pg_remove_constraint. vm_compute. reflexivity.
  - apply sim_pg_delete_table. vm_compute. reflexivity.
Qed.
