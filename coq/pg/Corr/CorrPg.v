(* PG layer: correspondence / oracle driver.  The harness prints, per migration, the replayed baseline,
   the plan's actions, the statements THE IMPLEMENTATION emitted (parsed by tools/pg_sqlparse.py) and the
   replayed baseline after the migration.  Here the engine model executes them (O-C03) and the generator
   model is compared with them (K-sql(pg), see CorrGen.v).  No proofs here. *)
From VV.PG Require Export Engine.

Record pg_case := mkPgCase {
  g_baseline : schema;
  g_actions : list action;
  g_after : option schema;                  (* None: the real schema_from_plans failed *)
  g_impl : option (list (list stmt)) }.     (* per action; None: build_plan_queries returned an error *)

Inductive outcome :=
| OOk
| OEngineError (ai si : nat) (e : pg_error)   (* action index, statement index inside the action *)
| ODiff (d : list diff_item)
| ONoAfter
| OGenError.

Fixpoint run_actions (c : catalog) (ai : nat) (l : list (list stmt)) : result catalog (nat * nat * pg_error) :=
  match l with
  | [] => Ok c
  | stmts :: r =>
      match exec_all c stmts with
      | Err (si, e) => Err (ai, si, e)
      | Ok c' => run_actions c' (S ai) r
      end
  end.

(* O-C03: start from catalog_of (baseline) — the empty catalog for a first migration —, execute what the
   implementation emitted, compare with catalog_of (replayed baseline after) *)
Definition oracle (k : pg_case) : outcome :=
  match g_impl k, g_after k with
  | None, _ => OGenError
  | _, None => ONoAfter
  | Some l, Some after =>
      match run_actions (catalog_of (g_baseline k)) 0 l with
      | Err (ai, si, e) => OEngineError ai si e
      | Ok c => match cat_diff c (catalog_of after) with
                | [] => OOk
                | d => ODiff d
                end
      end
  end.

(* ---------- rendering of outcomes for the driver (identifiers of the engine profile contain no quotes) ---------- *)
Definition sp (a b : string) : string := a +++ " " +++ b.
Definition pg_error_text (e : pg_error) : string :=
  match e with
  | ERelationExists n => sp "R1:relation-already-exists" n
  | ETypeExists n => sp "R2:type-already-exists" n
  | ENoTable t => sp "R14:table-does-not-exist" t
  | ENoColumn t c => sp "R14:column-does-not-exist" (t +++ "." +++ c)
  | EColumnExists t c => sp "R15:column-already-exists" (t +++ "." +++ c)
  | ENoIndex n => sp "R9:index-does-not-exist" n
  | ENoConstraint t n => sp "R10:constraint-does-not-exist" (t +++ "." +++ n)
  | EConstraintExists t n => sp "R6:constraint-already-exists" (t +++ "." +++ n)
  | ENoType n => sp "R3:type-does-not-exist" n
  | ETypeInUse n => sp "R11:type-still-in-use" n
  | EDependentFk t bt bk => sp "R7:foreign-key-depends-on-it" (t +++ " <- " +++ bt +++ "." +++ bk)
  | EIndexBacksConstraint n => sp "R9:index-backs-a-constraint" n
  | EFkNoUniqueTarget t rt => sp "R6:no-unique-index-on-referenced-columns" (t +++ " -> " +++ rt)
  | EFkArity t => sp "R6:foreign-key-arity" t
  | EMultiplePk t => sp "R5:multiple-primary-keys" t
  | EPkColumnNullable t c => sp "R14:column-is-in-a-primary-key" (t +++ "." +++ c)
  | ELabelExists n l => sp "R4:enum-label-exists" (n +++ " " +++ l)
  | ESyntax w => sp "R4:syntax-error" w
  end.
Definition error_code (e : pg_error) : nat :=
  match e with
  | ERelationExists _ => 1 | ETypeExists _ => 2 | ENoTable _ => 3 | ENoColumn _ _ => 4 | EColumnExists _ _ => 5
  | ENoIndex _ => 6 | ENoConstraint _ _ => 7 | EConstraintExists _ _ => 8 | ENoType _ => 9 | ETypeInUse _ => 10
  | EDependentFk _ _ _ => 11 | EIndexBacksConstraint _ => 12 | EFkNoUniqueTarget _ _ => 13 | EFkArity _ => 14
  | EMultiplePk _ => 15 | EPkColumnNullable _ _ => 16 | ELabelExists _ _ => 17 | ESyntax _ => 18
  end%nat.
Definition diff_text (d : diff_item) : string :=
  match d with
  | DMissingTable t => sp "missing-table" t
  | DExtraTable t => sp "leftover-table" t
  | DMissingColumn t c => sp "missing-column" (t +++ "." +++ c)
  | DExtraColumn t c => sp "leftover-column" (t +++ "." +++ c)
  | DColumnDiffers t c w => sp ("column-" +++ w +++ "-differs") (t +++ "." +++ c)
  | DMissingIndex t n => sp "missing-index" (t +++ "." +++ n)
  | DExtraIndex t n => sp "leftover-index" (t +++ "." +++ n)
  | DIndexDiffers t n => sp "index-differs" (t +++ "." +++ n)
  | DMissingConstraint t n => sp "missing-constraint" (t +++ "." +++ n)
  | DExtraConstraint t n => sp "leftover-constraint" (t +++ "." +++ n)
  | DConstraintDiffers t n => sp "constraint-differs" (t +++ "." +++ n)
  | DMissingType n => sp "missing-type" n
  | DExtraType n => sp "leftover-type" n
  | DTypeLabels n => sp "type-labels-differ" n
  end.

(* (kind, action index, statement index, text): kind 0 ok, 1 engine error, 2 catalog difference, 3 no replayed
   baseline, 4 generator error *)
Definition outcome_row (o : outcome) : nat * nat * nat * nat * string :=
  match o with
  | OOk => (0, 0, 0, 0, "")
  | OEngineError ai si e => (1, error_code e, ai, si, pg_error_text e)
  | ODiff d => (2, 0, 0, 0, join "; " (map diff_text d))
  | ONoAfter => (3, 0, 0, 0, "")
  | OGenError => (4, 0, 0, 0, "")
  end%nat.
