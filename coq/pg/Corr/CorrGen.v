(* PG layer: correspondence K-sql(pg) — the generator model against the statements the implementation
   emitted (parsed), per action, inside Coq — and theorem-coverage counters.  No proofs here. *)
From VV.PG Require Export Known Gen.

Fixpoint diff_idx (i : nat) (m impl : list (list stmt)) : list nat :=
  match m, impl with
  | [], [] => []
  | x :: r, y :: s => (if stmts_eqb x y then [] else [i]) ++ diff_idx (S i) r s
  | _, _ => [i]            (* different number of actions *)
  end.

(* indices of the actions whose statements differ; [999] when one side is an error and the other is not *)
Definition ksql_case (k : pg_case) : list nat :=
  match gen_plan (g_baseline k) (g_actions k), g_impl k with
  | Err _, None => []
  | Ok m, Some impl => diff_idx 0 m impl
  | _, _ => [999]
  end.

Fixpoint ksql_mismatches (i : nat) (cs : list pg_case) : list (nat * list nat) :=
  match cs with
  | [] => []
  | k :: r => match ksql_case k with
              | [] => ksql_mismatches (S i) r
              | l => (i, l) :: ksql_mismatches (S i) r
              end
  end.

(* ---------- theorem coverage: how many executed steps fall outside every known class ---------- *)
Definition outside_classes (s : schema) (a : action) (rest : list action) : bool :=
  negb (existsb (fun c => kc_step c s a rest) classes).
Fixpoint count_steps (p : schema -> action -> list action -> bool) (s : schema) (acts : list action) : nat :=
  match acts with
  | [] => O
  | a :: r => (if p s a r then 1 else 0) + count_steps p (step_schema s a) r
  end.
Definition hyp_stats (cs : list pg_case) : list (string * nat) :=
  [("steps", fold_left (fun n k => n + List.length (g_actions k)) cs O);
   ("steps_outside_known_classes",
    fold_left (fun n k => n + count_steps outside_classes (g_baseline k) (g_actions k)) cs O)].

(* the model's own end-to-end run: generate with gen_plan, execute on the catalog model *)
Definition run_plan (s : schema) (acts : list action) : option (result catalog (nat * nat * pg_error)) :=
  match gen_plan s acts with
  | Ok l => Some (run_actions (catalog_of s) 0 l)
  | Err _ => None
  end.
Definition after_of (s : schema) (acts : list action) : schema :=
  match apply_all s acts with Ok s' => s' | Err _ => [] end.
(* what C03 asks of one plan, on the model: no error and the catalog of the replayed baseline *)
Definition plan_ok (s : schema) (acts : list action) : bool :=
  match run_plan s acts with
  | Some (Ok c) => cat_equiv c (catalog_of (after_of s acts))
  | _ => false
  end.
