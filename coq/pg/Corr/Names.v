(* PG layer: the names under which the generated statements create and drop objects (C19, PostgreSQL part).
   No proofs here. *)
From VV.PG Require Export Hyp.

(* names of the indexes / constraints / types a statement list creates.  An unnamed PRIMARY KEY clause creates
   {table}_pkey (Engine.v [R5]) *)
Definition op_created (tn : string) (op : alter_op) : list string :=
  match op with
  | AAddPk (Some n) _ | AAddUnique (Some n) _ => [n]
  | AAddPk None _ => [tn +++ "_pkey"]
  | AAddFk f => match fk_name f with Some n => [n] | None => [] end
  | AAddCheck n _ => [n]
  | _ => []
  end.
Definition stmt_created (s : stmt) : list string :=
  match s with
  | SCreateType n _ => [n]
  | SCreateTable t _ pks fks checks =>
      map (fun _ => t +++ "_pkey") pks
      ++ flat_map (fun f => match fk_name f with Some n => [n] | None => [] end) fks
      ++ map fst checks
  | SCreateIndex _ n _ _ => [n]
  | SAlterTable t ops => flat_map (op_created t) ops
  | _ => []
  end.
Definition created_names (l : list stmt) : list string := flat_map stmt_created l.

Definition op_dropped (op : alter_op) : list string :=
  match op with ADropConstraint n => [n] | _ => [] end.
Definition stmt_dropped (s : stmt) : list string :=
  match s with
  | SDropType n => [n]
  | SDropIndex n => [n]
  | SAlterTable _ ops => flat_map op_dropped ops
  | _ => []
  end.
Definition dropped_names (l : list stmt) : list string := flat_map stmt_dropped l.


Definition created_types (l : list stmt) : list string :=
  flat_map (fun s => match s with SCreateType n _ => [n] | _ => [] end) l.
Definition dropped_types (l : list stmt) : list string :=
  flat_map (fun s => match s with SDropType n => [n] | _ => [] end) l.
