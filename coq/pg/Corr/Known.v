(* PG layer: decidable classes of the known C03 findings, as booleans over one step
   (evolving schema, action, rest of the plan) and lifted to a case (baseline, action list).
   The same step predicates are the negated hypotheses of the simulation theorems (Proofs/SimP.v).
   No proofs here. *)
From VV.M1 Require Export Oracles.
From VV.PG Require Export CorrPg.

(* builder.rs:86-90: the evolving schema; apply errors are ignored *)
Definition step_schema (s : schema) (a : action) : schema :=
  match apply_action s a with Ok s' => s' | Err _ => s end.
Fixpoint exists_step (p : schema -> action -> list action -> bool) (s : schema) (acts : list action) : bool :=
  match acts with
  | [] => false
  | a :: r => (p s a r || exists_step p (step_schema s a) r)%bool
  end.

Definition col_named (n : string) (t : table_def) : option column_def :=
  find (fun c => String.eqb (c_name c) n) (t_columns t).
Definition col_type_in (s : schema) (t c : string) : option column_type :=
  match table_named t s with
  | Some td => option_map c_type (col_named c td)
  | None => None
  end.
Definition enum_name (ty : column_type) : option string := match ty with TEnum n _ => Some n | _ => None end.
Definition is_string_enum (ty : column_type) : bool :=
  match ty with TEnum _ v => negb (ev_is_integer v) | _ => false end.
Definition is_int_enum (ty : column_type) : bool :=
  match ty with TEnum _ v => ev_is_integer v | _ => false end.
Definition opt_type_is (p : column_type -> bool) (o : option column_type) : bool :=
  match o with Some ty => p ty | None => false end.
Definition table_cols (s : schema) (t : string) : list column_def :=
  match table_named t s with Some td => t_columns td | None => [] end.
Definition table_constraints (s : schema) (t : string) : list table_constraint :=
  match table_named t s with Some td => t_constraints td | None => [] end.
Definition other_col_with_enum (s : schema) (t c n : string) : bool :=
  existsb (fun x => (negb (String.eqb (c_name x) c)
                     && match enum_name (c_type x) with Some m => String.eqb m n | None => false end)%bool)
          (table_cols s t).

Definition is_upper_char (a : ascii) : bool := let n := N_of_ascii a in (N.leb 65 n && N.leb n 90)%bool.
Fixpoint has_upper (s : string) : bool :=
  match s with EmptyString => false | String a r => (is_upper_char a || has_upper r)%bool end.

(* string enum types a column list introduces: (enum name, type name) *)
Definition string_enum_types (t : string) (cols : list column_def) : list string :=
  flat_map (fun c => match c_type c with
                     | TEnum n v => if ev_is_integer v then [] else [build_enum_type_name t n]
                     | _ => []
                     end) cols.

(* K1 (DESIGN D11): an explicit CHECK constraint handed to CREATE TABLE is not emitted (create_table.rs:150-154) *)
Definition kstep_check_in_create (s : schema) (a : action) (rest : list action) : bool :=
  match a with
  | CreateTable _ _ ks => existsb (fun k => match k with CCheck _ _ => true | _ => false end) ks
  | _ => false
  end.

(* K2 (DESIGN D13): an enum name is used by several columns of one table: deleting / retyping one of them drops the
   type the others still use (delete_column.rs:102-108, modify_column_type.rs:205-209,296-318); adding / retyping a
   column to an enum another column already uses creates the type again (add_column.rs:111-114) *)
Definition kstep_shared_enum (s : schema) (a : action) (rest : list action) : bool :=
  match a with
  | DeleteColumn t c =>
      match col_type_in s t c with
      | Some (TEnum n _) => other_col_with_enum s t c n
      | _ => false
      end
  | ModifyColumnType t c nt _ =>
      (match col_type_in s t c with Some (TEnum n _) => other_col_with_enum s t c n | _ => false end
       || match nt with TEnum n _ => other_col_with_enum s t c n | _ => false end)%bool
  | AddColumn t col _ =>
      match c_type col with TEnum n _ => other_col_with_enum s t (c_name col) n | _ => false end
  | _ => false
  end.

(* K3 (DESIGN D13): integer enums never had a type: DROP TYPE on delete / retype (helpers.rs:398-418 has no
   is_integer test), CREATE TYPE ... AS ENUM (0, 1) in the enum-to-enum branch (modify_column_type.rs:125-176) *)
Definition kstep_int_enum (s : schema) (a : action) (rest : list action) : bool :=
  match a with
  | DeleteColumn t c => opt_type_is is_int_enum (col_type_in s t c)
  | ModifyColumnType t c nt _ =>
      (opt_type_is is_int_enum (col_type_in s t c)
       || (opt_type_is is_enum_type (col_type_in s t c) && is_int_enum nt))%bool
  | _ => false
  end.

(* K4 (DESIGN D2): a table (or a referenced column) is dropped while a foreign key of another table still
   references it — the planner emits the RemoveConstraint later (diff.rs ordering) *)
Definition fk_to (target : string) (p : list string -> bool) (k : table_constraint) : bool :=
  match k with CForeignKey _ _ rt rcols _ _ => (String.eqb rt target && p rcols)%bool | _ => false end.
Definition kstep_drop_before_unreference (s : schema) (a : action) (rest : list action) : bool :=
  match a with
  | DeleteTable t =>
      existsb (fun x => (negb (String.eqb (t_name x) t) && existsb (fk_to t (fun _ => true)) (t_constraints x))%bool) s
  | DeleteColumn t c =>
      existsb (fun x => (negb (String.eqb (t_name x) t) && existsb (fk_to t (mem_str c)) (t_constraints x))%bool) s
  | _ => false
  end.

(* K5 (DESIGN D18): a member of a multi-column primary key / unique / index / foreign key is dropped: PostgreSQL
   drops the whole object with the column, the baseline shrinks it and the planner drops it again by name *)
Definition kstep_composite_member (s : schema) (a : action) (rest : list action) : bool :=
  match a with
  | DeleteColumn t c =>
      existsb (fun k => (mem_str c (constraint_columns k) && Nat.leb 2 (List.length (constraint_columns k)))%bool)
              (table_constraints s t)
  | _ => false
  end.

(* K5b: a column carrying a single-column unique / index / key, or mentioned by a CHECK, is dropped and the same
   plan removes that constraint by name afterwards (the object went with the column) *)
Definition kstep_member_then_remove (s : schema) (a : action) (rest : list action) : bool :=
  match a with
  | DeleteColumn t c =>
      existsb (fun r => match r with
                        | RemoveConstraint t' k =>
                            (String.eqb t' t
                             && (mem_str c (constraint_columns k)
                                 || match k with CCheck _ e => mentions c e | _ => false end))%bool
                        | _ => false
                        end) rest
  | _ => false
  end.

(* K6 (DESIGN D13): RenameTable keeps {old}_pkey, ix_/uq_/fk_{old}__..., {old}_{enum}; every later statement and
   the baseline use names derived from the new table name *)
Definition kstep_rename_table_names (s : schema) (a : action) (rest : list action) : bool :=
  match a with
  | RenameTable from _ =>
      (existsb (fun k => match k with CCheck _ _ => false | _ => true end) (table_constraints s from)
       || existsb (fun c => is_string_enum (c_type c)) (table_cols s from))%bool
  | _ => false
  end.

(* K7: RenameColumn keeps the names of unnamed unique / index / foreign-key constraints that were derived from the
   old column name *)
Definition kstep_rename_column_names (s : schema) (a : action) (rest : list action) : bool :=
  match a with
  | RenameColumn t from _ =>
      existsb (fun k => match k with
                        | CUnique None cols | CIndex None cols | CForeignKey None cols _ _ _ _ => mem_str from cols
                        | _ => false
                        end) (table_constraints s t)
  | _ => false
  end.

(* K8: DROP TABLE leaves the table's enum types behind (delete_table.rs:5-8 emits DROP TABLE only) *)
Definition kstep_enum_left_by_drop_table (s : schema) (a : action) (rest : list action) : bool :=
  match a with
  | DeleteTable t => existsb (fun c => is_string_enum (c_type c)) (table_cols s t)
  | _ => false
  end.

(* K9: CREATE TYPE quotes the type name, the column definition does not (sea-query prints enum type names
   unquoted): a type name with an upper-case letter is folded to lower case where it is used *)
Definition kstep_enum_case_fold (s : schema) (a : action) (rest : list action) : bool :=
  match a with
  | CreateTable t cols _ => existsb has_upper (string_enum_types t cols)
  | AddColumn t col _ => existsb has_upper (string_enum_types t [col])
  | ModifyColumnType t c nt _ =>
      (negb (opt_type_is is_enum_type (col_type_in s t c))
       && existsb has_upper (string_enum_types t [mkCol c nt true None None None None None None]))%bool
  | _ => false
  end.

(* K9, second shape: the folded name is the name of ANOTHER enum type that exists (e.g. item_Status next to item_status):
   nothing fails where the column is created or retyped, the column silently gets the other type, and that type can then
   not be dropped while this column uses it *)
Definition introduced_unquoted (s : schema) (a : action) : list string :=
  match a with
  | CreateTable t cols _ => string_enum_types t cols
  | AddColumn t col _ => string_enum_types t [col]
  | ModifyColumnType t c nt _ =>
      if opt_type_is is_enum_type (col_type_in s t c) then []
      else string_enum_types t [mkCol c nt true None None None None None None]
  | _ => []
  end.
Definition lower_ascii (x : string) : string := map_string to_lower_ascii_char x.
Definition kstep_enum_case_fold_existing (s : schema) (a : action) (rest : list action) : bool :=
  existsb (fun n => (has_upper n
                     && mem_str (lower_ascii n)
                                (flat_map (fun t => string_enum_types (t_name t) (t_columns t)) s
                                 ++ filter (fun m => negb (String.eqb m n)) (introduced_unquoted s a)))%bool)
          (introduced_unquoted s a).

(* K10 (DESIGN D16): {table}_{enum} is also the name of a table (its row type) *)
Definition all_enum_type_names (s : schema) : list string :=
  flat_map (fun t => string_enum_types (t_name t) (t_columns t)) s.
Definition kstep_enum_vs_row_type (s : schema) (a : action) (rest : list action) : bool :=
  match a with
  | CreateTable t cols _ =>
      (mem_str t (all_enum_type_names s) || existsb (fun n => (has_table n s || String.eqb n t)%bool) (string_enum_types t cols))%bool
  | AddColumn t col _ => existsb (fun n => has_table n s) (string_enum_types t [col])
  | ModifyColumnType t c nt _ =>
      existsb (fun n => has_table n s) (string_enum_types t [mkCol c nt true None None None None None None])
  | RenameTable _ to => mem_str to (all_enum_type_names s)
  | _ => false
  end.

(* K11 (DESIGN D16): two constraints of one plan / table derive the same index name (a constraint declared twice,
   (a_b) next to (a, b), a named and an unnamed one) *)
Definition index_names (t : string) (ks : list table_constraint) : list string :=
  flat_map (fun k => match k with
                     | CUnique n cols => [build_unique_constraint_name t cols n]
                     | CIndex n cols => [build_index_name t cols n]
                     | _ => []
                     end) ks.
Definition fk_names (t : string) (ks : list table_constraint) : list string :=
  flat_map (fun k => match k with
                     | CForeignKey n cols _ _ _ _ => [build_foreign_key_name t cols n]
                     | _ => []
                     end) ks.
Definition normalized_constraints (t : string) (cols : list column_def) (ks : list table_constraint)
  : list table_constraint :=
  match normalize (mkTable t None cols ks) with Ok n => t_constraints n | Err _ => ks end.
Definition kstep_duplicate_name (s : schema) (a : action) (rest : list action) : bool :=
  match a with
  | CreateTable t cols ks =>
      let nk := normalized_constraints t cols ks in
      (negb (nodup_str (index_names t nk)) || negb (nodup_str (fk_names t nk)))%bool
  | AddConstraint t k =>
      (existsb (fun n => mem_str n (index_names t (table_constraints s t))) (index_names t [k])
       || existsb (fun n => mem_str n (fk_names t (table_constraints s t))) (fk_names t [k]))%bool
  | _ => false
  end.

(* K12: auto_increment is only honoured by CREATE TABLE (serial); ADD PRIMARY KEY does not create the sequence,
   DROP CONSTRAINT {t}_pkey does not remove it (add_constraint.rs:150-170, remove_constraint.rs:74-86) *)
Definition kstep_autoinc_by_alter (s : schema) (a : action) (rest : list action) : bool :=
  match a with
  | AddConstraint _ (CPrimaryKey true _) | RemoveConstraint _ (CPrimaryKey true _) => true
  | _ => false
  end.

(* K13 (C01-incremental-inline-group / C01-shadowed-inline-declaration seen from the database): AddColumn carries an
   inline primary_key / unique / index / foreign_key; replay promotes it (apply.rs re-normalises) while the same plan
   also adds a different constraint of that kind over the column: the baseline holds both, the database one *)
Definition same_kind (a b : table_constraint) : bool :=
  match a, b with
  | CPrimaryKey _ _, CPrimaryKey _ _ | CUnique _ _, CUnique _ _ | CForeignKey _ _ _ _ _ _, CForeignKey _ _ _ _ _ _
  | CIndex _ _, CIndex _ _ => true
  | _, _ => false
  end.
Definition kstep_inline_promoted (s : schema) (a : action) (rest : list action) : bool :=
  match a with
  | AddColumn t col _ =>
      let promoted := normalized_constraints t [col] [] in
      existsb (fun r => match r with
                        | AddConstraint t' k =>
                            (String.eqb t' t && mem_str (c_name col) (constraint_columns k)
                             && existsb (fun p => (same_kind p k && negb (constraint_eqb p k))%bool) promoted)%bool
                        | _ => false
                        end) rest
  | _ => false
  end.

(* K15: a primary key / unique constraint is removed (typically to be re-added with another auto_increment flag or
   column list) while a foreign key references the table: PostgreSQL refuses to drop the index the key depends on *)
Definition kstep_key_replaced_under_fk (s : schema) (a : action) (rest : list action) : bool :=
  match a with
  | RemoveConstraint t (CPrimaryKey _ _) | RemoveConstraint t (CUnique _ _) =>
      existsb (fun x => existsb (fk_to t (fun _ => true)) (t_constraints x)) s
  | _ => false
  end.

(* K17 (C06-reference-added-later seen from the database): a foreign key is created (CreateTable is hoisted to the
   front of the plan; AddConstraint of an alphabetically earlier table) while its target table, target column or
   the key over exactly the referenced columns is only established by a later action of the same plan *)
Definition same_cols (a b : list string) : bool :=
  (Nat.eqb (List.length a) (List.length b) && forallb (fun x => mem_str x b) a && forallb (fun x => mem_str x a) b)%bool.
Definition target_not_ready (s : schema) (self : string) (self_keys : list table_constraint) (k : table_constraint) : bool :=
  match k with
  | CForeignKey _ _ rt rcols _ _ =>
      let keys := if String.eqb rt self then self_keys else table_constraints s rt in
      if (negb (String.eqb rt self) && negb (has_table rt s))%bool then true
      else negb (existsb (fun x => match x with
                                   | CPrimaryKey _ cols | CUnique _ cols => same_cols cols rcols
                                   | _ => false
                                   end) keys)
  | _ => false
  end.
(* the key is only added to the database by a later AddConstraint of the same plan (the evolving schema may already
   hold it: AddColumn's inline primary_key / unique is promoted by apply but emits nothing) *)
Definition key_added_later (rest : list action) (k : table_constraint) : bool :=
  match k with
  | CForeignKey _ _ rt rcols _ _ =>
      existsb (fun r => match r with
                        | AddConstraint t' (CPrimaryKey _ cols) | AddConstraint t' (CUnique _ cols) =>
                            (String.eqb t' rt && same_cols cols rcols)%bool
                        | _ => false
                        end) rest
  | _ => false
  end.
Definition kstep_reference_before_key (s : schema) (a : action) (rest : list action) : bool :=
  match a with
  | CreateTable t cols ks =>
      let nk := normalized_constraints t cols ks in
      existsb (fun k => (target_not_ready s t nk k || key_added_later rest k)%bool) nk
  | AddConstraint t k => (target_not_ready s t (table_constraints s t) k || key_added_later rest k)%bool
  | _ => false
  end.

(* K18: DeleteColumn of a column whose NAME also occurs in ref_columns of one of the table's foreign keys (typically a
   local column `id` next to a foreign key to other(id)): apply.rs:355-380 drop_column_from_constraints also filters
   ref_columns, so the foreign key is shrunk or dropped from the baseline although nothing happens to it in the database *)
Definition kstep_fk_lost_by_column_drop (s : schema) (a : action) (rest : list action) : bool :=
  match a with
  | DeleteColumn t c =>
      existsb (fun k => match k with
                        | CForeignKey _ cols _ rcols _ _ => (mem_str c rcols && negb (mem_str c cols))%bool
                        | _ => false
                        end) (table_constraints s t)
  | _ => false
  end.
(* ... its sequel: the columns keep their inline foreign_key / unique / index fields, the baseline table is no longer a
   fix-point of normalize, and the next AddColumn on that table (which re-normalises it, apply.rs:32-60) promotes the
   inline declarations again: the baseline regains constraints for which no statement is emitted *)
Definition kstep_inline_resurrected (s : schema) (a : action) (rest : list action) : bool :=
  match a with
  | AddColumn t _ _ =>
      match table_named t s with
      | Some td => match normalize td with
                   | Ok n => negb (Nat.eqb (List.length (t_constraints n)) (List.length (t_constraints td)))
                   | Err _ => false
                   end
      | None => false
      end
  | _ => false
  end.

(* K14: RenameTable / RenameColumn and foreign keys: apply.rs:310-353 renames inside ref_columns of the table's OWN
   foreign keys (which name columns of another table) and never touches the foreign keys of other tables that
   reference the renamed column *)
Definition kstep_rename_fk_refs (s : schema) (a : action) (rest : list action) : bool :=
  match a with
  | RenameTable from _ =>
      (* apply.rs:227-229 renames the table only; foreign keys of other tables keep ref_table = old name *)
      existsb (fun x => existsb (fk_to from (fun _ => true)) (t_constraints x)) s
  | RenameColumn t from _ =>
      (existsb (fun k => match k with
                         | CForeignKey _ _ rt rcols _ _ => (negb (String.eqb rt t) && mem_str from rcols)%bool
                         | _ => false
                         end) (table_constraints s t)
       || existsb (fun x => (negb (String.eqb (t_name x) t) && existsb (fk_to t (mem_str from)) (t_constraints x))%bool) s)%bool
  | _ => false
  end.

(* ---------- attribution of a failing case to the classes ----------
   Attribution is by SHAPE and by OBJECT: a class explains a failure only when one of its trigger steps (or its
   baseline condition) is about the same table as the failing statement / the differing object, so that a different
   defect with the same symptom elsewhere in the plan is still reported.
   A class whose baseline condition holds for a table explains, among the symptoms it can cause, those that concern
   that table (the migration starts from a catalog PostgreSQL cannot be in).  Otherwise a class explains an engine error only if (a) one of its steps occurs at or before the failing action and
   (b) the violated rule is one the class can cause; it explains a catalog difference item only if the kind of
   item is one the class can cause.  A case is attributed to known findings only if its error is explained, or
   EVERY difference item is explained, by a class that fires on it. *)
Fixpoint exists_step_upto (n : nat) (p : schema -> action -> list action -> bool) (s : schema) (acts : list action) : bool :=
  match n, acts with
  | O, _ | _, [] => false
  | S n', a :: r => (p s a r || exists_step_upto n' p (step_schema s a) r)%bool
  end.

Inductive dkind := DkMissingTable | DkExtraTable | DkMissingColumn | DkExtraColumn | DkColType | DkColNotnull
| DkColDefault | DkColAuto | DkMissingIndex | DkExtraIndex | DkIndexDiffers | DkMissingCon | DkExtraCon
| DkConDiffers | DkMissingType | DkExtraType | DkTypeLabels.
Definition dkind_of (d : diff_item) : dkind :=
  match d with
  | DMissingTable _ => DkMissingTable | DExtraTable _ => DkExtraTable
  | DMissingColumn _ _ => DkMissingColumn | DExtraColumn _ _ => DkExtraColumn
  | DColumnDiffers _ _ w =>
      if String.eqb w "type" then DkColType else if String.eqb w "notnull" then DkColNotnull
      else if String.eqb w "default" then DkColDefault else DkColAuto
  | DMissingIndex _ _ => DkMissingIndex | DExtraIndex _ _ => DkExtraIndex | DIndexDiffers _ _ => DkIndexDiffers
  | DMissingConstraint _ _ => DkMissingCon | DExtraConstraint _ _ => DkExtraCon
  | DConstraintDiffers _ _ => DkConDiffers
  | DMissingType _ => DkMissingType | DExtraType _ => DkExtraType | DTypeLabels _ => DkTypeLabels
  end.
Definition dkind_eqb (a b : dkind) : bool :=
  match a, b with
  | DkMissingTable, DkMissingTable | DkExtraTable, DkExtraTable | DkMissingColumn, DkMissingColumn
  | DkExtraColumn, DkExtraColumn | DkColType, DkColType | DkColNotnull, DkColNotnull | DkColDefault, DkColDefault
  | DkColAuto, DkColAuto | DkMissingIndex, DkMissingIndex | DkExtraIndex, DkExtraIndex
  | DkIndexDiffers, DkIndexDiffers | DkMissingCon, DkMissingCon | DkExtraCon, DkExtraCon
  | DkConDiffers, DkConDiffers | DkMissingType, DkMissingType | DkExtraType, DkExtraType
  | DkTypeLabels, DkTypeLabels => true
  | _, _ => false
  end.

(* the baseline holds a foreign key whose target table or column does not exist (left by an earlier rename) *)
Definition kbase_dangling_fk (s : schema) : bool :=
  existsb (fun t => existsb (fun k => match k with
                                      | CForeignKey _ _ rt rcols _ _ =>
                                          match table_named rt s with
                                          | None => true
                                          | Some r => negb (forallb (fun c => has_column c r) rcols)
                                          end
                                      | _ => false
                                      end) (t_constraints t)) s.

(* the baseline itself already holds two constraints of one table with the same derived name (K11 happened in an
   earlier migration, or the constraint is declared twice): catalog_of (baseline) is then not a catalog PostgreSQL
   can be in, and every later migration of that history is judged from an impossible start *)
Definition table_names_clash (t : table_def) : bool :=
  let ks := t_constraints t in
  (Nat.leb 2 (List.length (filter is_pk ks)) ||
   negb (nodup_str (index_names (t_name t) ks ++ (if existsb is_pk ks then [t_name t +++ "_pkey"] else [])))
   || negb (nodup_str (fk_names (t_name t) ks
                       ++ flat_map (fun k => match k with CCheck n _ => [n] | _ => [] end) ks
                       ++ (if existsb is_pk ks then [t_name t +++ "_pkey"] else []))))%bool.
Definition kbase_duplicate_name (s : schema) : bool := existsb table_names_clash s.

(* ---------- which tables a step / an error / a difference is about ---------- *)
Definition action_tables (a : action) : list string :=
  match a with
  | CreateTable t _ _ | DeleteTable t | AddColumn t _ _ | RenameColumn t _ _ | DeleteColumn t _
  | ModifyColumnType t _ _ _ | ModifyColumnNullable t _ _ _ | ModifyColumnDefault t _ _ | ModifyColumnComment t _ _
  | AddConstraint t _ | RemoveConstraint t _ => [t]
  | RenameTable a b => [a; b]
  | RawSql _ => []
  end.
Definition err_tables (e : pg_error) : list string :=
  match e with
  | ENoTable t | ENoColumn t _ | EColumnExists t _ | ENoConstraint t _ | EConstraintExists t _
  | EFkArity t | EMultiplePk t | EPkColumnNullable t _ => [t]
  | EDependentFk t bt _ => [t; bt]
  | EFkNoUniqueTarget t rt => [t; rt]
  | ERelationExists _ | ETypeExists _ | ENoIndex _ | ENoType _ | ETypeInUse _ | EIndexBacksConstraint _
  | ELabelExists _ _ | ESyntax _ => []
  end.
Definition diff_about (touched : list string) (d : diff_item) : bool :=
  match d with
  | DMissingTable t | DExtraTable t | DMissingColumn t _ | DExtraColumn t _ | DColumnDiffers t _ _
  | DMissingIndex t _ | DExtraIndex t _ | DIndexDiffers t _
  | DMissingConstraint t _ | DExtraConstraint t _ | DConstraintDiffers t _ => mem_str t touched
  (* an enum type is about table t when it is called {t}_... *)
  | DMissingType n | DExtraType n | DTypeLabels n => existsb (fun t => starts_with (t +++ "_") n) touched
  end.
Definition referencing_tables (s : schema) (target : string) : list string :=
  flat_map (fun x => if existsb (fk_to target (fun _ => true)) (t_constraints x) then [t_name x] else []) s.

Record kclass := mkClass {
  kc_name : string;
  kc_base : schema -> list string;  (* tables whose state in the BASELINE is already impossible ([] = fine) *)
  kc_step : schema -> action -> list action -> bool;   (* the shape of the step that triggers the defect *)
  kc_extra : schema -> action -> list string;          (* tables affected besides those the action names *)
  kc_errors : list nat;          (* error codes (CorrPg.error_code) the class can cause *)
  kc_diffs : list dkind }.       (* kinds of catalog difference the class can cause *)

Definition index_con_diffs : list dkind :=
  [DkMissingIndex; DkExtraIndex; DkIndexDiffers; DkMissingCon; DkExtraCon; DkConDiffers].
Definition no_extra (s : schema) (a : action) : list string := [].
Definition extra_referencing (s : schema) (a : action) : list string :=
  flat_map (referencing_tables s) (action_tables a).
Definition no_base_t (s : schema) : list string := [].
Definition base_duplicate_tables (s : schema) : list string :=
  flat_map (fun t => if table_names_clash t then [t_name t] else []) s.
Definition base_dangling_tables (s : schema) : list string :=
  flat_map (fun t => flat_map (fun k => match k with
                                        | CForeignKey _ _ rt rcols _ _ =>
                                            match table_named rt s with
                                            | None => [t_name t; rt]
                                            | Some r => if forallb (fun c => has_column c r) rcols then [] else [t_name t; rt]
                                            end
                                        | _ => []
                                        end) (t_constraints t)) s.

(* K5c: the sequel of K5 in a LATER migration.  apply.rs RemoveConstraint removes the constraints EQUAL to the one it is
   given; after DeleteColumn shrank the composite key [id, part] to [part], the planner's RemoveConstraint
   PrimaryKey [id, part] removed nothing from the replayed baseline and its AddConstraint PrimaryKey appended a
   SECOND primary key: a state no database can be in.  catalog_of counts the first (stale) key, so a foreign key
   to the columns of the intended key finds no unique index over them *)
Definition base_stale_key_tables (s : schema) : list string :=
  flat_map (fun t => if Nat.leb 2 (List.length (filter is_pk (t_constraints t))) then [t_name t] else []) s.
Definition kstep_never (s : schema) (a : action) (rest : list action) : bool := false.

Definition classes : list kclass :=
  [ mkClass "known_C03_check_in_create" no_base_t kstep_check_in_create no_extra [7] [DkMissingCon]
  ; mkClass "known_C03_shared_enum" no_base_t kstep_shared_enum no_extra [10; 2] []
  ; mkClass "known_C03_int_enum" no_base_t kstep_int_enum no_extra [9; 18] []
  ; mkClass "known_C03_drop_before_unreference" no_base_t kstep_drop_before_unreference no_extra [11] []
  ; mkClass "known_C03_composite_member" no_base_t
            (fun s a r => (kstep_composite_member s a r || kstep_member_then_remove s a r)%bool) no_extra
            [6; 7] (DkColNotnull :: index_con_diffs)
  ; mkClass "known_C03_rename_table_names" no_base_t kstep_rename_table_names no_extra [6; 7; 9; 2; 1; 8]
            (DkColType :: DkMissingType :: DkExtraType :: DkTypeLabels :: index_con_diffs)
  ; mkClass "known_C03_rename_column_names" no_base_t kstep_rename_column_names no_extra [6; 7; 1; 8] index_con_diffs
  ; mkClass "known_C03_enum_left_by_drop_table" no_base_t kstep_enum_left_by_drop_table no_extra [2] [DkExtraType]
  ; mkClass "known_C03_enum_case_fold" no_base_t kstep_enum_case_fold no_extra [9] [DkColType]
  ; mkClass "known_C03_enum_case_fold" no_base_t kstep_enum_case_fold_existing no_extra [10; 2] [DkColType]
  ; mkClass "known_C03_enum_vs_row_type" no_base_t kstep_enum_vs_row_type no_extra [2] []
  ; mkClass "known_C03_duplicate_name" base_duplicate_tables kstep_duplicate_name no_extra [1; 8; 6; 7; 15]
            (DkColAuto :: DkColNotnull :: index_con_diffs)
  ; mkClass "known_C03_autoinc_by_alter" no_base_t kstep_autoinc_by_alter no_extra [] [DkColAuto]
  ; mkClass "known_C03_inline_promoted" no_base_t kstep_inline_promoted no_extra [1; 8] index_con_diffs
  ; mkClass "known_C03_rename_fk_refs" base_dangling_tables kstep_rename_fk_refs extra_referencing [3; 4; 13]
            [DkConDiffers; DkMissingCon; DkExtraCon]
  ; mkClass "known_C03_key_replaced_under_fk" no_base_t kstep_key_replaced_under_fk no_extra [11] []
  ; mkClass "known_C03_reference_before_key" no_base_t kstep_reference_before_key no_extra [13; 3; 4] []
  ; mkClass "known_C03_fk_lost_by_column_drop" no_base_t kstep_fk_lost_by_column_drop no_extra [] [DkExtraCon; DkConDiffers]
  ; mkClass "known_C03_fk_lost_by_column_drop" no_base_t kstep_inline_resurrected no_extra [8; 1] index_con_diffs
  ; mkClass "known_C03_composite_member" base_stale_key_tables kstep_never no_extra [13] [] ].
Definition class_names : list string := map kc_name classes.

Definition mem_nat (n : nat) (l : list nat) : bool := existsb (Nat.eqb n) l.
Definition mem_dkind (d : dkind) (l : list dkind) : bool := existsb (dkind_eqb d) l.
Definition meets (a b : list string) : bool := existsb (fun x => mem_str x b) a.

(* the tables touched by the steps (at most n of them) on which the class fires *)
Fixpoint touched_upto (n : nat) (c : kclass) (s : schema) (acts : list action) : list string :=
  match n, acts with
  | O, _ | _, [] => []
  | S n', a :: r =>
      (if kc_step c s a r then action_tables a ++ kc_extra c s a else [])
      ++ touched_upto n' c (step_schema s a) r
  end.

(* (bits per class, explained?) *)
Definition attribute (k : pg_case) (o : outcome) : list bool * bool :=
  let b := g_baseline k in
  let acts := g_actions k in
  match o with
  | OEngineError ai _ e =>
      (* what the failing statement is about: the tables its action names and those the error names *)
      let about := match nth_error acts ai with Some a => action_tables a | None => [] end ++ err_tables e in
      let bits := map (fun c => (mem_nat (error_code e) (kc_errors c)
                                 && (meets about (kc_base c b)
                                     || meets about (touched_upto (S ai) c b acts)))%bool) classes in
      (bits, existsb (fun x => x) bits)
  | ODiff d =>
      let explains (c : kclass) (x : diff_item) :=
        (mem_dkind (dkind_of x) (kc_diffs c)
         && (diff_about (kc_base c b) x || diff_about (touched_upto (List.length acts) c b acts) x))%bool in
      let bits := map (fun c => existsb (explains c) d) classes in
      (bits, forallb (fun x => existsb (fun c => explains c x) classes) d)
  | _ => (map (fun _ => false) classes, false)
  end.

(* the classifier booleans named by the known-findings entries *)
Definition known_by (name : string) (k : pg_case) : bool :=
  let o := oracle k in
  let (bits, ok) := attribute k o in
  (ok && existsb (fun p => (String.eqb (kc_name (fst p)) name && snd p)%bool) (combine classes bits))%bool.
Definition known_C03_check_in_create := known_by "known_C03_check_in_create".
Definition known_C03_shared_enum := known_by "known_C03_shared_enum".
Definition known_C03_int_enum := known_by "known_C03_int_enum".
Definition known_C03_drop_before_unreference := known_by "known_C03_drop_before_unreference".
Definition known_C03_composite_member := known_by "known_C03_composite_member".
Definition known_C03_rename_table_names := known_by "known_C03_rename_table_names".
Definition known_C03_rename_column_names := known_by "known_C03_rename_column_names".
Definition known_C03_enum_left_by_drop_table := known_by "known_C03_enum_left_by_drop_table".
Definition known_C03_enum_case_fold := known_by "known_C03_enum_case_fold".
Definition known_C03_enum_vs_row_type := known_by "known_C03_enum_vs_row_type".
Definition known_C03_duplicate_name := known_by "known_C03_duplicate_name".
Definition known_C03_autoinc_by_alter := known_by "known_C03_autoinc_by_alter".
Definition known_C03_inline_promoted := known_by "known_C03_inline_promoted".
Definition known_C03_rename_fk_refs := known_by "known_C03_rename_fk_refs".
Definition known_C03_key_replaced_under_fk := known_by "known_C03_key_replaced_under_fk".
Definition known_C03_reference_before_key := known_by "known_C03_reference_before_key".
Definition known_C03_fk_lost_by_column_drop := known_by "known_C03_fk_lost_by_column_drop".

(* rows for the driver: every case that is not OOk, with its attribution *)
Fixpoint report_from (i : nat) (cs : list pg_case)
  : list (nat * (nat * nat * nat * nat * string) * list bool * bool) :=
  match cs with
  | [] => []
  | k :: r =>
      match oracle k with
      | OOk => report_from (S i) r
      | o => let (bits, ok) := attribute k o in (i, outcome_row o, bits, ok) :: report_from (S i) r
      end
  end.
