(* PG layer, C14: the renaming of statements under a table prefix p — table names, the table part of derived
   names (ix_/uq_/fk_{table}__.., {table}_pkey, {table}_{enum}) — and nothing else.  No proofs here. *)
From VV.PG Require Export Names.

(* ix_/uq_/fk_ + table + "__" + ...: the prefix goes after the three leading characters *)
Definition rn3 (p n : string) : string :=
  match n with
  | String a (String b (String c r)) => String a (String b (String c (p +++ r)))
  | _ => n
  end.

Definition is_builtin_text (x : string) : bool :=
  (mem_str (type_base (lower x)) builtin_types
   || match serial_base (lower x) with Some _ => true | None => false end)%bool.
(* a quoted type or a non-built-in type text is an enum type {table}_{enum} *)
Definition rn_type (p : string) (ty : pg_type) : pg_type :=
  if (ty_quoted ty || negb (is_builtin_text (ty_text ty)))%bool then mkTy (p +++ ty_text ty) (ty_quoted ty) else ty.
Definition rn_coldef (p : string) (d : coldef) : coldef :=
  mkCd (cd_name d) (rn_type p (cd_type d)) (cd_notnull d) (cd_default d) (cd_pk d).
Definition rn_fk (p : string) (f : fkdef) : fkdef :=
  mkFk (option_map (rn3 p) (fk_name f)) (fk_cols f) (p +++ fk_rtable f) (fk_rcols f) (fk_on_delete f) (fk_on_update f).
(* a dropped constraint: {table}_pkey, a foreign key fk_.., or a user-named CHECK (unchanged) *)
Definition rn_con (p tn n : string) : string :=
  if String.eqb n (tn +++ "_pkey") then p +++ n
  else if starts_with "fk_" n then rn3 p n else n.
Definition rn_op (p tn : string) (op : alter_op) : alter_op :=
  match op with
  | AAddColumn d => AAddColumn (rn_coldef p d)
  | AAlterType c ty u =>
      let ty' := rn_type p ty in
      (* USING "c"::text::"type" names the type again *)
      AAlterType c ty' (match u with
                        | Some _ => Some (qid c +++ "::text::" +++ qid (ty_text ty'))
                        | None => None
                        end)
  | AAddFk f => AAddFk (rn_fk p f)
  | ADropConstraint n => ADropConstraint (rn_con p tn n)
  | ARenameTo b => ARenameTo (p +++ b)
  | other => other
  end.
Definition rename_stmt (p : string) (s : stmt) : stmt :=
  match s with
  | SCreateType n l => SCreateType (p +++ n) l
  | SDropType n => SDropType (p +++ n)
  | SRenameType a b => SRenameType (p +++ a) (p +++ b)
  | SAddValue n l => SAddValue (p +++ n) l
  | SCreateTable t cols pks fks checks => SCreateTable (p +++ t) (map (rn_coldef p) cols) pks (map (rn_fk p) fks) checks
  | SDropTable t => SDropTable (p +++ t)
  | SAlterTable t ops => SAlterTable (p +++ t) (map (rn_op p t) ops)
  | SCreateIndex u n t cols => SCreateIndex u (rn3 p n) (p +++ t) cols
  | SDropIndex n => SDropIndex (rn3 p n)
  | SCommentOnColumn t c x => SCommentOnColumn (p +++ t) c x
  | SUpdate t c e w => SUpdate (p +++ t) c e w
  | SRaw x => SRaw x
  end.

(* ---------- the decidable side conditions ---------- *)
(* a column type renders to a built-in type text, or is a string enum whose type name is not a built-in name *)
Definition type_ok (tn : string) (ty : column_type) : bool :=
  match ty with
  | TCustom _ => false                      (* A4: custom types are excluded on engines that lack them *)
  | TEnum e v => (ev_is_integer v || negb (is_builtin_text (build_enum_type_name tn e)))%bool
  | _ => true
  end.
Definition check_name_ok (tn n : string) : bool :=
  (negb (String.eqb n (tn +++ "_pkey")) && negb (starts_with "fk_" n))%bool.
Definition table_types_ok (t : table_def) : bool := forallb (fun c => type_ok (t_name t) (c_type c)) (t_columns t).

Definition side_pg (s : schema) (a : action) : bool :=
  match a with
  | CreateTable t cols _ => forallb (fun c => type_ok t (c_type c)) cols
  | AddColumn t col _ => type_ok t (c_type col)
  | ModifyColumnType t c ty _ =>
      (type_ok t ty && match find (fun x => String.eqb (t_name x) t) s with Some td => table_types_ok td | None => true end)%bool
  | DeleteColumn t _ => true
  | RemoveConstraint t (CCheck n _) => check_name_ok t n
  | RemoveConstraint t (CForeignKey n cols _ _ _ _) => negb (String.eqb (build_foreign_key_name t cols n) (t +++ "_pkey"))
  | _ => true
  end.
