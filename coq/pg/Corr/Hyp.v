(* PG layer: the decidable hypotheses of the simulation lemmas (Proofs/SimKindsP.v) as booleans, so that the
   driver can count how many generated steps fall under a proved lemma.  No proofs here. *)
From VV.PG Require Export CorrGen.

Definition hyp_modify_comment (s : schema) (tn cn : string) : bool :=
  (nodup_str (map t_name s)
   && match find (fun x => String.eqb (t_name x) tn) s with
      | Some t => has_column cn t
      | None => false
      end)%bool.

Definition hyp_add_constraint (s : schema) (tn : string) (k : table_constraint) : bool :=
  (nodup_str (map t_name s)
   && match find (fun x => String.eqb (t_name x) tn) s with
      | None => false
      | Some t =>
          (negb (contains_constraint k (t_constraints t))
           && match k with
              | CIndex n cols =>
                  (forallb (fun c => has_column c t) cols
                   && negb (rel_exists (build_index_name tn cols n) (catalog_of s)))%bool
              | CUnique n cols =>
                  (forallb (fun c => has_column c t) cols
                   && negb (rel_exists (build_unique_constraint_name tn cols n) (catalog_of s)))%bool
              | CCheck n _ => negb (bt_mem n (pt_cons (table_cat t)))
              | _ => false
              end)%bool
      end)%bool.

Definition no_fk_to (tn : string) (t : table_def) : bool :=
  negb (existsb (fk_to tn (fun _ => true)) (t_constraints t)).

Definition hyp_delete_table (s : schema) (tn : string) : bool :=
  (nodup_str (map t_name s)
   && has_table tn s
   && forallb (fun x => (String.eqb (t_name x) tn || no_fk_to tn x)%bool) s
   && match find (fun x => String.eqb (t_name x) tn) s with
      | Some t => match table_enums t with [] => true | _ => false end
      | None => false
      end)%bool.

Definition dropped_name (tn : string) (k : table_constraint) : string :=
  match k with
  | CPrimaryKey _ _ => tn +++ "_pkey"
  | CUnique n cols => build_unique_constraint_name tn cols n
  | CForeignKey n cols _ _ _ _ => build_foreign_key_name tn cols n
  | CIndex n cols => build_index_name tn cols n
  | CCheck n _ => n
  end.

Definition names_of (tn : string) (k : table_constraint) : list string :=
  map fst (con_cat tn k) ++ map fst (idx_cat tn k).

Definition hyp_remove_constraint (s : schema) (tn : string) (k : table_constraint) : bool :=
  (nodup_str (map t_name s)
   && match find (fun x => String.eqb (t_name x) tn) s with
      | None => false
      | Some t =>
          (contains_constraint k (t_constraints t)
           (* every other constraint of the table has another name *)
           && forallb (fun c => (constraint_eqb c k || negb (mem_str (dropped_name tn k) (names_of tn c)))%bool)
                      (t_constraints t)
           && match k with
              | CIndex _ _ =>
                  (* the index is found in this table first *)
                  match find (fun T => bt_mem (dropped_name tn k) (pt_idx T)) (c_tables (catalog_of s)) with
                  | Some T => String.eqb (pt_name T) tn
                  | None => false
                  end
              | CCheck _ _ | CForeignKey _ _ _ _ _ _ => true
              | _ => false
              end)%bool
      end)%bool.

Definition needs_backfill (col : column_def) (fw : option string) : bool :=
  (negb (c_nullable col) && match c_default col with None => true | Some _ => false end
   && match fw with Some _ => true | None => false end)%bool.

Definition table_def_eqb (a b : table_def) : bool := dec_b table_def_eq_dec a b.

Definition hyp_add_column (s : schema) (tn : string) (col : column_def) (fw : option string) : bool :=
  (nodup_str (map t_name s)
   && match find (fun x => String.eqb (t_name x) tn) s with
      | None => false
      | Some t =>
          let t' := mkTable (t_name t) (t_description t) (t_columns t ++ [col]) (t_constraints t) in
          (negb (has_column (c_name col) t)
           && negb (is_enum_type (c_type col))
           && negb (needs_backfill col fw)
           (* re-normalisation promotes nothing (apply.rs:32-60) *)
           && match normalize t' with Ok n => table_def_eqb n t' | Err _ => false end
           (* the engine model knows the rendered type *)
           && match resolve_type (catalog_of s) (sea_type tn (c_type col)) with
              | Ok (x, false) => String.eqb x (cat_type tn (c_type col))
              | _ => false
              end
           && match pk_of t with Some (_, cols) => negb (mem_str (c_name col) cols) | None => true end)%bool
      end)%bool.

(* ---------- DeleteColumn, plain: the column has no enum type and takes nothing with it ---------- *)
Definition constraint_avoids (cn : string) (k : table_constraint) : bool :=
  match k with
  | CPrimaryKey _ cols | CUnique _ cols | CIndex _ cols => (negb (mem_str cn cols) && nonempty cols)%bool
  | CForeignKey _ cols _ rcols _ _ => (negb (mem_str cn cols) && negb (mem_str cn rcols) && nonempty cols && nonempty rcols)%bool
  | CCheck _ e => negb (mentions cn e)
  end.
Definition hyp_delete_column (s : schema) (tn cn : string) : bool :=
  (nodup_str (map t_name s)
   && forallb (fun x => (String.eqb (t_name x) tn || negb (existsb (fk_to tn (mem_str cn)) (t_constraints x)))%bool) s
   && match find (fun x => String.eqb (t_name x) tn) s with
      | None => false
      | Some t =>
          (has_column cn t
           && match find (fun c => String.eqb (c_name c) cn) (t_columns t) with
              | Some c => negb (is_enum_type (c_type c))
              | None => false
              end
           && nodup_str (map c_name (t_columns t))
           && forallb (constraint_avoids cn) (t_constraints t))%bool
      end)%bool.

(* which proved lemma (if any) covers a step *)
Definition sim_hyp (s : schema) (a : action) : bool :=
  match a with
  | RawSql _ => true
  | ModifyColumnComment t c _ => hyp_modify_comment s t c
  | AddConstraint t k => hyp_add_constraint s t k
  | RemoveConstraint t k => hyp_remove_constraint s t k
  | DeleteTable t => hyp_delete_table s t
  | AddColumn t col fw => hyp_add_column s t col fw
  | DeleteColumn t c => hyp_delete_column s t c
  | _ => false
  end.
Fixpoint count_sim (s : schema) (acts : list action) : nat :=
  match acts with
  | [] => O
  | a :: r => (if sim_hyp s a then 1 else 0) + count_sim (step_schema s a) r
  end.
Definition sim_stats (cs : list pg_case) : list (string * nat) :=
  [("steps_under_a_proved_sim_lemma", fold_left (fun n k => n + count_sim (g_baseline k) (g_actions k)) cs O)].

