(* PG layer: the decidable hypotheses of the simulation lemmas (Proofs/SimKindsP.v) as booleans, so that the
   driver can count how many generated steps fall under a proved lemma.  No proofs here. *)
From VV.PG Require Export CorrGen.

Definition with_enums (c : catalog) (types : list (string * list string)) : catalog :=
  mkCat (c_tables c) (fold_left (fun m e => bt_insert (fst e) (snd e) m) types (c_enums c)).
Definition opt_is_none {A} (o : option A) : bool := match o with None => true | Some _ => false end.

Definition hyp_modify_comment (s : schema) (tn cn : string) : bool :=
  (nodup_str (map t_name s)
   && match find (fun x => String.eqb (t_name x) tn) s with
      | Some t => has_column cn t
      | None => false
      end)%bool.

Definition hyp_add_constraint (s : schema) (tn : string) (k : table_constraint) : bool :=
  (nodup_str (map t_name s)
   && match find (fun x => String.eqb (t_name x) tn) s with
      | None => false
      | Some t =>
          (negb (contains_constraint k (t_constraints t))
           && match k with
              | CIndex n cols =>
                  (forallb (fun c => has_column c t) cols
                   && negb (rel_exists (build_index_name tn cols n) (catalog_of s)))%bool
              | CUnique n cols =>
                  (forallb (fun c => has_column c t) cols
                   && negb (rel_exists (build_unique_constraint_name tn cols n) (catalog_of s)))%bool
              | CCheck n _ => negb (bt_mem n (pt_cons (table_cat t)))
              | CForeignKey n fc rt rc _ _ =>
                  (* A1 on the database as it is: the target has a key over exactly the referenced columns *)
                  (forallb (fun c => has_column c t) fc
                   && Nat.eqb (List.length fc) (List.length rc)
                   && negb (bt_mem (build_foreign_key_name tn fc n) (pt_cons (table_cat t)))
                   && match find_table rt (catalog_of s) with
                      | Some RT => (forallb (fun x => has_col x RT) rc
                                    && match unique_indexes_on RT rc with [] => false | _ => true end)%bool
                      | None => false
                      end)%bool
              | CPrimaryKey auto cols =>
                  (* no key yet; auto_increment is not honoured by ALTER (K12); {t}_pkey is free *)
                  (negb auto
                   && match filter is_pk (t_constraints t) with [] => true | _ => false end
                   && forallb (fun c => has_column c t) cols
                   && negb (mem_str (tn +++ "_pkey") (rel_names (catalog_of s) ++ bt_keys (pt_cons (table_cat t)))))%bool
              end)%bool
      end)%bool.

Definition no_fk_to (tn : string) (t : table_def) : bool :=
  negb (existsb (fk_to tn (fun _ => true)) (t_constraints t)).

Definition hyp_delete_table (s : schema) (tn : string) : bool :=
  (nodup_str (map t_name s)
   && has_table tn s
   && forallb (fun x => (String.eqb (t_name x) tn || no_fk_to tn x)%bool) s
   && match find (fun x => String.eqb (t_name x) tn) s with
      | Some t => match table_enums t with [] => true | _ => false end
      | None => false
      end)%bool.

Definition dropped_name (tn : string) (k : table_constraint) : string :=
  match k with
  | CPrimaryKey _ _ => tn +++ "_pkey"
  | CUnique n cols => build_unique_constraint_name tn cols n
  | CForeignKey n cols _ _ _ _ => build_foreign_key_name tn cols n
  | CIndex n cols => build_index_name tn cols n
  | CCheck n _ => n
  end.

Definition names_of (tn : string) (k : table_constraint) : list string :=
  map fst (con_cat tn k) ++ map fst (idx_cat tn k).

Definition hyp_remove_constraint (s : schema) (tn : string) (k : table_constraint) : bool :=
  (nodup_str (map t_name s)
   && match find (fun x => String.eqb (t_name x) tn) s with
      | None => false
      | Some t =>
          (contains_constraint k (t_constraints t)
           (* every other constraint of the table has another name *)
           && forallb (fun c => (constraint_eqb c k || negb (mem_str (dropped_name tn k) (names_of tn c)))%bool)
                      (t_constraints t)
           && match k with
              | CIndex _ _ =>
                  (* the index is found in this table first *)
                  match find (fun T => bt_mem (dropped_name tn k) (pt_idx T)) (c_tables (catalog_of s)) with
                  | Some T => String.eqb (pt_name T) tn
                  | None => false
                  end
              | CUnique _ cols =>
                  (* found in this table first, and no foreign key needs the unique index (A1 / K15) *)
                  (match find (fun T => bt_mem (dropped_name tn k) (pt_idx T)) (c_tables (catalog_of s)) with
                   | Some T => String.eqb (pt_name T) tn
                   | None => false
                   end
                   && match fk_needing_index (catalog_of s) (table_cat t) (mkPi cols true false) with
                      | None => true
                      | Some _ => false
                      end)%bool
              | CCheck _ _ | CForeignKey _ _ _ _ _ _ => true
              | CPrimaryKey _ _ => false
              end)%bool
      end)%bool.

(* RemoveConstraint of the primary key: ALTER TABLE .. DROP CONSTRAINT {t}_pkey.  Outside K12 (auto_increment: the key
   is not auto-increment, or none of its columns has a type that takes a sequence), K15
   (a foreign key needs the key's index), K6 (renamed table: the name is not {t}_pkey); the key columns are declared
   NOT NULL (A2), because PostgreSQL keeps NOT NULL when the key goes *)
Definition hyp_remove_pk (s : schema) (tn : string) (k : table_constraint) : bool :=
  (nodup_str (map t_name s)
   && match find (fun x => String.eqb (t_name x) tn) s, k with
      | Some t, CPrimaryKey a cols =>
          ((negb a || negb (existsb (fun x => (mem_str (c_name x) cols && supports_auto_increment (c_type x))%bool)
                                    (t_columns t)))
           && match filter is_pk (t_constraints t) with [k'] => constraint_eqb k' k | _ => false end
           && forallb (fun c => (constraint_eqb c k || negb (mem_str (tn +++ "_pkey") (names_of tn c)))%bool)
                      (t_constraints t)
           && forallb (fun x => (negb (mem_str (c_name x) cols) || negb (c_nullable x))%bool) (t_columns t)
           && match fk_needing_index (catalog_of s) (table_cat t) (mkPi cols true true) with
              | None => true
              | Some _ => false
              end)%bool
      | _, _ => false
      end)%bool.

Definition needs_backfill (col : column_def) (fw : option string) : bool :=
  (negb (c_nullable col) && match c_default col with None => true | Some _ => false end
   && match fw with Some _ => true | None => false end)%bool.

Definition table_def_eqb (a b : table_def) : bool := dec_b table_def_eq_dec a b.

(* what both paths of a plain AddColumn need; [bf] says which path build_add_column takes *)
Definition hyp_add_column_gen (bf : bool) (s : schema) (tn : string) (col : column_def) (fw : option string) : bool :=
  (nodup_str (map t_name s)
   && match find (fun x => String.eqb (t_name x) tn) s with
      | None => false
      | Some t =>
          let t' := mkTable (t_name t) (t_description t) (t_columns t ++ [col]) (t_constraints t) in
          (negb (has_column (c_name col) t)
           && negb (is_string_enum (c_type col))          (* no type to create: K2 / K9 / K10 are elsewhere *)
           && Bool.eqb (needs_backfill col fw) bf
           (* re-normalisation promotes nothing (apply.rs:32-60) *)
           && match normalize t' with Ok n => table_def_eqb n t' | Err _ => false end
           (* the engine model knows the rendered type *)
           && match resolve_type (catalog_of s) (sea_type tn (c_type col)) with
              | Ok (x, false) => String.eqb x (cat_type tn (c_type col))
              | _ => false
              end
           && match pk_of t with Some (_, cols) => negb (mem_str (c_name col) cols) | None => true end)%bool
      end)%bool.
Definition hyp_add_column := hyp_add_column_gen false.
(* the back-fill sequence: ADD COLUMN (nullable); UPDATE; ALTER COLUMN .. TYPE .., ALTER COLUMN .. SET NOT NULL *)
Definition hyp_add_column_backfill := hyp_add_column_gen true.

(* AddColumn of a string-enum column: CREATE TYPE first, then either statement sequence.  Outside K2 (the enum name is
   used by no other column of the table), K9 (the unquoted type name resolves to the new type), K10 (no type / table
   of that name) *)
Definition hyp_add_column_enum (s : schema) (tn : string) (col : column_def) (fw : option string) : bool :=
  (nodup_str (map t_name s)
   && match find (fun x => String.eqb (t_name x) tn) s, c_type col with
      | Some t, TEnum en vals =>
          let t' := mkTable (t_name t) (t_description t) (t_columns t ++ [col]) (t_constraints t) in
          let N := build_enum_type_name tn en in
          let L := enum_sql_values vals in
          (negb (ev_is_integer vals)
           && negb (has_column (c_name col) t)
           && negb (other_col_with_enum s tn (c_name col) en)
           && match normalize t' with Ok n => table_def_eqb n t' | Err _ => false end
           && nodup_str (map fst (flat_map table_enums s))
           && negb (mem_str N (map fst (flat_map table_enums s)))
           && negb (type_exists N (catalog_of s))
           && forallb is_quoted_literal L && opt_is_none (first_dup L)
           && match resolve_type (with_enums (catalog_of s) [(N, L)]) (sea_type tn (c_type col)) with
              | Ok (x, false) => String.eqb x N
              | _ => false
              end
           && match pk_of t with Some (_, cols) => negb (mem_str (c_name col) cols) | None => true end)%bool
      | _, _ => false
      end)%bool.

(* ---------- DeleteColumn, plain: the column has no enum type and takes nothing with it ---------- *)
Definition constraint_avoids (cn : string) (k : table_constraint) : bool :=
  match k with
  | CPrimaryKey _ cols | CUnique _ cols | CIndex _ cols => (negb (mem_str cn cols) && nonempty cols)%bool
  | CForeignKey _ cols _ rcols _ _ => (negb (mem_str cn cols) && negb (mem_str cn rcols) && nonempty cols && nonempty rcols)%bool
  | CCheck _ e => negb (mentions cn e)
  end.
Definition hyp_delete_column (s : schema) (tn cn : string) : bool :=
  (nodup_str (map t_name s)
   && forallb (fun x => (String.eqb (t_name x) tn || negb (existsb (fk_to tn (mem_str cn)) (t_constraints x)))%bool) s
   && match find (fun x => String.eqb (t_name x) tn) s with
      | None => false
      | Some t =>
          (has_column cn t
           && match find (fun c => String.eqb (c_name c) cn) (t_columns t) with
              | Some c => negb (is_enum_type (c_type c))
              | None => false
              end
           && nodup_str (map c_name (t_columns t))
           && forallb (constraint_avoids cn) (t_constraints t))%bool
      end)%bool.

(* DeleteColumn of a string-enum column: DROP COLUMN, then DROP TYPE.  Outside K2 (no other column of the table uses
   the enum name), K5 (the column takes nothing with it); afterwards no column of the database uses the type *)
Definition hyp_delete_column_enum (s : schema) (tn cn : string) : bool :=
  (nodup_str (map t_name s)
   && forallb (fun x => (String.eqb (t_name x) tn || negb (existsb (fk_to tn (mem_str cn)) (t_constraints x)))%bool) s
   && match find (fun x => String.eqb (t_name x) tn) s with
      | None => false
      | Some t =>
          (has_column cn t
           && match find (fun c => String.eqb (c_name c) cn) (t_columns t) with
              | Some c =>
                  match c_type c with
                  | TEnum en vals =>
                      let N := build_enum_type_name tn en in
                      (negb (ev_is_integer vals)
                       && negb (other_col_with_enum s tn cn en)
                       && nodup_str (map fst (flat_map table_enums s))
                       && negb (existsb (fun T => existsb (fun x => String.eqb (pc_type x) N) (pt_cols T))
                                        (c_tables (catalog_of (step_schema s (DeleteColumn tn cn))))))%bool
                  | _ => false
                  end
              | None => false
              end
           && nodup_str (map c_name (t_columns t))
           && forallb (constraint_avoids cn) (t_constraints t))%bool
      end)%bool.

(* DeleteColumn where the column takes single-column objects with it: a unique / index / foreign key over exactly
   this column is dropped by PostgreSQL together with the column, and apply.rs drops the emptied constraint.  Outside
   D18 (a composite member: every other constraint avoids the column), a CHECK never mentions it, the primary key
   avoids it; the derived names of the table are distinct (K10) *)
Definition constraint_ok (cn : string) (k : table_constraint) : bool :=
  match k with
  | CPrimaryKey _ _ | CCheck _ _ => constraint_avoids cn k
  | CUnique _ cols | CIndex _ cols | CForeignKey _ cols _ _ _ _ =>
      (constraint_avoids cn k || dec_b (list_eq_dec string_dec) cols [cn])%bool
  end.
Definition hyp_delete_column_goes (s : schema) (tn cn : string) : bool :=
  (nodup_str (map t_name s)
   && forallb (fun x => (String.eqb (t_name x) tn || negb (existsb (fk_to tn (mem_str cn)) (t_constraints x)))%bool) s
   && match find (fun x => String.eqb (t_name x) tn) s with
      | None => false
      | Some t =>
          (has_column cn t
           && match find (fun c => String.eqb (c_name c) cn) (t_columns t) with
              | Some c => negb (is_enum_type (c_type c))
              | None => false
              end
           && nodup_str (map c_name (t_columns t))
           && forallb (constraint_ok cn) (t_constraints t)
           && nodup_str (map fst (flat_map (con_cat tn) (first_pk_only false (t_constraints t))))
           && nodup_str (map fst (flat_map (idx_cat tn) (first_pk_only false (t_constraints t)))))%bool
      end)%bool.

(* ---------- ModifyColumnNullable / Default / Type: one attribute of one column (non-enum paths) ---------- *)
Definition the_column (s : schema) (tn cn : string) : option (table_def * column_def) :=
  match find (fun x => String.eqb (t_name x) tn) s with
  | Some t => match find (fun c => String.eqb (c_name c) cn) (t_columns t) with
              | Some c => Some (t, c)
              | None => None
              end
  | None => None
  end.
Definition column_frame (s : schema) (tn cn : string) : bool :=
  (nodup_str (map t_name s)
   && match the_column s tn cn with
      | Some (t, _) => nodup_str (map c_name (t_columns t))
      | None => false
      end)%bool.
Definition in_pk_of (t : table_def) (cn : string) : bool :=
  match pk_of t with Some (_, cols) => mem_str cn cols | None => false end.
(* DROP NOT NULL is refused on a key column (A2) *)
Definition hyp_modify_nullable (s : schema) (tn cn : string) (nullable : bool) : bool :=
  (column_frame s tn cn
   && match the_column s tn cn with
      | Some (t, _) =>
          (negb nullable
           || (negb (in_pk_of t cn)
               && negb (existsb (fun k => match snd k with KPk cols => mem_str cn cols | _ => false end)
                                (pt_cons (table_cat t)))))%bool
      | None => false
      end)%bool.
(* SET DEFAULT stores the text modify_column_default.rs renders; the baseline renders the stored default through
   build_sea_column_def: the two must coincide (they differ e.g. for now() / CURRENT_TIMESTAMP); DROP DEFAULT also drops
   a serial column's sequence default *)
Definition hyp_modify_default (s : schema) (tn cn : string) (d : option string) : bool :=
  (column_frame s tn cn
   && match the_column s tn cn with
      | Some (t, c) =>
          match d with
          | Some x =>
              (negb (String.eqb (trim (normalize_enum_default (c_type c) x)) "")
               && dec_b (option_eq_dec string_dec)
                        (column_default_text (set_default (Some (DStr x)) c))
                        (Some (normalize_enum_default (c_type c) x)))%bool
          | None => negb (pc_autoinc (col_cat t c))
          end
      | None => false
      end)%bool.
(* the same with the stored text characterised instead of compared: a default that is none of the spellings
   convert_default_for_backend rewrites (helpers.rs:153-188) and carries no type cast is stored as written
   (quoted when the column is an enum and the text needs quoting), and rendered the same way by the baseline *)
Definition default_is_plain (x : string) : bool :=
  let l := lower x in
  (negb (String.eqb x "")
   && negb (String.eqb l "gen_random_uuid()" || String.eqb l "uuid()" || String.eqb l "lower(hex(randomblob(16)))")
   && negb (String.eqb l "current_timestamp()" || String.eqb l "now()" || String.eqb l "current_timestamp"
            || String.eqb l "getdate()")
   && opt_is_none (parse_pg_type_cast x))%bool.
Definition hyp_modify_default_plain (s : schema) (tn cn : string) (x : string) : bool :=
  (column_frame s tn cn && default_is_plain x
   && match the_column s tn cn with
      | Some (_, c) => negb (String.eqb (trim (normalize_enum_default (c_type c) x)) "")
      | None => false
      end)%bool.
(* ALTER COLUMN .. TYPE between two non-enum types the engine model knows; the auto-increment status is unchanged *)
Definition hyp_modify_type (s : schema) (tn cn : string) (ty : column_type) : bool :=
  (column_frame s tn cn
   && match the_column s tn cn with
      | Some (t, c) =>
          (negb (is_enum_type (c_type c)) && negb (is_enum_type ty)
           && match resolve_type (catalog_of s) (sea_type tn ty) with
              | Ok (x, false) => String.eqb x (cat_type tn ty)
              | _ => false
              end
           && Bool.eqb (pc_autoinc (col_cat t (set_type ty c))) (pc_autoinc (col_cat t c)))%bool
      | None => false
      end)%bool.

(* ---------- ModifyColumnType where a string enum is involved ---------- *)
(* no column other than tn.cn has the type named n *)
Definition type_free (c : catalog) (tn cn n : string) : bool :=
  forallb (fun T => forallb (fun x => ((String.eqb (pt_name T) tn && String.eqb (pc_name x) cn)
                                       || negb (String.eqb (pc_type x) n))%bool) (pt_cols T)) (c_tables c).
Definition labels_ok (l : list string) : bool :=
  (forallb is_quoted_literal l && opt_is_none (first_dup l))%bool.
(* the default of an enum-to-enum migration: dropped before, set again afterwards with the text
   modify_column_type.rs renders; the replayed baseline renders it through build_sea_column_def *)
Definition enum_default_ok (c : column_def) (ty : column_type) : bool :=
  match c_default c with
  | None => true
  | Some d =>
      let e := normalize_enum_default ty (default_to_sql d) in
      (negb (String.eqb (trim e) "")
       && dec_b (option_eq_dec string_dec) (column_default_text (set_type ty c)) (Some e))%bool
  end.
(* Outside K2 (shared enum), K3 (integer enum), K8 (case fold: the unquoted name resolves to itself).
   plain -> enum: CREATE TYPE, ALTER TYPE;  enum -> plain: ALTER TYPE, DROP TYPE;
   enum -> enum, other name: CREATE TYPE new, [DROP DEFAULT], ALTER TYPE USING, DROP TYPE old, [SET DEFAULT];
   enum -> enum, same name, other values: CREATE TYPE n_new, [DROP DEFAULT], ALTER TYPE USING, DROP TYPE n,
   RENAME n_new TO n, [SET DEFAULT] *)
Definition hyp_modify_type_enum (s : schema) (tn cn : string) (ty : column_type) : bool :=
  (column_frame s tn cn
   && match the_column s tn cn with
      | Some (t, c) =>
          (nodup_str (map fst (flat_map table_enums s))
           && negb (pc_autoinc (col_cat t c)) && negb (pc_autoinc (col_cat t (set_type ty c)))
           && match c_type c, ty with
              | TEnum on ov, TEnum nn nv =>
                  let No := build_enum_type_name tn on in
                  let Nn := build_enum_type_name tn nn in
                  let Ln := enum_sql_values nv in
                  (negb (ev_is_integer ov) && negb (ev_is_integer nv)
                   && negb (other_col_with_enum s tn cn on)
                   && type_free (catalog_of s) tn cn No
                   && labels_ok Ln && enum_default_ok c ty
                   && if String.eqb on nn then
                        let T := No +++ "_new" in
                        (negb (dec_b enum_values_eq_dec ov nv)
                         && negb (String.eqb T No)
                         && type_free (catalog_of s) tn cn T
                         && negb (type_exists T (catalog_of s))
                         && negb (has_table No s))%bool
                      else
                        (negb (other_col_with_enum s tn cn nn)
                         && negb (String.eqb No Nn)
                         && negb (type_exists Nn (catalog_of s)))%bool)%bool
              | TEnum on ov, _ =>
                  let No := build_enum_type_name tn on in
                  (negb (ev_is_integer ov)
                   && negb (other_col_with_enum s tn cn on)
                   && type_free (catalog_of s) tn cn No
                   && negb (String.eqb (cat_type tn ty) No)
                   && match resolve_type (catalog_of s) (sea_type tn ty) with
                      | Ok (x, false) => String.eqb x (cat_type tn ty)
                      | _ => false
                      end
                   && dec_b (option_eq_dec string_dec) (column_default_text (set_type ty c)) (column_default_text c))%bool
              | _, TEnum nn nv =>
                  let Nn := build_enum_type_name tn nn in
                  let Ln := enum_sql_values nv in
                  (negb (ev_is_integer nv)
                   && negb (other_col_with_enum s tn cn nn)
                   && negb (type_exists Nn (catalog_of s))
                   && labels_ok Ln
                   && match resolve_type (with_enums (catalog_of s) [(Nn, Ln)]) (sea_type tn ty) with
                      | Ok (x, false) => String.eqb x Nn
                      | _ => false
                      end
                   && dec_b (option_eq_dec string_dec) (column_default_text (set_type ty c)) (column_default_text c))%bool
              | _, _ => false
              end)%bool
      | None => false
      end)%bool.

(* ---------- RenameColumn, outside K7 (a derived name embeds the old column name) and K15 (foreign keys of other
   tables are left behind): ALTER TABLE .. RENAME COLUMN renames the column in every constraint and index of the
   table and keeps their names; apply.rs renames it in every column list of the table's constraints (the referenced
   columns of a foreign key to ANOTHER table included) ---------- *)
Definition rename_ok (tn a b : string) (k : table_constraint) : bool :=
  match k with
  | CPrimaryKey _ cols => negb (mem_str b cols)
  | CUnique n cols | CIndex n cols => (negb (opt_is_none n) || negb (mem_str a cols))%bool
  | CForeignKey n cols rt rcols _ _ =>
      ((negb (opt_is_none n) || negb (mem_str a cols))
       && (String.eqb rt tn || negb (mem_str a rcols)))%bool
  | CCheck _ _ => true
  end.
Definition hyp_rename_column (s : schema) (tn a b : string) : bool :=
  (nodup_str (map t_name s)
   && forallb (fun x => (String.eqb (t_name x) tn || negb (existsb (fk_to tn (mem_str a)) (t_constraints x)))%bool) s
   && match find (fun x => String.eqb (t_name x) tn) s with
      | None => false
      | Some t =>
          (has_column a t && negb (has_column b t)
           && nodup_str (map c_name (t_columns t))
           && forallb (rename_ok tn a b) (t_constraints t))%bool
      end)%bool.

(* ---------- CreateTable, outside K1 (CHECK), the enum classes, K10/K11 (name clashes), K17 (target not ready) ---------- *)
Definition is_check (k : table_constraint) : bool := match k with CCheck _ _ => true | _ => false end.
Definition is_unique_c (k : table_constraint) : bool := match k with CUnique _ _ => true | _ => false end.
Definition is_index_c (k : table_constraint) : bool := match k with CIndex _ _ => true | _ => false end.
(* the column definition CREATE TABLE carries resolves to what catalog_of believes, and has no inline PRIMARY KEY *)
Definition col_resolves (c : catalog) (n : table_def) (x : column_def) : bool :=
  let d := create_coldef (t_name n) (filter not_unique_c (t_constraints n)) x in
  (negb (cd_pk d)
   && match resolve_type c (cd_type d) with
      | Ok (ty, auto) => (String.eqb ty (pc_type (col_cat n x)) && Bool.eqb auto (pc_autoinc (col_cat n x)))%bool
      | Err _ => false
      end)%bool.
(* a foreign key of the new table can be created right after the table and its primary key *)
Definition fk_ready (c : catalog) (n : table_def) (k : table_constraint) : bool :=
  match k with
  | CForeignKey _ fc rt rc _ _ =>
      (Nat.eqb (List.length fc) (List.length rc)
       && if String.eqb rt (t_name n)
          then (forallb (fun x => has_column x n) rc
                && match pk_of n with Some (_, pk) => same_set pk rc | None => false end)%bool
          else match find_table rt c with
               | Some T => (forallb (fun x => has_col x T) rc
                            && match unique_indexes_on T rc with [] => false | _ => true end)%bool
               | None => false
               end)%bool
  | _ => true
  end.
Definition created_type_pairs (tn : string) (cols : list column_def) : list (string * list string) :=
  flat_map (fun st => match st with SCreateType n l => [(n, l)] | _ => [] end) (create_enum_types tn cols []).
Definition pairs_eqb (a b : list (string * list string)) : bool :=
  dec_b (list_eq_dec (pair_eq_dec string_dec (list_eq_dec string_dec))) a b.
Definition hyp_create_table (s : schema) (tn : string) (cols : list column_def) (ks : list table_constraint) : bool :=
  (negb (has_table tn s)
   && match normalize (mkTable tn None cols ks) with
      | Err _ => false
      | Ok n =>
          let c := catalog_of s in
          let nks := t_constraints n in
          let inames := map fst (flat_map (idx_cat tn) nks) in
          let cnames := map fst (flat_map (con_cat tn) nks) in
          let types := table_enums n in
          ((* the CREATE TYPE statements are exactly the types the baseline believes in; their names are new (K8, K10),
              distinct, and the labels are distinct string literals (A7) *)
           pairs_eqb (created_type_pairs tn (t_columns n)) types
           && nodup_str (map fst types)
           && forallb (fun x => negb (type_exists x c)) (map fst types)
           && negb (mem_str tn (map fst types))
           && forallb (fun e => (forallb is_quoted_literal (snd e) && opt_is_none (first_dup (snd e)))%bool) types
           && negb (existsb is_check nks)
           && Nat.leb (List.length (filter is_pk nks)) 1
           && nodup_str (map c_name (t_columns n))
           && negb (rel_exists tn c) && negb (type_exists tn c)
           && forallb (col_resolves (with_enums c types) n) (t_columns n)
           && forallb (fun k => forallb (fun x => has_column x n) (constraint_columns k)) nks
           && nodup_str (tn :: inames) && forallb (fun x => negb (rel_exists x c)) inames
           && nodup_str cnames
           && forallb (fk_ready c n) nks)%bool
      end)%bool.

(* which proved lemma (if any) covers a step *)
(* ---------- RenameTable, outside K6 (every name derived from the table name stays behind: {old}_pkey, ix_/uq_/fk_{old}__..,
   {old}_{enum}) and K15 (foreign keys of other tables keep ref_table = old name): what is left is a table that has
   CHECK constraints only (their names are given, not derived) and no enum column, referenced by nobody ---------- *)
Definition hyp_rename_table (s : schema) (a b : string) : bool :=
  (nodup_str (map t_name s)
   && negb (has_table b s)
   && negb (rel_exists b (catalog_of s)) && negb (type_exists b (catalog_of s))
   && forallb (fun x => negb (existsb (fk_to a (fun _ => true)) (t_constraints x))) s
   && forallb (fun T => forallb (fun y => negb (String.eqb (pc_type y) a)) (pt_cols T)) (c_tables (catalog_of s))
   && match find (fun x => String.eqb (t_name x) a) s with
      | Some t => (forallb is_check (t_constraints t) && negb (existsb (fun c => is_enum_type (c_type c)) (t_columns t)))%bool
      | None => false
      end)%bool.

Definition sim_hyp (s : schema) (a : action) : bool :=
  match a with
  | RawSql _ => true
  | ModifyColumnComment t c _ => hyp_modify_comment s t c
  | AddConstraint t k => hyp_add_constraint s t k
  | RemoveConstraint t (CPrimaryKey a cols) => hyp_remove_pk s t (CPrimaryKey a cols)
  | RemoveConstraint t k => hyp_remove_constraint s t k
  | DeleteTable t => hyp_delete_table s t
  | AddColumn t col fw => (hyp_add_column s t col fw || hyp_add_column_backfill s t col fw || hyp_add_column_enum s t col fw)%bool
  | DeleteColumn t c => (hyp_delete_column s t c || hyp_delete_column_enum s t c || hyp_delete_column_goes s t c)%bool
  | CreateTable t cols ks => hyp_create_table s t cols ks
  | ModifyColumnNullable t c n _ => hyp_modify_nullable s t c n
  | ModifyColumnDefault t c d => hyp_modify_default s t c d
  | ModifyColumnType t c ty _ => (hyp_modify_type s t c ty || hyp_modify_type_enum s t c ty)%bool
  | RenameColumn t a b => hyp_rename_column s t a b
  | RenameTable a b => hyp_rename_table s a b
  end.
Fixpoint count_sim (s : schema) (acts : list action) : nat :=
  match acts with
  | [] => O
  | a :: r => (if sim_hyp s a then 1 else 0) + count_sim (step_schema s a) r
  end.
Definition sim_stats (cs : list pg_case) : list (string * nat) :=
  [("steps_under_a_proved_sim_lemma", fold_left (fun n k => n + count_sim (g_baseline k) (g_actions k)) cs O)].


(* per action kind: (steps, steps under a proved lemma) — to see where the proofs still have to go *)
Definition kind_name (a : action) : string :=
  match a with
  | CreateTable _ _ _ => "CreateTable" | DeleteTable _ => "DeleteTable" | AddColumn _ _ _ => "AddColumn"
  | RenameColumn _ _ _ => "RenameColumn" | DeleteColumn _ _ => "DeleteColumn"
  | ModifyColumnType _ _ _ _ => "ModifyColumnType" | ModifyColumnNullable _ _ _ _ => "ModifyColumnNullable"
  | ModifyColumnDefault _ _ _ => "ModifyColumnDefault" | ModifyColumnComment _ _ _ => "ModifyColumnComment"
  | AddConstraint _ (CPrimaryKey _ _) => "AddConstraint:pk" | AddConstraint _ (CForeignKey _ _ _ _ _ _) => "AddConstraint:fk"
  | AddConstraint _ _ => "AddConstraint:other"
  | RemoveConstraint _ (CPrimaryKey _ _) => "RemoveConstraint:pk" | RemoveConstraint _ (CUnique _ _) => "RemoveConstraint:unique"
  | RemoveConstraint _ _ => "RemoveConstraint:other"
  | RenameTable _ _ => "RenameTable" | RawSql _ => "RawSql"
  end.
Fixpoint bump (k : string) (cov : bool) (m : list (string * (nat * nat))) : list (string * (nat * nat)) :=
  match m with
  | [] => [(k, (1, if cov then 1 else 0))]
  | (k', (a, b)) :: r => if String.eqb k k' then (k', (S a, if cov then S b else b)) :: r else (k', (a, b)) :: bump k cov r
  end.
Fixpoint kind_steps (s : schema) (acts : list action) (m : list (string * (nat * nat))) : list (string * (nat * nat)) :=
  match acts with
  | [] => m
  | a :: r => kind_steps (step_schema s a) r (bump (kind_name a) (sim_hyp s a) m)
  end.
Definition kind_stats (cs : list pg_case) : list (string * (nat * nat)) :=
  fold_left (fun m k => kind_steps (g_baseline k) (g_actions k) m) cs [].
