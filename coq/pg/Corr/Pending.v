(* PG layer: the pending-set view of a plan.  build_plan_queries carries the planner's schema s forward; apply.rs
   re-normalises the table on every AddColumn, which PROMOTES the column's inline unique / index / foreign_key /
   primary_key declaration to a table constraint at once, while the database only receives that constraint when the
   later AddConstraint of the same plan runs (for the planner's schema that AddConstraint is then a no-op).  In
   between, the schema owes the database the promoted constraints: the pending set.
   The database side is described by a second schema d that evolves with the same actions except that an added
   column carries no inline declarations (nothing is promoted before its AddConstraint arrives):
   pending set = constraints of s that d does not have yet.  No proofs here (decidable equalities only). *)
From VV.PG Require Export Hyp.

Definition strip_col (c : column_def) : column_def :=
  mkCol (c_name c) (c_type c) (c_nullable c) (c_default c) (c_comment c) None None None None.
Definition strip_action (a : action) : action :=
  match a with AddColumn t col fw => AddColumn t (strip_col col) fw | _ => a end.
Definition db_step (d : schema) (a : action) : schema := step_schema d (strip_action a).
Definition final_db (d : schema) (acts : list action) : schema := fold_left db_step acts d.

(* the statements are generated from the planner's schema and executed against the database's: the two must have
   the same tables with the same columns (name, type, nullability, default, comment); inline declarations and the
   constraint lists are where they differ *)
Definition table_core (t : table_def) : string * list column_def := (t_name t, map strip_col (t_columns t)).
Definition same_core (s d : schema) : bool :=
  dec_b (list_eq_dec (pair_eq_dec string_dec (list_eq_dec column_def_eq_dec))) (map table_core s) (map table_core d).

(* decidable equality of catalogs *)
Definition pg_col_eq_dec (x y : pg_col) : {x = y} + {x <> y}.
Proof. decide equality; auto using string_dec, bool_dec; apply option_eq_dec, string_dec. Defined.
Definition con_kind_eq_dec (x y : con_kind) : {x = y} + {x <> y}.
Proof. decide equality; auto using string_dec, ref_action_eq_dec; apply list_eq_dec, string_dec. Defined.
Definition pg_index_eq_dec (x y : pg_index) : {x = y} + {x <> y}.
Proof. decide equality; auto using bool_dec; apply list_eq_dec, string_dec. Defined.
Definition pg_table_eq_dec (x y : pg_table) : {x = y} + {x <> y}.
Proof.
  decide equality; auto using string_dec.
  - apply list_eq_dec. intros [k1 v1] [k2 v2]. destruct (string_dec k1 k2); [|right; congruence].
    destruct (pg_index_eq_dec v1 v2); [left|right]; congruence.
  - apply list_eq_dec. intros [k1 v1] [k2 v2]. destruct (string_dec k1 k2); [|right; congruence].
    destruct (con_kind_eq_dec v1 v2); [left|right]; congruence.
  - apply list_eq_dec, pg_col_eq_dec.
Defined.
Definition catalog_eq_dec (x y : catalog) : {x = y} + {x <> y}.
Proof.
  decide equality.
  - apply list_eq_dec. intros [k1 v1] [k2 v2]. destruct (string_dec k1 k2); [|right; congruence].
    destruct (list_eq_dec string_dec v1 v2); [left|right]; congruence.
  - apply list_eq_dec, pg_table_eq_dec.
Defined.
Definition cat_eqb (a b : catalog) : bool := dec_b catalog_eq_dec a b.

(* one step: same tables and columns on both sides, and the step on the database's schema falls under a proved lemma *)
Definition sim_hyp2 (s d : schema) (a : action) : bool := (same_core s d && sim_hyp d (strip_action a))%bool.
Fixpoint all_sim (s : schema) (acts : list action) : bool :=
  match acts with
  | [] => true
  | a :: r => (sim_hyp s a && all_sim (step_schema s a) r)%bool
  end.
Fixpoint all_sim2 (s d : schema) (acts : list action) : bool :=
  match acts with
  | [] => true
  | a :: r => (sim_hyp2 s d a && all_sim2 (step_schema s a) (db_step d a) r)%bool
  end.
(* the pending set is empty at the end of the plan: both schemas describe the same catalog *)
Definition pending_settled (s : schema) (acts : list action) : bool :=
  cat_eqb (catalog_of (final_db s acts)) (catalog_of (fold_left step_schema acts s)).
(* hypotheses of the plan-level theorems: Sim_plan (every step under a per-step lemma on the planner's schema) and
   Sim_plan_pending (every step under a per-step lemma on the database's schema, pending set settled at the end) *)
Definition plan_hyp (s : schema) (acts : list action) : bool := all_sim s acts.
Definition plan_hyp_pending (s : schema) (acts : list action) : bool :=
  (all_sim2 s s acts && pending_settled s acts)%bool.
Definition plan_ok (s : schema) (acts : list action) : bool := (plan_hyp s acts || plan_hyp_pending s acts)%bool.
Fixpoint history_ok (s : schema) (h : list (list action)) : bool :=
  match h with
  | [] => true
  | acts :: r => (plan_ok s acts && history_ok (fold_left step_schema acts s) r)%bool
  end.

(* what the check reports: generated plans under the hypotheses of the plan-level theorems, before (Sim_plan) and
   after (Sim_plan_pending) the pending-set invariant; a plan under either theorem on which the oracle fails would
   contradict the theorem (given K-sql agreement): it must not exist *)
Definition oracle_ok (k : pg_case) : bool := match oracle k with OOk => true | _ => false end.
Fixpoint count_sim2 (s d : schema) (acts : list action) : nat :=
  match acts with
  | [] => O
  | a :: r => (if sim_hyp2 s d a then 1 else 0) + count_sim2 (step_schema s a) (db_step d a) r
  end.
Definition plan_stats (cs : list pg_case) : list (string * nat) :=
  let count (p : pg_case -> bool) := List.length (filter p cs) in
  [("plans", List.length cs);
   ("plans_under_Sim_plan", count (fun k => plan_hyp (g_baseline k) (g_actions k)));
   ("plans_under_Sim_plan_pending", count (fun k => plan_hyp_pending (g_baseline k) (g_actions k)));
   ("plans_under_either", count (fun k => plan_ok (g_baseline k) (g_actions k)));
   ("plans_under_either_with_oracle_failure",
    count (fun k => (plan_ok (g_baseline k) (g_actions k) && negb (oracle_ok k))%bool));
   ("plans_with_oracle_ok", count oracle_ok);
   ("steps_under_a_proved_sim_lemma_on_the_database_schema",
    fold_left (fun n k => n + count_sim2 (g_baseline k) (g_baseline k) (g_actions k)) cs O)].
