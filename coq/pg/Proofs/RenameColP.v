(* PG layer: simulation lemma for RenameColumn (outside the derived-name and left-behind-reference classes). *)
From VV.M1 Require Import BtP PrefixStrP.
From VV.PG Require Export EnumP.

Notation rcc := rename_column_in_constraint.

(* ---------- column lists ---------- *)
Lemma rename_in_id a b l : mem_str a l = false -> rename_in a b l = l.
Proof.
  unfold rename_in, mem_str. induction l as [|x r IH]; intro H; [reflexivity|].
  cbn [existsb map] in *. apply orb_false_iff in H. destruct H as [H1 H2].
  rewrite BtP.str_eqb_sym, H1. f_equal. now apply IH.
Qed.
Lemma mem_rename_new a b l : mem_str b l = false -> mem_str b (rename_in a b l) = mem_str a l.
Proof.
  unfold rename_in, mem_str. induction l as [|x r IH]; intro H; [reflexivity|].
  cbn [existsb map] in *. apply orb_false_iff in H. destruct H as [H1 H2]. rewrite (IH H2).
  destruct (String.eqb x a) eqn:E.
  - rewrite String.eqb_refl. now rewrite BtP.str_eqb_sym, E.
  - rewrite H1. now rewrite BtP.str_eqb_sym, E.
Qed.
Lemma mem_rename_other a b n l : String.eqb n a = false -> String.eqb n b = false ->
  mem_str n (rename_in a b l) = mem_str n l.
Proof.
  intros Ha Hb. unfold rename_in, mem_str. induction l as [|x r IH]; [reflexivity|].
  cbn [existsb map]. rewrite IH. destruct (String.eqb x a) eqn:E; [|reflexivity].
  apply String.eqb_eq in E. subst x. now rewrite Ha, Hb.
Qed.

Lemma update_first_col_as_map a f : forall cols cols', nodup_str (map c_name cols) = true ->
  update_first_col a f cols = Some cols' ->
  cols' = map (fun x => if String.eqb (c_name x) a then f x else x) cols.
Proof.
  induction cols as [|c r IH]; intros cols' Hnd Hu; [discriminate|].
  cbn [map] in Hnd. apply nodup_str_cons in Hnd. destruct Hnd as [Hc Hr].
  cbn [update_first_col] in Hu. cbn [map]. destruct (String.eqb (c_name c) a) eqn:E.
  - injection Hu as <-. f_equal. apply String.eqb_eq in E. subst a. clear -Hc.
    induction r as [|y r IHr]; [reflexivity|]. cbn [map] in *.
    unfold mem_str in Hc. cbn [existsb] in Hc. apply orb_false_iff in Hc. destruct Hc as [H1 H2].
    rewrite BtP.str_eqb_sym, H1. f_equal. now apply IHr.
  - destruct (update_first_col a f r) as [r'|]; [|discriminate]. injection Hu as <-. f_equal. now apply IH.
Qed.

(* ---------- constraints ---------- *)
Lemma find_pk_rename a b : forall cs, find is_pk (map (rcc a b) cs) = option_map (rcc a b) (find is_pk cs).
Proof. induction cs as [|k r IH]; [reflexivity|]. cbn [map find]. destruct k; cbn [rcc is_pk option_map]; try exact IH; reflexivity. Qed.

Lemma first_pk_only_rename a b : forall cs seen,
  first_pk_only seen (map (rcc a b) cs) = map (rcc a b) (first_pk_only seen cs).
Proof.
  induction cs as [|k r IH]; intro seen; [reflexivity|]. cbn [map]. destruct k; cbn [rcc first_pk_only map];
    try (now rewrite IH). destruct seen; cbn [map]; now rewrite IH.
Qed.
Lemma first_pk_only_in k : forall cs seen, In k (first_pk_only seen cs) -> In k cs.
Proof.
  induction cs as [|x r IH]; intros seen H; [destruct H|]. destruct x; cbn [first_pk_only] in H;
    try (destruct H as [<-|H]; [now left|right; eapply IH; eauto]).
  destruct seen; [right; eapply IH; eauto|]. destruct H as [<-|H]; [now left|right; eapply IH; eauto].
Qed.

Definition ren_idx (a b : string) (i : pg_index) : pg_index := mkPi (rename_in a b (pi_cols i)) (pi_unique i) (pi_con i).

Lemma con_cat_rename tn a b k : rename_ok tn a b k = true ->
  con_cat tn (rcc a b k) = vmap (rename_con_cols a b tn) (con_cat tn k).
Proof.
  destruct k as [au cols|n cols|n cols rt rcols od ou|n e|n cols]; cbn [rename_ok rcc con_cat vmap map fst snd rename_con_cols];
    intro H; try reflexivity.
  apply andb_prop in H. destruct H as [H1 H2].
  assert (Hn : build_foreign_key_name tn (rename_in a b cols) n = build_foreign_key_name tn cols n).
  { destruct n as [n|]; [reflexivity|]. cbn [opt_is_none negb orb] in H1. apply negb_true_iff in H1.
    now rewrite (rename_in_id a b cols H1). }
  rewrite Hn. destruct (String.eqb rt tn); [reflexivity|]. cbn [orb] in H2. apply negb_true_iff in H2.
  now rewrite (rename_in_id a b rcols H2).
Qed.
Lemma idx_cat_rename tn a b k : rename_ok tn a b k = true ->
  idx_cat tn (rcc a b k) = vmap (ren_idx a b) (idx_cat tn k).
Proof.
  destruct k as [au cols|n cols|n cols rt rcols od ou|n e|n cols];
    cbn [rename_ok rcc idx_cat]; unfold vmap, ren_idx; cbn [map fst snd pi_cols pi_unique pi_con]; intro H; try reflexivity.
  - destruct n as [n|]; [reflexivity|]. cbn [opt_is_none negb orb] in H. apply negb_true_iff in H.
    now rewrite (rename_in_id a b cols H).
  - destruct n as [n|]; [reflexivity|]. cbn [opt_is_none negb orb] in H. apply negb_true_iff in H.
    now rewrite (rename_in_id a b cols H).
Qed.
Lemma flat_map_rename {V} (F : table_constraint -> list (string * V)) (g : V -> V) (ok : table_constraint -> bool) a b :
  (forall k, ok k = true -> F (rcc a b k) = vmap g (F k)) ->
  forall cs, (forall k, In k cs -> ok k = true) -> flat_map F (map (rcc a b) cs) = vmap g (flat_map F cs).
Proof.
  intros HF. induction cs as [|k r IH]; intro H; [reflexivity|]. cbn [map flat_map].
  rewrite (HF k (H k (or_introl eq_refl))), IH by (intros; apply H; now right).
  unfold vmap. now rewrite map_app.
Qed.

(* ---------- columns ---------- *)
Lemma pk_of_rename t t' a b : t_constraints t' = map (rcc a b) (t_constraints t) ->
  pk_of t' = option_map (fun p => (fst p, rename_in a b (snd p))) (pk_of t).
Proof.
  intro H. unfold pk_of. rewrite H, find_pk_rename.
  destruct (find is_pk (t_constraints t)) as [k|]; [destruct k|]; reflexivity.
Qed.

Lemma col_cat_rename t t' a b y : t_name t' = t_name t -> t_constraints t' = map (rcc a b) (t_constraints t) ->
  (forall au cols, pk_of t = Some (au, cols) -> mem_str b cols = false) -> String.eqb (c_name y) b = false ->
  col_cat t' (if String.eqb (c_name y) a then set_name b y else y)
  = (if String.eqb (c_name y) a
     then mkPc b (pc_type (col_cat t y)) (pc_notnull (col_cat t y)) (pc_default (col_cat t y)) (pc_autoinc (col_cat t y))
     else col_cat t y).
Proof.
  intros Hn Hc Hpk Hb. unfold col_cat. rewrite (pk_of_rename t t' a b Hc), Hn.
  destruct (pk_of t) as [[au cols]|]; cbn [option_map fst snd].
  - specialize (Hpk au cols eq_refl). destruct (String.eqb (c_name y) a) eqn:E.
    + apply String.eqb_eq in E. cbn [set_name c_name c_type c_nullable pc_type pc_notnull pc_default pc_autoinc].
      rewrite (mem_rename_new a b cols Hpk), E. reflexivity.
    + rewrite (mem_rename_other a b (c_name y) cols E Hb). reflexivity.
  - destruct (String.eqb (c_name y) a); reflexivity.
Qed.

Lemma enums_by_types tn : forall cols1 cols2 seen, map c_type cols1 = map c_type cols2 ->
  enums_of_cols tn cols1 seen = enums_of_cols tn cols2 seen.
Proof.
  induction cols1 as [|x r IH]; intros [|y r2] seen H; try discriminate; [reflexivity|].
  cbn [map] in H. injection H as H1 H2. cbn [enums_of_cols]. rewrite H1.
  destruct (c_type y); try (now apply IH).
  destruct (ev_is_integer values || mem_str name seen)%bool; [now apply IH|]. f_equal. now apply IH.
Qed.

(* ---------- tables that do not reference the column ---------- *)
Lemma bt_map_fixed {V} (h : V -> V) (m : list (string * V)) : (forall kv, In kv m -> h (snd kv) = snd kv) -> bt_map h m = m.
Proof.
  intro H. unfold bt_map. rewrite <- (map_id m) at 2. apply map_ext_in. intros [k v] Hin.
  cbn [fst snd]. f_equal. apply (H _ Hin).
Qed.

Lemma other_table_cons tn a b y :
  existsb (fk_to tn (mem_str a)) (t_constraints y) = false ->
  bt_map (fun k => match k with
                   | KFk cols rt rcols od ou => if String.eqb rt tn then KFk cols rt (rename_in a b rcols) od ou else k
                   | _ => k
                   end) (pt_cons (table_cat y)) = pt_cons (table_cat y).
Proof.
  intro H. apply bt_map_fixed. intros [n v] Hin. cbn [snd].
  unfold table_cat in Hin. cbn [pt_cons] in Hin. apply bt_of_list_in in Hin. apply in_flat_map in Hin.
  destruct Hin as (k & Hk & Hkv). apply first_pk_only_in in Hk.
  destruct k as [au cols|n0 cols|n0 cols rt rcols od ou|n0 e|n0 cols]; cbn [con_cat] in Hkv.
  1: (destruct Hkv as [Hkv|[]]; injection Hkv as _ <-; reflexivity).
  1: destruct Hkv.
  2: (destruct Hkv as [Hkv|[]]; injection Hkv as _ <-; reflexivity).
  2: destruct Hkv.
  destruct Hkv as [Hkv|[]]. injection Hkv as _ <-.
  destruct (String.eqb rt tn) eqn:E; [|reflexivity].
  assert (Hm : mem_str a rcols = false).
  { destruct (mem_str a rcols) eqn:Em; [|reflexivity]. exfalso.
    assert (existsb (fk_to tn (mem_str a)) (t_constraints y) = true); [|congruence].
    apply existsb_exists. eexists. split; [exact Hk|]. cbn [fk_to]. now rewrite E, Em. }
  now rewrite (rename_in_id a b rcols Hm).
Qed.

Theorem sim_pg_rename_column s tn a b : hyp_rename_column s tn a b = true -> step_sim s (RenameColumn tn a b).
Proof.
  unfold hyp_rename_column. intro H. apply andb_prop in H. destruct H as [H Ht].
  apply andb_prop in H. destruct H as [Hnd Hfk].
  destruct (find (fun x => String.eqb (t_name x) tn) s) as [t|] eqn:Hf; [|discriminate].
  repeat (apply andb_prop in Ht; destruct Ht as [Ht ?]).
  rename Ht into Hhas, H into Hok, H0 into Hcnd, H1 into Hnew. apply negb_true_iff in Hnew.
  pose proof (find_name _ _ _ Hf) as Hname.
  destruct (update_first_col_some a (set_name b) (t_columns t) Hhas) as [cols' Hu].
  set (t' := mkTable (t_name t) (t_description t) cols' (map (rcc a b) (t_constraints t))).
  assert (Hft : (fun t0 : table_def =>
                   match update_first_col a (set_name b) (t_columns t0) with
                   | None => Err (ColumnNotFound tn a)
                   | Some cols => Ok (mkTable (t_name t0) (t_description t0) cols (map (rcc a b) (t_constraints t0)))
                   end) t = @Ok table_def planner_error t') by (cbv beta; now rewrite Hu).
  assert (Hen : table_enums t' = table_enums t).
  { unfold table_enums, t'. cbn [t_name t_columns]. apply enums_by_types.
    apply (update_first_col_map c_type a (set_name b)); [reflexivity|exact Hu]. }
  destruct (update_table_spec tn _ s t t' Hnd Hf Hft eq_refl Hen) as (s' & Hup & Hcat & _).
  unfold step_sim. rewrite (step_schema_ok s _ s') by exact Hup.
  eexists. split; [reflexivity|]. eapply exec_all_cons_ok; [|reflexivity].
  cbn [exec]. rewrite find_table_catalog_of, Hf. cbn [option_map exec_alter_ops].
  unfold exec_alter_op. rewrite find_table_catalog_of, Hf. cbn [option_map].
  rewrite !has_col_table_cat, Hhas, Hnew. cbn [negb]. rewrite Hcat.
  unfold replace_table, map_table. f_equal. f_equal. apply map_ext_in. intros x Hx.
  destruct (String.eqb (pt_name x) tn) eqn:E0.
  - (* the table itself *)
    assert (Hpkb : forall au cols, pk_of t = Some (au, cols) -> mem_str b cols = false).
    { intros au cols Hpk. unfold pk_of in Hpk. destruct (find is_pk (t_constraints t)) as [k|] eqn:Ek; [|discriminate].
      destruct k; try discriminate. injection Hpk as <- <-. apply find_some in Ek. destruct Ek as [Hin _].
      rewrite forallb_forall in Hok. pose proof (Hok _ Hin) as Hr. cbn [rename_ok] in Hr. now apply negb_true_iff. }
    unfold table_cat. cbn [pt_name pt_cols pt_cons pt_idx].
    change (t_name t') with (t_name t). change (t_columns t') with cols'.
    change (t_constraints t') with (map (rcc a b) (t_constraints t)). f_equal.
    + rewrite (update_first_col_as_map a (set_name b) _ cols' Hcnd Hu). rewrite !map_map. apply map_ext_in. intros y Hy.
      cbn [col_cat pc_name].
      assert (Hyb : String.eqb (c_name y) b = false).
      { destruct (String.eqb (c_name y) b) eqn:Eb; [|reflexivity]. exfalso. unfold has_column in Hnew.
        assert (existsb (fun c => String.eqb (c_name c) b) (t_columns t) = true); [|congruence].
        apply existsb_exists. eauto. }
      symmetry. apply (col_cat_rename t t' a b y eq_refl eq_refl Hpkb Hyb).
    + rewrite Hname, first_pk_only_rename.
      rewrite (flat_map_rename (con_cat tn) (rename_con_cols a b tn) (rename_ok tn a b) a b (con_cat_rename tn a b)).
      * now rewrite bt_of_list_vmap.
      * intros k Hk. apply first_pk_only_in in Hk. rewrite forallb_forall in Hok. now apply Hok.
    + rewrite Hname, first_pk_only_rename.
      rewrite (flat_map_rename (idx_cat tn) (ren_idx a b) (rename_ok tn a b) a b (idx_cat_rename tn a b)).
      * now rewrite bt_of_list_vmap.
      * intros k Hk. apply first_pk_only_in in Hk. rewrite forallb_forall in Hok. now apply Hok.
  - (* the others *)
    cbn [catalog_of c_tables] in Hx. apply in_map_iff in Hx. destruct Hx as (y & <- & Hy).
    rewrite pt_name_table_cat in E0. rewrite forallb_forall in Hfk. pose proof (Hfk y Hy) as Hr. rewrite E0 in Hr.
    cbn [orb] in Hr. apply negb_true_iff in Hr. rewrite (other_table_cons tn a b y Hr).
    now destruct (table_cat y).
Qed.
