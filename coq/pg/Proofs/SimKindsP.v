(* PG layer: one simulation lemma per action kind:  decidable hypotheses  ->  step_sim s a. *)
From VV.M1 Require Import BtP.
From VV.PG Require Export SimP.
From Coq Require Import Lia.

(* ---------- small facts ---------- *)
Lemma find_app_notpk (ks : list table_constraint) k :
  is_pk k = false -> find is_pk (ks ++ [k]) = find is_pk ks.
Proof.
  intro Hk. induction ks as [|x r IH]; cbn [app find].
  - now rewrite Hk.
  - destruct (is_pk x); [reflexivity|exact IH].
Qed.

Lemma first_pk_only_app_notpk k : is_pk k = false -> forall ks b,
  first_pk_only b (ks ++ [k]) = first_pk_only b ks ++ [k].
Proof.
  intros Hk ks. induction ks as [|x r IH]; intro b; cbn [app first_pk_only].
  - destruct k; try reflexivity. discriminate.
  - destruct x; cbn [app]; try (now rewrite IH).
    destruct b; [apply IH|cbn [app]; now rewrite IH].
Qed.

Lemma bt_of_list_snoc {V} (l : list (string * V)) k v :
  bt_of_list (l ++ [(k, v)]) = bt_insert k v (bt_of_list l).
Proof. unfold bt_of_list. now rewrite fold_left_app. Qed.

Lemma col_cat_ext t t' : t_name t' = t_name t -> pk_of t' = pk_of t -> forall c, col_cat t' c = col_cat t c.
Proof. intros Hn Hp c. unfold col_cat. now rewrite Hn, Hp. Qed.

Lemma first_missing_none cols t :
  forallb (fun c => has_column c t) cols = true -> first_missing cols (table_cat t) = None.
Proof.
  unfold first_missing. induction cols as [|c r IH]; intro H; [reflexivity|].
  cbn [forallb] in H. apply andb_prop in H. destruct H as [H1 H2].
  cbn [find]. rewrite has_col_table_cat, H1. cbn [negb]. now apply IH.
Qed.

(* a table of catalog_of is replaced by itself *)
Lemma replace_same tn : forall s t,
  nodup_str (map t_name s) = true ->
  find (fun x => String.eqb (t_name x) tn) s = Some t ->
  map (fun y => if String.eqb (pt_name y) tn then table_cat t else y) (map table_cat s) = map table_cat s.
Proof.
  induction s as [|x r IH]; intros t Hnd Hf; [reflexivity|].
  cbn [map] in Hnd. apply nodup_str_cons in Hnd. destruct Hnd as [Hx Hr].
  cbn [find] in Hf. cbn [map]. rewrite pt_name_table_cat.
  destruct (String.eqb (t_name x) tn) eqn:E.
  - injection Hf as ->. f_equal. apply String.eqb_eq in E. subst tn.
    apply replace_others. now apply mem_str_map_name.
  - f_equal. now apply IH.
Qed.

Lemma step_schema_ok s a s' : apply_action s a = Ok s' -> step_schema s a = s'.
Proof. unfold step_schema. now intros ->. Qed.

(* ---------- RawSql ---------- *)
Lemma sim_pg_raw_sql s sql : step_sim s (RawSql sql).
Proof.
  unfold step_sim, step_schema. cbn [gen apply_action].
  destruct (String.eqb (trim sql) ""); eexists; split; reflexivity.
Qed.

(* ---------- ModifyColumnComment: COMMENT ON needs the column; the catalog does not change ---------- *)
Definition hyp_modify_comment (s : schema) (tn cn : string) : bool :=
  (nodup_str (map t_name s)
   && match find (fun x => String.eqb (t_name x) tn) s with
      | Some t => has_column cn t
      | None => false
      end)%bool.

Lemma update_first_col_some cn f : forall cols,
  existsb (fun c => String.eqb (c_name c) cn) cols = true -> exists cols', update_first_col cn f cols = Some cols'.
Proof.
  induction cols as [|c r IH]; intro H; [discriminate|].
  cbn [existsb] in H. cbn [update_first_col].
  destruct (String.eqb (c_name c) cn); [eauto|].
  destruct (IH H) as [cols' ->]. cbn [option_map]. eauto.
Qed.

Lemma update_first_col_map {B} (g : column_def -> B) cn f :
  (forall c, g (f c) = g c) -> forall cols cols',
  update_first_col cn f cols = Some cols' -> map g cols' = map g cols.
Proof.
  intros Hg. induction cols as [|c r IH]; intros cols' H; [discriminate|].
  cbn [update_first_col] in H. destruct (String.eqb (c_name c) cn).
  - injection H as <-. cbn [map]. now rewrite Hg.
  - destruct (update_first_col cn f r) as [r'|]; [|discriminate].
    injection H as <-. cbn [map]. f_equal. now apply IH.
Qed.

Lemma enums_of_cols_ext tn : forall cols cols' seen,
  map c_type cols' = map c_type cols -> enums_of_cols tn cols' seen = enums_of_cols tn cols seen.
Proof.
  induction cols as [|c r IH]; intros [|c' r'] seen H; try discriminate; [reflexivity|].
  cbn [map] in H. injection H as Hc Hr. cbn [enums_of_cols]. rewrite Hc.
  destruct (c_type c); try (now apply IH).
  destruct (ev_is_integer values || mem_str name seen)%bool; [now apply IH|]. f_equal. now apply IH.
Qed.

Lemma sim_pg_modify_column_comment s tn cn d :
  hyp_modify_comment s tn cn = true -> step_sim s (ModifyColumnComment tn cn d).
Proof.
  unfold hyp_modify_comment. intro H. apply andb_prop in H. destruct H as [Hnd H].
  destruct (find (fun x => String.eqb (t_name x) tn) s) as [t|] eqn:Hf; [|discriminate].
  destruct (update_first_col_some cn (set_comment d) (t_columns t) H) as [cols' Hu].
  set (t' := mkTable (t_name t) (t_description t) cols' (t_constraints t)).
  assert (Hft : update_column tn cn (set_comment d) t = Ok t').
  { unfold update_column. now rewrite Hu. }
  assert (Hcat : table_cat t' = table_cat t).
  { unfold table_cat, t'. cbn [t_name t_columns t_constraints]. f_equal.
    rewrite (map_ext _ (col_cat t)) by (apply col_cat_ext; reflexivity).
    eapply update_first_col_map; [|exact Hu]. intros c. reflexivity. }
  assert (Hen : table_enums t' = table_enums t).
  { unfold table_enums, t'. cbn [t_name t_columns]. apply enums_of_cols_ext.
    eapply update_first_col_map; [|exact Hu]. reflexivity. }
  destruct (update_table_lists tn _ s t t' Hnd Hf Hft eq_refl Hen) as (s' & Hup & Hc & He & _).
  exists [SCommentOnColumn tn cn (option_map (fun x => quote_lit (escape_sq x)) d)]. split; [reflexivity|].
  rewrite (step_schema_ok s _ s') by exact Hup.
  cbn [exec_all exec]. rewrite find_table_catalog_of, Hf. cbn [option_map].
  rewrite has_col_table_cat, H.
  f_equal. unfold catalog_of. rewrite Hc, He, Hcat. f_equal. now apply replace_same.
Qed.
