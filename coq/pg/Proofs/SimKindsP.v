(* PG layer: one simulation lemma per action kind:  decidable hypotheses  ->  step_sim s a. *)
From VV.M1 Require Import BtP.
From VV.PG Require Export SimP Hyp.
From Coq Require Import Lia.

(* ---------- small facts ---------- *)
Lemma find_app_notpk (ks : list table_constraint) k :
  is_pk k = false -> find is_pk (ks ++ [k]) = find is_pk ks.
Proof.
  intro Hk. induction ks as [|x r IH]; cbn [app find].
  - now rewrite Hk.
  - destruct (is_pk x); [reflexivity|exact IH].
Qed.

Lemma first_pk_only_app_notpk k : is_pk k = false -> forall ks b,
  first_pk_only b (ks ++ [k]) = first_pk_only b ks ++ [k].
Proof.
  intros Hk ks. induction ks as [|x r IH]; intro b; cbn [app first_pk_only].
  - destruct k; try reflexivity. discriminate.
  - destruct x; cbn [app]; try (now rewrite IH).
    destruct b; [apply IH|cbn [app]; now rewrite IH].
Qed.

Lemma bt_of_list_snoc {V} (l : list (string * V)) k v :
  bt_of_list (l ++ [(k, v)]) = bt_insert k v (bt_of_list l).
Proof. unfold bt_of_list. now rewrite fold_left_app. Qed.

Lemma col_cat_ext t t' : t_name t' = t_name t -> pk_of t' = pk_of t -> forall c, col_cat t' c = col_cat t c.
Proof. intros Hn Hp c. unfold col_cat. now rewrite Hn, Hp. Qed.

Lemma first_missing_none cols t :
  forallb (fun c => has_column c t) cols = true -> first_missing cols (table_cat t) = None.
Proof.
  unfold first_missing. induction cols as [|c r IH]; intro H; [reflexivity|].
  cbn [forallb] in H. apply andb_prop in H. destruct H as [H1 H2].
  cbn [find]. rewrite has_col_table_cat, H1. cbn [negb]. now apply IH.
Qed.

(* a table of catalog_of is replaced by itself *)
Lemma replace_same tn : forall s t,
  nodup_str (map t_name s) = true ->
  find (fun x => String.eqb (t_name x) tn) s = Some t ->
  map (fun y => if String.eqb (pt_name y) tn then table_cat t else y) (map table_cat s) = map table_cat s.
Proof.
  induction s as [|x r IH]; intros t Hnd Hf; [reflexivity|].
  cbn [map] in Hnd. apply nodup_str_cons in Hnd. destruct Hnd as [Hx Hr].
  cbn [find] in Hf. cbn [map]. rewrite pt_name_table_cat.
  destruct (String.eqb (t_name x) tn) eqn:E.
  - injection Hf as ->. f_equal. apply String.eqb_eq in E. subst tn.
    apply replace_others. now apply mem_str_map_name.
  - f_equal. now apply IH.
Qed.

Lemma step_schema_ok s a s' : apply_action s a = Ok s' -> step_schema s a = s'.
Proof. unfold step_schema. now intros ->. Qed.

(* ---------- RawSql ---------- *)
Lemma sim_pg_raw_sql s sql : step_sim s (RawSql sql).
Proof.
  unfold step_sim, step_schema. cbn [gen apply_action].
  destruct (String.eqb (trim sql) ""); eexists; split; reflexivity.
Qed.

(* ---------- ModifyColumnComment: COMMENT ON needs the column; the catalog does not change ---------- *)

Lemma update_first_col_some cn f : forall cols,
  existsb (fun c => String.eqb (c_name c) cn) cols = true -> exists cols', update_first_col cn f cols = Some cols'.
Proof.
  induction cols as [|c r IH]; intro H; [discriminate|].
  cbn [existsb] in H. cbn [update_first_col].
  destruct (String.eqb (c_name c) cn); [eauto|].
  destruct (IH H) as [cols' ->]. cbn [option_map]. eauto.
Qed.

Lemma update_first_col_map {B} (g : column_def -> B) cn f :
  (forall c, g (f c) = g c) -> forall cols cols',
  update_first_col cn f cols = Some cols' -> map g cols' = map g cols.
Proof.
  intros Hg. induction cols as [|c r IH]; intros cols' H; [discriminate|].
  cbn [update_first_col] in H. destruct (String.eqb (c_name c) cn).
  - injection H as <-. cbn [map]. now rewrite Hg.
  - destruct (update_first_col cn f r) as [r'|]; [|discriminate].
    injection H as <-. cbn [map]. f_equal. now apply IH.
Qed.

Lemma enums_of_cols_ext tn : forall cols cols' seen,
  map c_type cols' = map c_type cols -> enums_of_cols tn cols' seen = enums_of_cols tn cols seen.
Proof.
  induction cols as [|c r IH]; intros [|c' r'] seen H; try discriminate; [reflexivity|].
  cbn [map] in H. injection H as Hc Hr. cbn [enums_of_cols]. rewrite Hc.
  destruct (c_type c); try (now apply IH).
  destruct (ev_is_integer values || mem_str name seen)%bool; [now apply IH|]. f_equal. now apply IH.
Qed.

Lemma sim_pg_modify_column_comment s tn cn d :
  hyp_modify_comment s tn cn = true -> step_sim s (ModifyColumnComment tn cn d).
Proof.
  unfold hyp_modify_comment. intro H. apply andb_prop in H. destruct H as [Hnd H].
  destruct (find (fun x => String.eqb (t_name x) tn) s) as [t|] eqn:Hf; [|discriminate].
  destruct (update_first_col_some cn (set_comment d) (t_columns t) H) as [cols' Hu].
  set (t' := mkTable (t_name t) (t_description t) cols' (t_constraints t)).
  assert (Hft : update_column tn cn (set_comment d) t = Ok t').
  { unfold update_column. now rewrite Hu. }
  assert (Hcat : table_cat t' = table_cat t).
  { unfold table_cat, t'. cbn [t_name t_columns t_constraints]. f_equal.
    rewrite (map_ext _ (col_cat t)) by (apply col_cat_ext; reflexivity).
    eapply update_first_col_map; [|exact Hu]. intros c. reflexivity. }
  assert (Hen : table_enums t' = table_enums t).
  { unfold table_enums, t'. cbn [t_name t_columns]. apply enums_of_cols_ext.
    eapply update_first_col_map; [|exact Hu]. reflexivity. }
  destruct (update_table_lists tn _ s t t' Hnd Hf Hft eq_refl Hen) as (s' & Hup & Hc & He & _).
  exists [SCommentOnColumn tn cn (option_map (fun x => quote_lit (escape_sq x)) d)]. split; [reflexivity|].
  rewrite (step_schema_ok s _ s') by exact Hup.
  cbn [exec_all exec]. rewrite find_table_catalog_of, Hf. cbn [option_map].
  rewrite has_col_table_cat, H.
  f_equal. unfold catalog_of. rewrite Hc, He, Hcat. f_equal. symmetry. now apply replace_same.
Qed.

(* ---------- AddConstraint: Index / Unique (CREATE [UNIQUE] INDEX) and Check (ADD CONSTRAINT ... CHECK) ---------- *)


Lemma table_cat_add_index t k n i :
  is_pk k = false -> con_cat (t_name t) k = [] -> idx_cat (t_name t) k = [(n, i)] ->
  table_cat (mkTable (t_name t) (t_description t) (t_columns t) (t_constraints t ++ [k]))
  = with_idx (table_cat t) n i.
Proof.
  intros Hpk Hc Hi. unfold table_cat, with_idx. cbn [t_name t_columns t_constraints pt_name pt_cols pt_cons pt_idx].
  rewrite (first_pk_only_app_notpk k Hpk), !flat_map_app. cbn [flat_map].
  rewrite Hc, Hi, !app_nil_r, bt_of_list_snoc. f_equal.
  apply map_ext. apply col_cat_ext; [reflexivity|].
  unfold pk_of. cbn [t_constraints]. now rewrite (find_app_notpk _ k Hpk).
Qed.

Lemma table_cat_add_con t k n c :
  is_pk k = false -> con_cat (t_name t) k = [(n, c)] -> idx_cat (t_name t) k = [] ->
  table_cat (mkTable (t_name t) (t_description t) (t_columns t) (t_constraints t ++ [k]))
  = with_con (table_cat t) n c.
Proof.
  intros Hpk Hc Hi. unfold table_cat, with_con. cbn [t_name t_columns t_constraints pt_name pt_cols pt_cons pt_idx].
  rewrite (first_pk_only_app_notpk k Hpk), !flat_map_app. cbn [flat_map].
  rewrite Hc, Hi, !app_nil_r, bt_of_list_snoc. f_equal.
  apply map_ext. apply col_cat_ext; [reflexivity|].
  unfold pk_of. cbn [t_constraints]. now rewrite (find_app_notpk _ k Hpk).
Qed.

Lemma first_missing_has_col' T l : forallb (fun x => has_col x T) l = true -> first_missing l T = None.
Proof.
  unfold first_missing. induction l as [|x r IH]; intro H; [reflexivity|].
  cbn [forallb] in H. apply andb_prop in H. destruct H as [Hx Hr]. cbn [find]. rewrite Hx. cbn [negb]. now apply IH.
Qed.

Lemma first_pk_only_nopk : forall ks b, filter is_pk ks = [] -> first_pk_only b ks = ks.
Proof.
  induction ks as [|k r IH]; intros b H; [reflexivity|]. cbn [filter] in H.
  destruct k; cbn [is_pk] in H; try discriminate; cbn [first_pk_only]; now rewrite IH.
Qed.
Lemma filter_pk_app ks k : filter is_pk ks = [] -> is_pk k = false -> filter is_pk (ks ++ [k]) = [].
Proof. intros H Hk. rewrite filter_app, H. cbn [filter app]. now rewrite Hk. Qed.
Lemma find_pk_last ks a cols : filter is_pk ks = [] -> find is_pk (ks ++ [CPrimaryKey a cols]) = Some (CPrimaryKey a cols).
Proof.
  induction ks as [|k r IH]; intro H; [reflexivity|]. cbn [filter] in H. cbn [app find].
  destruct (is_pk k); [discriminate|now apply IH].
Qed.
Lemma find_pk_nil ks : filter is_pk ks = [] -> find is_pk ks = None.
Proof.
  induction ks as [|k r IH]; intro H; [reflexivity|]. cbn [filter find] in *.
  destruct (is_pk k); [discriminate|now apply IH].
Qed.

Lemma has_pk_table_cat t : filter is_pk (t_constraints t) = [] -> has_pk (table_cat t) = false.
Proof.
  intro H. unfold has_pk, table_cat. cbn [pt_cons].
  destruct (existsb _ _) eqn:E; [|reflexivity]. exfalso.
  apply existsb_exists in E. destruct E as ([n k] & Hin & Hk). cbn [snd] in Hk.
  apply bt_of_list_in in Hin. rewrite (first_pk_only_nopk _ false H) in Hin.
  apply in_flat_map in Hin. destruct Hin as (x & Hx & Hc).
  destruct x as [a pc|un uc|fn fc rt rc od ou|cn ce|inn ic]; cbn [con_cat] in Hc;
    try (destruct Hc; fail);
    try (destruct Hc as [Hc|[]]; injection Hc as _ <-; discriminate Hk).
  assert (Hpkin : In (CPrimaryKey a pc) (filter is_pk (t_constraints t))) by (apply filter_In; split; [exact Hx|reflexivity]).
  rewrite H in Hpkin. destruct Hpkin.
Qed.

Lemma sim_pg_add_constraint s tn k :
  hyp_add_constraint s tn k = true -> step_sim s (AddConstraint tn k).
Proof.
  unfold hyp_add_constraint. intro H. apply andb_prop in H. destruct H as [Hnd H].
  destruct (find (fun x => String.eqb (t_name x) tn) s) as [t|] eqn:Hf; [|discriminate].
  apply andb_prop in H. destruct H as [Hnc H]. apply negb_true_iff in Hnc.
  pose proof (find_name _ _ _ Hf) as Hname.
  set (t' := mkTable (t_name t) (t_description t) (t_columns t) (t_constraints t ++ [k])).
  assert (Hft : (fun t0 : table_def =>
                   if contains_constraint k (t_constraints t0) then Ok t0
                   else Ok (mkTable (t_name t0) (t_description t0) (t_columns t0) (t_constraints t0 ++ [k]))) t
                = @Ok table_def planner_error t').
  { cbv beta. now rewrite Hnc. }
  destruct (update_table_spec tn _ s t t' Hnd Hf Hft eq_refl eq_refl) as (s' & Hup & Hc & _).
  destruct k as [auto cols|n cols|n cols rt rcols od ou|n e|n cols].
  - (* PrimaryKey: ALTER TABLE .. ADD PRIMARY KEY *)
    repeat (apply andb_prop in H; destruct H as [H ?]).
    rename H into Hauto, H0 into Hfree, H1 into Hcols, H2 into Hnopk.
    apply negb_true_iff in Hauto, Hfree. subst auto.
    destruct (filter is_pk (t_constraints t)) eqn:Efp; [|discriminate]. clear Hnopk.
    eexists. split; [reflexivity|].
    rewrite (step_schema_ok s _ s') by exact Hup.
    cbn [gen_add_constraint exec_all exec]. rewrite find_table_catalog_of, Hf. cbn [option_map exec_alter_ops].
    unfold exec_alter_op. rewrite find_table_catalog_of, Hf. cbn [option_map]. unfold add_pk.
    rewrite find_table_catalog_of, Hf. cbn [option_map].
    rewrite (has_pk_table_cat t Efp), (first_missing_none _ _ Hcols).
    unfold pkey_name. rewrite pt_name_table_cat, Hname. cbn [choose_name]. rewrite Hfree.
    rewrite Hc. f_equal. f_equal. f_equal.
    unfold table_cat, t', with_idx, with_con, set_notnull_cols.
    cbn [t_name t_columns t_constraints pt_name pt_cols pt_cons pt_idx].
    rewrite (first_pk_only_nopk _ false Efp).
    assert (Hfpo : first_pk_only false (t_constraints t ++ [CPrimaryKey false cols]) = t_constraints t ++ [CPrimaryKey false cols]).
    { clear -Efp. induction (t_constraints t) as [|k r IH]; [reflexivity|]. cbn [filter] in Efp.
      destruct k; cbn [is_pk] in Efp; try discriminate; cbn [app first_pk_only]; now rewrite IH. }
    rewrite Hfpo, !flat_map_app. cbn [flat_map con_cat idx_cat app]. rewrite Hname, !bt_of_list_snoc. f_equal.
    rewrite map_map. apply map_ext. intro x. unfold col_cat. cbn [pc_name t_name t_constraints].
    unfold pk_of. cbn [t_constraints]. rewrite (find_pk_last _ false cols Efp), (find_pk_nil _ Efp).
    cbn [pc_type pc_default pc_autoinc pc_notnull].
    rewrite ?Hname. destruct (mem_str (c_name x) cols); [now rewrite orb_true_r|now rewrite !orb_false_r].
  - (* Unique *)
    apply andb_prop in H. destruct H as [Hcols Hfree]. apply negb_true_iff in Hfree.
    eexists. split; [reflexivity|].
    rewrite (step_schema_ok s _ s') by exact Hup.
    cbn [gen_add_constraint exec_all exec]. rewrite find_table_catalog_of, Hf. cbn [option_map].
    rewrite Hfree, (first_missing_none _ _ Hcols). rewrite Hc. unfold t'.
    rewrite (table_cat_add_index t _ (build_unique_constraint_name tn cols n) (mkPi cols true false));
      [reflexivity|reflexivity|reflexivity|cbn [idx_cat]; now rewrite Hname].
  - (* ForeignKey: ALTER TABLE .. ADD CONSTRAINT .. FOREIGN KEY *)
    repeat (apply andb_prop in H; destruct H as [H ?]).
    rename H into Hcols, H0 into Htgt, H1 into Hfree, H2 into Har.
    apply negb_true_iff in Hfree.
    destruct (find_table rt (catalog_of s)) as [RT|] eqn:HRT; [|discriminate].
    apply andb_prop in Htgt. destruct Htgt as [Hrc Hu].
    eexists. split; [reflexivity|].
    rewrite (step_schema_ok s _ s') by exact Hup.
    cbn [gen_add_constraint exec_all exec]. rewrite (find_table_catalog_of tn), Hf. cbn [option_map exec_alter_ops].
    unfold exec_alter_op. rewrite (find_table_catalog_of tn), Hf. cbn [option_map]. unfold add_fk.
    cbn [fk_name fk_cols fk_rtable fk_rcols fk_on_delete fk_on_update].
    rewrite (find_table_catalog_of tn), Hf. cbn [option_map].
    rewrite (first_missing_none _ _ Hcols), HRT, (first_missing_has_col' RT rcols Hrc), Har. cbn [negb].
    destruct (unique_indexes_on RT rcols); [discriminate|]. rewrite Hfree.
    rewrite Hc. unfold t'.
    rewrite (table_cat_add_con t _ (build_foreign_key_name tn cols n) (KFk cols rt rcols (norm_act od) (norm_act ou)));
      [reflexivity|reflexivity|cbn [con_cat]; now rewrite Hname|reflexivity].
  - (* Check *)
    apply negb_true_iff in H.
    eexists. split; [reflexivity|].
    rewrite (step_schema_ok s _ s') by exact Hup.
    cbn [gen_add_constraint exec_all exec]. rewrite find_table_catalog_of, Hf. cbn [option_map exec_alter_ops].
    unfold exec_alter_op. rewrite find_table_catalog_of, Hf. cbn [option_map]. unfold add_check.
    rewrite find_table_catalog_of, Hf. cbn [option_map]. rewrite H. rewrite Hc. unfold t'.
    rewrite (table_cat_add_con t _ n (KCheck e)); reflexivity.
  - (* Index *)
    apply andb_prop in H. destruct H as [Hcols Hfree]. apply negb_true_iff in Hfree.
    eexists. split; [reflexivity|].
    rewrite (step_schema_ok s _ s') by exact Hup.
    cbn [gen_add_constraint exec_all exec]. rewrite find_table_catalog_of, Hf. cbn [option_map].
    rewrite Hfree, (first_missing_none _ _ Hcols). rewrite Hc. unfold t'.
    rewrite (table_cat_add_index t _ (build_index_name tn cols n) (mkPi cols false false));
      [reflexivity|reflexivity|reflexivity|cbn [idx_cat]; now rewrite Hname].
Qed.

(* ---------- DeleteTable: DROP TABLE, outside K4 (inbound foreign key) and K8 (string enum column) ---------- *)

Lemma con_cat_fk_to tn t k n c :
  In (n, c) (con_cat (t_name t) k) ->
  match c with KFk _ rt _ _ _ => String.eqb rt tn = true -> fk_to tn (fun _ => true) k = true | _ => True end.
Proof.
  destruct k; cbn [con_cat]; intro H; try (destruct H as [H|[]]; injection H as <- <-); try exact I;
    try destruct H.
  intro E. cbn [fk_to]. now rewrite E.
Qed.

Lemma In_flat_map_first_pk_only {B} (f : table_constraint -> list B) x : forall ks b,
  In x (flat_map f (first_pk_only b ks)) -> In x (flat_map f ks).
Proof.
  induction ks as [|k r IH]; intros b H; [exact H|].
  cbn [flat_map]. apply in_or_app.
  destruct k; cbn [first_pk_only] in H;
    try (cbn [flat_map] in H; apply in_app_or in H; destruct H as [H|H]; [now left|right; eapply IH; exact H]).
  destruct b.
  - right. eapply IH; exact H.
  - cbn [flat_map] in H. apply in_app_or in H. destruct H as [H|H]; [now left|right; eapply IH; exact H].
Qed.

Lemma inbound_none tn : forall l : list table_def,
  forallb (fun x => (String.eqb (t_name x) tn || no_fk_to tn x)%bool) l = true ->
  flat_map (fun x : pg_table =>
    if (negb false && String.eqb (pt_name x) tn)%bool then []
    else flat_map (fun k => match snd k with
                            | KFk _ rt rcols _ _ => if (String.eqb rt tn && true)%bool then [(pt_name x, fst k)] else []
                            | _ => []
                            end) (pt_cons x)) (map table_cat l) = [].
Proof.
  induction l as [|x r IH]; intro H; [reflexivity|].
  cbn [forallb] in H. apply andb_prop in H. destruct H as [Hx Hr].
  cbn [map flat_map]. rewrite (IH Hr), app_nil_r. rewrite pt_name_table_cat. cbn [negb andb].
  destruct (String.eqb (t_name x) tn) eqn:E; [reflexivity|].
  cbn [orb] in Hx. unfold no_fk_to in Hx. apply negb_true_iff in Hx.
  (* every constraint of table_cat x comes from a constraint of x, none of which is a foreign key to tn *)
  assert (G : forall (m : list (string * con_kind)),
            (forall n c, In (n, c) m -> In (n, c) (flat_map (con_cat (t_name x)) (t_constraints x))) ->
            flat_map (fun k : string * con_kind => match snd k with
                            | KFk _ rt rcols _ _ => if (String.eqb rt tn && true)%bool then [(t_name x, fst k)] else []
                            | _ => []
                            end) m = []).
  { induction m as [|[n c] m IHm]; intro Hin; [reflexivity|].
    cbn [flat_map fst snd]. rewrite IHm by (intros; apply Hin; now right). rewrite app_nil_r.
    destruct c as [| |cols rt rcols od ou|]; try reflexivity.
    destruct (String.eqb rt tn) eqn:Ert; [|reflexivity]. exfalso.
    specialize (Hin n _ (or_introl eq_refl)). apply in_flat_map in Hin. destruct Hin as (k & Hk & Hkc).
    pose proof (con_cat_fk_to tn x k n _ Hkc Ert) as Hfk.
    assert (existsb (fk_to tn (fun _ => true)) (t_constraints x) = true) by (apply existsb_exists; eauto).
    congruence. }
  unfold table_cat at 1. cbn [pt_cons pt_name].
  apply G. intros n c Hin. apply bt_of_list_in in Hin.
  eapply In_flat_map_first_pk_only. exact Hin.
Qed.

Lemma filter_map_table_cat tn : forall l : list table_def,
  filter (fun t => negb (String.eqb (pt_name t) tn)) (map table_cat l)
  = map table_cat (filter (fun t => negb (String.eqb (t_name t) tn)) l).
Proof.
  induction l as [|x r IH]; [reflexivity|]. cbn [map filter]. rewrite pt_name_table_cat.
  destruct (negb (String.eqb (t_name x) tn)); cbn [map]; now rewrite IH.
Qed.

Lemma flat_map_enums_filter tn : forall (l : list table_def) t,
  nodup_str (map t_name l) = true ->
  find (fun x => String.eqb (t_name x) tn) l = Some t -> table_enums t = [] ->
  flat_map table_enums (filter (fun t => negb (String.eqb (t_name t) tn)) l) = flat_map table_enums l.
Proof.
  induction l as [|x r IH]; intros t Hnd Hf He; [reflexivity|].
  cbn [map] in Hnd. apply nodup_str_cons in Hnd. destruct Hnd as [Hx Hr].
  cbn [find] in Hf. cbn [filter flat_map].
  destruct (String.eqb (t_name x) tn) eqn:E; cbn [negb].
  - injection Hf as ->. rewrite He. cbn [app].
    apply String.eqb_eq in E. subst tn.
    assert (G : forall l0, (forall y, In y l0 -> String.eqb (t_name y) (t_name t) = false) ->
              filter (fun t0 => negb (String.eqb (t_name t0) (t_name t))) l0 = l0).
    { induction l0 as [|y l0 IHl]; intro Hall; [reflexivity|]. cbn [filter].
      rewrite (Hall y (or_introl eq_refl)). cbn [negb]. f_equal. apply IHl. intros; apply Hall; now right. }
    rewrite G; [reflexivity|]. now apply mem_str_map_name.
  - cbn [flat_map]. f_equal. eapply IH; eauto.
Qed.

Lemma sim_pg_delete_table s tn : hyp_delete_table s tn = true -> step_sim s (DeleteTable tn).
Proof.
  unfold hyp_delete_table. intro H.
  apply andb_prop in H. destruct H as [H He].
  apply andb_prop in H. destruct H as [H Hfk].
  apply andb_prop in H. destruct H as [Hnd Hhas].
  destruct (find (fun x => String.eqb (t_name x) tn) s) as [t|] eqn:Hf; [|discriminate].
  destruct (table_enums t) eqn:Hen; [|discriminate].
  exists [SDropTable tn]. split; [reflexivity|].
  unfold step_schema. cbn [apply_action]. rewrite Hhas.
  cbn [exec_all exec]. rewrite find_table_catalog_of, Hf. cbn [option_map].
  unfold inbound_fks. unfold catalog_of at 1. cbn [c_tables].
  rewrite (inbound_none tn s Hfk).
  f_equal. unfold set_tables, catalog_of. cbn [c_tables c_enums].
  rewrite filter_map_table_cat. now rewrite (flat_map_enums_filter tn s t Hnd Hf Hen).
Qed.

(* ---------- removal from a name-keyed map ---------- *)
Lemma bt_get_filter_key {V} n k : forall m : list (string * V),
  bt_get k (filter (fun kv => negb (String.eqb (fst kv) n)) m) = if String.eqb k n then None else bt_get k m.
Proof.
  induction m as [|[k' v] r IH]; cbn [filter bt_get fst].
  - now destruct (String.eqb k n).
  - destruct (String.eqb k' n) eqn:E; cbn [negb].
    + rewrite IH. destruct (String.eqb k n) eqn:E2; [reflexivity|].
      destruct (String.eqb k k') eqn:E3; [|reflexivity].
      apply String.eqb_eq in E3. subst k'. congruence.
    + cbn [bt_get]. destruct (String.eqb k k') eqn:E3.
      * apply String.eqb_eq in E3. subst k'. now rewrite E.
      * exact IH.
Qed.

Lemma filter_sorted {V} (p : string * V -> bool) : forall m, bt_sorted m -> bt_sorted (filter p m).
Proof.
  unfold bt_sorted. induction 1 as [|a l Hs IH Hall]; cbn [filter]; [constructor|].
  destruct (p a); [|exact IH]. constructor; [exact IH|].
  clear - Hall. induction l as [|b l IHl]; cbn [filter]; [constructor|].
  inversion Hall; subst. destruct (p b); [constructor; auto|auto].
Qed.

Lemma filter_rev {A} (p : A -> bool) : forall l, filter p (rev l) = rev (filter p l).
Proof.
  induction l as [|x r IH]; [reflexivity|]. cbn [rev filter].
  rewrite filter_app, IH. cbn [filter]. destruct (p x); cbn [rev]; [reflexivity|now rewrite app_nil_r].
Qed.

Lemma bt_remove_of_list {V} n (l : list (string * V)) :
  bt_remove n (bt_of_list l) = bt_of_list (filter (fun kv => negb (String.eqb (fst kv) n)) l).
Proof.
  unfold bt_remove. apply bt_ext.
  - apply filter_sorted, bt_of_list_sorted.
  - apply bt_of_list_sorted.
  - intro k. rewrite bt_get_filter_key, !bt_get_of_list, <- filter_rev, bt_get_filter_key. reflexivity.
Qed.

(* filtering the source list of a flat_map by a predicate that decides the keys produced *)
Lemma flat_map_filter_key {A V} (f : A -> list (string * V)) (p : A -> bool) n : forall l,
  (forall x, In x l -> forall kv, In kv (f x) -> negb (String.eqb (fst kv) n) = p x) ->
  flat_map f (filter p l) = filter (fun kv => negb (String.eqb (fst kv) n)) (flat_map f l).
Proof.
  induction l as [|x r IH]; intro H; [reflexivity|].
  cbn [filter flat_map]. rewrite filter_app, <- IH by (intros; eapply H; [now right|eassumption]).
  assert (Hx : filter (fun kv => negb (String.eqb (fst kv) n)) (f x) = if p x then f x else []).
  { specialize (H x (or_introl eq_refl)). induction (f x) as [|kv m IHm]; [now destruct (p x)|].
    cbn [filter]. rewrite (H kv (or_introl eq_refl)).
    rewrite IHm by (intros; apply H; now right). now destruct (p x). }
  rewrite Hx. destruct (p x); reflexivity.
Qed.

Lemma first_pk_only_filter (p : table_constraint -> bool) :
  (forall k, is_pk k = true -> p k = true) -> forall ks b,
  first_pk_only b (filter p ks) = filter p (first_pk_only b ks).
Proof.
  intros Hp. induction ks as [|k r IH]; intro b; [reflexivity|].
  cbn [filter]. destruct k as [a cols| | | |];
    try (destruct (p _) eqn:E; cbn [first_pk_only filter]; rewrite ?E, IH; reflexivity).
  rewrite (Hp (CPrimaryKey a cols) eq_refl). cbn [first_pk_only].
  destruct b; cbn [filter]; rewrite ?(Hp (CPrimaryKey a cols) eq_refl), IH; reflexivity.
Qed.

(* ---------- RemoveConstraint: Index (DROP INDEX), Check / ForeignKey (DROP CONSTRAINT) ---------- *)
(* the name under which gen drops constraint k of table tn, and whether it is an index *)


(* the part of a column definition the catalog looks at *)
Definition core (c : column_def) := (c_name c, c_type c, c_nullable c, c_default c).
Lemma col_cat_core t c c' : core c' = core c -> col_cat t c' = col_cat t c.
Proof.
  unfold core, col_cat, column_default_text. intro H. injection H as H1 H2 H3 H4. now rewrite H1, H2, H3, H4.
Qed.
Lemma map_core_col_cat t cols cols' : map core cols' = map core cols -> map (col_cat t) cols' = map (col_cat t) cols.
Proof.
  revert cols'. induction cols as [|c r IH]; intros [|c' r'] H; try discriminate; [reflexivity|].
  cbn [map] in *. injection H as H1 H2 H3 H4 Hr.
  assert (Hc : core c' = core c) by (unfold core; congruence).
  rewrite (col_cat_core t c c' Hc). f_equal. now apply IH.
Qed.
Lemma map_core_types cols cols' : map core cols' = map core cols -> map c_type cols' = map c_type cols.
Proof.
  revert cols'. induction cols as [|c r IH]; intros [|c' r'] H; try discriminate; [reflexivity|].
  cbn [map] in *. injection H as _ Ht _ _ Hr. rewrite Ht. f_equal. now apply IH.
Qed.

Lemma modify_first_core p f : (forall c, core (f c) = core c) -> forall cols, map core (modify_first p f cols) = map core cols.
Proof.
  intros Hf. induction cols as [|c r IH]; [reflexivity|]. cbn [modify_first].
  destruct (p c); cbn [map]; [now rewrite Hf|now rewrite IH].
Qed.
Lemma map_core f : (forall c, core (f c) = core c) -> forall cols, map core (map f cols) = map core cols.
Proof. intros Hf cols. rewrite map_map. apply map_ext. exact Hf. Qed.
Lemma fold_modify_core (g : string -> column_def -> bool) f : (forall c, core (f c) = core c) ->
  forall xs cols, map core (fold_left (fun cs x => modify_first (g x) f cs) xs cols) = map core cols.
Proof.
  intros Hf. induction xs as [|x r IH]; intro cols; [reflexivity|]. cbn [fold_left].
  rewrite IH. now apply modify_first_core.
Qed.
Lemma clear_index_auto_core tn name : forall cols, map core (clear_index_auto tn name cols) = map core cols.
Proof.
  induction cols as [|c r IH]; [reflexivity|]. cbn [clear_index_auto].
  destruct (dec_b _ _ _); cbn [map]; [reflexivity|now rewrite IH].
Qed.
Lemma clear_unique_named_core cn c : core (clear_unique_named cn c) = core c.
Proof.
  unfold clear_unique_named. destruct (c_unique c) as [[n|l|b]|]; try reflexivity.
  - now destruct (String.eqb n cn).
  - now destruct (filter _ l).
Qed.
Lemma clear_index_named_core cn c : core (clear_index_named cn c) = core c.
Proof.
  unfold clear_index_named. destruct (c_index c) as [[n|l|b]|]; try reflexivity.
  - now destruct (String.eqb n cn).
  - destruct (filter _ l); [reflexivity|]. now destruct (Nat.ltb _ _).
Qed.

Lemma clear_inline_core tn k cols : map core (clear_inline tn k cols) = map core cols.
Proof.
  destruct k as [a pc|n uc|n fc rt rc od ou|n e|n ic]; cbn [clear_inline].
  - apply (fold_modify_core named). reflexivity.
  - destruct n as [cn|].
    + rewrite map_core by apply clear_unique_named_core. reflexivity.
    + destruct uc as [|x [|y r]]; try reflexivity. apply modify_first_core. reflexivity.
  - apply (fold_modify_core named). reflexivity.
  - reflexivity.
  - destruct n as [cn|].
    + rewrite map_core by apply clear_index_named_core. apply clear_index_auto_core.
    + destruct ic as [|x [|y r]]; try apply clear_index_auto_core.
      rewrite modify_first_core by reflexivity. apply clear_index_auto_core.
Qed.

Lemma find_filter_keep {A} (q p : A -> bool) : (forall x, q x = true -> p x = true) -> forall l,
  find q (filter p l) = find q l.
Proof.
  intros H. induction l as [|x r IH]; [reflexivity|]. cbn [filter find].
  destruct (q x) eqn:Eq.
  - rewrite (H x Eq). cbn [find]. now rewrite Eq.
  - destruct (p x); cbn [find]; rewrite ?Eq; exact IH.
Qed.

Lemma flat_map_filter_nil {A B} (f : A -> list B) (p : A -> bool) : forall l,
  (forall x, In x l -> p x = false -> f x = []) -> flat_map f (filter p l) = flat_map f l.
Proof.
  induction l as [|x r IH]; intro H; [reflexivity|]. cbn [filter flat_map].
  destruct (p x) eqn:E; cbn [flat_map].
  - f_equal. apply IH. intros; apply H; [now right|assumption].
  - rewrite (H x (or_introl eq_refl) E). cbn [app]. apply IH. intros; apply H; [now right|assumption].
Qed.

Lemma In_first_pk_only k : forall ks b, In k (first_pk_only b ks) -> In k ks.
Proof.
  induction ks as [|x r IH]; intros b H; [exact H|].
  destruct x; cbn [first_pk_only] in H; try (destruct H as [H|H]; [now left|right; eapply IH; exact H]).
  destruct b; [right; eapply IH; exact H|destruct H as [H|H]; [now left|right; eapply IH; exact H]].
Qed.
Lemma In_first_pk_only_notpk k : is_pk k = false -> forall ks b, In k ks -> In k (first_pk_only b ks).
Proof.
  intros Hk. induction ks as [|x r IH]; intros b H; [exact H|].
  destruct H as [->|H].
  - destruct k; try (now left). discriminate.
  - destruct x; cbn [first_pk_only]; try (right; now apply IH). destruct b; [now apply IH|right; now apply IH].
Qed.

Lemma constraint_eqb_true a b : constraint_eqb a b = true <-> a = b.
Proof. unfold constraint_eqb, dec_b. destruct (constraint_eq_dec a b); split; congruence. Qed.

Lemma bt_get_all_same {V} n (v : V) : forall m : list (string * V),
  (forall kv, In kv m -> fst kv = n -> snd kv = v) -> (exists kv, In kv m /\ fst kv = n) -> bt_get n m = Some v.
Proof.
  induction m as [|[k w] r IH]; intros Hall [kv [Hin Hk]]; [destruct Hin|].
  cbn [bt_get]. destruct (String.eqb n k) eqn:E.
  - apply String.eqb_eq in E. subst k. f_equal. exact (Hall (n, w) (or_introl eq_refl) eq_refl).
  - destruct Hin as [<-|Hin].
    + cbn [fst] in Hk. subst k. now rewrite String.eqb_refl in E.
    + apply IH; [intros; apply Hall; [now right|assumption]|eauto].
Qed.

Lemma in_table_cat_unique tn : forall s t T,
  nodup_str (map t_name s) = true -> find (fun x => String.eqb (t_name x) tn) s = Some t ->
  In T (map table_cat s) -> pt_name T = tn -> T = table_cat t.
Proof.
  induction s as [|x r IH]; intros t T Hnd Hf Hin Hn; [destruct Hin|].
  cbn [map] in Hnd. apply nodup_str_cons in Hnd. destruct Hnd as [Hx Hr].
  cbn [find] in Hf. destruct (String.eqb (t_name x) tn) eqn:E.
  - injection Hf as ->. destruct Hin as [<-|Hin]; [reflexivity|]. exfalso.
    apply in_map_iff in Hin. destruct Hin as (y & <- & Hy).
    rewrite pt_name_table_cat in Hn. apply String.eqb_eq in E. rewrite <- Hn in E.
    pose proof (mem_str_map_name _ _ Hx y Hy) as Hne. rewrite E, String.eqb_refl in Hne. discriminate.
  - destruct Hin as [<-|Hin]; [|now apply (IH t T)].
    rewrite pt_name_table_cat in Hn. rewrite Hn, String.eqb_refl in E. discriminate.
Qed.

Lemma sim_pg_remove_constraint s tn k :
  hyp_remove_constraint s tn k = true -> step_sim s (RemoveConstraint tn k).
Proof.
  unfold hyp_remove_constraint. intro H. apply andb_prop in H. destruct H as [Hnd H].
  destruct (find (fun x => String.eqb (t_name x) tn) s) as [t|] eqn:Hf; [|discriminate].
  apply andb_prop in H. destruct H as [H Hk]. apply andb_prop in H. destruct H as [Hin Hinj].
  pose proof (find_name _ _ _ Hf) as Hname.
  set (n := dropped_name tn k) in *.
  set (keep := fun c => negb (constraint_eqb c k)).
  set (t' := mkTable (t_name t) (t_description t) (clear_inline tn k (t_columns t)) (filter keep (t_constraints t))).
  assert (Hnotpk : is_pk k = false) by (destruct k; try reflexivity; discriminate).
  assert (Hkeep_pk : forall c, is_pk c = true -> keep c = true).
  { intros c Hc. unfold keep. apply negb_true_iff. destruct (constraint_eqb c k) eqn:E; [|reflexivity].
    apply constraint_eqb_true in E. subst c. congruence. }
  assert (Hft : (fun t0 : table_def => @Ok table_def planner_error
                   (mkTable (t_name t0) (t_description t0) (clear_inline tn k (t_columns t0))
                            (filter (fun c => negb (constraint_eqb c k)) (t_constraints t0)))) t = Ok t') by reflexivity.
  assert (Hen : table_enums t' = table_enums t).
  { unfold table_enums, t'. cbn [t_name t_columns]. apply enums_of_cols_ext, map_core_types, clear_inline_core. }
  destruct (update_table_spec tn _ s t t' Hnd Hf Hft eq_refl Hen) as (s' & Hup & Hc & _).
  (* names: an entry called n comes from k only *)
  assert (Hkey : forall x, In x (first_pk_only false (t_constraints t)) ->
                 forall (nm : string), In nm (names_of tn x) -> negb (String.eqb nm n) = keep x).
  { intros x Hx nm Hnm. apply In_first_pk_only in Hx. unfold keep.
    rewrite forallb_forall in Hinj. specialize (Hinj x Hx).
    destruct (constraint_eqb x k) eqn:E; cbn [negb orb] in *.
    - apply constraint_eqb_true in E. subst x. apply negb_false_iff, String.eqb_eq.
      unfold names_of in Hnm. unfold n.
      destruct k; cbn [con_cat idx_cat map app fst dropped_name] in *;
        repeat (destruct Hnm as [Hnm|Hnm]; [now subst|]); destruct Hnm.
    - apply negb_true_iff in Hinj. apply negb_true_iff. apply String.eqb_neq. intros ->.
      unfold mem_str in Hinj. assert (existsb (String.eqb n) (names_of tn x) = true); [|congruence].
      apply existsb_exists. exists n. split; [exact Hnm|apply String.eqb_refl]. }
  assert (Hcols : map (col_cat t') (t_columns t') = map (col_cat t) (t_columns t)).
  { unfold t' at 2. cbn [t_columns].
    rewrite (map_ext _ (col_cat t)).
    - apply map_core_col_cat, clear_inline_core.
    - apply col_cat_ext; [reflexivity|]. unfold pk_of, t'. cbn [t_constraints].
      now rewrite (find_filter_keep is_pk keep Hkeep_pk). }
  assert (Hcons : bt_of_list (flat_map (con_cat (t_name t)) (first_pk_only false (filter keep (t_constraints t))))
                  = bt_remove n (bt_of_list (flat_map (con_cat (t_name t)) (first_pk_only false (t_constraints t))))).
  { rewrite (first_pk_only_filter keep Hkeep_pk), bt_remove_of_list. f_equal.
    apply flat_map_filter_key. intros x Hx kv Hkv. apply (Hkey x Hx). unfold names_of. apply in_or_app. left.
    rewrite <- Hname. now apply in_map. }
  assert (Hidx : bt_of_list (flat_map (idx_cat (t_name t)) (first_pk_only false (filter keep (t_constraints t))))
                  = bt_remove n (bt_of_list (flat_map (idx_cat (t_name t)) (first_pk_only false (t_constraints t))))).
  { rewrite (first_pk_only_filter keep Hkeep_pk), bt_remove_of_list. f_equal.
    apply flat_map_filter_key. intros x Hx kv Hkv. apply (Hkey x Hx). unfold names_of. apply in_or_app. right.
    rewrite <- Hname. now apply in_map. }
  assert (Hcat : table_cat t' = mkPt (t_name t) (map (col_cat t) (t_columns t))
                                     (bt_remove n (pt_cons (table_cat t))) (bt_remove n (pt_idx (table_cat t)))).
  { unfold table_cat at 1. rewrite Hcols. unfold t'. cbn [t_name t_constraints]. rewrite Hcons, Hidx. reflexivity. }
  (* removing a name that is not a key changes nothing *)
  assert (Hnokey : forall {V} (f : table_constraint -> list (string * V)),
            (forall x, In x (first_pk_only false (t_constraints t)) -> forall kv, In kv (f x) -> In (fst kv) (names_of tn x)) ->
            f k = [] ->
            bt_remove n (bt_of_list (flat_map f (first_pk_only false (t_constraints t))))
            = bt_of_list (flat_map f (first_pk_only false (t_constraints t)))).
  { intros V f Hsub Hfk. rewrite bt_remove_of_list. f_equal.
    rewrite <- (flat_map_filter_key f keep n).
    - apply flat_map_filter_nil. intros x Hx E. unfold keep in E. apply negb_false_iff, constraint_eqb_true in E. now subst x.
    - intros x Hx kv Hkv. apply (Hkey x Hx). now apply (Hsub x Hx). }
  assert (Hsub_con : forall x, In x (first_pk_only false (t_constraints t)) -> forall kv, In kv (con_cat (t_name t) x) -> In (fst kv) (names_of tn x)).
  { intros x _ kv Hkv. unfold names_of. apply in_or_app. left. rewrite <- Hname. now apply in_map. }
  assert (Hsub_idx : forall x, In x (first_pk_only false (t_constraints t)) -> forall kv, In kv (idx_cat (t_name t) x) -> In (fst kv) (names_of tn x)).
  { intros x _ kv Hkv. unfold names_of. apply in_or_app. right. rewrite <- Hname. now apply in_map. }
  assert (Hidx_same : idx_cat (t_name t) k = [] -> bt_remove n (pt_idx (table_cat t)) = pt_idx (table_cat t)).
  { intro E. exact (Hnokey _ (idx_cat (t_name t)) Hsub_idx E). }
  assert (Hcon_same : con_cat (t_name t) k = [] -> bt_remove n (pt_cons (table_cat t)) = pt_cons (table_cat t)).
  { intro E. exact (Hnokey _ (con_cat (t_name t)) Hsub_con E). }
  assert (Hink : In k (first_pk_only false (t_constraints t))).
  { apply In_first_pk_only_notpk; [exact Hnotpk|]. unfold contains_constraint in Hin.
    apply existsb_exists in Hin. destruct Hin as (x & Hx & E). unfold constraint_eqb, dec_b in E.
    destruct (constraint_eq_dec k x); [now subst|discriminate]. }
  destruct k as [a pc|un uc|fn fc rt rc od ou|cn ce|inn ic]; try discriminate.
  - (* Unique: DROP INDEX *)
    apply andb_prop in Hk. destruct Hk as [Hk Hneed].
    destruct (find (fun T => bt_mem n (pt_idx T)) (c_tables (catalog_of s))) as [T|] eqn:HT; [|discriminate].
    apply String.eqb_eq in Hk.
    assert (T = table_cat t).
    { apply find_some in HT. destruct HT as [HTin _]. now apply (in_table_cat_unique tn s t T Hnd Hf HTin Hk). }
    subst T.
    eexists. split; [reflexivity|].
    rewrite (step_schema_ok s _ s') by exact Hup.
    cbn [gen_remove_constraint exec_all exec]. change (build_unique_constraint_name tn uc un) with n. rewrite HT.
    assert (Hget : bt_get n (pt_idx (table_cat t)) = Some (mkPi uc true false)).
    { unfold table_cat. cbn [pt_idx]. rewrite bt_get_of_list. apply bt_get_all_same.
      - intros kv Hkv Hfst. apply in_rev in Hkv. apply in_flat_map in Hkv. destruct Hkv as (x & Hx & Hkv).
        assert (keep x = false).
        { rewrite <- (Hkey x Hx (fst kv)); [rewrite Hfst, String.eqb_refl; reflexivity|now apply (Hsub_idx x Hx)]. }
        unfold keep in H. apply negb_false_iff, constraint_eqb_true in H. subst x.
        cbn [idx_cat] in Hkv. destruct Hkv as [<-|[]]. reflexivity.
      - exists (n, mkPi uc true false). split; [|reflexivity].
        apply -> in_rev. apply in_flat_map. exists (CUnique un uc). split; [exact Hink|].
        cbn [idx_cat]. left. unfold n. cbn [dropped_name]. now rewrite Hname. }
    rewrite Hget. cbn [pi_con].
    destruct (fk_needing_index (catalog_of s) (table_cat t) (mkPi uc true false)); [discriminate|].
    rewrite Hc, Hcat, (Hcon_same eq_refl), !pt_name_table_cat. rewrite Hname. reflexivity.
  - (* ForeignKey: ALTER TABLE .. DROP CONSTRAINT fk_name *)
    eexists. split; [reflexivity|].
    rewrite (step_schema_ok s _ s') by exact Hup.
    cbn [gen_remove_constraint exec_all exec]. rewrite find_table_catalog_of, Hf. cbn [option_map exec_alter_ops].
    unfold exec_alter_op. rewrite find_table_catalog_of, Hf. cbn [option_map].
    change (build_foreign_key_name tn fc fn) with n.
    assert (Hget : bt_get n (pt_cons (table_cat t)) = Some (KFk fc rt rc (norm_act od) (norm_act ou))).
    { unfold table_cat. cbn [pt_cons]. rewrite bt_get_of_list. apply bt_get_all_same.
      - intros kv Hkv Hfst. apply in_rev in Hkv. apply in_flat_map in Hkv. destruct Hkv as (x & Hx & Hkv).
        assert (keep x = false).
        { rewrite <- (Hkey x Hx (fst kv)); [rewrite Hfst, String.eqb_refl; reflexivity|now apply (Hsub_con x Hx)]. }
        unfold keep in H. apply negb_false_iff, constraint_eqb_true in H. subst x.
        cbn [con_cat] in Hkv. destruct Hkv as [<-|[]]. reflexivity.
      - exists (n, KFk fc rt rc (norm_act od) (norm_act ou)). split; [|reflexivity].
        apply -> in_rev. apply in_flat_map. exists (CForeignKey fn fc rt rc od ou). split; [exact Hink|].
        cbn [con_cat]. left. unfold n. cbn [dropped_name]. now rewrite Hname. }
    rewrite Hget. cbn iota. rewrite Hc, Hcat.
    rewrite (Hidx_same eq_refl). reflexivity.
  - (* Check *)
    eexists. split; [reflexivity|].
    rewrite (step_schema_ok s _ s') by exact Hup.
    cbn [gen_remove_constraint exec_all exec]. rewrite find_table_catalog_of, Hf. cbn [option_map exec_alter_ops].
    unfold exec_alter_op. rewrite find_table_catalog_of, Hf. cbn [option_map]. change cn with n.
    assert (Hget : bt_get n (pt_cons (table_cat t)) = Some (KCheck ce)).
    { unfold table_cat. cbn [pt_cons]. rewrite bt_get_of_list. apply bt_get_all_same.
      - intros kv Hkv Hfst. apply in_rev in Hkv. apply in_flat_map in Hkv. destruct Hkv as (x & Hx & Hkv).
        assert (keep x = false).
        { rewrite <- (Hkey x Hx (fst kv)); [rewrite Hfst, String.eqb_refl; reflexivity|now apply (Hsub_con x Hx)]. }
        unfold keep in H. apply negb_false_iff, constraint_eqb_true in H. subst x.
        cbn [con_cat] in Hkv. destruct Hkv as [<-|[]]. reflexivity.
      - exists (n, KCheck ce). split; [|reflexivity].
        apply -> in_rev. apply in_flat_map. exists (CCheck cn ce). split; [exact Hink|]. cbn [con_cat]. now left. }
    rewrite Hget. cbn iota. rewrite Hc, Hcat.
    rewrite (Hidx_same eq_refl). reflexivity.
  - (* Index: DROP INDEX *)
    destruct (find (fun T => bt_mem n (pt_idx T)) (c_tables (catalog_of s))) as [T|] eqn:HT; [|discriminate].
    apply String.eqb_eq in Hk.
    assert (T = table_cat t).
    { apply find_some in HT. destruct HT as [HTin _]. now apply (in_table_cat_unique tn s t T Hnd Hf HTin Hk). }
    subst T.
    eexists. split; [reflexivity|].
    rewrite (step_schema_ok s _ s') by exact Hup.
    cbn [gen_remove_constraint exec_all exec]. change (build_index_name tn ic inn) with n. rewrite HT.
    assert (Hget : bt_get n (pt_idx (table_cat t)) = Some (mkPi ic false false)).
    { unfold table_cat. cbn [pt_idx]. rewrite bt_get_of_list. apply bt_get_all_same.
      - intros kv Hkv Hfst. apply in_rev in Hkv. apply in_flat_map in Hkv. destruct Hkv as (x & Hx & Hkv).
        assert (keep x = false).
        { rewrite <- (Hkey x Hx (fst kv)); [rewrite Hfst, String.eqb_refl; reflexivity|now apply (Hsub_idx x Hx)]. }
        unfold keep in H. apply negb_false_iff, constraint_eqb_true in H. subst x.
        cbn [idx_cat] in Hkv. destruct Hkv as [<-|[]]. reflexivity.
      - exists (n, mkPi ic false false). split; [|reflexivity].
        apply -> in_rev. apply in_flat_map. exists (CIndex inn ic). split; [exact Hink|].
        cbn [idx_cat]. left. unfold n. cbn [dropped_name]. now rewrite Hname. }
    rewrite Hget. cbn [pi_con]. unfold fk_needing_index. cbn [pi_unique negb].
    rewrite Hc, Hcat, (Hcon_same eq_refl), !pt_name_table_cat. rewrite Hname. reflexivity.
Qed.

(* ---------- AddColumn, plain path: no enum type, no back-fill sequence, no inline constraint to promote ---------- *)


Lemma enums_of_cols_snoc_plain tn col : is_string_enum (c_type col) = false -> forall cols seen,
  enums_of_cols tn (cols ++ [col]) seen = enums_of_cols tn cols seen.
Proof.
  intro Hne. induction cols as [|c r IH]; intro seen; cbn [app enums_of_cols].
  - destruct (c_type col) as [st|vl|np ns|cl|cu|en ev]; try reflexivity.
    unfold is_string_enum in Hne. apply negb_false_iff in Hne. now rewrite Hne.
  - destruct (c_type c); try apply IH.
    destruct (ev_is_integer values || mem_str name seen)%bool; [apply IH|]. f_equal. apply IH.
Qed.

Lemma sim_pg_add_column s tn col fw :
  hyp_add_column s tn col fw = true -> step_sim s (AddColumn tn col fw).
Proof.
  unfold hyp_add_column, hyp_add_column_gen. intro H. apply andb_prop in H. destruct H as [Hnd H].
  destruct (find (fun x => String.eqb (t_name x) tn) s) as [t|] eqn:Hf; [|discriminate].
  cbv zeta in H.
  repeat (apply andb_prop in H; destruct H as [H ?]).
  rename H into Hnew, H0 into Hpk, H1 into Hres, H2 into Hnorm, H3 into Hbf, H4 into Hne.
  apply negb_true_iff in Hnew, Hne. apply Bool.eqb_prop in Hbf.
  pose proof (find_name _ _ _ Hf) as Hname.
  set (t' := mkTable (t_name t) (t_description t) (t_columns t ++ [col]) (t_constraints t)) in *.
  destruct (normalize t') as [nt|] eqn:En; [|discriminate].
  unfold table_def_eqb, dec_b in Hnorm. destruct (table_def_eq_dec nt t') as [->|]; [|discriminate].
  assert (Hft : (fun t0 : table_def =>
                  if has_column (c_name col) t0 then Err (ColumnExists tn (c_name col))
                  else match normalize (mkTable (t_name t0) (t_description t0) (t_columns t0 ++ [col]) (t_constraints t0)) with
                       | Err _ => Err TableValidation
                       | Ok n => Ok n
                       end) t = @Ok table_def planner_error t').
  { cbv beta. rewrite Hnew. fold t'. now rewrite En. }
  assert (Hen : table_enums t' = table_enums t).
  { unfold table_enums, t'. cbn [t_name t_columns]. now apply enums_of_cols_snoc_plain. }
  destruct (update_table_spec tn _ s t t' Hnd Hf Hft eq_refl Hen) as (s' & Hup & Hc & _).
  exists [SAlterTable tn [AAddColumn (sea_coldef tn col)]]. split.
  - cbn [gen]. unfold gen_add_column. fold (needs_backfill col fw). rewrite Hbf.
    unfold create_enum_type. destruct (c_type col) as [st|vl|np ns|cl|cu|en ev]; try reflexivity.
    unfold is_string_enum in Hne. apply negb_false_iff in Hne. now rewrite Hne.
  - rewrite (step_schema_ok s _ s') by exact Hup.
    cbn [exec_all exec]. rewrite find_table_catalog_of, Hf. cbn [option_map exec_alter_ops].
    unfold exec_alter_op. rewrite find_table_catalog_of, Hf. cbn [option_map].
    unfold sea_coldef at 1. cbn [cd_name]. rewrite has_col_table_cat, Hnew.
    unfold mk_col, sea_coldef. cbn [cd_type cd_name cd_notnull cd_default cd_pk].
    destruct (resolve_type (catalog_of s) (sea_type tn (c_type col))) as [[x b]|]; [|discriminate].
    destruct b; [discriminate|]. apply String.eqb_eq in Hres. subst x.
    rewrite Hc. f_equal. f_equal.
    unfold table_cat, t'. cbn [t_name t_columns t_constraints pt_name pt_cols pt_cons pt_idx].
    f_equal. rewrite map_app. cbn [map]. f_equal.
    f_equal. unfold col_cat. cbn [t_name t_constraints]. rewrite Hname.
    unfold pk_of in *. cbn [t_constraints].
    destruct (find is_pk (t_constraints t)) as [[a cols| | | |]|]; try (now rewrite orb_false_r).
    apply negb_true_iff in Hpk. rewrite Hpk. cbn [andb]. rewrite orb_false_r. now destruct a.
Qed.

(* ---------- DeleteColumn, plain path ---------- *)
Lemma filter_all {A} (p : A -> bool) : forall l, (forall x, In x l -> p x = true) -> filter p l = l.
Proof.
  induction l as [|x r IH]; intro H; [reflexivity|]. cbn [filter].
  rewrite (H x (or_introl eq_refl)). f_equal. apply IH. intros; apply H; now right.
Qed.

Lemma drop_in_absent cn : forall l, mem_str cn l = false -> drop_in cn l = l.
Proof.
  unfold drop_in, mem_str. induction l as [|x r IH]; intro H; [reflexivity|].
  cbn [existsb] in H. apply orb_false_iff in H. destruct H as [H1 H2].
  cbn [filter]. rewrite BtP.str_eqb_sym, H1. cbn [negb]. f_equal. now apply IH.
Qed.

Lemma drop_constraints_avoid cn : forall ks,
  forallb (constraint_avoids cn) ks = true -> drop_column_from_constraints cn ks = ks.
Proof.
  unfold drop_column_from_constraints. induction ks as [|k r IH]; intro H; [reflexivity|].
  cbn [forallb] in H. apply andb_prop in H. destruct H as [Hk Hr].
  cbn [flat_map]. rewrite (IH Hr).
  destruct k as [a cols|n cols|n cols rt rcols od ou|n e|n cols]; cbn [constraint_avoids drop_column_from_constraint] in *.
  - apply andb_prop in Hk. destruct Hk as [H1 H2]. apply negb_true_iff in H1.
    rewrite (drop_in_absent cn cols H1), H2. reflexivity.
  - apply andb_prop in Hk. destruct Hk as [H1 H2]. apply negb_true_iff in H1.
    rewrite (drop_in_absent cn cols H1), H2. reflexivity.
  - repeat (apply andb_prop in Hk; destruct Hk as [Hk ?]). apply negb_true_iff in Hk, H1.
    rewrite (drop_in_absent cn cols Hk), (drop_in_absent cn rcols H1), H0, H. reflexivity.
  - reflexivity.
  - apply andb_prop in Hk. destruct Hk as [H1 H2]. apply negb_true_iff in H1.
    rewrite (drop_in_absent cn cols H1), H2. reflexivity.
Qed.

Lemma enums_of_cols_filter_plain tn cn : forall cols seen,
  (forall c, In c cols -> String.eqb (c_name c) cn = true -> is_enum_type (c_type c) = false) ->
  enums_of_cols tn (filter (fun c => negb (String.eqb (c_name c) cn)) cols) seen = enums_of_cols tn cols seen.
Proof.
  induction cols as [|c r IH]; intros seen H; [reflexivity|]. cbn [filter].
  destruct (String.eqb (c_name c) cn) eqn:E; cbn [negb].
  - rewrite IH by (intros; apply H; [now right|assumption]).
    cbn [enums_of_cols]. pose proof (H c (or_introl eq_refl) E) as Hne.
    destruct (c_type c); try reflexivity. discriminate.
  - cbn [enums_of_cols]. destruct (c_type c); try (apply IH; intros; apply H; [now right|assumption]).
    destruct (ev_is_integer values || mem_str name seen)%bool.
    + apply IH; intros; apply H; [now right|assumption].
    + f_equal. apply IH; intros; apply H; [now right|assumption].
Qed.

Lemma find_col_unique cn : forall cols c,
  nodup_str (map c_name cols) = true -> find (fun x => String.eqb (c_name x) cn) cols = Some c ->
  forall x, In x cols -> String.eqb (c_name x) cn = true -> x = c.
Proof.
  induction cols as [|y r IH]; intros c Hnd Hf x Hin Hx; [destruct Hin|].
  cbn [map] in Hnd. apply nodup_str_cons in Hnd. destruct Hnd as [Hy Hr].
  cbn [find] in Hf. destruct (String.eqb (c_name y) cn) eqn:E.
  - injection Hf as <-. destruct Hin as [->|Hin]; [reflexivity|]. exfalso.
    apply String.eqb_eq in E, Hx. unfold mem_str in Hy.
    assert (existsb (String.eqb (c_name y)) (map c_name r) = true); [|congruence].
    apply existsb_exists. exists (c_name x). split; [now apply in_map|]. rewrite E, Hx. apply String.eqb_refl.
  - destruct Hin as [->|Hin]; [congruence|]. now apply (IH c).
Qed.

(* inbound foreign keys restricted by a predicate on the referenced columns *)
Lemma inbound_none_p tn (pr : list string -> bool) : forall l : list table_def,
  forallb (fun x => (String.eqb (t_name x) tn || negb (existsb (fk_to tn pr) (t_constraints x)))%bool) l = true ->
  flat_map (fun x : pg_table =>
    if (negb false && String.eqb (pt_name x) tn)%bool then []
    else flat_map (fun k => match snd k with
                            | KFk _ rt rcols _ _ => if (String.eqb rt tn && pr rcols)%bool then [(pt_name x, fst k)] else []
                            | _ => []
                            end) (pt_cons x)) (map table_cat l) = [].
Proof.
  induction l as [|x r IH]; intro H; [reflexivity|].
  cbn [forallb] in H. apply andb_prop in H. destruct H as [Hx Hr].
  cbn [map flat_map]. rewrite (IH Hr), app_nil_r. rewrite pt_name_table_cat. cbn [negb andb].
  destruct (String.eqb (t_name x) tn) eqn:E; [reflexivity|].
  cbn [orb] in Hx. apply negb_true_iff in Hx.
  assert (G : forall (m : list (string * con_kind)),
            (forall n c, In (n, c) m -> In (n, c) (flat_map (con_cat (t_name x)) (t_constraints x))) ->
            flat_map (fun k : string * con_kind => match snd k with
                            | KFk _ rt rcols _ _ => if (String.eqb rt tn && pr rcols)%bool then [(t_name x, fst k)] else []
                            | _ => []
                            end) m = []).
  { induction m as [|[n c] m IHm]; intro Hin; [reflexivity|].
    cbn [flat_map fst snd]. rewrite IHm by (intros; apply Hin; now right). rewrite app_nil_r.
    destruct c as [| |cols rt rcols od ou|]; try reflexivity.
    destruct (String.eqb rt tn && pr rcols)%bool eqn:Ert; [|reflexivity]. exfalso.
    apply andb_prop in Ert. destruct Ert as [Ert Epr].
    specialize (Hin n _ (or_introl eq_refl)). apply in_flat_map in Hin. destruct Hin as (k & Hk & Hkc).
    assert (existsb (fk_to tn pr) (t_constraints x) = true); [|congruence].
    apply existsb_exists. exists k. split; [exact Hk|].
    destruct k as [a pc|un uc|fn fc frt frc od' ou'|cn' ce|inn ic]; cbn [con_cat] in Hkc.
    - destruct Hkc as [E0|[]]. discriminate E0.
    - destruct Hkc.
    - destruct Hkc as [E0|[]]. injection E0 as _ _ -> -> _ _. cbn [fk_to]. now rewrite Ert, Epr.
    - destruct Hkc as [E0|[]]. discriminate E0.
    - destruct Hkc. }
  unfold table_cat at 1. cbn [pt_cons pt_name].
  apply G. intros n c Hin. apply bt_of_list_in in Hin.
  eapply In_flat_map_first_pk_only. exact Hin.
Qed.

Lemma filter_cols_cat t t2 cn : (forall c, col_cat t2 c = col_cat t c) -> forall cols,
  filter (fun x => negb (String.eqb (pc_name x) cn)) (map (col_cat t) cols)
  = map (col_cat t2) (filter (fun c => negb (String.eqb (c_name c) cn)) cols).
Proof.
  intros He. induction cols as [|c r IH]; [reflexivity|]. cbn [map filter].
  unfold col_cat at 1. cbn [pc_name].
  destruct (String.eqb (c_name c) cn); cbn [negb map]; [exact IH|]. rewrite He. f_equal. exact IH.
Qed.

Lemma sim_pg_delete_column s tn cn : hyp_delete_column s tn cn = true -> step_sim s (DeleteColumn tn cn).
Proof.
  unfold hyp_delete_column. intro H.
  apply andb_prop in H. destruct H as [H Ht]. apply andb_prop in H. destruct H as [Hnd Hfk].
  destruct (find (fun x => String.eqb (t_name x) tn) s) as [t|] eqn:Hf; [|discriminate].
  repeat (apply andb_prop in Ht; destruct Ht as [Ht ?]).
  rename Ht into Hhas, H into Havoid, H0 into Hcnd, H1 into Hplain.
  destruct (find (fun c => String.eqb (c_name c) cn) (t_columns t)) as [c0|] eqn:Hc0; [|discriminate].
  apply negb_true_iff in Hplain.
  pose proof (find_name _ _ _ Hf) as Hname.
  set (t' := mkTable (t_name t) (t_description t)
                     (filter (fun c => negb (String.eqb (c_name c) cn)) (t_columns t))
                     (drop_column_from_constraints cn (t_constraints t))).
  assert (Hft : (fun t0 : table_def =>
                   if has_column cn t0
                   then Ok (mkTable (t_name t0) (t_description t0)
                                    (filter (fun c => negb (String.eqb (c_name c) cn)) (t_columns t0))
                                    (drop_column_from_constraints cn (t_constraints t0)))
                   else Err (ColumnNotFound tn cn)) t = @Ok table_def planner_error t').
  { cbv beta. now rewrite Hhas. }
  assert (Hen : table_enums t' = table_enums t).
  { unfold table_enums, t'. cbn [t_name t_columns]. apply enums_of_cols_filter_plain.
    intros c Hc Ec. now rewrite (find_col_unique cn _ c0 Hcnd Hc0 c Hc Ec). }
  destruct (update_table_spec tn _ s t t' Hnd Hf Hft eq_refl Hen) as (s' & Hup & Hc & _).
  exists [SAlterTable tn [ADropColumn cn]]. split.
  - cbn [gen]. unfold gen_delete_column, find_column_s, find_table_s. rewrite Hf, Hc0.
    destruct (c_type c0); try reflexivity. discriminate.
  - rewrite (step_schema_ok s _ s') by exact Hup.
    cbn [exec_all exec]. rewrite find_table_catalog_of, Hf. cbn [option_map exec_alter_ops].
    unfold exec_alter_op. rewrite find_table_catalog_of, Hf. cbn [option_map].
    rewrite has_col_table_cat, Hhas. cbn [negb].
    unfold inbound_fks. unfold catalog_of at 1. cbn [c_tables].
    rewrite (inbound_none_p tn (mem_str cn) s Hfk).
    rewrite Hc. f_equal. f_equal. f_equal.
    unfold table_cat at 4. unfold t'. cbn [t_name t_columns t_constraints].
    rewrite (drop_constraints_avoid cn _ Havoid).
    unfold table_cat. cbn [pt_name pt_cols pt_cons pt_idx]. f_equal.
    + (* columns *)
      apply filter_cols_cat. apply col_cat_ext; reflexivity.
    + (* no constraint involves the column *)
      apply filter_all. intros [n k] Hin. cbn [snd]. apply negb_true_iff.
      apply bt_of_list_in in Hin. apply In_flat_map_first_pk_only in Hin.
      apply in_flat_map in Hin. destruct Hin as (x & Hx & Hk).
      rewrite forallb_forall in Havoid. specialize (Havoid x Hx).
      destruct x as [a pc|un uc|fn fc frt frc od' ou'|cn' ce|inn ic]; cbn [con_cat constraint_avoids] in *.
      * destruct Hk as [E0|[]]. injection E0 as <- <-. cbn [con_involves].
        apply andb_prop in Havoid. destruct Havoid as [A _]. now apply negb_true_iff in A.
      * destruct Hk.
      * destruct Hk as [E0|[]]. injection E0 as <- <-. cbn [con_involves].
        repeat (apply andb_prop in Havoid; destruct Havoid as [Havoid ?]).
        apply negb_true_iff in Havoid, H1. rewrite Havoid, H1. now rewrite andb_false_r.
      * destruct Hk as [E0|[]]. injection E0 as <- <-. cbn [con_involves]. now apply negb_true_iff in Havoid.
      * destruct Hk.
    + apply filter_all. intros [n i] Hin. cbn [snd]. apply negb_true_iff.
      apply bt_of_list_in in Hin. apply In_flat_map_first_pk_only in Hin.
      apply in_flat_map in Hin. destruct Hin as (x & Hx & Hk).
      rewrite forallb_forall in Havoid. specialize (Havoid x Hx).
      destruct x as [a pc|un uc|fn fc frt frc od' ou'|cn' ce|inn ic]; cbn [idx_cat constraint_avoids] in *;
        try (destruct Hk; fail);
        destruct Hk as [E0|[]]; injection E0 as <- <-; cbn [pi_cols];
        apply andb_prop in Havoid; destruct Havoid as [A _]; now apply negb_true_iff in A.
Qed.

(* ---------- RemoveConstraint of the primary key ---------- *)
Lemma mem_str_in_iff x l : In x l -> mem_str x l = true.
Proof. intro H. unfold mem_str. apply existsb_exists. exists x. split; [exact H|apply String.eqb_refl]. Qed.
Lemma find_pk_filter' ks k : filter is_pk ks = [k] -> find is_pk ks = Some k.
Proof.
  induction ks as [|x r IH]; intro H; [discriminate|]. cbn [filter find] in *.
  destruct (is_pk x); [now injection H as -> _|now apply IH].
Qed.
Lemma first_pk_only_single : forall ks k, filter is_pk ks = [k] -> first_pk_only false ks = ks.
Proof.
  induction ks as [|x r IH]; intros k H; [reflexivity|]. cbn [filter] in H.
  destruct x; cbn [is_pk first_pk_only] in *; try (f_equal; now apply (IH k)).
  f_equal. injection H as _ H. now apply first_pk_only_nopk.
Qed.
Lemma filter_pk_removed : forall ks k, filter is_pk ks = [k] ->
  filter is_pk (filter (fun c => negb (constraint_eqb c k)) ks) = [].
Proof.
  induction ks as [|x r IH]; intros k H; [reflexivity|]. cbn [filter] in *.
  destruct (is_pk x) eqn:Ex.
  - injection H as -> Hr. unfold constraint_eqb at 1, dec_b. destruct (constraint_eq_dec k k); [|contradiction].
    cbn [negb]. clear -Hr. induction r as [|y r IH]; [reflexivity|]. cbn [filter] in *.
    destruct (is_pk y) eqn:Ey; [discriminate|]. destruct (negb (constraint_eqb y k)); cbn [filter]; rewrite ?Ey; now apply IH.
  - destruct (negb (constraint_eqb x k)); cbn [filter]; rewrite ?Ex; now apply (IH k).
Qed.

Lemma sim_pg_remove_pk s tn k : hyp_remove_pk s tn k = true -> step_sim s (RemoveConstraint tn k).
Proof.
  unfold hyp_remove_pk. intro H. apply andb_prop in H. destruct H as [Hnd H].
  destruct (find (fun x => String.eqb (t_name x) tn) s) as [t|] eqn:Hf; [|discriminate].
  destruct k as [a cols| | | |]; try discriminate.
  repeat (apply andb_prop in H; destruct H as [H ?]).
  rename H into Ha, H0 into Hneed, H1 into Hnn, H2 into Hinj, H3 into Hsingle.
  destruct (filter is_pk (t_constraints t)) as [|k' [|]] eqn:Efp; try discriminate.
  apply constraint_eqb_true in Hsingle. subst k'.
  pose proof (find_name _ _ _ Hf) as Hname.
  set (k := CPrimaryKey a cols) in *.
  set (n := tn +++ "_pkey").
  set (keep := fun c => negb (constraint_eqb c k)).
  set (t' := mkTable (t_name t) (t_description t) (clear_inline tn k (t_columns t)) (filter keep (t_constraints t))).
  assert (Hft : (fun t0 : table_def => @Ok table_def planner_error
                   (mkTable (t_name t0) (t_description t0) (clear_inline tn k (t_columns t0))
                            (filter (fun c => negb (constraint_eqb c k)) (t_constraints t0)))) t = Ok t') by reflexivity.
  assert (Hen : table_enums t' = table_enums t).
  { unfold table_enums, t'. cbn [t_name t_columns]. apply enums_of_cols_ext, map_core_types, clear_inline_core. }
  destruct (update_table_spec tn _ s t t' Hnd Hf Hft eq_refl Hen) as (s' & Hup & Hc & _).
  assert (Hink : In k (t_constraints t)).
  { assert (Hin : In k (filter is_pk (t_constraints t))) by (rewrite Efp; now left). now apply filter_In in Hin. }
  assert (Hkey : forall x, In x (t_constraints t) -> forall nm, In nm (names_of tn x) -> negb (String.eqb nm n) = keep x).
  { intros x Hx nm Hnm. unfold keep. rewrite forallb_forall in Hinj. specialize (Hinj x Hx).
    destruct (constraint_eqb x k) eqn:E; cbn [negb orb] in *.
    - apply constraint_eqb_true in E. subst x. apply negb_false_iff, String.eqb_eq.
      unfold names_of, k in Hnm. cbn [con_cat idx_cat map app fst] in Hnm.
      destruct Hnm as [<-|[<-|[]]]; reflexivity.
    - apply negb_true_iff in Hinj. apply negb_true_iff, String.eqb_neq. intros ->.
      assert (Hm : mem_str n (names_of tn x) = true) by now apply mem_str_in_iff.
      unfold n in Hm. congruence. }
  assert (Hfpo : first_pk_only false (t_constraints t) = t_constraints t) by (eapply first_pk_only_single; exact Efp).
  assert (Hfpo' : first_pk_only false (filter keep (t_constraints t)) = filter keep (t_constraints t)).
  { unfold keep. apply first_pk_only_nopk. exact (filter_pk_removed _ k Efp). }
  assert (Hpk' : pk_of t' = None).
  { unfold pk_of, t', keep. cbn [t_constraints]. now rewrite (find_pk_nil _ (filter_pk_removed _ k Efp)). }
  assert (Hpk : pk_of t = Some (a, cols)).
  { unfold pk_of. now rewrite (find_pk_filter' _ _ Efp). }
  assert (Hcat : table_cat t' = mkPt (t_name t) (map (col_cat t) (t_columns t))
                                     (bt_remove n (pt_cons (table_cat t))) (bt_remove n (pt_idx (table_cat t)))).
  { unfold table_cat.
    change (t_name t') with (t_name t). change (t_columns t') with (clear_inline tn k (t_columns t)).
    change (t_constraints t') with (filter keep (t_constraints t)).
    cbn [pt_cons pt_idx]. rewrite Hfpo, Hfpo'. f_equal.
    - (* columns: NOT NULL stays because the key columns are declared NOT NULL *)
      transitivity (map (col_cat t') (t_columns t)).
      + apply map_core_col_cat, clear_inline_core.
      + apply map_ext_in. intros x Hx. unfold col_cat. rewrite Hpk', Hpk.
        rewrite forallb_forall in Hnn. specialize (Hnn x Hx).
        assert (Hax : a = true -> (mem_str (c_name x) cols && supports_auto_increment (c_type x))%bool = false).
        { intros ->. cbn [negb orb] in Ha. apply negb_true_iff in Ha.
          destruct (mem_str (c_name x) cols && supports_auto_increment (c_type x))%bool eqn:E; [|reflexivity]. exfalso.
          assert (existsb (fun x => (mem_str (c_name x) cols && supports_auto_increment (c_type x))%bool) (t_columns t) = true);
            [|congruence]. apply existsb_exists. eauto. }
        destruct a; [rewrite (Hax eq_refl)|];
          (destruct (mem_str (c_name x) cols); cbn [negb orb] in *; [now rewrite Hnn|now rewrite orb_false_r]).
    - rewrite bt_remove_of_list. f_equal. apply flat_map_filter_key. intros x Hx kv Hkv. apply (Hkey x Hx).
      unfold names_of. apply in_or_app. left. rewrite <- Hname. now apply in_map.
    - rewrite bt_remove_of_list. f_equal. apply flat_map_filter_key. intros x Hx kv Hkv. apply (Hkey x Hx).
      unfold names_of. apply in_or_app. right. rewrite <- Hname. now apply in_map. }
  eexists. split; [reflexivity|].
  rewrite (step_schema_ok s _ s') by exact Hup.
  unfold k at 1. cbn [gen_remove_constraint exec_all exec]. rewrite find_table_catalog_of, Hf. cbn [option_map exec_alter_ops].
  unfold exec_alter_op. rewrite find_table_catalog_of, Hf. cbn [option_map]. fold n.
  assert (Hgetc : bt_get n (pt_cons (table_cat t)) = Some (KPk cols)).
  { unfold table_cat. cbn [pt_cons]. rewrite Hfpo, bt_get_of_list. apply bt_get_all_same.
    - intros kv Hkv Hfst. apply in_rev in Hkv. apply in_flat_map in Hkv. destruct Hkv as (x & Hx & Hkv).
      assert (keep x = false).
      { rewrite <- (Hkey x Hx (fst kv)); [rewrite Hfst, String.eqb_refl; reflexivity|].
        unfold names_of. apply in_or_app. left. rewrite <- Hname. now apply in_map. }
      unfold keep in H. apply negb_false_iff, constraint_eqb_true in H. subst x.
      cbn [con_cat k] in Hkv. destruct Hkv as [<-|[]]. reflexivity.
    - exists (n, KPk cols). split; [|reflexivity].
      apply -> in_rev. apply in_flat_map. exists k. split; [exact Hink|]. cbn [con_cat k]. left. unfold n. now rewrite Hname. }
  assert (Hgeti : bt_get n (pt_idx (table_cat t)) = Some (mkPi cols true true)).
  { unfold table_cat. cbn [pt_idx]. rewrite Hfpo, bt_get_of_list. apply bt_get_all_same.
    - intros kv Hkv Hfst. apply in_rev in Hkv. apply in_flat_map in Hkv. destruct Hkv as (x & Hx & Hkv).
      assert (keep x = false).
      { rewrite <- (Hkey x Hx (fst kv)); [rewrite Hfst, String.eqb_refl; reflexivity|].
        unfold names_of. apply in_or_app. right. rewrite <- Hname. now apply in_map. }
      unfold keep in H. apply negb_false_iff, constraint_eqb_true in H. subst x.
      cbn [idx_cat k] in Hkv. destruct Hkv as [<-|[]]. reflexivity.
    - exists (n, mkPi cols true true). split; [|reflexivity].
      apply -> in_rev. apply in_flat_map. exists k. split; [exact Hink|]. cbn [idx_cat k]. left. unfold n. now rewrite Hname. }
  rewrite Hgetc. cbv iota. rewrite Hgeti.
  destruct (fk_needing_index (catalog_of s) (table_cat t) (mkPi cols true true)); [discriminate|].
  rewrite Hc, Hcat, !pt_name_table_cat. reflexivity.
Qed.
