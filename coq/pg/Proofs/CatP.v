(* PG layer: structural facts about catalog_of used by the simulation lemmas. *)
From VV.M1 Require Import BtP.
From VV.PG Require Export CorrGen.
From Coq Require Import Lia.

Lemma gen_pending_irrelevant s P a : gen s P a = gen s [] a.
Proof. destruct a; reflexivity. Qed.

Lemma catalog_of_nil : catalog_of [] = empty_catalog.
Proof. reflexivity. Qed.

Lemma pt_name_table_cat t : pt_name (table_cat t) = t_name t.
Proof. reflexivity. Qed.

(* ---------- finding tables ---------- *)
Lemma find_table_catalog_of n s :
  find_table n (catalog_of s) = option_map table_cat (find (fun t => String.eqb (t_name t) n) s).
Proof.
  unfold find_table, catalog_of. cbn [c_tables].
  induction s as [|t r IH]; cbn [map find]; [reflexivity|].
  rewrite pt_name_table_cat.
  destruct (String.eqb (t_name t) n); [reflexivity|exact IH].
Qed.

Lemma has_table_find n s :
  has_table n s = true <-> exists t, find (fun t => String.eqb (t_name t) n) s = Some t.
Proof.
  unfold has_table. induction s as [|t r IH]; cbn [existsb find].
  - split; [discriminate|intros [t H]; discriminate].
  - destruct (String.eqb (t_name t) n) eqn:E; cbn [orb].
    + split; [eauto|reflexivity].
    + exact IH.
Qed.

Lemma find_name n s t : find (fun t => String.eqb (t_name t) n) s = Some t -> t_name t = n.
Proof. intro H. apply find_some in H. destruct H as [_ H]. now apply String.eqb_eq. Qed.

Lemma has_col_table_cat cn t : has_col cn (table_cat t) = has_column cn t.
Proof.
  unfold has_col, has_column, table_cat. cbn [pt_cols].
  induction (t_columns t) as [|c r IH]; cbn [map existsb]; [reflexivity|].
  unfold col_cat at 1. cbn [pc_name]. now rewrite IH.
Qed.

(* ---------- updating one table of a schema whose table names are distinct ---------- *)
Lemma nodup_str_cons x l : nodup_str (x :: l) = true -> mem_str x l = false /\ nodup_str l = true.
Proof.
  cbn [nodup_str]. intro H. apply andb_prop in H. destruct H as [H1 H2].
  split; [now apply negb_true_iff|exact H2].
Qed.

Lemma mem_str_map_name n s :
  mem_str n (map t_name s) = false -> forall t, In t s -> String.eqb (t_name t) n = false.
Proof.
  unfold mem_str. induction s as [|x r IH]; intros H t Hin; [destruct Hin|].
  cbn [map existsb] in H. apply orb_false_iff in H. destruct H as [H1 H2].
  destruct Hin as [->|Hin].
  - now rewrite BtP.str_eqb_sym.
  - now apply IH.
Qed.

(* replacing the table named tn in the image of a schema whose other tables have other names *)
Lemma replace_others tn X : forall l, (forall y, In y l -> String.eqb (t_name y) tn = false) ->
  map (fun t0 => if String.eqb (pt_name t0) tn then X else t0) (map table_cat l) = map table_cat l.
Proof.
  induction l as [|y l IHl]; intro Hall; [reflexivity|]. cbn [map].
  rewrite pt_name_table_cat, (Hall y (or_introl eq_refl)).
  f_equal. apply IHl. intros z Hz. apply Hall. now right.
Qed.

Lemma update_table_lists tn f : forall s t t',
  nodup_str (map t_name s) = true ->
  find (fun x => String.eqb (t_name x) tn) s = Some t ->
  f t = Ok t' -> t_name t' = t_name t -> table_enums t' = table_enums t ->
  exists s', update_table tn f s = Ok s' /\
             map table_cat s' = map (fun y => if String.eqb (pt_name y) tn then table_cat t' else y) (map table_cat s) /\
             flat_map table_enums s' = flat_map table_enums s /\
             map t_name s' = map t_name s.
Proof.
  induction s as [|x r IH]; intros t t' Hnd Hf Hft Hname Hen; [discriminate|].
  cbn [find] in Hf. cbn [update_table].
  cbn [map] in Hnd. apply nodup_str_cons in Hnd. destruct Hnd as [Hx Hr].
  destruct (String.eqb (t_name x) tn) eqn:E.
  - injection Hf as ->. rewrite Hft. eexists. split; [reflexivity|].
    apply String.eqb_eq in E. subst tn. repeat split.
    + cbn [map]. rewrite pt_name_table_cat, String.eqb_refl. f_equal.
      symmetry. apply replace_others. now apply mem_str_map_name.
    + cbn [flat_map]. now rewrite Hen.
    + cbn [map]. now rewrite Hname.
  - destruct (IH t t' Hr Hf Hft Hname Hen) as (s' & Hu & Hc & He & Hn).
    rewrite Hu. eexists. split; [reflexivity|]. repeat split.
    + cbn [map]. rewrite pt_name_table_cat, E. f_equal. exact Hc.
    + cbn [flat_map]. now rewrite He.
    + cbn [map]. now rewrite Hn.
Qed.

Lemma update_table_spec tn f s t t' :
  nodup_str (map t_name s) = true ->
  find (fun x => String.eqb (t_name x) tn) s = Some t ->
  f t = Ok t' -> t_name t' = t_name t -> table_enums t' = table_enums t ->
  exists s', update_table tn f s = Ok s' /\
             catalog_of s' = replace_table (table_cat t') tn (catalog_of s) /\
             map t_name s' = map t_name s.
Proof.
  intros Hnd Hf Hft Hname Hen.
  destruct (update_table_lists tn f s t t' Hnd Hf Hft Hname Hen) as (s' & Hu & Hc & He & Hn).
  exists s'. split; [exact Hu|]. split; [|exact Hn].
  unfold catalog_of, replace_table, map_table, set_tables. cbn [c_tables c_enums].
  now rewrite Hc, He.
Qed.
