(* PG layer: simulation lemma for RenameTable, for the tables no derived name and no foreign key depends on. *)
From VV.M1 Require Import BtP PrefixStrP.
From VV.PG Require Export DefaultP.

Lemma cat_type_no_enum a b ty : is_enum_type ty = false -> cat_type a ty = cat_type b ty.
Proof. destruct ty; try discriminate; reflexivity. Qed.

Lemma enums_none tn : forall cols seen, existsb (fun c => is_enum_type (c_type c)) cols = false ->
  enums_of_cols tn cols seen = [].
Proof.
  induction cols as [|c r IH]; intros seen H; [reflexivity|]. cbn [existsb] in H. apply orb_false_iff in H.
  destruct H as [H1 H2]. cbn [enums_of_cols]. destruct (c_type c); try discriminate; now apply IH.
Qed.

Lemma checks_no_pk : forall cs, forallb is_check cs = true -> find is_pk cs = None.
Proof.
  induction cs as [|k r IH]; intro H; [reflexivity|]. cbn [forallb] in H. apply andb_prop in H. destruct H as [H1 H2].
  destruct k; try discriminate. cbn [find is_pk]. now apply IH.
Qed.
Lemma checks_first_pk_only : forall cs seen, forallb is_check cs = true -> first_pk_only seen cs = cs.
Proof.
  induction cs as [|k r IH]; intros seen H; [reflexivity|]. cbn [forallb] in H. apply andb_prop in H. destruct H as [H1 H2].
  destruct k; try discriminate. cbn [first_pk_only]. f_equal. now apply IH.
Qed.
Lemma checks_con_cat a b : forall cs, forallb is_check cs = true -> flat_map (con_cat a) cs = flat_map (con_cat b) cs.
Proof.
  induction cs as [|k r IH]; intro H; [reflexivity|]. cbn [forallb] in H. apply andb_prop in H. destruct H as [H1 H2].
  destruct k; try discriminate. cbn [flat_map con_cat]. f_equal. now apply IH.
Qed.
Lemma checks_idx_cat a : forall cs, forallb is_check cs = true -> flat_map (idx_cat a) cs = [].
Proof.
  induction cs as [|k r IH]; intro H; [reflexivity|]. cbn [forallb] in H. apply andb_prop in H. destruct H as [H1 H2].
  destruct k; try discriminate. cbn [flat_map idx_cat app]. now apply IH.
Qed.

(* the renamed table in the catalog: the same columns, constraints and (no) indexes under the new name *)
Lemma table_cat_renamed t b :
  forallb is_check (t_constraints t) = true -> existsb (fun c => is_enum_type (c_type c)) (t_columns t) = false ->
  table_cat (mkTable b (t_description t) (t_columns t) (t_constraints t))
  = mkPt b (pt_cols (table_cat t)) (pt_cons (table_cat t)) (pt_idx (table_cat t)).
Proof.
  intros Hc He. unfold table_cat. cbn [t_name t_columns t_constraints pt_cols pt_cons pt_idx].
  rewrite !(checks_first_pk_only _ false Hc). f_equal.
  - apply map_ext_in. intros c Hin. unfold col_cat, pk_of. cbn [t_name t_constraints]. rewrite (checks_no_pk _ Hc).
    f_equal. apply cat_type_no_enum.
    destruct (is_enum_type (c_type c)) eqn:E; [|reflexivity]. exfalso.
    assert (existsb (fun c => is_enum_type (c_type c)) (t_columns t) = true); [|congruence]. apply existsb_exists. eauto.
  - f_equal. apply checks_con_cat, Hc.
  - now rewrite !(checks_idx_cat _ _ Hc).
Qed.

Lemma update_table_shape tn f : forall s t t',
  nodup_str (map t_name s) = true -> find (fun x => String.eqb (t_name x) tn) s = Some t -> f t = Ok t' ->
  exists A C, s = A ++ t :: C /\ update_table tn f s = Ok (A ++ t' :: C)
              /\ (forall y, In y (A ++ C) -> String.eqb (t_name y) tn = false).
Proof.
  induction s as [|x r IH]; intros t t' Hnd Hf Hft; [discriminate|].
  cbn [find] in Hf. cbn [update_table]. cbn [map] in Hnd. apply nodup_str_cons in Hnd. destruct Hnd as [Hx Hr].
  destruct (String.eqb (t_name x) tn) eqn:E.
  - injection Hf as ->. rewrite Hft. exists [], r. repeat split. cbn [app].
    apply String.eqb_eq in E. subst tn. now apply mem_str_map_name.
  - destruct (IH t t' Hr Hf Hft) as (A & C & -> & Hu & Hoth). rewrite Hu. exists (x :: A), C. repeat split.
    intros y [<-|Hy]; [exact E|now apply Hoth].
Qed.

Lemma other_table_fk_to tn b y :
  existsb (fk_to tn (fun _ => true)) (t_constraints y) = false ->
  bt_map (fun k => match k with
                   | KFk cols rt rcols od ou => if String.eqb rt tn then KFk cols b rcols od ou else k
                   | _ => k
                   end) (pt_cons (table_cat y)) = pt_cons (table_cat y).
Proof.
  intro H. apply bt_map_fixed. intros [n v] Hin. cbn [snd].
  unfold table_cat in Hin. cbn [pt_cons] in Hin. apply bt_of_list_in in Hin. apply in_flat_map in Hin.
  destruct Hin as (k & Hk & Hkv). apply first_pk_only_in in Hk.
  destruct k as [au cols|n0 cols|n0 cols rt rcols od ou|n0 e|n0 cols]; cbn [con_cat] in Hkv.
  1: (destruct Hkv as [Hkv|[]]; injection Hkv as _ <-; reflexivity).
  1: destruct Hkv.
  2: (destruct Hkv as [Hkv|[]]; injection Hkv as _ <-; reflexivity).
  2: destruct Hkv.
  destruct Hkv as [Hkv|[]]. injection Hkv as _ <-.
  destruct (String.eqb rt tn) eqn:E; [|reflexivity]. exfalso.
  assert (existsb (fk_to tn (fun _ => true)) (t_constraints y) = true); [|congruence].
  apply existsb_exists. eexists. split; [exact Hk|]. cbn [fk_to]. now rewrite E.
Qed.

Theorem sim_pg_rename_table s a b : hyp_rename_table s a b = true -> step_sim s (RenameTable a b).
Proof.
  unfold hyp_rename_table. intro H. repeat (apply andb_prop in H; destruct H as [H ?]).
  rename H into Hnd, H0 into Ht, H1 into Hrow, H2 into Hfk, H3 into Hty, H4 into Hrel, H5 into Hnew.
  apply negb_true_iff in Hnew, Hrel, Hty.
  destruct (find (fun x => String.eqb (t_name x) a) s) as [t|] eqn:Hf; [|discriminate].
  apply andb_prop in Ht. destruct Ht as [Hchk Hen]. apply negb_true_iff in Hen.
  set (t' := mkTable b (t_description t) (t_columns t) (t_constraints t)).
  destruct (update_table_shape a (fun t0 => Ok (mkTable b (t_description t0) (t_columns t0) (t_constraints t0)))
              s t t' Hnd Hf eq_refl) as (A & C & Hs & Hup & Hoth).
  assert (Hap : apply_action s (RenameTable a b) = Ok (A ++ t' :: C)) by (cbn [apply_action]; now rewrite Hnew).
  unfold step_sim. rewrite (step_schema_ok s _ _ Hap).
  eexists. split; [reflexivity|]. eapply exec_all_cons_ok; [|reflexivity].
  cbn [exec]. rewrite find_table_catalog_of, Hf. cbn [option_map exec_alter_ops].
  unfold exec_alter_op. rewrite find_table_catalog_of, Hf. cbn [option_map]. rewrite Hrel, Hty.
  unfold catalog_of, set_tables. cbn [c_tables c_enums]. f_equal. f_equal.
  - (* tables *)
    rewrite Hs, !map_app. cbn [map].
    assert (Hfix : forall l, (forall y, In y l -> In y (A ++ C)) ->
              map (fun x => mkPt (if String.eqb (pt_name x) a then b else pt_name x)
                                 (map (fun y => if String.eqb (pc_type y) a
                                                then mkPc (pc_name y) b (pc_notnull y) (pc_default y) (pc_autoinc y) else y)
                                      (pt_cols x))
                                 (bt_map (fun k => match k with
                                                   | KFk cols rt rcols od ou => if String.eqb rt a then KFk cols b rcols od ou else k
                                                   | _ => k
                                                   end) (pt_cons x)) (pt_idx x)) (map table_cat l) = map table_cat l).
    { intros l Hl. rewrite map_map. apply map_ext_in. intros y Hy. pose proof (Hl y Hy) as HyAC.
      assert (Hne : String.eqb (pt_name (table_cat y)) a = false) by (rewrite pt_name_table_cat; exact (Hoth y HyAC)).
      rewrite Hne.
      assert (Hys : In y s) by (rewrite Hs; apply in_app_or in HyAC; apply in_or_app; destruct HyAC; [now left|right; now right]).
      rewrite forallb_forall in Hfk. pose proof (Hfk y Hys) as Hy1. apply negb_true_iff in Hy1.
      rewrite (other_table_fk_to a b y Hy1).
      rewrite forallb_forall in Hrow.
      assert (Hcols : map (fun z => if String.eqb (pc_type z) a
                                    then mkPc (pc_name z) b (pc_notnull z) (pc_default z) (pc_autoinc z) else z)
                          (pt_cols (table_cat y)) = pt_cols (table_cat y)).
      { rewrite <- (map_id (pt_cols (table_cat y))) at 2. apply map_ext_in. intros z Hz.
        assert (Hin : In (table_cat y) (c_tables (catalog_of s))) by (cbn [catalog_of c_tables]; now apply in_map).
        pose proof (Hrow _ Hin) as Hr. rewrite forallb_forall in Hr. pose proof (Hr z Hz) as Hz1.
        apply negb_true_iff in Hz1. now rewrite Hz1. }
      rewrite Hcols. now destruct (table_cat y). }
    rewrite (Hfix A) by (intros y Hy; apply in_or_app; now left).
    rewrite (Hfix C) by (intros y Hy; apply in_or_app; now right). f_equal. f_equal.
    rewrite pt_name_table_cat, (find_name _ _ _ Hf), String.eqb_refl.
    unfold t'. rewrite (table_cat_renamed t b Hchk Hen). f_equal.
    + rewrite <- (map_id (pt_cols (table_cat t))) at 2. apply map_ext_in. intros z Hz.
      rewrite forallb_forall in Hrow.
      assert (Hin : In (table_cat t) (c_tables (catalog_of s))).
      { cbn [catalog_of c_tables]. apply in_map. apply find_some in Hf. apply Hf. }
      pose proof (Hrow _ Hin) as Hr. rewrite forallb_forall in Hr. pose proof (Hr z Hz) as Hz1.
      apply negb_true_iff in Hz1. now rewrite Hz1.
    + apply (other_table_fk_to a b t). rewrite forallb_forall in Hfk. apply negb_true_iff. apply Hfk.
      apply find_some in Hf. apply Hf.
  - (* enum types *)
    rewrite Hs, !flat_map_app. cbn [flat_map]. f_equal. f_equal.
    unfold table_enums, t'. cbn [t_name t_columns]. now rewrite !(enums_none _ _ _ Hen).
Qed.
