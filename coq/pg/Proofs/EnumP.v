(* PG layer: infrastructure for the steps that create / drop / replace an enum type: catalogs with an arbitrary
   enum map over the tables of a schema, and how bt_of_list (flat_map table_enums _) changes when one table changes. *)
From VV.M1 Require Import BtP PrefixStrP.
From VV.PG Require Export SimColumnP.
From Coq Require Import Lia Permutation.

Definition cat_with (s : schema) (E0 : list (string * list string)) : catalog := mkCat (map table_cat s) E0.
Definition enums_of (s : schema) : list (string * list string) := bt_of_list (flat_map table_enums s).
Lemma catalog_of_cat_with s : catalog_of s = cat_with s (enums_of s).
Proof. reflexivity. Qed.

Lemma find_table_cat_with n s E0 :
  find_table n (cat_with s E0) = option_map table_cat (find (fun t => String.eqb (t_name t) n) s).
Proof. exact (find_table_catalog_of n s). Qed.

Lemma type_exists_cat_with n s E0 :
  type_exists n (cat_with s E0) = (bt_mem n E0 || has_table n s)%bool.
Proof.
  unfold type_exists, cat_with, has_table. cbn [c_enums c_tables]. f_equal. rewrite existsb_map. reflexivity.
Qed.

(* ---------- one table of the schema changes ---------- *)
Lemma update_table_decomp tn f : forall s t t',
  nodup_str (map t_name s) = true ->
  find (fun x => String.eqb (t_name x) tn) s = Some t ->
  f t = Ok t' -> t_name t' = t_name t ->
  exists s' A C, update_table tn f s = Ok s' /\
    map table_cat s' = map (fun y => if String.eqb (pt_name y) tn then table_cat t' else y) (map table_cat s) /\
    flat_map table_enums s = A ++ table_enums t ++ C /\
    flat_map table_enums s' = A ++ table_enums t' ++ C.
Proof.
  induction s as [|x r IH]; intros t t' Hnd Hf Hft Hname; [discriminate|].
  cbn [find] in Hf. cbn [update_table].
  cbn [map] in Hnd. apply nodup_str_cons in Hnd. destruct Hnd as [Hx Hr].
  destruct (String.eqb (t_name x) tn) eqn:E.
  - injection Hf as ->. rewrite Hft. exists (t' :: r), [], (flat_map table_enums r). split; [reflexivity|].
    apply String.eqb_eq in E. subst tn. repeat split.
    cbn [map]. rewrite pt_name_table_cat, String.eqb_refl. f_equal.
    symmetry. apply replace_others. now apply mem_str_map_name.
  - destruct (IH t t' Hr Hf Hft Hname) as (s' & A & C & Hu & Hc & H1 & H2).
    rewrite Hu. exists (x :: s'), (table_enums x ++ A), C. split; [reflexivity|]. repeat split.
    + cbn [map]. rewrite pt_name_table_cat, E. f_equal. exact Hc.
    + cbn [flat_map]. now rewrite H1, app_assoc.
    + cbn [flat_map]. now rewrite H2, app_assoc.
Qed.

Lemma cat_with_replace s s' tn T' E0 :
  map table_cat s' = map (fun y => if String.eqb (pt_name y) tn then T' else y) (map table_cat s) ->
  cat_with s' E0 = replace_table T' tn (cat_with s E0).
Proof. intro H. unfold cat_with, replace_table, map_table, set_tables. cbn [c_tables c_enums]. now rewrite H. Qed.

(* ---------- the enum map ---------- *)
Lemma bt_mem_of_list_keys {V} k (l : list (string * V)) : bt_mem k (bt_of_list l) = mem_str k (map fst l).
Proof.
  destruct (bt_mem k (bt_of_list l)) eqn:E; symmetry.
  - apply mem_str_In. now apply bt_mem_of_list.
  - destruct (mem_str k (map fst l)) eqn:E2; [|reflexivity].
    apply mem_str_In in E2. apply bt_mem_of_list in E2. congruence.
Qed.

Lemma enums_insert_perm (A X X' C : list (string * list string)) e :
  NoDup (map fst (A ++ X' ++ C)) -> Permutation X' (e :: X) ->
  bt_of_list (A ++ X' ++ C) = bt_insert (fst e) (snd e) (bt_of_list (A ++ X ++ C)).
Proof.
  intros Hnd Hp. destruct e as [k v]. cbn [fst snd]. rewrite <- bt_of_list_snoc. apply bt_perm; [exact Hnd|].
  eapply Permutation_trans; [apply Permutation_app_head, Permutation_app_tail, Hp|].
  cbn [app]. eapply Permutation_trans; [apply Permutation_sym, Permutation_middle|].
  rewrite app_assoc. apply Permutation_cons_append.
Qed.

Lemma enums_remove_perm (A X X' C : list (string * list string)) e :
  NoDup (map fst (A ++ X ++ C)) -> Permutation X (e :: X') ->
  bt_remove (fst e) (bt_of_list (A ++ X ++ C)) = bt_of_list (A ++ X' ++ C).
Proof.
  intros Hnd Hp.
  assert (Hp2 : Permutation (A ++ X ++ C) (e :: A ++ X' ++ C)).
  { eapply Permutation_trans; [apply Permutation_app_head, Permutation_app_tail, Hp|].
    cbn [app]. apply Permutation_sym, Permutation_middle. }
  rewrite (bt_perm _ _ Hnd Hp2), bt_remove_of_list. f_equal. cbn [filter fst].
  rewrite String.eqb_refl. cbn [negb]. apply filter_all.
  intros kv Hin. apply negb_true_iff, String.eqb_neq. intro Heq.
  assert (Hnd2 : NoDup (map fst (e :: A ++ X' ++ C))).
  { eapply Permutation_NoDup; [apply Permutation_map, Hp2|exact Hnd]. }
  cbn [map] in Hnd2. inversion Hnd2; subst. apply H1. rewrite <- Heq. now apply in_map.
Qed.

(* ---------- AddColumn over an arbitrary enum map: both statement sequences ---------- *)
Section AddCore.
Variables (s : schema) (tn : string) (t : table_def) (col : column_def) (E0 : list (string * list string)).
Let t' := mkTable (t_name t) (t_description t) (t_columns t ++ [col]) (t_constraints t).
Hypothesis Hnd : nodup_str (map t_name s) = true.
Hypothesis Hf : find (fun x => String.eqb (t_name x) tn) s = Some t.
Hypothesis Hnew : has_column (c_name col) t = false.
Hypothesis Hnorm : normalize t' = Ok t'.
Hypothesis Hres : resolve_type (cat_with s E0) (sea_type tn (c_type col)) = Ok (cat_type tn (c_type col), false).
Hypothesis Hpk : match pk_of t with Some (_, cols) => negb (mem_str (c_name col) cols) | None => true end = true.

Lemma add_core_apply : exists s' A C,
  (forall fw, apply_action s (AddColumn tn col fw) = Ok s') /\
  cat_with s' E0 = replace_table (table_cat t') tn (cat_with s E0) /\
  flat_map table_enums s = A ++ table_enums t ++ C /\ flat_map table_enums s' = A ++ table_enums t' ++ C.
Proof.
  assert (Hft : (fun t0 : table_def =>
                  if has_column (c_name col) t0 then Err (ColumnExists tn (c_name col))
                  else match normalize (mkTable (t_name t0) (t_description t0) (t_columns t0 ++ [col]) (t_constraints t0)) with
                       | Err _ => Err TableValidation
                       | Ok n => Ok n
                       end) t = @Ok table_def planner_error t').
  { cbv beta. rewrite Hnew. fold t'. now rewrite Hnorm. }
  destruct (update_table_decomp tn _ s t t' Hnd Hf Hft eq_refl) as (s' & A & C & Hup & Hc & H1 & H2).
  exists s', A, C. split; [intro fw; cbn [apply_action]; exact Hup|]. split; [now apply cat_with_replace|]. split; assumption.
Qed.

Lemma new_col_cat : col_cat t' col
  = mkPc (c_name col) (cat_type tn (c_type col)) (negb (c_nullable col)) (column_default_text col) false.
Proof.
  pose proof (find_name _ _ _ Hf) as Hname.
  unfold col_cat, t'. cbn [t_name t_constraints]. rewrite Hname.
  unfold pk_of in *. cbn [t_constraints].
  destruct (find is_pk (t_constraints t)) as [[a cols| | | |]|]; try (now rewrite orb_false_r).
  apply negb_true_iff in Hpk. rewrite Hpk. cbn [andb]. rewrite orb_false_r. now destruct a.
Qed.

Lemma table_cat_added : table_cat t' = mkPt (pt_name (table_cat t)) (pt_cols (table_cat t) ++ [col_cat t' col])
                                             (pt_cons (table_cat t)) (pt_idx (table_cat t)).
Proof.
  unfold table_cat, t'. cbn [t_name t_columns t_constraints pt_name pt_cols pt_cons pt_idx].
  f_equal. rewrite map_app. reflexivity.
Qed.

(* single statement *)
Lemma add_core_plain s' :
  cat_with s' E0 = replace_table (table_cat t') tn (cat_with s E0) ->
  exec (cat_with s E0) (SAlterTable tn [AAddColumn (sea_coldef tn col)]) = Ok (cat_with s' E0).
Proof.
  intro Hc. cbn [exec]. rewrite find_table_cat_with, Hf. cbn [option_map exec_alter_ops].
  unfold exec_alter_op. rewrite find_table_cat_with, Hf. cbn [option_map].
  unfold sea_coldef at 1. cbn [cd_name]. rewrite has_col_table_cat, Hnew.
  unfold mk_col, sea_coldef. cbn [cd_type cd_name cd_notnull cd_default cd_pk]. rewrite Hres.
  rewrite Hc, table_cat_added, new_col_cat. reflexivity.
Qed.

(* ADD COLUMN (nullable); UPDATE; ALTER COLUMN .. TYPE .., ALTER COLUMN .. SET NOT NULL *)
Lemma add_core_backfill s' e :
  c_nullable col = false -> c_default col = None ->
  cat_with s' E0 = replace_table (table_cat t') tn (cat_with s E0) ->
  exec_all (cat_with s E0)
    ([SAlterTable tn [AAddColumn (sea_coldef tn (set_nullable true col))]]
     ++ [SUpdate tn (c_name col) e None] ++ [SAlterTable tn (modify_column_ops (sea_coldef tn col))])
  = Ok (cat_with s' E0).
Proof.
  intros Hnn Edef Hc.
  set (cn := c_name col). set (ty := cat_type tn (c_type col)).
  set (T := table_cat t).
  set (x1 := mkPc cn ty false None false). set (x2 := mkPc cn ty true None false).
  set (T1 := mkPt (pt_name T) (pt_cols T ++ [x1]) (pt_cons T) (pt_idx T)).
  set (T2 := mkPt (pt_name T) (pt_cols T ++ [x2]) (pt_cons T) (pt_idx T)).
  assert (HT : find_table tn (cat_with s E0) = Some T) by (rewrite find_table_cat_with, Hf; reflexivity).
  assert (HTn : pt_name T = tn) by (unfold T; rewrite pt_name_table_cat; exact (find_name _ _ _ Hf)).
  assert (Hnocol : existsb (fun y => String.eqb (pc_name y) cn) (pt_cols T) = false).
  { fold (has_col cn T). unfold T. now rewrite has_col_table_cat. }
  assert (Hd1 : column_default_text (set_nullable true col) = None)
    by (unfold column_default_text; cbn [set_nullable c_default]; now rewrite Edef).
  assert (Hd2 : column_default_text col = None) by (unfold column_default_text; now rewrite Edef).
  assert (S1 : exec (cat_with s E0) (SAlterTable tn [AAddColumn (sea_coldef tn (set_nullable true col))])
               = Ok (replace_table T1 tn (cat_with s E0))).
  { cbn [exec]. rewrite HT. cbn [exec_alter_ops]. unfold exec_alter_op. rewrite HT.
    unfold sea_coldef. cbn [cd_name cd_type cd_notnull cd_default cd_pk set_nullable c_name c_type c_nullable negb].
    fold cn. change (has_col cn T) with (existsb (fun y => String.eqb (pc_name y) cn) (pt_cols T)). rewrite Hnocol.
    unfold mk_col. cbn [cd_type cd_name cd_notnull cd_default]. rewrite Hres, Hd1. reflexivity. }
  set (c1 := replace_table T1 tn (cat_with s E0)).
  assert (HT1 : find_table tn c1 = Some T1) by (apply (find_replace tn _ T T1 HT HTn)).
  assert (S2 : exec c1 (SUpdate tn cn e None) = Ok c1).
  { cbn [exec]. rewrite HT1. unfold has_col, T1. cbn [pt_cols]. rewrite existsb_app. cbn [existsb pc_name x1].
    now rewrite String.eqb_refl, orb_true_r. }
  assert (Hfc1 : find_col cn T1 = Some x1) by (apply find_col_snoc; [exact Hnocol|reflexivity]).
  assert (Hsame : update_col T1 cn (fun _ => x1) = T1).
  { unfold update_col, T1. cbn [pt_name pt_cols pt_cons pt_idx]. f_equal. apply update_snoc; [exact Hnocol|reflexivity]. }
  assert (Hnn2 : update_col T1 cn (fun _ => x2) = T2).
  { unfold update_col, T1, T2. cbn [pt_name pt_cols pt_cons pt_idx]. f_equal. apply update_snoc; [exact Hnocol|reflexivity]. }
  assert (S3 : exec c1 (SAlterTable tn (modify_column_ops (sea_coldef tn col))) = Ok (replace_table T2 tn (cat_with s E0))).
  { unfold modify_column_ops, sea_coldef. cbn [cd_name cd_type cd_notnull cd_default]. rewrite Hnn, Hd2. cbn [negb app].
    cbn [exec]. rewrite HT1. cbn [exec_alter_ops]. fold cn.
    assert (O1 : exec_alter_op c1 tn (AAlterType cn (sea_type tn (c_type col)) None) = Ok (c1, tn)).
    { unfold exec_alter_op. rewrite HT1, Hfc1. unfold c1 at 1. rewrite (resolve_replace tn _ T T1 _ HT HTn), Hres.
      cbn [pc_name pc_type pc_notnull pc_default pc_autoinc x1 orb]. fold ty. fold x1. rewrite Hsame.
      unfold c1. now rewrite (replace_replace tn _ T1 T1 HTn). }
    rewrite O1.
    unfold exec_alter_op. rewrite HT1, Hfc1. cbn [pc_name pc_type pc_default pc_autoinc x1]. fold x2. rewrite Hnn2.
    unfold c1. now rewrite (replace_replace tn _ T1 T2 HTn). }
  cbn [app exec_all]. rewrite S1. fold c1. fold cn. rewrite S2, S3. f_equal.
  rewrite Hc, table_cat_added, new_col_cat. unfold T2, T, x2, cn, ty. now rewrite Hnn, Hd2.
Qed.
End AddCore.

(* ---------- AddColumn of a string-enum column ---------- *)
Lemma enums_of_cols_snoc_enum tn col en vals : c_type col = TEnum en vals -> ev_is_integer vals = false ->
  forall cols seen, mem_str en seen = false ->
  existsb (fun x => match enum_name (c_type x) with Some m => String.eqb m en | None => false end) cols = false ->
  enums_of_cols tn (cols ++ [col]) seen
  = enums_of_cols tn cols seen ++ [(build_enum_type_name tn en, enum_sql_values vals)].
Proof.
  intros Hc Hi. induction cols as [|c r IH]; intros seen Hs Hno; cbn [app enums_of_cols].
  - now rewrite Hc, Hi, Hs.
  - cbn [existsb] in Hno. apply orb_false_iff in Hno. destruct Hno as [Hc0 Hr].
    destruct (c_type c) as [st|vl|np ns|cl|cu|e v]; try (now apply IH).
    cbn [enum_name] in Hc0.
    destruct (ev_is_integer v || mem_str e seen)%bool; [now apply IH|].
    cbn [app]. f_equal. apply IH; [|exact Hr]. cbn [mem_str existsb]. now rewrite BtP.str_eqb_sym, Hc0.
Qed.

Lemma exec_create_type s N L :
  forallb is_quoted_literal L = true -> first_dup L = None -> type_exists N (catalog_of s) = false ->
  exec (catalog_of s) (SCreateType N L) = Ok (cat_with s (bt_insert N L (enums_of s))).
Proof. intros H1 H2 H3. cbn [exec]. now rewrite H1, H3, H2. Qed.

Lemma nodup_perm_insert (A X C : list (string * list string)) e :
  nodup_str (map fst (A ++ X ++ C)) = true -> mem_str (fst e) (map fst (A ++ X ++ C)) = false ->
  NoDup (map fst (A ++ (X ++ [e]) ++ C)).
Proof.
  intros Hnd Hn. apply (Permutation_NoDup (l := map fst (e :: A ++ X ++ C))).
  - apply Permutation_map. rewrite <- (app_assoc X [e] C). cbn [app].
    rewrite (app_assoc A X (e :: C)), (app_assoc A X C). apply Permutation_middle.
  - cbn [map]. constructor; [|now apply nodup_str_NoDup].
    intro Hin. apply mem_str_In in Hin. congruence.
Qed.

Theorem sim_pg_add_column_enum s tn col fw :
  hyp_add_column_enum s tn col fw = true -> step_sim s (AddColumn tn col fw).
Proof.
  unfold hyp_add_column_enum. intro H. apply andb_prop in H. destruct H as [Hnd H].
  destruct (find (fun x => String.eqb (t_name x) tn) s) as [t|] eqn:Hf; [|discriminate].
  destruct (c_type col) as [st|vl|np ns|cl|cu|en vals] eqn:Ety; try discriminate.
  cbv zeta in H.
  repeat (apply andb_prop in H; destruct H as [H ?]).
  rename H into Hstr, H0 into Hpk, H1 into Hres, H2 into Hdup, H3 into Hlit, H4 into Htex, H5 into Hnew,
         H6 into Hend, H7 into Hnorm, H8 into Hshared, H9 into Hcolnew.
  apply negb_true_iff in Hstr, Hcolnew, Hshared, Hnew, Htex.
  set (N := build_enum_type_name tn en) in *. set (L := enum_sql_values vals) in *.
  set (t' := mkTable (t_name t) (t_description t) (t_columns t ++ [col]) (t_constraints t)) in *.
  destruct (normalize t') as [nt|] eqn:En; [|discriminate].
  unfold table_def_eqb, dec_b in Hnorm. destruct (table_def_eq_dec nt t') as [->|]; [|discriminate].
  destruct (first_dup L) eqn:Efd; [discriminate|]. clear Hdup.
  set (E1 := bt_insert N L (enums_of s)).
  assert (Hres' : resolve_type (cat_with s E1) (sea_type tn (c_type col)) = Ok (cat_type tn (c_type col), false)).
  { rewrite Ety in *. change (cat_with s E1) with (with_enums (catalog_of s) [(N, L)]).
    destruct (resolve_type (with_enums (catalog_of s) [(N, L)]) (sea_type tn (TEnum en vals))) as [[x b]|]; [|discriminate].
    destruct b; [discriminate|]. apply String.eqb_eq in Hres. subst x. cbn [cat_type]. now rewrite Hstr. }
  destruct (add_core_apply s tn t col E1 Hnd Hf Hcolnew En) as (s' & A & C & Hap & Hc & Hd1 & Hd2).
  (* the enum map afterwards *)
  pose proof (find_name _ _ _ Hf) as Hname.
  assert (Hte : table_enums t' = table_enums t ++ [(N, L)]).
  { unfold table_enums, t'. cbn [t_name t_columns]. rewrite Hname.
    apply (enums_of_cols_snoc_enum tn col en vals Ety Hstr); [reflexivity|].
    unfold other_col_with_enum, table_cols, table_named in Hshared. rewrite Hf in Hshared.
    etransitivity; [|exact Hshared]. apply existsb_ext_in. intros x Hx.
    assert (Hne : String.eqb (c_name x) (c_name col) = false).
    { destruct (String.eqb (c_name x) (c_name col)) eqn:E; [|reflexivity]. exfalso.
      apply String.eqb_eq in E. unfold has_column in Hcolnew.
      assert (existsb (fun c => String.eqb (c_name c) (c_name col)) (t_columns t) = true); [|congruence].
      apply existsb_exists. exists x. split; [exact Hx|]. rewrite E. apply String.eqb_refl. }
    now rewrite Hne. }
  assert (Hafter : catalog_of s' = cat_with s' E1).
  { rewrite catalog_of_cat_with. f_equal. unfold E1, enums_of. rewrite Hd2. fold t'. rewrite Hte, Hd1.
    apply (enums_insert_perm A (table_enums t) (table_enums t ++ [(N, L)]) C (N, L)).
    - apply nodup_perm_insert; rewrite <- Hd1; assumption.
    - apply Permutation_sym, Permutation_cons_append. }
  assert (Hct : exec (catalog_of s) (SCreateType N L) = Ok (cat_with s E1)) by (now apply exec_create_type).
  unfold step_sim. rewrite (step_schema_ok s _ s') by apply Hap. rewrite Hafter.
  assert (Hcet : create_enum_type tn (c_type col) = [SCreateType N L]).
  { rewrite Ety. unfold create_enum_type. now rewrite Hstr. }
  cbn [gen]. unfold gen_add_column. rewrite Hcet.
  destruct (negb (c_nullable col) && match c_default col with None => true | Some _ => false end
            && match fw with Some _ => true | None => false end)%bool eqn:Ebf.
  - (* back-fill sequence *)
    apply andb_prop in Ebf. destruct Ebf as [Ebf Hfw]. apply andb_prop in Ebf. destruct Ebf as [Hnn Hdef].
    apply negb_true_iff in Hnn. destruct (c_default col) eqn:Edef; [discriminate|]. destruct fw as [fv|]; [|discriminate].
    eexists. split; [reflexivity|]. cbn [normalize_fill_with option_map app].
    eapply exec_all_cons_ok; [exact Hct|].
    pose proof (add_core_backfill s tn t col E1 Hf Hcolnew Hres' Hpk s' (convert_default_pg (if String.eqb fv "" then "''" else fv)) Hnn Edef Hc) as Hb.
    cbn [app] in Hb. exact Hb.
  - eexists. split; [reflexivity|]. cbn [app].
    eapply exec_all_cons_ok; [exact Hct|]. cbn [exec_all].
    now rewrite (add_core_plain s tn t col E1 Hf Hcolnew Hres' Hpk s' Hc).
Qed.
