(* PG layer: infrastructure for the steps that create / drop / replace an enum type: catalogs with an arbitrary
   enum map over the tables of a schema, and how bt_of_list (flat_map table_enums _) changes when one table changes. *)
From VV.M1 Require Import BtP PrefixStrP.
From VV.PG Require Export SimColumnP.
From Coq Require Import Lia Permutation.

Definition cat_with (s : schema) (E0 : list (string * list string)) : catalog := mkCat (map table_cat s) E0.
Definition enums_of (s : schema) : list (string * list string) := bt_of_list (flat_map table_enums s).
Lemma catalog_of_cat_with s : catalog_of s = cat_with s (enums_of s).
Proof. reflexivity. Qed.

Lemma find_table_cat_with n s E0 :
  find_table n (cat_with s E0) = option_map table_cat (find (fun t => String.eqb (t_name t) n) s).
Proof. exact (find_table_catalog_of n s). Qed.

Lemma type_exists_cat_with n s E0 :
  type_exists n (cat_with s E0) = (bt_mem n E0 || has_table n s)%bool.
Proof.
  unfold type_exists, cat_with, has_table. cbn [c_enums c_tables]. f_equal. rewrite existsb_map. reflexivity.
Qed.

(* ---------- one table of the schema changes ---------- *)
Lemma update_table_decomp tn f : forall s t t',
  nodup_str (map t_name s) = true ->
  find (fun x => String.eqb (t_name x) tn) s = Some t ->
  f t = Ok t' -> t_name t' = t_name t ->
  exists s' A C, update_table tn f s = Ok s' /\
    map table_cat s' = map (fun y => if String.eqb (pt_name y) tn then table_cat t' else y) (map table_cat s) /\
    flat_map table_enums s = A ++ table_enums t ++ C /\
    flat_map table_enums s' = A ++ table_enums t' ++ C.
Proof.
  induction s as [|x r IH]; intros t t' Hnd Hf Hft Hname; [discriminate|].
  cbn [find] in Hf. cbn [update_table].
  cbn [map] in Hnd. apply nodup_str_cons in Hnd. destruct Hnd as [Hx Hr].
  destruct (String.eqb (t_name x) tn) eqn:E.
  - injection Hf as ->. rewrite Hft. exists (t' :: r), [], (flat_map table_enums r). split; [reflexivity|].
    apply String.eqb_eq in E. subst tn. repeat split.
    cbn [map]. rewrite pt_name_table_cat, String.eqb_refl. f_equal.
    symmetry. apply replace_others. now apply mem_str_map_name.
  - destruct (IH t t' Hr Hf Hft Hname) as (s' & A & C & Hu & Hc & H1 & H2).
    rewrite Hu. exists (x :: s'), (table_enums x ++ A), C. split; [reflexivity|]. repeat split.
    + cbn [map]. rewrite pt_name_table_cat, E. f_equal. exact Hc.
    + cbn [flat_map]. now rewrite H1, app_assoc.
    + cbn [flat_map]. now rewrite H2, app_assoc.
Qed.

Lemma cat_with_replace s s' tn T' E0 :
  map table_cat s' = map (fun y => if String.eqb (pt_name y) tn then T' else y) (map table_cat s) ->
  cat_with s' E0 = replace_table T' tn (cat_with s E0).
Proof. intro H. unfold cat_with, replace_table, map_table, set_tables. cbn [c_tables c_enums]. now rewrite H. Qed.

(* ---------- the enum map ---------- *)
Lemma bt_mem_of_list_keys {V} k (l : list (string * V)) : bt_mem k (bt_of_list l) = mem_str k (map fst l).
Proof.
  destruct (bt_mem k (bt_of_list l)) eqn:E; symmetry.
  - apply mem_str_In. now apply bt_mem_of_list.
  - destruct (mem_str k (map fst l)) eqn:E2; [|reflexivity].
    apply mem_str_In in E2. apply bt_mem_of_list in E2. congruence.
Qed.

Lemma enums_insert_perm (A X X' C : list (string * list string)) e :
  NoDup (map fst (A ++ X' ++ C)) -> Permutation X' (e :: X) ->
  bt_of_list (A ++ X' ++ C) = bt_insert (fst e) (snd e) (bt_of_list (A ++ X ++ C)).
Proof.
  intros Hnd Hp. destruct e as [k v]. cbn [fst snd]. rewrite <- bt_of_list_snoc. apply bt_perm; [exact Hnd|].
  eapply Permutation_trans; [apply Permutation_app_head, Permutation_app_tail, Hp|].
  cbn [app]. eapply Permutation_trans; [apply Permutation_sym, Permutation_middle|].
  rewrite app_assoc. apply Permutation_cons_append.
Qed.

Lemma enums_remove_perm (A X X' C : list (string * list string)) e :
  NoDup (map fst (A ++ X ++ C)) -> Permutation X (e :: X') ->
  bt_remove (fst e) (bt_of_list (A ++ X ++ C)) = bt_of_list (A ++ X' ++ C).
Proof.
  intros Hnd Hp.
  assert (Hp2 : Permutation (A ++ X ++ C) (e :: A ++ X' ++ C)).
  { eapply Permutation_trans; [apply Permutation_app_head, Permutation_app_tail, Hp|].
    cbn [app]. apply Permutation_sym, Permutation_middle. }
  rewrite (bt_perm _ _ Hnd Hp2), bt_remove_of_list. f_equal. cbn [filter fst].
  rewrite String.eqb_refl. cbn [negb]. apply filter_all.
  intros kv Hin. apply negb_true_iff, String.eqb_neq. intro Heq.
  assert (Hnd2 : NoDup (map fst (e :: A ++ X' ++ C))).
  { eapply Permutation_NoDup; [apply Permutation_map, Hp2|exact Hnd]. }
  cbn [map] in Hnd2. inversion Hnd2; subst. apply H1. rewrite <- Heq. now apply in_map.
Qed.

(* ---------- AddColumn over an arbitrary enum map: both statement sequences ---------- *)
Section AddCore.
Variables (s : schema) (tn : string) (t : table_def) (col : column_def) (E0 : list (string * list string)).
Let t' := mkTable (t_name t) (t_description t) (t_columns t ++ [col]) (t_constraints t).
Hypothesis Hnd : nodup_str (map t_name s) = true.
Hypothesis Hf : find (fun x => String.eqb (t_name x) tn) s = Some t.
Hypothesis Hnew : has_column (c_name col) t = false.
Hypothesis Hnorm : normalize t' = Ok t'.
Hypothesis Hres : resolve_type (cat_with s E0) (sea_type tn (c_type col)) = Ok (cat_type tn (c_type col), false).
Hypothesis Hpk : match pk_of t with Some (_, cols) => negb (mem_str (c_name col) cols) | None => true end = true.

Lemma add_core_apply : exists s' A C,
  (forall fw, apply_action s (AddColumn tn col fw) = Ok s') /\
  cat_with s' E0 = replace_table (table_cat t') tn (cat_with s E0) /\
  flat_map table_enums s = A ++ table_enums t ++ C /\ flat_map table_enums s' = A ++ table_enums t' ++ C.
Proof.
  assert (Hft : (fun t0 : table_def =>
                  if has_column (c_name col) t0 then Err (ColumnExists tn (c_name col))
                  else match normalize (mkTable (t_name t0) (t_description t0) (t_columns t0 ++ [col]) (t_constraints t0)) with
                       | Err _ => Err TableValidation
                       | Ok n => Ok n
                       end) t = @Ok table_def planner_error t').
  { cbv beta. rewrite Hnew. fold t'. now rewrite Hnorm. }
  destruct (update_table_decomp tn _ s t t' Hnd Hf Hft eq_refl) as (s' & A & C & Hup & Hc & H1 & H2).
  exists s', A, C. split; [intro fw; cbn [apply_action]; exact Hup|]. split; [now apply cat_with_replace|]. split; assumption.
Qed.

Lemma new_col_cat : col_cat t' col
  = mkPc (c_name col) (cat_type tn (c_type col)) (negb (c_nullable col)) (column_default_text col) false.
Proof.
  pose proof (find_name _ _ _ Hf) as Hname.
  unfold col_cat, t'. cbn [t_name t_constraints]. rewrite Hname.
  unfold pk_of in *. cbn [t_constraints].
  destruct (find is_pk (t_constraints t)) as [[a cols| | | |]|]; try (now rewrite orb_false_r).
  apply negb_true_iff in Hpk. rewrite Hpk. cbn [andb]. rewrite orb_false_r. now destruct a.
Qed.

Lemma table_cat_added : table_cat t' = mkPt (pt_name (table_cat t)) (pt_cols (table_cat t) ++ [col_cat t' col])
                                             (pt_cons (table_cat t)) (pt_idx (table_cat t)).
Proof.
  unfold table_cat, t'. cbn [t_name t_columns t_constraints pt_name pt_cols pt_cons pt_idx].
  f_equal. rewrite map_app. reflexivity.
Qed.

(* single statement *)
Lemma add_core_plain s' :
  cat_with s' E0 = replace_table (table_cat t') tn (cat_with s E0) ->
  exec (cat_with s E0) (SAlterTable tn [AAddColumn (sea_coldef tn col)]) = Ok (cat_with s' E0).
Proof.
  intro Hc. cbn [exec]. rewrite find_table_cat_with, Hf. cbn [option_map exec_alter_ops].
  unfold exec_alter_op. rewrite find_table_cat_with, Hf. cbn [option_map].
  unfold sea_coldef at 1. cbn [cd_name]. rewrite has_col_table_cat, Hnew.
  unfold mk_col, sea_coldef. cbn [cd_type cd_name cd_notnull cd_default cd_pk]. rewrite Hres.
  rewrite Hc, table_cat_added, new_col_cat. reflexivity.
Qed.

(* ADD COLUMN (nullable); UPDATE; ALTER COLUMN .. TYPE .., ALTER COLUMN .. SET NOT NULL *)
Lemma add_core_backfill s' e :
  c_nullable col = false -> c_default col = None ->
  cat_with s' E0 = replace_table (table_cat t') tn (cat_with s E0) ->
  exec_all (cat_with s E0)
    ([SAlterTable tn [AAddColumn (sea_coldef tn (set_nullable true col))]]
     ++ [SUpdate tn (c_name col) e None] ++ [SAlterTable tn (modify_column_ops (sea_coldef tn col))])
  = Ok (cat_with s' E0).
Proof.
  intros Hnn Edef Hc.
  set (cn := c_name col). set (ty := cat_type tn (c_type col)).
  set (T := table_cat t).
  set (x1 := mkPc cn ty false None false). set (x2 := mkPc cn ty true None false).
  set (T1 := mkPt (pt_name T) (pt_cols T ++ [x1]) (pt_cons T) (pt_idx T)).
  set (T2 := mkPt (pt_name T) (pt_cols T ++ [x2]) (pt_cons T) (pt_idx T)).
  assert (HT : find_table tn (cat_with s E0) = Some T) by (rewrite find_table_cat_with, Hf; reflexivity).
  assert (HTn : pt_name T = tn) by (unfold T; rewrite pt_name_table_cat; exact (find_name _ _ _ Hf)).
  assert (Hnocol : existsb (fun y => String.eqb (pc_name y) cn) (pt_cols T) = false).
  { fold (has_col cn T). unfold T. now rewrite has_col_table_cat. }
  assert (Hd1 : column_default_text (set_nullable true col) = None)
    by (unfold column_default_text; cbn [set_nullable c_default]; now rewrite Edef).
  assert (Hd2 : column_default_text col = None) by (unfold column_default_text; now rewrite Edef).
  assert (S1 : exec (cat_with s E0) (SAlterTable tn [AAddColumn (sea_coldef tn (set_nullable true col))])
               = Ok (replace_table T1 tn (cat_with s E0))).
  { cbn [exec]. rewrite HT. cbn [exec_alter_ops]. unfold exec_alter_op. rewrite HT.
    unfold sea_coldef. cbn [cd_name cd_type cd_notnull cd_default cd_pk set_nullable c_name c_type c_nullable negb].
    fold cn. change (has_col cn T) with (existsb (fun y => String.eqb (pc_name y) cn) (pt_cols T)). rewrite Hnocol.
    unfold mk_col. cbn [cd_type cd_name cd_notnull cd_default]. rewrite Hres, Hd1. reflexivity. }
  set (c1 := replace_table T1 tn (cat_with s E0)).
  assert (HT1 : find_table tn c1 = Some T1) by (apply (find_replace tn _ T T1 HT HTn)).
  assert (S2 : exec c1 (SUpdate tn cn e None) = Ok c1).
  { cbn [exec]. rewrite HT1. unfold has_col, T1. cbn [pt_cols]. rewrite existsb_app. cbn [existsb pc_name x1].
    now rewrite String.eqb_refl, orb_true_r. }
  assert (Hfc1 : find_col cn T1 = Some x1) by (apply find_col_snoc; [exact Hnocol|reflexivity]).
  assert (Hsame : update_col T1 cn (fun _ => x1) = T1).
  { unfold update_col, T1. cbn [pt_name pt_cols pt_cons pt_idx]. f_equal. apply update_snoc; [exact Hnocol|reflexivity]. }
  assert (Hnn2 : update_col T1 cn (fun _ => x2) = T2).
  { unfold update_col, T1, T2. cbn [pt_name pt_cols pt_cons pt_idx]. f_equal. apply update_snoc; [exact Hnocol|reflexivity]. }
  assert (S3 : exec c1 (SAlterTable tn (modify_column_ops (sea_coldef tn col))) = Ok (replace_table T2 tn (cat_with s E0))).
  { unfold modify_column_ops, sea_coldef. cbn [cd_name cd_type cd_notnull cd_default]. rewrite Hnn, Hd2. cbn [negb app].
    cbn [exec]. rewrite HT1. cbn [exec_alter_ops]. fold cn.
    assert (O1 : exec_alter_op c1 tn (AAlterType cn (sea_type tn (c_type col)) None) = Ok (c1, tn)).
    { unfold exec_alter_op. rewrite HT1, Hfc1. unfold c1 at 1. rewrite (resolve_replace tn _ T T1 _ HT HTn), Hres.
      cbn [pc_name pc_type pc_notnull pc_default pc_autoinc x1 orb]. fold ty. fold x1. rewrite Hsame.
      unfold c1. now rewrite (replace_replace tn _ T1 T1 HTn). }
    rewrite O1.
    unfold exec_alter_op. rewrite HT1, Hfc1. cbn [pc_name pc_type pc_default pc_autoinc x1]. fold x2. rewrite Hnn2.
    unfold c1. now rewrite (replace_replace tn _ T1 T2 HTn). }
  cbn [app exec_all]. rewrite S1. fold c1. fold cn. rewrite S2, S3. f_equal.
  rewrite Hc, table_cat_added, new_col_cat. unfold T2, T, x2, cn, ty. now rewrite Hnn, Hd2.
Qed.
End AddCore.

(* ---------- AddColumn of a string-enum column ---------- *)
Lemma enums_of_cols_snoc_enum tn col en vals : c_type col = TEnum en vals -> ev_is_integer vals = false ->
  forall cols seen, mem_str en seen = false ->
  existsb (fun x => match enum_name (c_type x) with Some m => String.eqb m en | None => false end) cols = false ->
  enums_of_cols tn (cols ++ [col]) seen
  = enums_of_cols tn cols seen ++ [(build_enum_type_name tn en, enum_sql_values vals)].
Proof.
  intros Hc Hi. induction cols as [|c r IH]; intros seen Hs Hno; cbn [app enums_of_cols].
  - now rewrite Hc, Hi, Hs.
  - cbn [existsb] in Hno. apply orb_false_iff in Hno. destruct Hno as [Hc0 Hr].
    destruct (c_type c) as [st|vl|np ns|cl|cu|e v]; try (now apply IH).
    cbn [enum_name] in Hc0.
    destruct (ev_is_integer v || mem_str e seen)%bool; [now apply IH|].
    cbn [app]. f_equal. apply IH; [|exact Hr]. cbn [mem_str existsb]. now rewrite BtP.str_eqb_sym, Hc0.
Qed.

Lemma exec_create_type s N L :
  forallb is_quoted_literal L = true -> first_dup L = None -> type_exists N (catalog_of s) = false ->
  exec (catalog_of s) (SCreateType N L) = Ok (cat_with s (bt_insert N L (enums_of s))).
Proof. intros H1 H2 H3. cbn [exec]. now rewrite H1, H3, H2. Qed.

Lemma nodup_perm_insert (A X C : list (string * list string)) e :
  nodup_str (map fst (A ++ X ++ C)) = true -> mem_str (fst e) (map fst (A ++ X ++ C)) = false ->
  NoDup (map fst (A ++ (X ++ [e]) ++ C)).
Proof.
  intros Hnd Hn. apply (Permutation_NoDup (l := map fst (e :: A ++ X ++ C))).
  - apply Permutation_map. rewrite <- (app_assoc X [e] C). cbn [app].
    rewrite (app_assoc A X (e :: C)), (app_assoc A X C). apply Permutation_middle.
  - cbn [map]. constructor; [|now apply nodup_str_NoDup].
    intro Hin. apply mem_str_In in Hin. congruence.
Qed.

Theorem sim_pg_add_column_enum s tn col fw :
  hyp_add_column_enum s tn col fw = true -> step_sim s (AddColumn tn col fw).
Proof.
  unfold hyp_add_column_enum. intro H. apply andb_prop in H. destruct H as [Hnd H].
  destruct (find (fun x => String.eqb (t_name x) tn) s) as [t|] eqn:Hf; [|discriminate].
  destruct (c_type col) as [st|vl|np ns|cl|cu|en vals] eqn:Ety; try discriminate.
  cbv zeta in H.
  repeat (apply andb_prop in H; destruct H as [H ?]).
  rename H into Hstr, H0 into Hpk, H1 into Hres, H2 into Hdup, H3 into Hlit, H4 into Htex, H5 into Hnew,
         H6 into Hend, H7 into Hnorm, H8 into Hshared, H9 into Hcolnew.
  apply negb_true_iff in Hstr, Hcolnew, Hshared, Hnew, Htex.
  set (N := build_enum_type_name tn en) in *. set (L := enum_sql_values vals) in *.
  set (t' := mkTable (t_name t) (t_description t) (t_columns t ++ [col]) (t_constraints t)) in *.
  destruct (normalize t') as [nt|] eqn:En; [|discriminate].
  unfold table_def_eqb, dec_b in Hnorm. destruct (table_def_eq_dec nt t') as [->|]; [|discriminate].
  destruct (first_dup L) eqn:Efd; [discriminate|]. clear Hdup.
  set (E1 := bt_insert N L (enums_of s)).
  assert (Hres' : resolve_type (cat_with s E1) (sea_type tn (c_type col)) = Ok (cat_type tn (c_type col), false)).
  { rewrite Ety in *. change (cat_with s E1) with (with_enums (catalog_of s) [(N, L)]).
    destruct (resolve_type (with_enums (catalog_of s) [(N, L)]) (sea_type tn (TEnum en vals))) as [[x b]|]; [|discriminate].
    destruct b; [discriminate|]. apply String.eqb_eq in Hres. subst x. cbn [cat_type]. now rewrite Hstr. }
  destruct (add_core_apply s tn t col E1 Hnd Hf Hcolnew En) as (s' & A & C & Hap & Hc & Hd1 & Hd2).
  (* the enum map afterwards *)
  pose proof (find_name _ _ _ Hf) as Hname.
  assert (Hte : table_enums t' = table_enums t ++ [(N, L)]).
  { unfold table_enums, t'. cbn [t_name t_columns]. rewrite Hname.
    apply (enums_of_cols_snoc_enum tn col en vals Ety Hstr); [reflexivity|].
    unfold other_col_with_enum, table_cols, table_named in Hshared. rewrite Hf in Hshared.
    etransitivity; [|exact Hshared]. apply existsb_ext_in. intros x Hx.
    assert (Hne : String.eqb (c_name x) (c_name col) = false).
    { destruct (String.eqb (c_name x) (c_name col)) eqn:E; [|reflexivity]. exfalso.
      apply String.eqb_eq in E. unfold has_column in Hcolnew.
      assert (existsb (fun c => String.eqb (c_name c) (c_name col)) (t_columns t) = true); [|congruence].
      apply existsb_exists. exists x. split; [exact Hx|]. rewrite E. apply String.eqb_refl. }
    now rewrite Hne. }
  assert (Hafter : catalog_of s' = cat_with s' E1).
  { rewrite catalog_of_cat_with. f_equal. unfold E1, enums_of. rewrite Hd2. fold t'. rewrite Hte, Hd1.
    apply (enums_insert_perm A (table_enums t) (table_enums t ++ [(N, L)]) C (N, L)).
    - apply nodup_perm_insert; rewrite <- Hd1; assumption.
    - apply Permutation_sym, Permutation_cons_append. }
  assert (Hct : exec (catalog_of s) (SCreateType N L) = Ok (cat_with s E1)) by (now apply exec_create_type).
  unfold step_sim. rewrite (step_schema_ok s _ s') by apply Hap. rewrite Hafter.
  assert (Hcet : create_enum_type tn (c_type col) = [SCreateType N L]).
  { rewrite Ety. unfold create_enum_type. now rewrite Hstr. }
  cbn [gen]. unfold gen_add_column. rewrite Hcet.
  destruct (negb (c_nullable col) && match c_default col with None => true | Some _ => false end
            && match fw with Some _ => true | None => false end)%bool eqn:Ebf.
  - (* back-fill sequence *)
    apply andb_prop in Ebf. destruct Ebf as [Ebf Hfw]. apply andb_prop in Ebf. destruct Ebf as [Hnn Hdef].
    apply negb_true_iff in Hnn. destruct (c_default col) eqn:Edef; [discriminate|]. destruct fw as [fv|]; [|discriminate].
    eexists. split; [reflexivity|]. cbn [normalize_fill_with option_map app].
    eapply exec_all_cons_ok; [exact Hct|].
    pose proof (add_core_backfill s tn t col E1 Hf Hcolnew Hres' Hpk s' (convert_default_pg (if String.eqb fv "" then "''" else fv)) Hnn Edef Hc) as Hb.
    cbn [app] in Hb. exact Hb.
  - eexists. split; [reflexivity|]. cbn [app].
    eapply exec_all_cons_ok; [exact Hct|]. cbn [exec_all].
    now rewrite (add_core_plain s tn t col E1 Hf Hcolnew Hres' Hpk s' Hc).
Qed.

(* ---------- DeleteColumn over an arbitrary enum map ---------- *)
Section DelCore.
Variables (s : schema) (tn cn : string) (t : table_def) (c0 : column_def) (E0 : list (string * list string)).
Let t' := mkTable (t_name t) (t_description t)
                  (filter (fun c => negb (String.eqb (c_name c) cn)) (t_columns t))
                  (drop_column_from_constraints cn (t_constraints t)).
Hypothesis Hnd : nodup_str (map t_name s) = true.
Hypothesis Hfk : forallb (fun x => (String.eqb (t_name x) tn || negb (existsb (fk_to tn (mem_str cn)) (t_constraints x)))%bool) s = true.
Hypothesis Hf : find (fun x => String.eqb (t_name x) tn) s = Some t.
Hypothesis Hhas : has_column cn t = true.
Hypothesis Havoid : forallb (constraint_avoids cn) (t_constraints t) = true.

Lemma del_core : exists s' A C,
  apply_action s (DeleteColumn tn cn) = Ok s' /\
  exec (cat_with s E0) (SAlterTable tn [ADropColumn cn]) = Ok (cat_with s' E0) /\
  flat_map table_enums s = A ++ table_enums t ++ C /\ flat_map table_enums s' = A ++ table_enums t' ++ C.
Proof.
  assert (Hft : (fun t0 : table_def =>
                   if has_column cn t0
                   then Ok (mkTable (t_name t0) (t_description t0)
                                    (filter (fun c => negb (String.eqb (c_name c) cn)) (t_columns t0))
                                    (drop_column_from_constraints cn (t_constraints t0)))
                   else Err (ColumnNotFound tn cn)) t = @Ok table_def planner_error t').
  { cbv beta. now rewrite Hhas. }
  destruct (update_table_decomp tn _ s t t' Hnd Hf Hft eq_refl) as (s' & A & C & Hup & Hc & H1 & H2).
  exists s', A, C. split; [exact Hup|]. split; [|split; assumption].
  pose proof (cat_with_replace s s' tn (table_cat t') E0 Hc) as Hcw.
  cbn [exec]. rewrite find_table_cat_with, Hf. cbn [option_map exec_alter_ops].
  unfold exec_alter_op. rewrite find_table_cat_with, Hf. cbn [option_map].
  rewrite has_col_table_cat, Hhas. cbn [negb].
  unfold inbound_fks. unfold cat_with at 1. cbn [c_tables].
  rewrite (inbound_none_p tn (mem_str cn) s Hfk).
  rewrite Hcw. f_equal. f_equal. f_equal.
  unfold table_cat at 4. unfold t'. cbn [t_name t_columns t_constraints].
  rewrite (drop_constraints_avoid cn _ Havoid).
  unfold table_cat. cbn [pt_name pt_cols pt_cons pt_idx]. f_equal.
  - apply filter_cols_cat. apply col_cat_ext; reflexivity.
  - apply filter_all. intros [n k] Hin. cbn [snd]. apply negb_true_iff.
    apply bt_of_list_in in Hin. apply In_flat_map_first_pk_only in Hin.
    apply in_flat_map in Hin. destruct Hin as (x & Hx & Hk).
    pose proof Havoid as Hav. rewrite forallb_forall in Hav. specialize (Hav x Hx).
    destruct x as [a pc|un uc|fn fc frt frc od' ou'|cn' ce|inn ic]; cbn [con_cat constraint_avoids] in *.
    + destruct Hk as [E1|[]]. injection E1 as <- <-. cbn [con_involves].
      apply andb_prop in Hav. destruct Hav as [A1 _]. now apply negb_true_iff in A1.
    + destruct Hk.
    + destruct Hk as [E1|[]]. injection E1 as <- <-. cbn [con_involves].
      repeat (apply andb_prop in Hav; destruct Hav as [Hav ?]).
      apply negb_true_iff in Hav, H3. rewrite Hav, H3. now rewrite andb_false_r.
    + destruct Hk as [E1|[]]. injection E1 as <- <-. cbn [con_involves]. now apply negb_true_iff in Hav.
    + destruct Hk.
  - apply filter_all. intros [n i] Hin. cbn [snd]. apply negb_true_iff.
    apply bt_of_list_in in Hin. apply In_flat_map_first_pk_only in Hin.
    apply in_flat_map in Hin. destruct Hin as (x & Hx & Hk).
    pose proof Havoid as Hav. rewrite forallb_forall in Hav. specialize (Hav x Hx).
    destruct x as [a pc|un uc|fn fc frt frc od' ou'|cn' ce|inn ic]; cbn [idx_cat constraint_avoids] in *;
      try (destruct Hk; fail);
      destruct Hk as [E1|[]]; injection E1 as <- <-; cbn [pi_cols];
      apply andb_prop in Hav; destruct Hav as [A1 _]; now apply negb_true_iff in A1.
Qed.
End DelCore.

(* ---------- the enum list of a table when a string-enum column goes ---------- *)
Definition has_enum_name (en : string) (x : column_def) : bool :=
  match enum_name (c_type x) with Some m => String.eqb m en | None => false end.

Lemma enums_seen_ext tn : forall cols seen1 seen2,
  (forall x, In x cols -> forall m, enum_name (c_type x) = Some m -> mem_str m seen1 = mem_str m seen2) ->
  enums_of_cols tn cols seen1 = enums_of_cols tn cols seen2.
Proof.
  induction cols as [|c r IH]; intros s1 s2 H; [reflexivity|]. cbn [enums_of_cols].
  assert (Hr : forall x, In x r -> forall m, enum_name (c_type x) = Some m -> mem_str m s1 = mem_str m s2)
    by (intros x Hx; apply H; now right).
  pose proof (H c (or_introl eq_refl)) as Hc.
  destruct (c_type c) as [st|vl|np ns|cl|cu|en v]; try (now apply IH).
  cbn [enum_name] in Hc. rewrite <- (Hc en eq_refl).
  destruct (ev_is_integer v || mem_str en s1)%bool; [now apply IH|].
  f_equal. apply IH. intros x Hx m Hm. cbn [mem_str existsb]. f_equal. now apply (Hr x Hx).
Qed.

Lemma filter_no_other cn : forall (cols : list column_def),
  existsb (fun x => String.eqb (c_name x) cn) cols = false ->
  filter (fun c => negb (String.eqb (c_name c) cn)) cols = cols.
Proof.
  induction cols as [|c r IH]; intro H; [reflexivity|]. cbn [existsb] in H. apply orb_false_iff in H. destruct H as [H1 H2].
  cbn [filter]. rewrite H1. cbn [negb]. f_equal. now apply IH.
Qed.

Lemma enums_remove_col tn cn en vals : ev_is_integer vals = false ->
  forall cols seen,
  nodup_str (map c_name cols) = true -> mem_str en seen = false ->
  (exists c0, In c0 cols /\ c_name c0 = cn /\ c_type c0 = TEnum en vals) ->
  (forall x, In x cols -> String.eqb (c_name x) cn = false -> has_enum_name en x = false) ->
  Permutation (enums_of_cols tn cols seen)
              ((build_enum_type_name tn en, enum_sql_values vals)
               :: enums_of_cols tn (filter (fun c => negb (String.eqb (c_name c) cn)) cols) seen).
Proof.
  intros Hi. induction cols as [|c r IH]; intros seen Hnd Hs (c0 & Hin & Hn & Ht) Hoth; [destruct Hin|].
  cbn [map] in Hnd. apply nodup_str_cons in Hnd. destruct Hnd as [Hc Hr].
  cbn [filter]. destruct (String.eqb (c_name c) cn) eqn:E; cbn [negb].
  - (* the column that goes *)
    apply String.eqb_eq in E.
    assert (c0 = c).
    { destruct Hin as [<-|Hin]; [reflexivity|]. exfalso. unfold mem_str in Hc.
      assert (existsb (String.eqb (c_name c)) (map c_name r) = true); [|congruence].
      apply existsb_exists. exists (c_name c0). split; [now apply in_map|]. rewrite Hn, E. apply String.eqb_refl. }
    subst c0. cbn [enums_of_cols]. rewrite Ht, Hi, Hs. cbn [orb].
    assert (Hno : existsb (fun x => String.eqb (c_name x) cn) r = false).
    { unfold mem_str in Hc. rewrite <- E. rewrite existsb_map in Hc. rewrite <- Hc. apply existsb_ext_in.
      intros x _. apply BtP.str_eqb_sym. }
    rewrite (filter_no_other cn r Hno).
    rewrite (enums_seen_ext tn r (en :: seen) seen); [apply Permutation_refl|].
    intros x Hx m Hm. cbn [mem_str existsb].
    assert (Hxn : String.eqb (c_name x) cn = false).
    { destruct (String.eqb (c_name x) cn) eqn:Ex; [|reflexivity]. exfalso.
      assert (existsb (fun x => String.eqb (c_name x) cn) r = true); [|congruence]. apply existsb_exists. eauto. }
    pose proof (Hoth x (or_intror Hx) Hxn) as Hh. unfold has_enum_name in Hh. rewrite Hm in Hh. now rewrite Hh.
  - (* a column that stays *)
    assert (Hin' : exists c0, In c0 r /\ c_name c0 = cn /\ c_type c0 = TEnum en vals).
    { exists c0. destruct Hin as [<-|Hin]; [|repeat split; assumption]. rewrite Hn, String.eqb_refl in E. discriminate. }
    assert (Hoth' : forall x, In x r -> String.eqb (c_name x) cn = false -> has_enum_name en x = false)
      by (intros; apply Hoth; [now right|assumption]).
    pose proof (Hoth c (or_introl eq_refl) E) as Hce. unfold has_enum_name in Hce.
    cbn [enums_of_cols]. destruct (c_type c) as [st|vl|np ns|cl|cu|e v]; try (now apply IH).
    cbn [enum_name] in Hce.
    destruct (ev_is_integer v || mem_str e seen)%bool; [now apply IH|].
    eapply Permutation_trans; [apply perm_skip, (IH (e :: seen) Hr)|apply perm_swap]; try assumption.
    cbn [mem_str existsb]. now rewrite BtP.str_eqb_sym, Hce.
Qed.

Theorem sim_pg_delete_column_enum s tn cn : hyp_delete_column_enum s tn cn = true -> step_sim s (DeleteColumn tn cn).
Proof.
  unfold hyp_delete_column_enum. intro H.
  apply andb_prop in H. destruct H as [H Ht]. apply andb_prop in H. destruct H as [Hnd Hfk].
  destruct (find (fun x => String.eqb (t_name x) tn) s) as [t|] eqn:Hf; [|discriminate].
  repeat (apply andb_prop in Ht; destruct Ht as [Ht ?]).
  rename Ht into Hhas, H into Havoid, H0 into Hcnd, H1 into Hen.
  destruct (find (fun c => String.eqb (c_name c) cn) (t_columns t)) as [c0|] eqn:Hc0; [|discriminate].
  destruct (c_type c0) as [st|vl|np ns|cl|cu|en vals] eqn:Ety; try discriminate.
  cbv zeta in Hen. repeat (apply andb_prop in Hen; destruct Hen as [Hen ?]).
  rename Hen into Hstr, H into Hunused, H0 into Hend, H1 into Hshared.
  apply negb_true_iff in Hstr, Hshared, Hunused.
  pose proof (find_name _ _ _ Hf) as Hname.
  set (N := build_enum_type_name tn en) in *. set (L := enum_sql_values vals).
  destruct (del_core s tn cn t (enums_of s) Hnd Hfk Hf Hhas Havoid) as (s' & A & C & Hap & Hex & Hd1 & Hd2).
  rewrite (step_schema_ok s _ s' Hap) in Hunused.
  (* the table's enum list loses exactly (N, L) *)
  apply find_some in Hc0. destruct Hc0 as [Hc0in Hc0n]. apply String.eqb_eq in Hc0n.
  set (X' := table_enums (mkTable (t_name t) (t_description t)
                                  (filter (fun c => negb (String.eqb (c_name c) cn)) (t_columns t))
                                  (drop_column_from_constraints cn (t_constraints t)))) in *.
  assert (Hperm : Permutation (table_enums t) ((N, L) :: X')).
  { unfold X', table_enums. cbn [t_name t_columns]. rewrite Hname.
    apply (enums_remove_col tn cn en vals Hstr); [exact Hcnd|reflexivity|eauto|].
    intros x Hx Exn. unfold other_col_with_enum, table_cols, table_named in Hshared. rewrite Hf in Hshared.
    destruct (has_enum_name en x) eqn:Eh; [|reflexivity]. exfalso.
    assert (existsb (fun y => (negb (String.eqb (c_name y) cn)
                               && match enum_name (c_type y) with Some m => String.eqb m en | None => false end)%bool)
                    (t_columns t) = true); [|congruence].
    apply existsb_exists. exists x. split; [exact Hx|]. rewrite Exn. exact Eh. }
  assert (Hnd_e : NoDup (map fst (A ++ table_enums t ++ C))) by (rewrite <- Hd1; now apply nodup_str_NoDup).
  assert (Hafter : catalog_of s' = cat_with s' (bt_remove N (enums_of s))).
  { rewrite catalog_of_cat_with. f_equal. unfold enums_of. rewrite Hd2, Hd1. symmetry.
    exact (enums_remove_perm A _ _ C (N, L) Hnd_e Hperm). }
  assert (Hhasenum : find_enum N (cat_with s' (enums_of s)) = Some L).
  { unfold find_enum, cat_with. cbn [c_enums]. unfold enums_of. rewrite Hd1.
    assert (Hp2 : Permutation (A ++ table_enums t ++ C) ((N, L) :: A ++ X' ++ C)).
    { eapply Permutation_trans; [apply Permutation_app_head, Permutation_app_tail, Hperm|].
      cbn [app]. apply Permutation_sym, Permutation_middle. }
    rewrite (bt_perm _ _ Hnd_e Hp2). apply bt_sorted_get; [apply bt_of_list_sorted|].
    assert (Hnd2 : NoDup (map fst ((N, L) :: A ++ X' ++ C))) by (eapply Permutation_NoDup; [apply Permutation_map, Hp2|exact Hnd_e]).
    pose proof (bt_of_list_perm _ Hnd2) as Hp3. eapply Permutation_in; [apply Permutation_sym, Hp3|]. now left. }
  unfold step_sim. rewrite (step_schema_ok s _ s' Hap). rewrite Hafter.
  exists [SAlterTable tn [ADropColumn cn]; SDropType N]. split.
  - cbn [gen]. unfold gen_delete_column, find_column_s, find_table_s. rewrite Hf.
    assert (Hfc : find (fun x => String.eqb (c_name x) cn) (t_columns t) = Some c0).
    { clear -Hc0in Hc0n Hcnd. induction (t_columns t) as [|y r IH]; [destruct Hc0in|].
      cbn [map] in Hcnd. apply nodup_str_cons in Hcnd. destruct Hcnd as [Hy Hr]. cbn [find].
      destruct Hc0in as [->|Hin]; [now rewrite Hc0n, String.eqb_refl|].
      destruct (String.eqb (c_name y) cn) eqn:E; [|now apply IH]. exfalso. apply String.eqb_eq in E.
      unfold mem_str in Hy. assert (existsb (String.eqb (c_name y)) (map c_name r) = true); [|congruence].
      apply existsb_exists. exists (c_name c0). split; [now apply in_map|]. rewrite E, Hc0n. apply String.eqb_refl. }
    rewrite Hfc, Ety. reflexivity.
  - eapply exec_all_cons_ok; [rewrite catalog_of_cat_with; exact Hex|].
    cbn [exec_all exec]. rewrite Hhasenum. unfold cat_with at 1. cbn [c_tables].
    change (c_tables (catalog_of s')) with (map table_cat s') in Hunused. rewrite Hunused. reflexivity.
Qed.

(* ---------- sorted-map algebra for the enum map ---------- *)
Lemma bt_remove_insert_ne {V} a b (v : V) m : bt_sorted m -> a <> b ->
  bt_remove a (bt_insert b v m) = bt_insert b v (bt_remove a m).
Proof.
  intros Hs Hab. apply bt_ext.
  - apply filter_sorted, bt_insert_sorted, Hs.
  - apply bt_insert_sorted, filter_sorted, Hs.
  - intro k. unfold bt_remove. rewrite bt_get_filter_key, !bt_get_insert, bt_get_filter_key.
    destruct (String.eqb k a) eqn:E1; destruct (String.eqb k b) eqn:E2; try reflexivity.
    apply String.eqb_eq in E1, E2. congruence.
Qed.
Lemma bt_remove_insert_same {V} k (v : V) m : bt_sorted m -> bt_mem k m = false -> bt_remove k (bt_insert k v m) = m.
Proof.
  intros Hs Hm. apply bt_ext; [apply filter_sorted, bt_insert_sorted, Hs|exact Hs|].
  intro k'. unfold bt_remove. rewrite bt_get_filter_key, bt_get_insert.
  destruct (String.eqb k' k) eqn:E; [|reflexivity]. apply String.eqb_eq in E. subst k'.
  unfold bt_mem in Hm. destruct (bt_get k m); [discriminate|reflexivity].
Qed.
Lemma bt_remove_comm {V} a b (m : list (string * V)) : bt_remove a (bt_remove b m) = bt_remove b (bt_remove a m).
Proof.
  unfold bt_remove. induction m as [|x r IH]; [reflexivity|]. cbn [filter].
  destruct (negb (String.eqb (fst x) b)) eqn:E1; destruct (negb (String.eqb (fst x) a)) eqn:E2;
    cbn [filter]; rewrite ?E1, ?E2, IH; reflexivity.
Qed.
Lemma bt_mem_remove {V} k a (m : list (string * V)) :
  bt_mem k (bt_remove a m) = (negb (String.eqb k a) && bt_mem k m)%bool.
Proof. unfold bt_mem, bt_remove. rewrite bt_get_filter_key. now destruct (String.eqb k a). Qed.

Lemma enums_new_insert (A Y X' C : list (string * list string)) e :
  NoDup (map fst (A ++ Y ++ C)) -> bt_mem (fst e) (bt_of_list (A ++ Y ++ C)) = false -> Permutation X' (e :: Y) ->
  bt_of_list (A ++ X' ++ C) = bt_insert (fst e) (snd e) (bt_of_list (A ++ Y ++ C)).
Proof.
  intros Hnd Hm Hp. apply enums_insert_perm; [|exact Hp].
  apply (Permutation_NoDup (l := map fst (e :: A ++ Y ++ C))).
  - apply Permutation_map. apply Permutation_sym.
    eapply Permutation_trans; [apply Permutation_app_head, Permutation_app_tail, Hp|].
    cbn [app]. apply Permutation_sym, Permutation_middle.
  - cbn [map]. constructor; [|exact Hnd]. rewrite bt_mem_of_list_keys in Hm. intro Hin.
    apply mem_str_In in Hin. congruence.
Qed.

Lemma enums_old_remove (A X Y C : list (string * list string)) e :
  NoDup (map fst (A ++ X ++ C)) -> Permutation X (e :: Y) ->
  bt_remove (fst e) (bt_of_list (A ++ X ++ C)) = bt_of_list (A ++ Y ++ C)
  /\ NoDup (map fst (A ++ Y ++ C))
  /\ bt_get (fst e) (bt_of_list (A ++ X ++ C)) = Some (snd e).
Proof.
  intros Hnd Hp.
  assert (Hp2 : Permutation (A ++ X ++ C) (e :: A ++ Y ++ C)).
  { eapply Permutation_trans; [apply Permutation_app_head, Permutation_app_tail, Hp|].
    cbn [app]. apply Permutation_sym, Permutation_middle. }
  assert (Hnd2 : NoDup (map fst (e :: A ++ Y ++ C))) by (eapply Permutation_NoDup; [apply Permutation_map, Hp2|exact Hnd]).
  split; [exact (enums_remove_perm A X Y C e Hnd Hp)|]. split.
  - cbn [map] in Hnd2. now inversion Hnd2.
  - rewrite (bt_perm _ _ Hnd Hp2). apply bt_sorted_get; [apply bt_of_list_sorted|].
    pose proof (bt_of_list_perm _ Hnd2) as Hp3. eapply Permutation_in; [apply Permutation_sym, Hp3|].
    destruct e. now left.
Qed.

(* ---------- the enum list of a table when the type of one column changes ---------- *)
Lemma enums_filter_plain tn cn : forall cols seen,
  (forall x, In x cols -> String.eqb (c_name x) cn = true -> is_enum_type (c_type x) = false) ->
  enums_of_cols tn cols seen = enums_of_cols tn (filter (fun c => negb (String.eqb (c_name c) cn)) cols) seen.
Proof.
  induction cols as [|c r IH]; intros seen H; [reflexivity|].
  assert (Hr : forall x, In x r -> String.eqb (c_name x) cn = true -> is_enum_type (c_type x) = false)
    by (intros; apply H; [now right|assumption]).
  cbn [filter]. destruct (String.eqb (c_name c) cn) eqn:E; cbn [negb].
  - pose proof (H c (or_introl eq_refl) E) as Hp. cbn [enums_of_cols].
    destruct (c_type c); try discriminate; now apply IH.
  - cbn [enums_of_cols]. destruct (c_type c); try (now apply IH).
    destruct (ev_is_integer values || mem_str name seen)%bool; [now apply IH|]. f_equal. now apply IH.
Qed.

Lemma update_first_col_filter cn f : (forall x, c_name (f x) = c_name x) -> forall cols cols',
  update_first_col cn f cols = Some cols' ->
  filter (fun c => negb (String.eqb (c_name c) cn)) cols' = filter (fun c => negb (String.eqb (c_name c) cn)) cols.
Proof.
  intros Hn. induction cols as [|c r IH]; intros cols' Hu; [discriminate|].
  cbn [update_first_col] in Hu. destruct (String.eqb (c_name c) cn) eqn:E.
  - injection Hu as <-. cbn [filter]. now rewrite Hn, E.
  - destruct (update_first_col cn f r) as [r'|]; [|discriminate]. injection Hu as <-.
    cbn [filter]. rewrite E. cbn [negb]. f_equal. now apply IH.
Qed.

Lemma update_first_col_in cn f : (forall x, c_name (f x) = c_name x) -> forall cols cols' c,
  find (fun x => String.eqb (c_name x) cn) cols = Some c -> update_first_col cn f cols = Some cols' ->
  In (f c) cols' /\ (forall x, In x cols' -> String.eqb (c_name x) cn = false -> In x cols).
Proof.
  intros Hn. induction cols as [|y r IH]; intros cols' c Hf Hu; [discriminate|].
  cbn [update_first_col] in Hu. cbn [find] in Hf. destruct (String.eqb (c_name y) cn) eqn:E.
  - injection Hu as <-. injection Hf as <-. split; [now left|].
    intros x [<-|Hx] Hne; [rewrite Hn, E in Hne; discriminate|now right].
  - destruct (update_first_col cn f r) as [r'|] eqn:Er; [|discriminate]. injection Hu as <-.
    destruct (IH r' c Hf eq_refl) as [H1 H2]. split; [now right|].
    intros x [<-|Hx] Hne; [now left|right; now apply H2].
Qed.

Lemma other_col_spec s tn cn en t : find (fun x => String.eqb (t_name x) tn) s = Some t ->
  other_col_with_enum s tn cn en = false ->
  forall x, In x (t_columns t) -> String.eqb (c_name x) cn = false -> has_enum_name en x = false.
Proof.
  intros Hf Hshared x Hx Exn. unfold other_col_with_enum, table_cols, table_named in Hshared. rewrite Hf in Hshared.
  destruct (has_enum_name en x) eqn:Eh; [|reflexivity]. exfalso.
  assert (existsb (fun y => (negb (String.eqb (c_name y) cn)
                             && match enum_name (c_type y) with Some m => String.eqb m en | None => false end)%bool)
                  (t_columns t) = true); [|congruence].
  apply existsb_exists. exists x. split; [exact Hx|]. rewrite Exn. exact Eh.
Qed.

(* ---------- one column of one table being rewritten, over an arbitrary enum map ---------- *)
Definition colcat (s : schema) (t : table_def) (tn cn : string) (x : pg_col) (E : list (string * list string)) : catalog :=
  replace_table (update_col (table_cat t) cn (fun _ => x)) tn (cat_with s E).

Lemma find_upd cn (x : pg_col) : forall cols, existsb (fun y => String.eqb (pc_name y) cn) cols = true -> pc_name x = cn ->
  find (fun y => String.eqb (pc_name y) cn) (map (fun y => if String.eqb (pc_name y) cn then x else y) cols) = Some x.
Proof.
  induction cols as [|y r IH]; intros H Hx; [discriminate|]. cbn [existsb map find] in *.
  destruct (String.eqb (pc_name y) cn) eqn:E.
  - now rewrite Hx, String.eqb_refl.
  - rewrite E. cbn [orb] in H. now apply IH.
Qed.

Lemma upd_upd cn (x x' : pg_col) T : pc_name x = cn ->
  update_col (update_col T cn (fun _ => x)) cn (fun _ => x') = update_col T cn (fun _ => x').
Proof.
  intro Hx. unfold update_col. cbn [pt_name pt_cols pt_cons pt_idx]. f_equal. rewrite map_map. apply map_ext.
  intro y. destruct (String.eqb (pc_name y) cn) eqn:E; [now rewrite Hx, String.eqb_refl|now rewrite E].
Qed.

Lemma replace_same tn t E : forall s, nodup_str (map t_name s) = true ->
  find (fun x => String.eqb (t_name x) tn) s = Some t ->
  replace_table (table_cat t) tn (cat_with s E) = cat_with s E.
Proof.
  intros s Hnd Hf. unfold replace_table, map_table, set_tables, cat_with. cbn [c_tables c_enums]. f_equal.
  induction s as [|x r IH]; [reflexivity|]. cbn [map] in Hnd. apply nodup_str_cons in Hnd. destruct Hnd as [Hx Hr].
  cbn [find] in Hf. cbn [map]. rewrite pt_name_table_cat. destruct (String.eqb (t_name x) tn) eqn:E0.
  - injection Hf as ->. f_equal. apply String.eqb_eq in E0. subst tn. apply replace_others. now apply mem_str_map_name.
  - f_equal. now apply IH.
Qed.

Section ColCat.
Variables (s : schema) (tn cn : string) (t : table_def) (c : column_def).
Hypothesis Hnd : nodup_str (map t_name s) = true.
Hypothesis Hf : find (fun x => String.eqb (t_name x) tn) s = Some t.
Hypothesis Hc : find (fun x => String.eqb (c_name x) cn) (t_columns t) = Some c.
Hypothesis Hcnd : nodup_str (map c_name (t_columns t)) = true.

Lemma upd_name x : pt_name (update_col (table_cat t) cn (fun _ => x)) = tn.
Proof. unfold update_col. cbn [pt_name]. apply (find_name _ _ _ Hf). Qed.

Lemma base_find E : find_table tn (cat_with s E) = Some (table_cat t).
Proof. rewrite find_table_cat_with, Hf. reflexivity. Qed.

Lemma colcat_find x E : find_table tn (colcat s t tn cn x E) = Some (update_col (table_cat t) cn (fun _ => x)).
Proof. unfold colcat. apply (find_replace tn _ (table_cat t)); [apply base_find|apply upd_name]. Qed.

Lemma colcat_find_col x : pc_name x = cn -> find_col cn (update_col (table_cat t) cn (fun _ => x)) = Some x.
Proof.
  intro Hx. unfold find_col, update_col. cbn [pt_cols]. apply find_upd; [|exact Hx].
  change (has_col cn (table_cat t) = true). rewrite has_col_table_cat. eapply has_column_find; eauto.
Qed.

Lemma colcat_type_exists n x E : type_exists n (colcat s t tn cn x E) = (bt_mem n E || has_table n s)%bool.
Proof.
  unfold colcat. rewrite (type_exists_replace n tn _ (table_cat t)); [apply type_exists_cat_with|apply base_find|apply upd_name].
Qed.

Lemma colcat_resolve x E ty : resolve_type (colcat s t tn cn x E) ty = resolve_type (cat_with s E) ty.
Proof. unfold colcat. apply (resolve_replace tn _ (table_cat t)); [apply base_find|apply upd_name]. Qed.

Lemma colcat_id E : colcat s t tn cn (col_cat t c) E = cat_with s E.
Proof.
  unfold colcat.
  assert (H : update_col (table_cat t) cn (fun _ => col_cat t c) = table_cat t).
  { rewrite (update_col_const (table_cat t) cn (fun y => y) (col_cat t c)).
    - unfold update_col. destruct (table_cat t) as [n cols cons idx]. cbn [pt_name pt_cols pt_cons pt_idx]. f_equal.
      rewrite <- (map_id cols) at 2. apply map_ext. intro y. now destruct (String.eqb (pc_name y) cn).
    - now rewrite pt_cols_names.
    - now apply find_col_table_cat. }
  rewrite H. now apply replace_same.
Qed.

Lemma colcat_step x x' E op : pc_name x = cn ->
  (forall T cat, find_table tn cat = Some T -> find_col cn T = Some x -> cat = colcat s t tn cn x E ->
     exec_alter_op cat tn op = Ok (replace_table (update_col T cn (fun _ => x')) tn cat, tn)) ->
  exec (colcat s t tn cn x E) (SAlterTable tn [op]) = Ok (colcat s t tn cn x' E).
Proof.
  intros Hx Hop. cbn [exec]. rewrite colcat_find. cbn [exec_alter_ops].
  rewrite (Hop _ _ (colcat_find x E) (colcat_find_col x Hx) eq_refl).
  f_equal. rewrite upd_upd by exact Hx. unfold colcat. apply replace_replace. apply upd_name.
Qed.

Lemma colcat_create_type x E N L : labels_ok L = true -> bt_mem N E = false -> has_table N s = false ->
  exec (colcat s t tn cn x E) (SCreateType N L) = Ok (colcat s t tn cn x (bt_insert N L E)).
Proof.
  intros HL Hm Ht. unfold labels_ok in HL. apply andb_prop in HL. destruct HL as [H1 H2].
  cbn [exec]. rewrite H1, colcat_type_exists, Hm, Ht. cbn [negb orb].
  destruct (first_dup L); [discriminate|]. reflexivity.
Qed.

Lemma colcat_tables_absent n x E : type_free (catalog_of s) tn cn n = true -> String.eqb (pc_type x) n = false ->
  existsb (fun T => existsb (fun y => String.eqb (pc_type y) n) (pt_cols T)) (c_tables (colcat s t tn cn x E)) = false.
Proof.
  intros Hfree Hx. apply not_true_is_false. intro H. apply existsb_exists in H. destruct H as (T & HT & HTx).
  unfold type_free in Hfree. rewrite forallb_forall in Hfree.
  change (c_tables (colcat s t tn cn x E))
    with (map (fun y => if String.eqb (pt_name y) tn then update_col (table_cat t) cn (fun _ => x) else y) (map table_cat s)) in HT.
  apply in_map_iff in HT. destruct HT as (y & Hy & Hin).
  apply existsb_exists in HTx. destruct HTx as (z & Hz & Hzt).
  destruct (String.eqb (pt_name y) tn) eqn:E0.
  - subst T. unfold update_col in Hz. cbn [pt_cols] in Hz. apply in_map_iff in Hz. destruct Hz as (w & Hw & Hwin).
    destruct (String.eqb (pc_name w) cn) eqn:E1; [subst z; congruence|]. subst z.
    assert (Hint : In (table_cat t) (c_tables (catalog_of s))).
    { cbn [catalog_of c_tables]. apply in_map. apply find_some in Hf. apply Hf. }
    pose proof (Hfree _ Hint) as H1. rewrite forallb_forall in H1. pose proof (H1 _ Hwin) as H2.
    rewrite E1, Hzt, andb_false_r in H2. discriminate.
  - subst T. pose proof (Hfree y Hin) as H1. rewrite forallb_forall in H1. pose proof (H1 _ Hz) as H2.
    rewrite E0, Hzt in H2. discriminate.
Qed.

Lemma colcat_drop_type n L x E : type_free (catalog_of s) tn cn n = true -> String.eqb (pc_type x) n = false ->
  bt_get n E = Some L ->
  exec (colcat s t tn cn x E) (SDropType n) = Ok (colcat s t tn cn x (bt_remove n E)).
Proof.
  intros Hfree Hx Hg. cbn [exec]. unfold find_enum. change (c_enums (colcat s t tn cn x E)) with E. rewrite Hg.
  now rewrite (colcat_tables_absent n x E Hfree Hx).
Qed.

Lemma colcat_rename_type a b L x E : type_free (catalog_of s) tn cn a = true -> pc_type x = a -> pc_name x = cn ->
  bt_get a E = Some L -> bt_mem b E = false -> has_table b s = false ->
  exec (colcat s t tn cn x E) (SRenameType a b)
  = Ok (colcat s t tn cn (mkPc (pc_name x) b (pc_notnull x) (pc_default x) (pc_autoinc x)) (bt_insert b L (bt_remove a E))).
Proof.
  intros Hfree Hxt Hxn Hg Hm Ht. cbn [exec]. unfold find_enum. change (c_enums (colcat s t tn cn x E)) with E. rewrite Hg.
  rewrite colcat_type_exists, Hm, Ht. cbn [orb]. f_equal.
  unfold colcat, replace_table, map_table, set_tables, cat_with. cbn [c_tables c_enums]. f_equal.
  rewrite !map_map. apply map_ext_in. intros y Hy.
  unfold type_free in Hfree. rewrite forallb_forall in Hfree.
  rewrite pt_name_table_cat. destruct (String.eqb (t_name y) tn) eqn:E0.
  - unfold retype_cols, update_col. cbn [pt_name pt_cols pt_cons pt_idx]. f_equal.
    rewrite map_map. apply map_ext_in. intros w Hw. destruct (String.eqb (pc_name w) cn) eqn:E1.
    + now rewrite Hxt, String.eqb_refl.
    + assert (Hint : In (table_cat t) (c_tables (catalog_of s))).
      { cbn [catalog_of c_tables]. apply in_map. apply find_some in Hf. apply Hf. }
      pose proof (Hfree _ Hint) as H1. rewrite forallb_forall in H1. pose proof (H1 _ Hw) as H2.
      rewrite E1, andb_false_r in H2. cbn [orb] in H2. apply negb_true_iff in H2. now rewrite H2.
  - assert (Hint : In (table_cat y) (c_tables (catalog_of s))) by (cbn [catalog_of c_tables]; now apply in_map).
    pose proof (Hfree _ Hint) as H1. rewrite forallb_forall in H1.
    unfold retype_cols. destruct (table_cat y) as [n cols cons idx] eqn:Ey. cbn [pt_name pt_cols pt_cons pt_idx] in *. f_equal.
    rewrite <- (map_id cols) at 2. apply map_ext_in. intros w Hw. pose proof (H1 _ Hw) as H2.
    assert (Hn : n = t_name y) by (pose proof (pt_name_table_cat y) as Hp; rewrite Ey in Hp; exact Hp).
    rewrite Hn, E0 in H2. cbn [andb orb] in H2. apply negb_true_iff in H2. now rewrite H2.
Qed.

Lemma colcat_alter_type x E ty usng r : pc_name x = cn -> resolve_type (cat_with s E) ty = Ok (r, false) ->
  exec (colcat s t tn cn x E) (SAlterTable tn [AAlterType cn ty usng])
  = Ok (colcat s t tn cn (mkPc (pc_name x) r (pc_notnull x) (pc_default x) (pc_autoinc x || false)) E).
Proof.
  intros Hx Hr. apply colcat_step; [exact Hx|]. intros T cat HT Hcol ->.
  unfold exec_alter_op. rewrite HT, Hcol, colcat_resolve, Hr. reflexivity.
Qed.
Lemma colcat_drop_default x E : pc_name x = cn ->
  exec (colcat s t tn cn x E) (SAlterTable tn [ADropDefault cn])
  = Ok (colcat s t tn cn (mkPc (pc_name x) (pc_type x) (pc_notnull x) None false) E).
Proof.
  intros Hx. apply colcat_step; [exact Hx|]. intros T cat HT Hcol ->.
  unfold exec_alter_op. rewrite HT, Hcol. reflexivity.
Qed.
Lemma colcat_set_default x E e : pc_name x = cn -> String.eqb (trim e) "" = false ->
  exec (colcat s t tn cn x E) (SAlterTable tn [ASetDefault cn e])
  = Ok (colcat s t tn cn (mkPc (pc_name x) (pc_type x) (pc_notnull x) (Some e) (pc_autoinc x)) E).
Proof.
  intros Hx He. apply colcat_step; [exact Hx|]. intros T cat HT Hcol ->.
  unfold exec_alter_op. rewrite HT, He, Hcol. reflexivity.
Qed.
Lemma resolve_quoted E n : bt_mem n E = true -> resolve_type (cat_with s E) (mkTy n true) = Ok (n, false).
Proof. intro H. unfold resolve_type. cbn [ty_quoted ty_text]. now rewrite type_exists_cat_with, H. Qed.
End ColCat.

(* ---------- ModifyColumnType: the schema side and the enum list of the table ---------- *)
Lemma in_unique_name : forall (l : list column_def) x y, nodup_str (map c_name l) = true ->
  In x l -> In y l -> c_name x = c_name y -> x = y.
Proof.
  induction l as [|z r IH]; intros x y Hnd Hx Hy Hn; [destruct Hx|].
  cbn [map] in Hnd. apply nodup_str_cons in Hnd. destruct Hnd as [Hz Hr].
  assert (Hno : forall w, In w r -> c_name w <> c_name z).
  { intros w Hw Heq. unfold mem_str in Hz. assert (existsb (String.eqb (c_name z)) (map c_name r) = true); [|congruence].
    apply existsb_exists. exists (c_name w). split; [now apply in_map|]. rewrite Heq. apply String.eqb_refl. }
  destruct Hx as [<-|Hx]; destruct Hy as [<-|Hy]; [reflexivity| | |now apply IH].
  - exfalso. apply (Hno y Hy). now symmetry.
  - exfalso. now apply (Hno x Hx).
Qed.

Definition mod_ctx (s : schema) (tn cn : string) (t : table_def) (c : column_def) (ty : column_type)
  (s' : schema) (cols' : list column_def) (A C : list (string * list string)) : Prop :=
  nodup_str (map t_name s) = true /\
  find (fun x => String.eqb (t_name x) tn) s = Some t /\
  find (fun x => String.eqb (c_name x) cn) (t_columns t) = Some c /\
  nodup_str (map c_name (t_columns t)) = true /\
  update_first_col cn (set_type ty) (t_columns t) = Some cols' /\
  update_table tn (update_column tn cn (set_type ty)) s = Ok s' /\
  (forall E, cat_with s' E = colcat s t tn cn (col_cat t (set_type ty c)) E) /\
  flat_map table_enums s = A ++ table_enums t ++ C /\
  flat_map table_enums s' = A ++ enums_of_cols tn cols' [] ++ C.

Lemma mod_core s tn cn t c ty :
  nodup_str (map t_name s) = true ->
  find (fun x => String.eqb (t_name x) tn) s = Some t ->
  find (fun x => String.eqb (c_name x) cn) (t_columns t) = Some c ->
  nodup_str (map c_name (t_columns t)) = true ->
  exists s' cols' A C, mod_ctx s tn cn t c ty s' cols' A C.
Proof.
  intros Hnd Hf Hc Hcnd.
  assert (Hhas : existsb (fun x => String.eqb (c_name x) cn) (t_columns t) = true).
  { apply existsb_exists. apply find_some in Hc. destruct Hc as [Hin E]. eauto. }
  destruct (update_first_col_some cn (set_type ty) (t_columns t) Hhas) as [cols' Hu].
  set (t' := mkTable (t_name t) (t_description t) cols' (t_constraints t)).
  assert (Hft : update_column tn cn (set_type ty) t = Ok t') by (unfold update_column; now rewrite Hu).
  destruct (update_table_decomp tn _ s t t' Hnd Hf Hft eq_refl) as (s' & A & C & Hup & Hmap & H1 & H2).
  exists s', cols', A, C. unfold mod_ctx. repeat split; try assumption.
  - intro E. unfold colcat. apply cat_with_replace. rewrite Hmap.
    assert (HT : table_cat t' = update_col (table_cat t) cn (fun _ => col_cat t (set_type ty c))).
    { unfold update_col, table_cat, t'. cbn [t_name t_columns t_constraints pt_name pt_cols pt_cons pt_idx]. f_equal.
      rewrite (map_ext _ (col_cat t)) by (apply col_cat_ext; reflexivity).
      apply (update_first_col_cat (col_cat t) (fun _ => col_cat t (set_type ty c)) cn (set_type ty));
        [reflexivity| |exact Hcnd|exact Hu].
      intros x Hx Ex. now rewrite (find_col_unique cn _ c Hcnd Hc x Hx Ex). }
    now rewrite HT.
  - rewrite H2. unfold table_enums, t'. cbn [t_name t_columns]. now rewrite (find_name _ _ _ Hf).
Qed.

Section ModLists.
Variables (s : schema) (tn cn : string) (t : table_def) (c : column_def) (ty : column_type)
          (s' : schema) (cols' : list column_def) (A C : list (string * list string)).
Hypothesis Hctx : mod_ctx s tn cn t c ty s' cols' A C.
Let Y := enums_of_cols tn (filter (fun x => negb (String.eqb (c_name x) cn)) (t_columns t)) [].

Lemma old_plain : is_enum_type (c_type c) = false -> table_enums t = Y.
Proof.
  destruct Hctx as (Hnd & Hf & Hc & Hcnd & _). intro Hp.
  unfold table_enums, Y. rewrite (find_name _ _ _ Hf). apply enums_filter_plain.
  intros x Hx Ex. now rewrite (find_col_unique cn _ c Hcnd Hc x Hx Ex).
Qed.

Lemma old_enum on ov : c_type c = TEnum on ov -> ev_is_integer ov = false -> other_col_with_enum s tn cn on = false ->
  Permutation (table_enums t) ((build_enum_type_name tn on, enum_sql_values ov) :: Y).
Proof.
  destruct Hctx as (Hnd & Hf & Hc & Hcnd & _). intros Ht Hi Ho.
  unfold table_enums, Y. rewrite (find_name _ _ _ Hf).
  apply (enums_remove_col tn cn on ov Hi); [exact Hcnd|reflexivity| |].
  - apply find_some in Hc. destruct Hc as [Hin En]. apply String.eqb_eq in En. eauto.
  - now apply (other_col_spec s tn cn on t Hf Ho).
Qed.

Lemma new_plain : is_enum_type ty = false -> enums_of_cols tn cols' [] = Y.
Proof.
  destruct Hctx as (Hnd & Hf & Hc & Hcnd & Hu & _). intro Hp.
  unfold Y. rewrite <- (update_first_col_filter cn (set_type ty) (fun _ => eq_refl) _ cols' Hu).
  apply enums_filter_plain. intros x Hx Ex.
  destruct (update_first_col_in cn (set_type ty) (fun _ => eq_refl) _ cols' c Hc Hu) as [Hin _].
  assert (Hndc : nodup_str (map c_name cols') = true)
    by (rewrite (update_first_col_names cn (set_type ty) (fun _ => eq_refl) _ cols' Hu); exact Hcnd).
  assert (x = set_type ty c).
  { apply (in_unique_name cols' _ _ Hndc Hx Hin). apply String.eqb_eq in Ex. rewrite Ex. cbn [set_type c_name].
    apply find_some in Hc. destruct Hc as [_ En]. apply String.eqb_eq in En. now symmetry. }
  subst x. exact Hp.
Qed.

Lemma new_enum nn nv : ty = TEnum nn nv -> ev_is_integer nv = false -> other_col_with_enum s tn cn nn = false ->
  Permutation (enums_of_cols tn cols' []) ((build_enum_type_name tn nn, enum_sql_values nv) :: Y).
Proof.
  destruct Hctx as (Hnd & Hf & Hc & Hcnd & Hu & _). intros Ht Hi Ho.
  unfold Y. rewrite <- (update_first_col_filter cn (set_type ty) (fun _ => eq_refl) _ cols' Hu).
  destruct (update_first_col_in cn (set_type ty) (fun _ => eq_refl) _ cols' c Hc Hu) as [Hin Hoth].
  apply (enums_remove_col tn cn nn nv Hi).
  - rewrite (update_first_col_names cn (set_type ty) (fun _ => eq_refl) _ cols' Hu). exact Hcnd.
  - reflexivity.
  - exists (set_type ty c). split; [exact Hin|]. cbn [set_type c_name c_type]. split; [|exact Ht].
    apply find_some in Hc. destruct Hc as [_ En]. now apply String.eqb_eq in En.
  - intros x Hx Ex. apply (other_col_spec s tn cn nn t Hf Ho); [now apply Hoth|exact Ex].
Qed.
End ModLists.

(* ---------- ModifyColumnType: the four statement sequences ---------- *)
Lemma gen_shape_to_enum s tn cn c nn nv fw : find_column_s s tn cn = Some c -> is_enum_type (c_type c) = false ->
  ev_is_integer nv = false ->
  gen_modify_column_type s tn cn (TEnum nn nv) fw
  = fill_with_updates tn cn fw
    ++ [SCreateType (build_enum_type_name tn nn) (enum_sql_values nv);
        SAlterTable tn [AAlterType cn (sea_type tn (TEnum nn nv)) None]].
Proof.
  intros Hfc Hp Hi. unfold gen_modify_column_type. rewrite Hfc. cbn [option_map].
  destruct (c_type c); try discriminate; cbv iota beta; unfold create_enum_type; rewrite Hi; reflexivity.
Qed.

Lemma gen_shape_from_enum s tn cn c on ov ty fw : find_column_s s tn cn = Some c -> c_type c = TEnum on ov ->
  is_enum_type ty = false ->
  gen_modify_column_type s tn cn ty fw
  = fill_with_updates tn cn fw
    ++ [SAlterTable tn [AAlterType cn (sea_type tn ty) None]; SDropType (build_enum_type_name tn on)].
Proof.
  intros Hfc Ht Hp. unfold gen_modify_column_type. rewrite Hfc. cbn [option_map]. rewrite Ht.
  destruct ty; try discriminate; reflexivity.
Qed.

Definition dd_stmts (tn cn : string) (c : column_def) : list stmt :=
  match c_default c with Some _ => [SAlterTable tn [ADropDefault cn]] | None => [] end.
Definition sd_stmts (tn cn : string) (c : column_def) (ty : column_type) : list stmt :=
  match c_default c with
  | Some d => [SAlterTable tn [ASetDefault cn (normalize_enum_default ty (default_to_sql d))]]
  | None => []
  end.

Lemma gen_shape_other_name s tn cn c on ov nn nv fw : find_column_s s tn cn = Some c -> c_type c = TEnum on ov ->
  String.eqb on nn = false ->
  let No := build_enum_type_name tn on in
  let Nn := build_enum_type_name tn nn in
  gen_modify_column_type s tn cn (TEnum nn nv) fw
  = fill_with_updates tn cn fw
    ++ [SCreateType Nn (enum_sql_values nv)] ++ dd_stmts tn cn c
    ++ [SAlterTable tn [AAlterType cn (mkTy Nn true) (Some (qid cn +++ "::text::" +++ qid Nn))]]
    ++ [SDropType No] ++ sd_stmts tn cn c (TEnum nn nv).
Proof.
  intros Hfc Ht Hne. unfold gen_modify_column_type, dd_stmts, sd_stmts. rewrite Hfc. cbn [option_map]. rewrite Ht, Hne.
  cbn [andb negb app]. reflexivity.
Qed.

Lemma gen_shape_same_name s tn cn c on ov nv fw : find_column_s s tn cn = Some c -> c_type c = TEnum on ov ->
  dec_b enum_values_eq_dec ov nv = false ->
  let N := build_enum_type_name tn on in
  let T := N +++ "_new" in
  gen_modify_column_type s tn cn (TEnum on nv) fw
  = fill_with_updates tn cn fw
    ++ [SCreateType T (enum_sql_values nv)] ++ dd_stmts tn cn c
    ++ [SAlterTable tn [AAlterType cn (mkTy T true) (Some (qid cn +++ "::text::" +++ qid T))]]
    ++ [SDropType N] ++ [SRenameType T N] ++ sd_stmts tn cn c (TEnum on nv).
Proof.
  intros Hfc Ht Hne. unfold gen_modify_column_type, dd_stmts, sd_stmts. rewrite Hfc. cbn [option_map]. rewrite Ht, Hne.
  rewrite String.eqb_refl. cbn [andb negb app]. reflexivity.
Qed.

Lemma exec_all_app_ok c l1 l2 c1 c2 : exec_all c l1 = Ok c1 -> exec_all c1 l2 = Ok c2 -> exec_all c (l1 ++ l2) = Ok c2.
Proof.
  revert c. induction l1 as [|st r IH]; intros c H1 H2; cbn [app exec_all] in *.
  - injection H1 as ->. exact H2.
  - destruct (exec c st) as [c'|]; [|discriminate].
    destruct (exec_all c' r) as [c''|[i e]] eqn:Er; [|discriminate]. injection H1 as ->.
    now rewrite (IH c' Er H2).
Qed.

Lemma app_mid {A} (l : list A) a r : l ++ a :: r = (l ++ [a]) ++ r.
Proof. now rewrite <- app_assoc. Qed.

Section ModPaths.
Variables (s : schema) (tn cn : string) (t : table_def) (c : column_def) (ty : column_type)
          (fw : option (list (string * string)))
          (s' : schema) (cols' : list column_def) (A C : list (string * list string)).
Hypothesis Hctx : mod_ctx s tn cn t c ty s' cols' A C.
Hypothesis Hend : nodup_str (map fst (flat_map table_enums s)) = true.
Hypothesis Ha0 : pc_autoinc (col_cat t c) = false.
Hypothesis Ha1 : pc_autoinc (col_cat t (set_type ty c)) = false.
Let E := enums_of s.
Let x0 := col_cat t c.
Let xf := col_cat t (set_type ty c).
Let Y := enums_of_cols tn (filter (fun x => negb (String.eqb (c_name x) cn)) (t_columns t)) [].
Let X := table_enums t.
Let X' := enums_of_cols tn cols' [].

Lemma mp_f : find (fun x => String.eqb (t_name x) tn) s = Some t. Proof. apply Hctx. Qed.
Lemma mp_c : find (fun x => String.eqb (c_name x) cn) (t_columns t) = Some c. Proof. apply Hctx. Qed.
Lemma mp_name : t_name t = tn. Proof. apply (find_name _ _ _ mp_f). Qed.
Lemma mp_cname : c_name c = cn.
Proof. pose proof mp_c as H. apply find_some in H. destruct H as [_ H]. now apply String.eqb_eq. Qed.
Lemma mp_fc : find_column_s s tn cn = Some c.
Proof. unfold find_column_s, find_table_s. now rewrite mp_f, mp_c. Qed.
Lemma mp_start : catalog_of s = colcat s t tn cn x0 E.
Proof.
  destruct Hctx as (Hnd & Hf & Hc & Hcnd & _). rewrite catalog_of_cat_with. symmetry.
  apply (colcat_id s tn cn t c Hnd Hf Hc Hcnd).
Qed.
Lemma mp_final : catalog_of s' = colcat s t tn cn xf (bt_of_list (A ++ X' ++ C)).
Proof.
  destruct Hctx as (_ & _ & _ & _ & _ & _ & Hcw & _ & H2). rewrite catalog_of_cat_with, Hcw.
  unfold enums_of. now rewrite H2.
Qed.
Lemma mp_E : E = bt_of_list (A ++ X ++ C).
Proof. destruct Hctx as (_ & _ & _ & _ & _ & _ & _ & H1 & _). unfold E, enums_of. now rewrite H1. Qed.
Lemma mp_nodup : NoDup (map fst (A ++ X ++ C)).
Proof. destruct Hctx as (_ & _ & _ & _ & _ & _ & _ & H1 & _). unfold X. rewrite <- H1. now apply nodup_str_NoDup. Qed.
Lemma mp_apply : update_table tn (update_column tn cn (set_type ty)) s = Ok s'. Proof. apply Hctx. Qed.
Lemma mp_sorted : bt_sorted E. Proof. apply bt_of_list_sorted. Qed.

Lemma mp_fill l c0 : exec_all (catalog_of s) l = Ok c0 ->
  exec_all (catalog_of s) (fill_with_updates tn cn fw ++ l) = Ok c0.
Proof.
  intros Hl. destruct fw as [m|]; [|exact Hl]. unfold fill_with_updates.
  induction m as [|p r IH]; [exact Hl|]. cbn [map app exec_all].
  rewrite (exec_update s tn cn t _ _ mp_f (has_column_find _ _ _ mp_c)). now rewrite IH.
Qed.

Lemma mp_x0n : pc_name x0 = cn. Proof. exact mp_cname. Qed.
Lemma mp_xf : xf = mkPc cn (cat_type tn ty) (pc_notnull x0) (column_default_text (set_type ty c)) false.
Proof.
  unfold xf, x0. rewrite <- Ha1. rewrite <- mp_name, <- mp_cname. reflexivity.
Qed.
Lemma mp_type_exists n : type_exists n (catalog_of s) = false -> bt_mem n E = false /\ has_table n s = false.
Proof. rewrite catalog_of_cat_with, type_exists_cat_with. intro H. now apply orb_false_iff in H. Qed.

(* plain -> string enum *)
Lemma path_to_enum nn nv :
  let Nn := build_enum_type_name tn nn in
  let Ln := enum_sql_values nv in
  ty = TEnum nn nv -> is_enum_type (c_type c) = false -> ev_is_integer nv = false ->
  other_col_with_enum s tn cn nn = false -> type_exists Nn (catalog_of s) = false -> labels_ok Ln = true ->
  resolve_type (with_enums (catalog_of s) [(Nn, Ln)]) (sea_type tn ty) = Ok (Nn, false) ->
  column_default_text (set_type ty c) = column_default_text c ->
  exec_all (catalog_of s) (gen_modify_column_type s tn cn ty fw) = Ok (catalog_of s').
Proof.
  intros Nn Ln Hty Hp Hi Ho Hte HL Hres Hdef.
  destruct (mp_type_exists _ Hte) as [Hm Htab].
  pose proof (new_enum s tn cn t c ty s' cols' A C Hctx nn nv Hty Hi Ho) as Hperm.
  pose proof (old_plain s tn cn t c ty s' cols' A C Hctx Hp) as HX.
  fold Y X X' Nn Ln in Hperm, HX.
  rewrite mp_final. rewrite Hty at 1. rewrite (gen_shape_to_enum s tn cn c nn nv fw mp_fc Hp Hi).
  apply mp_fill. rewrite mp_start.
  eapply exec_all_cons_ok; [apply (colcat_create_type s tn cn t mp_f x0 E Nn Ln HL Hm Htab)|].
  eapply exec_all_cons_ok.
  { apply (colcat_alter_type s tn cn t c mp_f mp_c x0 _ _ None Nn mp_x0n). rewrite <- Hty. exact Hres. }
  cbn [exec_all]. f_equal. f_equal.
  - rewrite mp_xf, Hdef, Hty. cbn [cat_type]. rewrite Hi.
    f_equal; first [exact mp_x0n | reflexivity | (unfold x0; rewrite Ha0; reflexivity)].
  - symmetry. rewrite mp_E. apply (enums_new_insert A X X' C (Nn, Ln)); [apply mp_nodup| |].
    + cbn [fst]. rewrite <- mp_E. exact Hm.
    + rewrite HX. exact Hperm.
Qed.

(* string enum -> plain *)
Lemma path_from_enum on ov :
  let No := build_enum_type_name tn on in
  c_type c = TEnum on ov -> is_enum_type ty = false -> ev_is_integer ov = false ->
  other_col_with_enum s tn cn on = false -> type_free (catalog_of s) tn cn No = true ->
  String.eqb (cat_type tn ty) No = false ->
  resolve_type (catalog_of s) (sea_type tn ty) = Ok (cat_type tn ty, false) ->
  column_default_text (set_type ty c) = column_default_text c ->
  exec_all (catalog_of s) (gen_modify_column_type s tn cn ty fw) = Ok (catalog_of s').
Proof.
  intros No Hct Hp Hi Ho Hfree Hne Hres Hdef.
  pose proof (old_enum s tn cn t c ty s' cols' A C Hctx on ov Hct Hi Ho) as Hperm.
  pose proof (new_plain s tn cn t c ty s' cols' A C Hctx Hp) as HX'.
  fold Y X X' No in Hperm, HX'.
  destruct (enums_old_remove A X Y C _ mp_nodup Hperm) as (Hrem & HndY & Hget). cbn [fst snd] in Hrem, Hget.
  rewrite mp_final. rewrite (gen_shape_from_enum s tn cn c on ov ty fw mp_fc Hct Hp).
  apply mp_fill. rewrite mp_start.
  eapply exec_all_cons_ok.
  { apply (colcat_alter_type s tn cn t c mp_f mp_c x0 E (sea_type tn ty) None (cat_type tn ty) mp_x0n). exact Hres. }
  eapply exec_all_cons_ok.
  { apply (colcat_drop_type s tn cn t mp_f No (enum_sql_values ov)); [exact Hfree|exact Hne|].
    rewrite mp_E. exact Hget. }
  cbn [exec_all]. f_equal. f_equal.
  - rewrite mp_xf, Hdef.
    f_equal; first [exact mp_x0n | reflexivity | (unfold x0; rewrite Ha0; reflexivity)].
  - rewrite HX', mp_E. exact Hrem.
Qed.

(* the column while an enum-to-enum migration runs *)
Lemma mp_enum_chain (E1 : list (string * list string)) T :
  bt_mem T E1 = true ->
  exists xb,
    exec_all (colcat s t tn cn x0 E1)
      (dd_stmts tn cn c ++ [SAlterTable tn [AAlterType cn (mkTy T true) (Some (qid cn +++ "::text::" +++ qid T))]])
    = Ok (colcat s t tn cn xb E1)
    /\ xb = mkPc cn T (pc_notnull x0) None false.
Proof.
  intro Hm. unfold dd_stmts.
  assert (Hd0 : pc_default x0 = column_default_text c) by reflexivity.
  destruct (c_default c) as [d|] eqn:Edef; cbn [app].
  - eexists. split.
    + eapply exec_all_cons_ok; [apply (colcat_drop_default s tn cn t c mp_f mp_c x0 E1 mp_x0n)|].
      eapply exec_all_cons_ok; [apply (colcat_alter_type s tn cn t c mp_f mp_c _ E1 _ _ T); [exact mp_x0n|now apply resolve_quoted]|].
      reflexivity.
    + cbn [pc_name pc_type pc_notnull pc_default pc_autoinc orb]. now rewrite mp_x0n.
  - eexists. split.
    + eapply exec_all_cons_ok; [apply (colcat_alter_type s tn cn t c mp_f mp_c _ E1 _ _ T); [exact mp_x0n|now apply resolve_quoted]|].
      reflexivity.
    + rewrite Hd0. unfold column_default_text. rewrite Edef. unfold x0 at 3. rewrite Ha0. cbn [orb]. now rewrite mp_x0n.
Qed.

Lemma mp_set_default x (E1 : list (string * list string)) nn nv : ty = TEnum nn nv -> enum_default_ok c ty = true ->
  x = mkPc cn (cat_type tn ty) (pc_notnull x0) None false ->
  exec_all (colcat s t tn cn x E1) (sd_stmts tn cn c ty) = Ok (colcat s t tn cn xf E1).
Proof.
  intros Hty Hok ->. unfold sd_stmts, enum_default_ok in *. rewrite mp_xf.
  destruct (c_default c) as [d|] eqn:Edef.
  - apply andb_prop in Hok. destruct Hok as [H1 H2]. apply negb_true_iff in H1.
    unfold dec_b in H2. destruct (option_eq_dec string_dec _ _) as [Heq|]; [|discriminate]. rewrite Heq.
    eapply exec_all_cons_ok; [apply (colcat_set_default s tn cn t c mp_f mp_c (mkPc cn (cat_type tn ty) (pc_notnull x0) None false) E1 _ eq_refl H1)|]. reflexivity.
  - cbn [exec_all]. unfold column_default_text. cbn [set_type c_default]. now rewrite Edef.
Qed.

(* string enum -> string enum of another name *)
Lemma path_other_name on ov nn nv :
  let No := build_enum_type_name tn on in
  let Nn := build_enum_type_name tn nn in
  let Ln := enum_sql_values nv in
  c_type c = TEnum on ov -> ty = TEnum nn nv -> String.eqb on nn = false ->
  ev_is_integer ov = false -> ev_is_integer nv = false ->
  other_col_with_enum s tn cn on = false -> other_col_with_enum s tn cn nn = false ->
  type_free (catalog_of s) tn cn No = true -> labels_ok Ln = true -> enum_default_ok c ty = true ->
  String.eqb No Nn = false -> type_exists Nn (catalog_of s) = false ->
  exec_all (catalog_of s) (gen_modify_column_type s tn cn ty fw) = Ok (catalog_of s').
Proof.
  intros No Nn Ln Hct Hty Hnn Hio Hin Hoo Hon Hfree HL Hdok Hne Hte.
  destruct (mp_type_exists _ Hte) as [Hm Htab].
  pose proof (old_enum s tn cn t c ty s' cols' A C Hctx on ov Hct Hio Hoo) as Hpo.
  pose proof (new_enum s tn cn t c ty s' cols' A C Hctx nn nv Hty Hin Hon) as Hpn.
  fold Y X X' No Nn Ln in Hpo, Hpn.
  destruct (enums_old_remove A X Y C _ mp_nodup Hpo) as (Hrem & HndY & Hget). cbn [fst snd] in Hrem, Hget.
  set (E1 := bt_insert Nn Ln E).
  assert (Hm1 : bt_mem Nn E1 = true) by (unfold E1, bt_mem; now rewrite bt_get_insert, String.eqb_refl).
  destruct (mp_enum_chain E1 Nn Hm1) as (xb & Hchain & Hxb).
  rewrite mp_final. rewrite Hty at 1. rewrite (gen_shape_other_name s tn cn c on ov nn nv fw mp_fc Hct Hnn).
  cbv zeta. fold No Nn Ln. apply mp_fill. rewrite mp_start. cbn [app].
  eapply exec_all_cons_ok; [apply (colcat_create_type s tn cn t mp_f x0 E Nn Ln HL Hm Htab)|]. fold E1.
  rewrite app_mid. eapply exec_all_app_ok; [exact Hchain|].
  eapply exec_all_cons_ok.
  { apply (colcat_drop_type s tn cn t mp_f No (enum_sql_values ov)); [exact Hfree| |].
    - rewrite Hxb. cbn [pc_type]. now rewrite BtP.str_eqb_sym.
    - unfold E1. rewrite bt_get_insert, Hne, mp_E. exact Hget. }
  rewrite <- Hty. rewrite (mp_set_default xb _ nn nv Hty Hdok).
  2:{ rewrite Hxb, Hty. cbn [cat_type]. now rewrite Hin. }
  f_equal. f_equal. symmetry.
  assert (HmY : bt_mem Nn (bt_of_list (A ++ Y ++ C)) = false).
  { rewrite <- Hrem, <- mp_E, bt_mem_remove, Hm. apply andb_false_r. }
  rewrite (enums_new_insert A Y X' C (Nn, Ln) HndY HmY Hpn). cbn [fst snd]. rewrite <- Hrem, <- mp_E. unfold E1.
  symmetry. apply bt_remove_insert_ne; [apply mp_sorted|]. intro Heq. rewrite Heq, String.eqb_refl in Hne. discriminate.
Qed.

(* string enum -> the same name with other values: through the temporary type *)
Lemma path_same_name on ov nv :
  let N := build_enum_type_name tn on in
  let T := N +++ "_new" in
  let Ln := enum_sql_values nv in
  c_type c = TEnum on ov -> ty = TEnum on nv -> dec_b enum_values_eq_dec ov nv = false ->
  ev_is_integer ov = false -> ev_is_integer nv = false ->
  other_col_with_enum s tn cn on = false ->
  type_free (catalog_of s) tn cn N = true -> labels_ok Ln = true -> enum_default_ok c ty = true ->
  String.eqb T N = false -> type_free (catalog_of s) tn cn T = true -> type_exists T (catalog_of s) = false ->
  has_table N s = false ->
  exec_all (catalog_of s) (gen_modify_column_type s tn cn ty fw) = Ok (catalog_of s').
Proof.
  intros N T Ln Hct Hty Hvals Hio Hin Hoo Hfree HL Hdok HTN HfreeT Hte HtabN.
  destruct (mp_type_exists _ Hte) as [Hm Htab].
  pose proof (old_enum s tn cn t c ty s' cols' A C Hctx on ov Hct Hio Hoo) as Hpo.
  pose proof (new_enum s tn cn t c ty s' cols' A C Hctx on nv Hty Hin Hoo) as Hpn.
  fold Y X X' N Ln in Hpo, Hpn.
  destruct (enums_old_remove A X Y C _ mp_nodup Hpo) as (Hrem & HndY & Hget). cbn [fst snd] in Hrem, Hget.
  set (E1 := bt_insert T Ln E).
  assert (Hm1 : bt_mem T E1 = true) by (unfold E1, bt_mem; now rewrite bt_get_insert, String.eqb_refl).
  destruct (mp_enum_chain E1 T Hm1) as (xb & Hchain & Hxb).
  rewrite mp_final. rewrite Hty at 1. rewrite (gen_shape_same_name s tn cn c on ov nv fw mp_fc Hct Hvals).
  cbv zeta. fold N T Ln. apply mp_fill. rewrite mp_start. cbn [app].
  eapply exec_all_cons_ok; [apply (colcat_create_type s tn cn t mp_f x0 E T Ln HL Hm Htab)|]. fold E1.
  rewrite app_mid. eapply exec_all_app_ok; [exact Hchain|].
  assert (HNT : String.eqb N T = false) by (now rewrite BtP.str_eqb_sym).
  eapply exec_all_cons_ok.
  { apply (colcat_drop_type s tn cn t mp_f N (enum_sql_values ov)); [exact Hfree| |].
    - rewrite Hxb. cbn [pc_type]. exact HTN.
    - unfold E1. rewrite bt_get_insert, HNT, mp_E. exact Hget. }
  eapply exec_all_cons_ok.
  { apply (colcat_rename_type s tn cn t mp_f T N Ln xb); [exact HfreeT|now rewrite Hxb|now rewrite Hxb| | |exact HtabN].
    - unfold bt_remove. rewrite bt_get_filter_key, HTN. unfold E1. now rewrite bt_get_insert, String.eqb_refl.
    - now rewrite bt_mem_remove, String.eqb_refl. }
  rewrite <- Hty. rewrite (mp_set_default _ _ on nv Hty Hdok).
  2:{ rewrite Hxb, Hty. cbn [cat_type pc_name pc_notnull pc_default pc_autoinc]. now rewrite Hin. }
  f_equal. f_equal. symmetry.
  assert (HmY : bt_mem N (bt_of_list (A ++ Y ++ C)) = false).
  { rewrite <- Hrem, bt_mem_remove, String.eqb_refl. reflexivity. }
  rewrite (enums_new_insert A Y X' C (N, Ln) HndY HmY Hpn). cbn [fst snd]. f_equal.
  rewrite <- Hrem, <- mp_E, bt_remove_comm. unfold E1. now rewrite (bt_remove_insert_same T Ln E mp_sorted Hm).
Qed.
End ModPaths.

Theorem sim_pg_modify_column_type_enum s tn cn ty fw :
  hyp_modify_type_enum s tn cn ty = true -> step_sim s (ModifyColumnType tn cn ty fw).
Proof.
  unfold hyp_modify_type_enum, column_frame. intro H. apply andb_prop in H. destruct H as [H Hd].
  apply andb_prop in H. destruct H as [Hnd Hcnd].
  destruct (the_column s tn cn) as [[t c]|] eqn:Ecol; [|discriminate].
  destruct (the_column_spec _ _ _ _ _ Ecol) as (Hf & Hc & Hfc).
  apply andb_prop in Hd. destruct Hd as [Hd Hpath].
  apply andb_prop in Hd. destruct Hd as [Hd Ha1]. apply andb_prop in Hd. destruct Hd as [Hend Ha0].
  apply negb_true_iff in Ha0, Ha1.
  destruct (mod_core s tn cn t c ty Hnd Hf Hc Hcnd) as (s' & cols' & A & C & Hctx).
  assert (Hup : update_table tn (update_column tn cn (set_type ty)) s = Ok s') by apply Hctx.
  unfold step_sim. rewrite (step_schema_ok s _ s') by exact Hup.
  eexists. split; [reflexivity|].
  assert (Hdec : forall a b : option string, dec_b (option_eq_dec string_dec) a b = true -> a = b).
  { intros a b. unfold dec_b. now destruct (option_eq_dec string_dec a b). }
  destruct (c_type c) as [st|vl|np ns|cl|cu|on ov] eqn:Ect;
    destruct ty as [st'|vl'|np' ns'|cl'|cu'|nn nv] eqn:Ety; try discriminate; cbv zeta in Hpath.
  1-5: (repeat (apply andb_prop in Hpath; destruct Hpath as [Hpath ?]);
        match goal with
        | Hr : match resolve_type ?c0 ?t0 with _ => _ end = true |- _ =>
            destruct (resolve_type c0 t0) as [[x b]|] eqn:Eres; [|discriminate];
            destruct b; [discriminate|]; apply String.eqb_eq in Hr; subst x
        end;
        apply (path_to_enum s tn cn t c _ fw s' cols' A C Hctx Hend Ha0 Ha1 nn nv eq_refl);
        [rewrite Ect; reflexivity| now apply negb_true_iff | now apply negb_true_iff | now apply negb_true_iff
         | assumption | exact Eres | now apply Hdec]).
  1-5: (repeat (apply andb_prop in Hpath; destruct Hpath as [Hpath ?]);
        match goal with
        | Hr : match resolve_type ?c0 ?t0 with _ => _ end = true |- _ =>
            destruct (resolve_type c0 t0) as [[x b]|] eqn:Eres; [|discriminate];
            destruct b; [discriminate|]; apply String.eqb_eq in Hr; subst x
        end;
        apply (path_from_enum s tn cn t c _ fw s' cols' A C Hctx Hend Ha0 Ha1 on ov Ect eq_refl);
        [now apply negb_true_iff | now apply negb_true_iff | assumption | now apply negb_true_iff
         | exact Eres | now apply Hdec]).
  repeat (apply andb_prop in Hpath; destruct Hpath as [Hpath ?]).
  rename Hpath into Hio, H into Hbranch, H0 into Hdok, H1 into HL, H2 into Hfree, H3 into Hoo, H4 into Hin.
  apply negb_true_iff in Hio, Hin, Hoo.
  destruct (String.eqb on nn) eqn:Enn.
  - apply String.eqb_eq in Enn. subst nn.
    repeat (apply andb_prop in Hbranch; destruct Hbranch as [Hbranch ?]).
    apply (path_same_name s tn cn t c _ fw s' cols' A C Hctx Hend Ha0 Ha1 on ov nv Ect eq_refl);
      try assumption; now apply negb_true_iff.
  - repeat (apply andb_prop in Hbranch; destruct Hbranch as [Hbranch ?]).
    apply (path_other_name s tn cn t c _ fw s' cols' A C Hctx Hend Ha0 Ha1 on ov nn nv Ect eq_refl Enn);
      try assumption; now apply negb_true_iff.
Qed.
