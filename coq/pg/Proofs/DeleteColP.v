(* PG layer: DeleteColumn where single-column unique / index / foreign-key objects go with the column. *)
From VV.M1 Require Import BtP PrefixStrP.
From VV.PG Require Export RenameTableP.

(* ---------- filtering a sorted map by a predicate on the entries ---------- *)
Lemma bt_get_filter_val {V} (pv : string * V -> bool) k : forall m : list (string * V), NoDup (map fst m) ->
  bt_get k (filter pv m) = match bt_get k m with Some v => if pv (k, v) then Some v else None | None => None end.
Proof.
  induction m as [|[k' v'] r IH]; intro Hnd; [reflexivity|].
  cbn [map fst] in Hnd. inversion Hnd as [|? ? Hnin Hr]; subst. cbn [filter bt_get].
  destruct (pv (k', v')) eqn:Ep; cbn [bt_get]; destruct (String.eqb k k') eqn:E.
  - apply String.eqb_eq in E. subst k'. now rewrite Ep.
  - now apply IH.
  - apply String.eqb_eq in E. subst k'. rewrite Ep, (IH Hr).
    assert (Hn : bt_get k r = None) by (now apply bt_get_none). now rewrite Hn.
  - now apply IH.
Qed.

Lemma bt_filter_val {V} (pv : string * V -> bool) (l : list (string * V)) : NoDup (map fst l) ->
  filter pv (bt_of_list l) = bt_of_list (filter pv l).
Proof.
  intro Hnd. apply bt_ext.
  - apply filter_sorted, bt_of_list_sorted.
  - apply bt_of_list_sorted.
  - intro k. rewrite (bt_get_filter_val pv k (bt_of_list l)) by (apply bt_sorted_nodup, bt_of_list_sorted).
    rewrite !bt_get_of_list, <- filter_rev.
    rewrite (bt_get_filter_val pv k (rev l)); [reflexivity|].
    rewrite map_rev. now apply NoDup_rev.
Qed.

Lemma flat_map_filter_val {A B} (f : A -> list B) (p : A -> bool) (pv : B -> bool) : forall l,
  (forall x, In x l -> forall y, In y (f x) -> pv y = p x) ->
  flat_map f (filter p l) = filter pv (flat_map f l).
Proof.
  induction l as [|x r IH]; intro H; [reflexivity|].
  cbn [filter flat_map]. rewrite filter_app, <- IH by (intros; eapply H; [now right|eassumption]).
  assert (Hx : filter pv (f x) = if p x then f x else []).
  { specialize (H x (or_introl eq_refl)). induction (f x) as [|y m IHm]; [now destruct (p x)|].
    cbn [filter]. rewrite (H y (or_introl eq_refl)).
    rewrite IHm by (intros; apply H; now right). now destruct (p x). }
  rewrite Hx. destruct (p x); reflexivity.
Qed.

(* ---------- the constraint list ---------- *)
Lemma drop_in_single cn : drop_in cn [cn] = [].
Proof. unfold drop_in. cbn [filter]. now rewrite String.eqb_refl. Qed.
Lemma mem_single cn : mem_str cn [cn] = true.
Proof. unfold mem_str. cbn [existsb]. now rewrite String.eqb_refl. Qed.
Lemma eqb_single (cols : list string) cn : dec_b (list_eq_dec string_dec) cols [cn] = true -> cols = [cn].
Proof. unfold dec_b. now destruct (list_eq_dec string_dec cols [cn]). Qed.

Lemma drop_constraints_ok cn : forall ks,
  forallb (constraint_ok cn) ks = true -> drop_column_from_constraints cn ks = filter (constraint_avoids cn) ks.
Proof.
  unfold drop_column_from_constraints. induction ks as [|k r IH]; intro H; [reflexivity|].
  cbn [forallb] in H. apply andb_prop in H. destruct H as [Hk Hr]. cbn [flat_map filter]. rewrite (IH Hr).
  destruct (constraint_avoids cn k) eqn:Eav.
  - pose proof (drop_constraints_avoid cn [k]) as H1. unfold drop_column_from_constraints in H1.
    cbn [forallb flat_map] in H1. rewrite Eav in H1. specialize (H1 eq_refl). rewrite app_nil_r in H1.
    now rewrite H1.
  - destruct k as [a cols|n cols|n cols rt rcols od ou|n e|n cols]; cbn [constraint_ok] in Hk;
      try (rewrite Eav in Hk; discriminate); rewrite Eav in Hk; cbn [orb] in Hk; apply eqb_single in Hk; subst cols;
      cbn [drop_column_from_constraint]; rewrite drop_in_single; reflexivity.
Qed.

Definition keep (cn : string) (k : table_constraint) : bool := (is_pk k || constraint_avoids cn k)%bool.
Lemma filter_keep cn ks : forallb (constraint_ok cn) ks = true -> filter (constraint_avoids cn) ks = filter (keep cn) ks.
Proof.
  intro H. apply filter_ext_in. intros k Hk. unfold keep. rewrite forallb_forall in H. specialize (H k Hk).
  destruct k; cbn [is_pk orb]; try reflexivity. cbn [constraint_ok] in H. now rewrite H.
Qed.

Lemma con_rel cn tn k : constraint_ok cn k = true -> forall kv, In kv (con_cat tn k) ->
  negb (con_involves cn tn (snd kv)) = keep cn k.
Proof.
  intros Hok kv Hin. unfold keep.
  destruct k as [a cols|n cols|n cols rt rcols od ou|n e|n cols]; cbn [con_cat] in Hin.
  - destruct Hin as [<-|[]]. cbn [snd con_involves is_pk orb constraint_ok constraint_avoids] in *.
    apply andb_prop in Hok. destruct Hok as [H1 _]. exact H1.
  - destruct Hin.
  - destruct Hin as [<-|[]]. cbn [snd con_involves is_pk orb constraint_ok constraint_avoids] in *.
    destruct (negb (mem_str cn cols) && negb (mem_str cn rcols) && nonempty cols && nonempty rcols)%bool eqn:Eav.
    + repeat (apply andb_prop in Eav; destruct Eav as [Eav ?]). apply negb_true_iff in Eav, H1.
      rewrite Eav, H1. now rewrite andb_false_r.
    + cbn [orb] in Hok. apply eqb_single in Hok. subst cols. now rewrite mem_single.
  - destruct Hin as [<-|[]]. reflexivity.
  - destruct Hin.
Qed.
Lemma idx_rel cn tn k : constraint_ok cn k = true -> forall kv, In kv (idx_cat tn k) ->
  negb (mem_str cn (pi_cols (snd kv))) = keep cn k.
Proof.
  intros Hok kv Hin. unfold keep.
  destruct k as [a cols|n cols|n cols rt rcols od ou|n e|n cols]; cbn [idx_cat] in Hin.
  - destruct Hin as [<-|[]]. cbn [snd pi_cols is_pk orb constraint_ok constraint_avoids] in *.
    apply andb_prop in Hok. destruct Hok as [H1 _]. exact H1.
  - destruct Hin as [<-|[]]. cbn [snd pi_cols is_pk orb constraint_ok constraint_avoids] in *.
    destruct (negb (mem_str cn cols) && nonempty cols)%bool eqn:Eav.
    + apply andb_prop in Eav. destruct Eav as [H1 _]. exact H1.
    + cbn [orb] in Hok. apply eqb_single in Hok. subst cols. now rewrite mem_single.
  - destruct Hin.
  - destruct Hin.
  - destruct Hin as [<-|[]]. cbn [snd pi_cols is_pk orb constraint_ok constraint_avoids] in *.
    destruct (negb (mem_str cn cols) && nonempty cols)%bool eqn:Eav.
    + apply andb_prop in Eav. destruct Eav as [H1 _]. exact H1.
    + cbn [orb] in Hok. apply eqb_single in Hok. subst cols. now rewrite mem_single.
Qed.

Lemma find_pk_keep cn : forall ks, find is_pk (filter (keep cn) ks) = find is_pk ks.
Proof.
  induction ks as [|k r IH]; [reflexivity|]. cbn [filter]. unfold keep at 1.
  destruct (is_pk k) eqn:E; cbn [orb].
  - cbn [find]. now rewrite E.
  - destruct (constraint_avoids cn k); cbn [find]; rewrite ?E; exact IH.
Qed.

Lemma sim_pg_delete_column_goes s tn cn : hyp_delete_column_goes s tn cn = true -> step_sim s (DeleteColumn tn cn).
Proof.
  unfold hyp_delete_column_goes. intro H.
  apply andb_prop in H. destruct H as [H Ht]. apply andb_prop in H. destruct H as [Hnd Hfk].
  destruct (find (fun x => String.eqb (t_name x) tn) s) as [t|] eqn:Hf; [|discriminate].
  repeat (apply andb_prop in Ht; destruct Ht as [Ht ?]).
  rename Ht into Hhas, H into Hndi, H0 into Hndc, H1 into Hok, H2 into Hcnd, H3 into Hplain.
  destruct (find (fun c => String.eqb (c_name c) cn) (t_columns t)) as [c0|] eqn:Hc0; [|discriminate].
  apply negb_true_iff in Hplain.
  pose proof (find_name _ _ _ Hf) as Hname.
  set (t' := mkTable (t_name t) (t_description t)
                     (filter (fun c => negb (String.eqb (c_name c) cn)) (t_columns t))
                     (drop_column_from_constraints cn (t_constraints t))).
  assert (Hft : (fun t0 : table_def =>
                   if has_column cn t0
                   then Ok (mkTable (t_name t0) (t_description t0)
                                    (filter (fun c => negb (String.eqb (c_name c) cn)) (t_columns t0))
                                    (drop_column_from_constraints cn (t_constraints t0)))
                   else Err (ColumnNotFound tn cn)) t = @Ok table_def planner_error t').
  { cbv beta. now rewrite Hhas. }
  assert (Hen : table_enums t' = table_enums t).
  { unfold table_enums, t'. cbn [t_name t_columns]. apply enums_of_cols_filter_plain.
    intros c Hc Ec. now rewrite (find_col_unique cn _ c0 Hcnd Hc0 c Hc Ec). }
  destruct (update_table_spec tn _ s t t' Hnd Hf Hft eq_refl Hen) as (s' & Hup & Hc & _).
  exists [SAlterTable tn [ADropColumn cn]]. split.
  - cbn [gen]. unfold gen_delete_column, find_column_s, find_table_s. rewrite Hf, Hc0.
    destruct (c_type c0); try reflexivity. discriminate.
  - rewrite (step_schema_ok s _ s') by exact Hup.
    cbn [exec_all exec]. rewrite find_table_catalog_of, Hf. cbn [option_map exec_alter_ops].
    unfold exec_alter_op. rewrite find_table_catalog_of, Hf. cbn [option_map].
    rewrite has_col_table_cat, Hhas. cbn [negb].
    unfold inbound_fks. unfold catalog_of at 1. cbn [c_tables].
    rewrite (inbound_none_p tn (mem_str cn) s Hfk).
    rewrite Hc. f_equal. f_equal. f_equal.
    unfold t'. unfold table_cat. cbn [pt_name pt_cols pt_cons pt_idx t_name t_columns t_constraints].
    rewrite (drop_constraints_ok cn _ Hok), (filter_keep cn _ Hok).
    rewrite (first_pk_only_filter (keep cn)) by (intros k Hk; unfold keep; now rewrite Hk).
    assert (Hokf : forall k, In k (first_pk_only false (t_constraints t)) -> constraint_ok cn k = true).
    { intros k Hk. apply first_pk_only_in in Hk. rewrite forallb_forall in Hok. now apply Hok. }
    rewrite Hname in *. f_equal.
    + apply filter_cols_cat. apply col_cat_ext; [cbn [t_name]; symmetry; exact Hname|]. unfold pk_of. cbn [t_constraints].
      now rewrite find_pk_keep.
    + rewrite (bt_filter_val _ _ (nodup_str_NoDup _ Hndc)). f_equal. symmetry.
      apply flat_map_filter_val. intros k Hk kv Hkv. apply (con_rel cn tn k (Hokf k Hk) kv Hkv).
    + rewrite (bt_filter_val _ _ (nodup_str_NoDup _ Hndi)). f_equal. symmetry.
      apply flat_map_filter_val. intros k Hk kv Hkv. apply (idx_rel cn tn k (Hokf k Hk) kv Hkv).
Qed.
