(* PG layer, C14: the generator is equivariant under a literal table prefix:
     gen (literal_schema p s) P' (literal_action p a) = map (rename_stmt p) (gen s P a). *)
From VV.M1 Require Import PrefixStrP PrefixP.
From VV.PG Require Export Rename.

Lemma append_assoc (a b c : string) : (a +++ b) +++ c = a +++ (b +++ c).
Proof. induction a as [|x a IH]; cbn [String.append]; [reflexivity|now rewrite IH]. Qed.

Lemma enum_name_prefix p t e : build_enum_type_name (p +++ t) e = p +++ build_enum_type_name t e.
Proof. unfold build_enum_type_name. apply append_assoc. Qed.
Lemma name_with_prefix pfx p t cols key a b :
  pfx = String a (String b EmptyString) ->
  name_with pfx (p +++ t) cols key = rn3 p (name_with pfx t cols key).
Proof.
  intros ->. unfold name_with. destruct key; cbn [String.append rn3]; now rewrite !append_assoc.
Qed.
Lemma fk_name_prefix p t cols key : build_foreign_key_name (p +++ t) cols key = rn3 p (build_foreign_key_name t cols key).
Proof. eapply name_with_prefix. reflexivity. Qed.
Lemma ix_name_prefix p t cols key : build_index_name (p +++ t) cols key = rn3 p (build_index_name t cols key).
Proof. eapply name_with_prefix. reflexivity. Qed.
Lemma uq_name_prefix p t cols key : build_unique_constraint_name (p +++ t) cols key = rn3 p (build_unique_constraint_name t cols key).
Proof. eapply name_with_prefix. reflexivity. Qed.

(* ---------- types ---------- *)
Lemma type_text_builtin tn ty :
  match ty with TCustom _ | TEnum _ _ => True | _ => is_builtin_text (type_text tn ty) = true end.
Proof. destruct ty as [st|n|pr sc|n|c|e v]; try exact I; try reflexivity. destruct st; reflexivity. Qed.

Lemma sea_type_prefix p tn ty : type_ok tn ty = true -> sea_type (p +++ tn) ty = rn_type p (sea_type tn ty).
Proof.
  intro H. unfold sea_type, rn_type. cbn [ty_quoted ty_text orb].
  destruct ty as [st|n|pr sc|n|c|e v]; try discriminate.
  - pose proof (type_text_builtin tn (TSimple st)) as B. cbv beta iota in B. rewrite B. reflexivity.
  - pose proof (type_text_builtin tn (TVarchar n)) as B. cbv beta iota in B. rewrite B. reflexivity.
  - pose proof (type_text_builtin tn (TNumeric pr sc)) as B. cbv beta iota in B. rewrite B. reflexivity.
  - pose proof (type_text_builtin tn (TChar n)) as B. cbv beta iota in B. rewrite B. reflexivity.
  - cbn [type_ok] in H. cbn [type_text]. destruct (ev_is_integer v); [reflexivity|].
    cbn [orb] in H. rewrite H. now rewrite enum_name_prefix.
Qed.

Lemma serial_builtin ty s : serial_text ty = Some s -> rn_type "" (mkTy s false) = mkTy s false /\ forall p, rn_type p (mkTy s false) = mkTy s false.
Proof.
  destruct ty as [[]| | | | |]; try discriminate; intro H; injection H as <-; split; reflexivity.
Qed.

Lemma sea_coldef_prefix p tn c :
  type_ok tn (c_type c) = true -> sea_coldef (p +++ tn) (literal_col p c) = rn_coldef p (sea_coldef tn c).
Proof.
  intro H. unfold sea_coldef, rn_coldef. cbn [cd_name cd_type cd_notnull cd_default cd_pk].
  rewrite lc_name, lc_type, lc_nullable. rewrite (sea_type_prefix p tn _ H). f_equal.
Qed.

(* ---------- schema look-ups ---------- *)
Lemma find_ext' {A} (f g : A -> bool) : (forall x, f x = g x) -> forall l, find f l = find g l.
Proof. intros H l. induction l as [|x r IH]; cbn [find]; [reflexivity|]. rewrite H. now rewrite IH. Qed.

Lemma find_column_literal p s t c :
  find_column_s (literal_schema p s) (p +++ t) c = option_map (literal_col p) (find_column_s s t c).
Proof.
  unfold find_column_s, find_table_s, literal_schema. rewrite find_map.
  rewrite (find_ext' _ (fun x => String.eqb (t_name x) t)) by (intro x; apply eqb_prefix).
  destruct (find (fun x => String.eqb (t_name x) t) s) as [td|]; [|reflexivity].
  cbn [option_map literal_table t_columns]. rewrite find_map. reflexivity.
Qed.

(* ---------- small builders ---------- *)
Lemma create_enum_type_prefix p t ty :
  create_enum_type (p +++ t) ty = map (rename_stmt p) (create_enum_type t ty).
Proof.
  destruct ty as [st|n|pr sc|n|c|e v]; try reflexivity.
  unfold create_enum_type. destruct (ev_is_integer v); [reflexivity|]. cbn [map rename_stmt]. now rewrite enum_name_prefix.
Qed.
Lemma drop_enum_type_prefix p t ty :
  drop_enum_type (p +++ t) ty = map (rename_stmt p) (drop_enum_type t ty).
Proof.
  destruct ty as [st|n|pr sc|n|c|e v]; try reflexivity.
  unfold drop_enum_type. cbn [map rename_stmt]. now rewrite enum_name_prefix.
Qed.
Lemma fill_updates_prefix p t c fw :
  fill_with_updates (p +++ t) c fw = map (rename_stmt p) (fill_with_updates t c fw).
Proof. destruct fw as [l|]; [|reflexivity]. unfold fill_with_updates. rewrite map_map. reflexivity. Qed.
Lemma modify_ops_prefix p t d : modify_column_ops (rn_coldef p d) = map (rn_op p t) (modify_column_ops d).
Proof.
  unfold modify_column_ops, rn_coldef. cbn [cd_name cd_type cd_notnull cd_default].
  rewrite !map_app. cbn [map rn_op]. destruct (cd_notnull d), (cd_default d); reflexivity.
Qed.

Lemma add_column_prefix p t col fw : type_ok t (c_type col) = true ->
  gen_add_column (p +++ t) (literal_col p col) fw = map (rename_stmt p) (gen_add_column t col fw).
Proof.
  intro H. unfold gen_add_column. rewrite lc_nullable, lc_default, lc_type, lc_name, create_enum_type_prefix.
  rewrite map_app. f_equal.
  destruct (negb (c_nullable col) && _ && _)%bool.
  - rewrite !map_app. cbn [map rename_stmt rn_op]. f_equal; [|f_equal].
    + change (set_nullable true (literal_col p col)) with (literal_col p (set_nullable true col)).
      now rewrite (sea_coldef_prefix p t (set_nullable true col)).
    + destruct (normalize_fill_with fw); reflexivity.
    + rewrite (sea_coldef_prefix p t col H). now rewrite (modify_ops_prefix p t).
  - cbn [map rename_stmt rn_op]. now rewrite (sea_coldef_prefix p t col H).
Qed.

Lemma delete_column_prefix p s t c :
  gen_delete_column (literal_schema p s) (p +++ t) c = map (rename_stmt p) (gen_delete_column s t c).
Proof.
  unfold gen_delete_column. rewrite find_column_literal, map_app. f_equal.
  destruct (find_column_s s t c) as [x|]; [|reflexivity]. cbn [option_map]. rewrite lc_type. apply drop_enum_type_prefix.
Qed.

Lemma modify_default_prefix p s t c d :
  gen_modify_column_default (literal_schema p s) (p +++ t) c d = map (rename_stmt p) (gen_modify_column_default s t c d).
Proof.
  unfold gen_modify_column_default. destruct d as [x|]; [|reflexivity].
  rewrite find_column_literal. destruct (find_column_s s t c); reflexivity.
Qed.

Lemma add_constraint_prefix p t k :
  gen_add_constraint (p +++ t) (literal_constraint p k) = map (rename_stmt p) (gen_add_constraint t k).
Proof.
  destruct k; cbn [literal_constraint gen_add_constraint map rename_stmt rn_op rn_fk fk_name fk_cols fk_rtable fk_rcols fk_on_delete fk_on_update option_map];
    rewrite ?uq_name_prefix, ?ix_name_prefix, ?fk_name_prefix; reflexivity.
Qed.

Lemma starts_with_fk t cols n : starts_with "fk_" (build_foreign_key_name t cols n) = true.
Proof. unfold build_foreign_key_name, name_with. destruct n; reflexivity. Qed.

Lemma remove_constraint_prefix p t k :
  match k with
  | CCheck n _ => check_name_ok t n = true
  | CForeignKey n cols _ _ _ _ => String.eqb (build_foreign_key_name t cols n) (t +++ "_pkey") = false
  | _ => True
  end ->
  gen_remove_constraint (p +++ t) (literal_constraint p k) = map (rename_stmt p) (gen_remove_constraint t k).
Proof.
  destruct k as [a pc|un uc|fn fc rt rc od ou|cn ce|inn ic]; intro H;
    cbn [literal_constraint gen_remove_constraint map rename_stmt rn_op].
  - unfold rn_con. rewrite String.eqb_refl. now rewrite append_assoc.
  - now rewrite uq_name_prefix.
  - unfold rn_con. rewrite H, starts_with_fk. now rewrite fk_name_prefix.
  - unfold check_name_ok in H. apply andb_prop in H. destruct H as [H1 H2].
    apply negb_true_iff in H1, H2. unfold rn_con. now rewrite H1, H2.
  - now rewrite ix_name_prefix.
Qed.

(* ---------- ModifyColumnType ---------- *)
Lemma modify_type_prefix p s t c ty fw : type_ok t ty = true ->
  gen_modify_column_type (literal_schema p s) (p +++ t) c ty fw
  = map (rename_stmt p) (gen_modify_column_type s t c ty fw).
Proof.
  intro H. unfold gen_modify_column_type. rewrite find_column_literal.
  assert (Hold : option_map c_type (option_map (literal_col p) (find_column_s s t c))
                 = option_map c_type (find_column_s s t c)) by (destruct (find_column_s s t c); reflexivity).
  rewrite Hold.
  assert (Hdef : match option_map (literal_col p) (find_column_s s t c) with Some x => c_default x | None => None end
                 = match find_column_s s t c with Some x => c_default x | None => None end)
    by (destruct (find_column_s s t c); reflexivity).
  rewrite Hdef.
  set (old := option_map c_type (find_column_s s t c)).
  set (dflt := match find_column_s s t c with Some x => c_default x | None => None end).
  destruct old as [[st|n|pr sc|n|cu|on ov]|] eqn:Eold; destruct ty as [st'|n'|pr' sc'|n'|cu'|nn nv] eqn:Ety;
    try discriminate;
    try (rewrite !map_app, fill_updates_prefix; cbn [map app rename_stmt rn_op];
         rewrite ?create_enum_type_prefix, ?enum_name_prefix;
         repeat f_equal; now rewrite <- (sea_type_prefix p t _ H)).
  - (* enum -> non-custom simple etc. handled above; enum -> enum below *)
    destruct (negb (String.eqb on nn && dec_b enum_values_eq_dec ov nv)) eqn:Emig.
    + (* enum-to-enum migration through a second type *)
      rewrite !map_app, fill_updates_prefix. cbn [map rename_stmt rn_op]. rewrite !enum_name_prefix.
      f_equal. destruct (negb (String.eqb on nn)) eqn:Ediff;
        destruct dflt; cbn [map app rename_stmt rn_op rn_type ty_quoted ty_text orb];
        repeat rewrite append_assoc; reflexivity.
    + (* same enum: the standard path *)
      rewrite !map_app, fill_updates_prefix. cbn [map app rename_stmt rn_op].
      apply negb_false_iff, andb_prop in Emig. destruct Emig as [En _]. rewrite En. cbn [negb app map].
      repeat f_equal. now rewrite <- (sea_type_prefix p t _ H).
Qed.

(* ---------- CreateTable ---------- *)
Lemma create_enum_types_prefix p t : forall cols seen,
  create_enum_types (p +++ t) (map (literal_col p) cols) seen
  = map (rename_stmt p) (create_enum_types t cols seen).
Proof.
  induction cols as [|c r IH]; intro seen; [reflexivity|].
  cbn [map create_enum_types]. rewrite lc_type.
  destruct (c_type c) as [st|n|pr sc|n|cu|e v] eqn:Ec; try apply IH.
  destruct (mem_str e seen); [apply IH|].
  rewrite map_app, <- IH. f_equal. rewrite <- Ec at 1. rewrite <- (create_enum_type_prefix p t). now rewrite Ec.
Qed.

Lemma is_pk_lk p k : is_pk (literal_constraint p k) = is_pk k.
Proof. now destruct k. Qed.

Lemma create_coldef_prefix p t ks c : type_ok t (c_type c) = true ->
  create_coldef (p +++ t) (map (literal_constraint p) ks) (literal_col p c) = rn_coldef p (create_coldef t ks c).
Proof.
  intro H. unfold create_coldef.
  rewrite existsb_map. rewrite (existsb_ext_in _ is_pk) by (intros; apply is_pk_lk).
  rewrite flat_map_map.
  rewrite (flat_map_ext_in (fun x => match literal_constraint p x with CPrimaryKey true pk => pk | _ => [] end)
                           (fun k => match k with CPrimaryKey true pk => pk | _ => [] end))
    by (intros x _; now destruct x).
  rewrite (sea_coldef_prefix p t c H). unfold rn_coldef. cbn [cd_name cd_type cd_notnull cd_default cd_pk].
  rewrite lc_name, lc_type, lc_pk. f_equal.
  destruct (mem_str (c_name c) _ && supports_auto_increment (c_type c))%bool; [|reflexivity].
  destruct (serial_text (c_type c)) as [st|] eqn:Es; [|reflexivity].
  symmetry. exact (proj2 (serial_builtin _ _ Es) p).
Qed.

Lemma create_table_stmt_prefix p t cols ks :
  forallb (fun c => type_ok t (c_type c)) cols = true ->
  create_table_stmt (p +++ t) (map (literal_col p) cols) (map (literal_constraint p) ks)
  = rename_stmt p (create_table_stmt t cols ks).
Proof.
  intro H. unfold create_table_stmt. cbn [rename_stmt]. f_equal.
  - rewrite !map_map. apply map_ext_in. intros c Hc.
    rewrite forallb_forall in H. now apply create_coldef_prefix, H.
  - unfold create_pks. rewrite flat_map_map. apply flat_map_ext_in. intros x _. now destruct x.
  - unfold create_fks. rewrite flat_map_map, map_flat_map. apply flat_map_ext_in. intros x _.
    destruct x; try reflexivity. cbn [literal_constraint map rn_fk fk_name fk_cols fk_rtable fk_rcols fk_on_delete fk_on_update option_map].
    now rewrite fk_name_prefix.
Qed.

Lemma filter_map_lk p (q : table_constraint -> bool) :
  (forall k, q (literal_constraint p k) = q k) -> forall ks,
  filter q (map (literal_constraint p) ks) = map (literal_constraint p) (filter q ks).
Proof.
  intros Hq. induction ks as [|k r IH]; [reflexivity|]. cbn [map filter]. rewrite Hq.
  destruct (q k); cbn [map]; now rewrite IH.
Qed.

Lemma create_table_prefix p t cols ks : no_dot p ->
  forallb (fun c => type_ok t (c_type c)) cols = true ->
  gen_create_table (p +++ t) (map (literal_col p) cols) (map (literal_constraint p) ks)
  = match gen_create_table t cols ks with Ok q => Ok (map (rename_stmt p) q) | Err e => Err e end.
Proof.
  intros Hp H. unfold gen_create_table.
  change (mkTable (p +++ t) None (map (literal_col p) cols) (map (literal_constraint p) ks))
    with (literal_table p (mkTable t None cols ks)).
  rewrite (normalize_literal_full p _ Hp).
  destruct (normalize (mkTable t None cols ks)) as [n|e] eqn:En; [|reflexivity].
  cbn [literal_table t_columns t_constraints].
  (* normalize keeps the columns *)
  assert (Hcols : t_columns n = cols).
  { unfold normalize in En. cbn [t_columns t_constraints] in En.
    destruct (normalize_constraints cols ks); [|discriminate]. now injection En as <-. }
  f_equal. rewrite !map_app. f_equal; [|f_equal; [|f_equal]].
  - apply create_enum_types_prefix.
  - cbn [map]. f_equal. rewrite filter_map_lk by (intro k; now destruct k).
    apply create_table_stmt_prefix. now rewrite Hcols.
  - rewrite flat_map_map, map_flat_map. apply flat_map_ext_in. intros x _.
    destruct x; try reflexivity. cbn [literal_constraint map rename_stmt]. now rewrite uq_name_prefix.
  - rewrite flat_map_map, map_flat_map. apply flat_map_ext_in. intros x _.
    destruct x; try reflexivity. cbn [literal_constraint map rename_stmt]. now rewrite ix_name_prefix.
Qed.

(* ---------- all 13 builders ---------- *)
Theorem gen_equivariant p s a P P' : no_dot p -> side_pg s a = true ->
  gen (literal_schema p s) P' (literal_action p a)
  = match gen s P a with Ok q => Ok (map (rename_stmt p) q) | Err e => Err e end.
Proof.
  intros Hp Hs. destruct a as [t cols ks|t|t col fw|t a b|t c|t c ty fw|t c n fw|t c d|t c d|t k|t k|a b|sql];
    cbn [literal_action gen].
  - apply create_table_prefix; assumption.
  - reflexivity.
  - f_equal. now apply add_column_prefix.
  - reflexivity.
  - f_equal. apply delete_column_prefix.
  - f_equal. apply modify_type_prefix. cbn [side_pg] in Hs. apply andb_prop in Hs. tauto.
  - f_equal. unfold gen_modify_column_nullable. destruct n; [reflexivity|].
    destruct (normalize_fill_with fw); reflexivity.
  - f_equal. apply modify_default_prefix.
  - reflexivity.
  - f_equal. apply add_constraint_prefix.
  - f_equal. apply remove_constraint_prefix. destruct k; try exact I; cbn [side_pg] in Hs.
    + now apply negb_true_iff.
    + exact Hs.
  - reflexivity.
  - destruct (String.eqb (trim sql) ""); reflexivity.
Qed.
