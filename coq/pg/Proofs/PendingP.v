(* PG layer: the per-step hypotheses as one decidable predicate (sim_hyp is sound for step_sim), decidable
   plan-level theorems, and the pending-set invariant: the database's schema d (added columns carry no inline
   declaration) is simulated step by step; once the pending set is settled the plan ends in catalog_of of the
   planner's schema. *)
From VV.PG Require Export DeleteColP.
From VV.PG Require Export Pending.

(* ---------- every step the check counts as "under a proved lemma" is under a proved lemma ---------- *)
Theorem sim_hyp_sound s a : sim_hyp s a = true -> step_sim s a.
Proof.
  destruct a as [t cols ks|t|t col fw|t a b|t c|t c ty fw|t c nl fw|t c d|t c d|t k|t k|a b|sql]; cbn [sim_hyp]; intro H.
  - now apply sim_pg_create_table.
  - now apply sim_pg_delete_table.
  - apply orb_prop in H. destruct H as [H|H]; [apply orb_prop in H; destruct H as [H|H]|].
    + now apply sim_pg_add_column.
    + now apply sim_pg_add_column_backfill.
    + now apply sim_pg_add_column_enum.
  - now apply sim_pg_rename_column.
  - apply orb_prop in H. destruct H as [H|H]; [apply orb_prop in H; destruct H as [H|H]|].
    + now apply sim_pg_delete_column.
    + now apply sim_pg_delete_column_enum.
    + now apply sim_pg_delete_column_goes.
  - apply orb_prop in H. destruct H as [H|H]; [now apply sim_pg_modify_column_type|now apply sim_pg_modify_column_type_enum].
  - now apply sim_pg_modify_column_nullable.
  - now apply sim_pg_modify_column_default.
  - now apply sim_pg_modify_column_comment.
  - now apply sim_pg_add_constraint.
  - destruct k; [now apply sim_pg_remove_pk|now apply sim_pg_remove_constraint..].
  - now apply sim_pg_rename_table.
  - apply sim_pg_raw_sql.
Qed.

Lemma all_sim_sound : forall acts s, all_sim s acts = true -> all_steps step_sim s acts.
Proof.
  induction acts as [|a r IH]; intros s H; [exact I|]. cbn [all_sim] in H. apply andb_prop in H. destruct H as [H1 H2].
  split; [now apply sim_hyp_sound|now apply IH].
Qed.

(* Sim_plan with its hypothesis evaluated: one boolean about the plan *)
Theorem Sim_plan_dec acts s n : plan_hyp s acts = true ->
  exists qs, gen_plan s acts = Ok qs /\ run_actions (catalog_of s) n qs = Ok (catalog_of (final_schema s acts)).
Proof. intro H. apply Sim_plan. now apply all_sim_sound. Qed.

(* ---------- the pending-set invariant:  c = catalog_of d  along the plan ---------- *)
Definition step_sim2 (s d : schema) (a : action) : Prop :=
  exists q, gen s [] a = Ok q /\ exec_all (catalog_of d) q = Ok (catalog_of (db_step d a)).

(* the generator reads the schema only through the type and the default of one column *)
Lemma find_strip c : forall l1 l2 : list column_def, map strip_col l1 = map strip_col l2 ->
  option_map strip_col (find (fun x => String.eqb (c_name x) c) l1)
  = option_map strip_col (find (fun x => String.eqb (c_name x) c) l2).
Proof.
  induction l1 as [|x r IH]; intros [|y r2] H; try discriminate; [reflexivity|].
  cbn [map] in H. remember (strip_col x) as sx eqn:Esx. remember (strip_col y) as sy eqn:Esy.
  injection H as H1 H2. subst sx sy. cbn [find].
  assert (Hn : c_name x = c_name y) by (exact (f_equal c_name H1)). rewrite Hn.
  destruct (String.eqb (c_name y) c); [cbn [option_map]; now rewrite H1|now apply IH].
Qed.
Lemma find_column_core t c : forall s d, map table_core s = map table_core d ->
  option_map strip_col (find_column_s s t c) = option_map strip_col (find_column_s d t c).
Proof.
  unfold find_column_s, find_table_s.
  induction s as [|x r IH]; intros [|y r2] H; try discriminate; [reflexivity|].
  cbn [map] in H. injection H as H1 H2 H3. cbn [find]. rewrite H1.
  destruct (String.eqb (t_name y) t); [now apply find_strip|now apply IH].
Qed.
Lemma gen_same_core s d a : map table_core s = map table_core d -> gen s [] a = gen d [] (strip_action a).
Proof.
  intro H. destruct a as [t cols ks|t|t col fw|t a b|t c|t c ty fw|t c nl fw|t c dv|t c dv|t k|t k|a b|sql];
    cbn [gen strip_action]; try reflexivity;
    pose proof (find_column_core t c s d H) as Hc;
    destruct (find_column_s s t c) as [x|] eqn:Ex; destruct (find_column_s d t c) as [y|] eqn:Ey; try discriminate;
    try (cbn [option_map] in Hc;
         assert (Ht : c_type x = c_type y)
           by (pose proof (f_equal (option_map c_type) Hc) as Hq; cbn in Hq; now injection Hq);
         assert (Hd : c_default x = c_default y)
           by (pose proof (f_equal (option_map c_default) Hc) as Hq; cbn in Hq; now injection Hq)).
  - unfold gen_delete_column. now rewrite Ex, Ey, Ht.
  - unfold gen_delete_column. now rewrite Ex, Ey.
  - unfold gen_modify_column_type. rewrite Ex, Ey. cbn [option_map]. now rewrite Ht, Hd.
  - unfold gen_modify_column_type. now rewrite Ex, Ey.
  - unfold gen_modify_column_default. now rewrite Ex, Ey, Ht.
  - unfold gen_modify_column_default. now rewrite Ex, Ey.
Qed.

Lemma sim_hyp2_sound s d a : sim_hyp2 s d a = true -> step_sim2 s d a.
Proof.
  unfold sim_hyp2, same_core. intro H. apply andb_prop in H. destruct H as [Hg Hs].
  destruct (sim_hyp_sound d (strip_action a) Hs) as (q' & Hq' & He).
  unfold dec_b in Hg. destruct (list_eq_dec _ _ _) as [Heq|]; [|discriminate].
  exists q'. split; [now rewrite (gen_same_core s d a Heq)|exact He].
Qed.

Theorem Sim_plan_db : forall acts s d n, all_sim2 s d acts = true ->
  exists qs, gen_plan s acts = Ok qs /\ run_actions (catalog_of d) n qs = Ok (catalog_of (final_db d acts)).
Proof.
  induction acts as [|a r IH]; intros s d n H.
  - exists []. split; reflexivity.
  - cbn [all_sim2] in H. apply andb_prop in H. destruct H as [H1 H2].
    destruct (sim_hyp2_sound s d a H1) as (q & Hg & He).
    destruct (IH (step_schema s a) (db_step d a) (S n) H2) as (qs & Hgp & Hrun).
    exists (q :: qs). split.
    + cbn [gen_plan]. rewrite gen_pending_irrelevant, Hg. fold (step_schema s a). now rewrite Hgp.
    + cbn [run_actions]. rewrite He. exact Hrun.
Qed.

(* the plan-level theorem that no longer excludes AddColumn with an inline declaration: the statements of the plan
   take catalog_of s to catalog_of of the planner's final schema whenever every step is simulated on the
   database's schema and the pending set is settled at the end *)
Theorem Sim_plan_pending acts s n : plan_hyp_pending s acts = true ->
  exists qs, gen_plan s acts = Ok qs /\ run_actions (catalog_of s) n qs = Ok (catalog_of (final_schema s acts)).
Proof.
  unfold plan_hyp_pending, pending_settled. intro H. apply andb_prop in H. destruct H as [H1 H2].
  destruct (Sim_plan_db acts s s n H1) as (qs & Hg & Hr). exists qs. split; [exact Hg|].
  unfold cat_eqb, dec_b in H2. destruct (catalog_eq_dec _ _) as [Heq|]; [|discriminate].
  rewrite Hr, Heq. reflexivity.
Qed.

(* histories: every migration under one of the two plan-level theorems *)
Theorem Sim_history_pending : forall h s, history_ok s h = true ->
  run_history (catalog_of s) s h = Some (catalog_of (fold_left final_schema h s)).
Proof.
  induction h as [|acts r IH]; intros s H; [reflexivity|]. cbn [history_ok] in H. apply andb_prop in H.
  destruct H as [H1 H2]. cbn [run_history fold_left].
  assert (Hp : exists qs, gen_plan s acts = Ok qs /\ run_actions (catalog_of s) 0 qs = Ok (catalog_of (final_schema s acts))).
  { unfold plan_ok in H1. apply orb_prop in H1. destruct H1 as [H1|H1]; [now apply Sim_plan_dec|now apply Sim_plan_pending]. }
  destruct Hp as (qs & Hg & Hrun). rewrite Hg, Hrun. now apply IH.
Qed.
