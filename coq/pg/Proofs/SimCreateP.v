(* PG layer: simulation lemma for CreateTable (outside the CHECK / enum / name-clash / target-not-ready classes). *)
From VV.M1 Require Import BtP PrefixStrP.
From VV.PG Require Export SimKindsP.
From Coq Require Import Lia Permutation.

(* ---------- the last table of a catalog ---------- *)
Section Last.
Variables (ts : list pg_table) (E : list (string * list string)) (tn : string).
Hypothesis Hfresh : forall T0, In T0 ts -> String.eqb (pt_name T0) tn = false.

Lemma find_last T : pt_name T = tn -> find_table tn (mkCat (ts ++ [T]) E) = Some T.
Proof.
  intro HT. unfold find_table. cbn [c_tables]. clear -Hfresh HT.
  induction ts as [|x r IH]; cbn [app find].
  - now rewrite HT, String.eqb_refl.
  - rewrite (Hfresh x (or_introl eq_refl)). apply IH. intros; apply Hfresh; now right.
Qed.

Lemma replace_last T T' : pt_name T = tn ->
  replace_table T' tn (mkCat (ts ++ [T]) E) = mkCat (ts ++ [T']) E.
Proof.
  intro HT. unfold replace_table, map_table, set_tables. cbn [c_tables c_enums]. f_equal.
  rewrite map_app. cbn [map]. rewrite HT, String.eqb_refl. f_equal.
  clear -Hfresh. induction ts as [|x r IH]; [reflexivity|]. cbn [map].
  rewrite (Hfresh x (or_introl eq_refl)). f_equal. apply IH. intros; apply Hfresh; now right.
Qed.

Lemma find_other rt T : pt_name T = tn -> String.eqb rt tn = false ->
  find_table rt (mkCat (ts ++ [T]) E) = find_table rt (mkCat ts E).
Proof.
  intros HT Hne. unfold find_table. cbn [c_tables]. clear Hfresh.
  induction ts as [|x r IH]; cbn [app find].
  - rewrite HT, BtP.str_eqb_sym, Hne. reflexivity.
  - destruct (String.eqb (pt_name x) rt); [reflexivity|exact IH].
Qed.

Lemma rel_names_last T :
  rel_names (mkCat (ts ++ [T]) E) = rel_names (mkCat ts E) ++ pt_name T :: bt_keys (pt_idx T).
Proof. unfold rel_names. cbn [c_tables]. rewrite flat_map_app. cbn [flat_map]. now rewrite app_nil_r. Qed.
End Last.

(* ---------- keys of maps ---------- *)
Lemma mem_keys_insert {V} n k (v : V) m :
  mem_str n (bt_keys (bt_insert k v m)) = (String.eqb n k || mem_str n (bt_keys m))%bool.
Proof.
  unfold bt_keys, mem_str. induction m as [|[k' v'] r IH]; cbn [bt_insert map existsb fst].
  - now rewrite orb_false_r.
  - destruct (String.compare k k') eqn:Ec; cbn [map existsb fst].
    + apply String.compare_eq_iff in Ec. subst k'.
      destruct (String.eqb n k); reflexivity.
    + reflexivity.
    + rewrite IH. destruct (String.eqb n k'), (String.eqb n k); reflexivity.
Qed.

Lemma bt_mem_keys {V} n (m : list (string * V)) : bt_mem n m = mem_str n (bt_keys m).
Proof.
  unfold bt_mem, bt_keys, mem_str. induction m as [|[k v] r IH]; cbn [bt_get map existsb fst]; [reflexivity|].
  destruct (String.eqb n k); [reflexivity|exact IH].
Qed.

Lemma nodup_str_NoDup l : nodup_str l = true -> NoDup l.
Proof.
  induction l as [|x r IH]; intro H; [constructor|].
  apply nodup_str_cons in H. destruct H as [Hx Hr]. constructor; [|now apply IH].
  intro Hin. unfold mem_str in Hx. assert (existsb (String.eqb x) r = true); [|congruence].
  apply existsb_exists. exists x. split; [exact Hin|apply String.eqb_refl].
Qed.

Lemma mem_str_In x l : mem_str x l = true <-> In x l.
Proof.
  unfold mem_str. rewrite existsb_exists. split.
  - intros (y & Hy & E). apply String.eqb_eq in E. now subst.
  - intro H. exists x. split; [exact H|apply String.eqb_refl].
Qed.
Lemma mem_str_app x a b : mem_str x (a ++ b) = (mem_str x a || mem_str x b)%bool.
Proof. unfold mem_str. apply existsb_app. Qed.

(* ---------- a run of CREATE [UNIQUE] INDEX statements on the last table ---------- *)
Definition stmt_of_entry (tn : string) (e : string * pg_index) : stmt :=
  SCreateIndex (pi_unique (snd e)) (fst e) tn (pi_cols (snd e)).
Definition add_entry (T : pg_table) (e : string * pg_index) : pg_table :=
  with_idx T (fst e) (mkPi (pi_cols (snd e)) (pi_unique (snd e)) false).

Lemma exec_indexes ts E tn :
  (forall T0, In T0 ts -> String.eqb (pt_name T0) tn = false) ->
  forall (L : list (string * pg_index)) T,
  pt_name T = tn ->
  (forall e, In e L -> first_missing (pi_cols (snd e)) T = None) ->
  nodup_str (map fst L) = true ->
  (forall e, In e L -> mem_str (fst e) (rel_names (mkCat ts E) ++ tn :: bt_keys (pt_idx T)) = false) ->
  exec_all (mkCat (ts ++ [T]) E) (map (stmt_of_entry tn) L)
  = Ok (mkCat (ts ++ [fold_left add_entry L T]) E).
Proof.
  intros Hfresh. induction L as [|e r IH]; intros T HT Hcols Hnd Hnew; [reflexivity|].
  cbn [map exec_all fold_left]. unfold stmt_of_entry at 1. cbn [exec].
  rewrite (find_last ts E tn Hfresh T HT).
  unfold rel_exists. rewrite rel_names_last, HT, (Hnew e (or_introl eq_refl)).
  rewrite (Hcols e (or_introl eq_refl)).
  rewrite (replace_last ts E tn Hfresh T _ HT).
  cbn [map] in Hnd. apply nodup_str_cons in Hnd. destruct Hnd as [He Hr].
  change (with_idx T (fst e) {| pi_cols := pi_cols (snd e); pi_unique := pi_unique (snd e); pi_con := false |})
    with (add_entry T e).
  rewrite (IH (add_entry T e)).
  - reflexivity.
  - exact HT.
  - intros e' He'. unfold add_entry, with_idx, first_missing, has_col. cbn [pt_cols].
    exact (Hcols e' (or_intror He')).
  - exact Hr.
  - intros e' He'. unfold add_entry, with_idx. cbn [pt_idx].
    pose proof (Hnew e' (or_intror He')) as H1.
    rewrite mem_str_app in *. cbn [mem_str existsb] in *. unfold mem_str in *.
    fold (mem_str (fst e') (bt_keys (bt_insert (fst e) (mkPi (pi_cols (snd e)) (pi_unique (snd e)) false) (pt_idx T)))).
    rewrite mem_keys_insert.
    apply orb_false_iff in H1. destruct H1 as [Ha Hb]. apply orb_false_iff in Hb. destruct Hb as [Hb Hc].
    rewrite Ha, Hb. cbn [orb]. unfold mem_str. rewrite Hc, orb_false_r.
    (* fst e' <> fst e *)
    destruct (String.eqb (fst e') (fst e)) eqn:Eq; [|reflexivity]. exfalso.
    apply String.eqb_eq in Eq. unfold mem_str in He.
    assert (existsb (String.eqb (fst e)) (map fst r) = true); [|congruence].
    apply existsb_exists. exists (fst e'). split; [now apply in_map|]. rewrite Eq. apply String.eqb_refl.
Qed.

(* ---------- a run of foreign keys added to the last table ---------- *)
Definition fk_kind (f : fkdef) : con_kind :=
  KFk (fk_cols f) (fk_rtable f) (fk_rcols f) (norm_act (fk_on_delete f)) (norm_act (fk_on_update f)).
Definition fk_key (f : fkdef) : string := match fk_name f with Some n => n | None => "" end.
Definition add_fk_entry (T : pg_table) (f : fkdef) : pg_table := with_con T (fk_key f) (fk_kind f).
(* what add_fk checks about the target, phrased on the parts of the new table that do not change any more *)
Definition target_ok (base : catalog) (tn : string) (T : pg_table) (f : fkdef) : bool :=
  let ok (RT : pg_table) := match first_missing (fk_rcols f) RT, unique_indexes_on RT (fk_rcols f) with
                            | None, _ :: _ => true
                            | _, _ => false
                            end in
  if String.eqb (fk_rtable f) tn then ok T
  else match find_table (fk_rtable f) base with Some RT => ok RT | None => false end.

Lemma exec_fks ts E tn :
  (forall T0, In T0 ts -> String.eqb (pt_name T0) tn = false) ->
  forall (L : list fkdef) T,
  pt_name T = tn ->
  (forall f, In f L -> fk_name f <> None /\ first_missing (fk_cols f) T = None
                       /\ Nat.eqb (List.length (fk_cols f)) (List.length (fk_rcols f)) = true
                       /\ target_ok (mkCat ts E) tn T f = true) ->
  nodup_str (map fk_key L) = true ->
  (forall f, In f L -> mem_str (fk_key f) (bt_keys (pt_cons T)) = false) ->
  add_fks (mkCat (ts ++ [T]) E) tn L = Ok (mkCat (ts ++ [fold_left add_fk_entry L T]) E).
Proof.
  intros Hfresh. induction L as [|f r IH]; intros T HT Hok Hnd Hnew; [reflexivity|].
  cbn [add_fks fold_left]. unfold add_fk.
  rewrite (find_last ts E tn Hfresh T HT).
  destruct (Hok f (or_introl eq_refl)) as (Hname & Hcols & Har & Htgt).
  rewrite Hcols.
  assert (Hstep : forall RT, find_table (fk_rtable f) (mkCat (ts ++ [T]) E) = Some RT ->
            first_missing (fk_rcols f) RT = None /\ unique_indexes_on RT (fk_rcols f) <> []).
  { intros RT HRT. unfold target_ok in Htgt.
    destruct (String.eqb (fk_rtable f) tn) eqn:Ert.
    - apply String.eqb_eq in Ert. rewrite Ert, (find_last ts E tn Hfresh T HT) in HRT. injection HRT as <-.
      destruct (first_missing (fk_rcols f) T); [discriminate|].
      destruct (unique_indexes_on T (fk_rcols f)); [discriminate|]. split; [reflexivity|discriminate].
    - rewrite (find_other ts E tn _ T HT Ert) in HRT. rewrite HRT in Htgt.
      destruct (first_missing (fk_rcols f) RT); [discriminate|].
      destruct (unique_indexes_on RT (fk_rcols f)); [discriminate|]. split; [reflexivity|discriminate]. }
  destruct (find_table (fk_rtable f) (mkCat (ts ++ [T]) E)) as [RT|] eqn:HRT.
  2:{ exfalso. unfold target_ok in Htgt. destruct (String.eqb (fk_rtable f) tn) eqn:Ert.
      - apply String.eqb_eq in Ert. rewrite Ert, (find_last ts E tn Hfresh T HT) in HRT. discriminate.
      - rewrite (find_other ts E tn _ T HT Ert) in HRT. now rewrite HRT in Htgt. }
  destruct (Hstep RT eq_refl) as [Hrc Hui]. rewrite Hrc, Har. cbn [negb].
  destruct (unique_indexes_on RT (fk_rcols f)) as [|u us]; [contradiction|].
  destruct (fk_name f) as [n|] eqn:En; [|contradiction].
  pose proof (Hnew f (or_introl eq_refl)) as Hn. unfold fk_key in Hn. rewrite En in Hn.
  rewrite bt_mem_keys, Hn.
  rewrite (replace_last ts E tn Hfresh T _ HT).
  cbn [map] in Hnd. apply nodup_str_cons in Hnd. destruct Hnd as [Hf Hr].
  assert (Hadd : with_con T n (KFk (fk_cols f) (fk_rtable f) (fk_rcols f) (norm_act (fk_on_delete f)) (norm_act (fk_on_update f)))
                 = add_fk_entry T f).
  { unfold add_fk_entry, fk_key, fk_kind. now rewrite En. }
  rewrite Hadd. apply IH.
  - exact HT.
  - intros f' Hf'. destruct (Hok f' (or_intror Hf')) as (A & B & C & D). repeat split; assumption.
  - exact Hr.
  - intros f' Hf'. unfold add_fk_entry, with_con. cbn [pt_cons]. rewrite mem_keys_insert.
    rewrite (Hnew f' (or_intror Hf')), orb_false_r.
    destruct (String.eqb (fk_key f') (fk_key f)) eqn:Eq; [|reflexivity]. exfalso.
    apply String.eqb_eq in Eq. unfold mem_str in Hf.
    assert (existsb (String.eqb (fk_key f)) (map fk_key r) = true); [|congruence].
    apply existsb_exists. exists (fk_key f'). split; [now apply in_map|]. rewrite Eq. apply String.eqb_refl.
Qed.

(* ---------- bookkeeping lemmas ---------- *)
Lemma fold_insert_of_list {V} (L0 L : list (string * V)) :
  fold_left (fun m e => bt_insert (fst e) (snd e) m) L (bt_of_list L0) = bt_of_list (L0 ++ L).
Proof. unfold bt_of_list. now rewrite fold_left_app. Qed.

Lemma pt_idx_fold_entries L : forall T,
  pt_idx (fold_left add_entry L T)
  = fold_left (fun m e => bt_insert (fst e) (snd e) m)
              (map (fun e => (fst e, mkPi (pi_cols (snd e)) (pi_unique (snd e)) false)) L) (pt_idx T)
  /\ pt_cons (fold_left add_entry L T) = pt_cons T /\ pt_cols (fold_left add_entry L T) = pt_cols T
  /\ pt_name (fold_left add_entry L T) = pt_name T.
Proof.
  induction L as [|e r IH]; intro T; [repeat split|]. cbn [fold_left map].
  destruct (IH (add_entry T e)) as (A & B & C & D). rewrite A, B, C, D. repeat split.
Qed.
Lemma pt_cons_fold_fks L : forall T,
  pt_cons (fold_left add_fk_entry L T)
  = fold_left (fun m e => bt_insert (fst e) (snd e) m) (map (fun f => (fk_key f, fk_kind f)) L) (pt_cons T)
  /\ pt_idx (fold_left add_fk_entry L T) = pt_idx T /\ pt_cols (fold_left add_fk_entry L T) = pt_cols T
  /\ pt_name (fold_left add_fk_entry L T) = pt_name T.
Proof.
  induction L as [|e r IH]; intro T; [repeat split|]. cbn [fold_left map].
  destruct (IH (add_fk_entry T e)) as (A & B & C & D). rewrite A, B, C, D. repeat split.
Qed.

Lemma first_pk_only_id : forall ks, Nat.leb (List.length (filter is_pk ks)) 1 = true -> first_pk_only false ks = ks.
Proof.
  assert (G : forall ks, filter is_pk ks = [] -> forall b, first_pk_only b ks = ks).
  { induction ks as [|k r IH]; intros H b; [reflexivity|]. cbn [filter] in H.
    destruct k; cbn [is_pk] in H; try discriminate; cbn [first_pk_only]; now rewrite IH. }
  induction ks as [|k r IH]; intro H; [reflexivity|]. cbn [filter] in H.
  destruct k; cbn [is_pk first_pk_only] in *; try (now rewrite IH).
  cbn [List.length] in H. f_equal. apply G. destruct (filter is_pk r); [reflexivity|discriminate].
Qed.

Definition pk_idx_entries (tn : string) (ks : list table_constraint) := flat_map (idx_cat tn) (filter is_pk ks).
Definition uq_entries (tn : string) (ks : list table_constraint) := flat_map (idx_cat tn) (filter is_unique_c ks).
Definition ix_entries (tn : string) (ks : list table_constraint) := flat_map (idx_cat tn) (filter is_index_c ks).

Lemma idx_partition tn : forall ks,
  Permutation (flat_map (idx_cat tn) ks) (pk_idx_entries tn ks ++ uq_entries tn ks ++ ix_entries tn ks).
Proof.
  unfold pk_idx_entries, uq_entries, ix_entries.
  induction ks as [|k r IH]; [constructor|].
  destruct k; cbn [filter is_pk is_unique_c is_index_c flat_map idx_cat app].
  - now constructor.
  - eapply Permutation_trans; [apply perm_skip, IH|]. apply Permutation_middle.
  - exact IH.
  - exact IH.
  - eapply Permutation_trans; [apply perm_skip, IH|].
    rewrite !app_assoc. apply Permutation_middle.
Qed.

Definition pk_con_entries (tn : string) (ks : list table_constraint) := flat_map (con_cat tn) (filter is_pk ks).
Definition fk_entries (tn : string) (ks : list table_constraint) :=
  map (fun f => (fk_key f, fk_kind f)) (create_fks tn ks).
Lemma con_partition tn : forall ks, existsb is_check ks = false ->
  Permutation (flat_map (con_cat tn) ks) (pk_con_entries tn ks ++ fk_entries tn ks).
Proof.
  unfold pk_con_entries, fk_entries, create_fks.
  induction ks as [|k r IH]; intro H; [constructor|].
  cbn [existsb] in H. apply orb_false_iff in H. destruct H as [Hk Hr].
  destruct k; cbn [filter is_pk flat_map con_cat app map]; try discriminate.
  - constructor. now apply IH.
  - now apply IH.
  - eapply Permutation_trans; [apply perm_skip, (IH Hr)|]. apply Permutation_middle.
  - now apply IH.
Qed.

Lemma uq_stmts tn : forall ks,
  flat_map (fun k => match k with
                     | CUnique n uc => [SCreateIndex true (build_unique_constraint_name tn uc n) tn uc]
                     | _ => []
                     end) ks = map (stmt_of_entry tn) (uq_entries tn ks).
Proof.
  unfold uq_entries. induction ks as [|k r IH]; [reflexivity|].
  destruct k; cbn [flat_map filter is_unique_c idx_cat app map]; try exact IH. now rewrite IH.
Qed.
Lemma ix_stmts tn : forall ks,
  flat_map (fun k => match k with
                     | CIndex n ic => [SCreateIndex false (build_index_name tn ic n) tn ic]
                     | _ => []
                     end) ks = map (stmt_of_entry tn) (ix_entries tn ks).
Proof.
  unfold ix_entries. induction ks as [|k r IH]; [reflexivity|].
  destruct k; cbn [flat_map filter is_index_c idx_cat app map]; try exact IH. now rewrite IH.
Qed.

Lemma create_pks_not_unique ks : create_pks (filter not_unique_c ks) = create_pks ks.
Proof. unfold create_pks. induction ks as [|k r IH]; [reflexivity|]. destruct k; cbn [filter not_unique_c flat_map]; now rewrite ?IH. Qed.
Lemma create_fks_not_unique tn ks : create_fks tn (filter not_unique_c ks) = create_fks tn ks.
Proof. unfold create_fks. induction ks as [|k r IH]; [reflexivity|]. destruct k; cbn [filter not_unique_c flat_map]; now rewrite ?IH. Qed.

Lemma no_enum_types tn : forall cols seen,
  forallb (fun x => negb (is_enum_type (c_type x))) cols = true ->
  create_enum_types tn cols seen = [] /\ enums_of_cols tn cols seen = [].
Proof.
  induction cols as [|c r IH]; intros seen H; [split; reflexivity|].
  cbn [forallb] in H. apply andb_prop in H. destruct H as [Hc Hr].
  cbn [create_enum_types enums_of_cols]. destruct (c_type c); try (now apply IH). discriminate.
Qed.

Lemma first_dup_none l : nodup_str l = true -> first_dup l = None.
Proof.
  induction l as [|x r IH]; intro H; [reflexivity|].
  apply nodup_str_cons in H. destruct H as [Hx Hr]. cbn [first_dup]. rewrite Hx. now apply IH.
Qed.

(* ---------- the columns ---------- *)
Definition pre_col (n : table_def) (x : column_def) : pg_col :=
  mkPc (c_name x) (pc_type (col_cat n x)) (negb (c_nullable x)) (column_default_text x) (pc_autoinc (col_cat n x)).

Lemma mk_cols_ok c n : forall cols, forallb (col_resolves c n) cols = true ->
  map_result (mk_col c) (map (create_coldef (t_name n) (filter not_unique_c (t_constraints n))) cols)
  = Ok (map (pre_col n) cols)
  /\ filter cd_pk (map (create_coldef (t_name n) (filter not_unique_c (t_constraints n))) cols) = [].
Proof.
  induction cols as [|x r IH]; intro H; [split; reflexivity|].
  cbn [forallb] in H. apply andb_prop in H. destruct H as [Hx Hr]. destruct (IH Hr) as [IH1 IH2].
  unfold col_resolves in Hx. cbv zeta in Hx. apply andb_prop in Hx. destruct Hx as [Hpk Hres].
  apply negb_true_iff in Hpk.
  cbn [map map_result filter]. rewrite Hpk, IH2. split; [|reflexivity].
  unfold mk_col at 1.
  destruct (resolve_type c (cd_type (create_coldef (t_name n) (filter not_unique_c (t_constraints n)) x))) as [[ty auto]|]; [|discriminate].
  apply andb_prop in Hres. destruct Hres as [Hty Hau]. apply String.eqb_eq in Hty. apply Bool.eqb_prop in Hau.
  subst ty auto. rewrite IH1. reflexivity.
Qed.

Lemma normalize_keeps t n : normalize t = Ok n -> t_name n = t_name t /\ t_columns n = t_columns t.
Proof.
  unfold normalize. destruct (normalize_constraints (t_columns t) (t_constraints t)); [|discriminate].
  intro H. injection H as <-. split; reflexivity.
Qed.

Lemma fresh_tables ts E tn : mem_str tn (rel_names (mkCat ts E)) = false ->
  forall T0, In T0 ts -> String.eqb (pt_name T0) tn = false.
Proof.
  unfold rel_names. cbn [c_tables]. induction ts as [|x r IH]; intros H T0 Hin; [destruct Hin|].
  cbn [flat_map] in H. rewrite mem_str_app in H. apply orb_false_iff in H. destruct H as [Hx Hr].
  destruct Hin as [<-|Hin]; [|now apply IH].
  cbn [mem_str existsb] in Hx. apply orb_false_iff in Hx. destruct Hx as [Hx _]. now rewrite BtP.str_eqb_sym.
Qed.

Lemma find_pk_filter ks a pk : filter is_pk ks = [CPrimaryKey a pk] -> find is_pk ks = Some (CPrimaryKey a pk).
Proof.
  induction ks as [|k r IH]; intro H; [discriminate|]. cbn [filter find] in *.
  destruct (is_pk k); [now injection H as -> _|now apply IH].
Qed.
Lemma find_pk_none ks : filter is_pk ks = [] -> find is_pk ks = None.
Proof.
  induction ks as [|k r IH]; intro H; [reflexivity|]. cbn [filter find] in *.
  destruct (is_pk k); [discriminate|now apply IH].
Qed.
Lemma create_pks_filter ks : create_pks ks = create_pks (filter is_pk ks).
Proof. unfold create_pks. induction ks as [|k r IH]; [reflexivity|]. destruct k; cbn [filter is_pk flat_map]; now rewrite ?IH. Qed.

(* ---------- CreateTable ---------- *)
Lemma exec_all_cons_ok c st rest c1 c2 : exec c st = Ok c1 -> exec_all c1 rest = Ok c2 -> exec_all c (st :: rest) = Ok c2.
Proof. intros H1 H2. cbn [exec_all]. now rewrite H1, H2. Qed.

Lemma set_notnull_pre n pk cols :
  (forall a, pk_of n = Some (a, pk) \/ True) ->
  map (fun x => if mem_str (pc_name x) pk then mkPc (pc_name x) (pc_type x) true (pc_default x) (pc_autoinc x) else x)
      (map (pre_col n) cols)
  = map (fun x => mkPc (c_name x) (pc_type (col_cat n x)) (negb (c_nullable x) || mem_str (c_name x) pk)%bool
                       (column_default_text x) (pc_autoinc (col_cat n x))) cols.
Proof.
  intros _. rewrite map_map. apply map_ext. intro x. unfold pre_col. cbn [pc_name pc_type pc_default pc_autoinc].
  destruct (mem_str (c_name x) pk); [now rewrite orb_true_r|now rewrite orb_false_r].
Qed.

Lemma NoDup_nodup_str l : NoDup l -> nodup_str l = true.
Proof.
  induction 1 as [|x r Hx _ IH]; [reflexivity|]. cbn [nodup_str]. rewrite IH, andb_true_r.
  apply negb_true_iff. destruct (mem_str x r) eqn:E; [|reflexivity]. apply mem_str_In in E. contradiction.
Qed.

Lemma first_missing_cols (n : table_def) (T : pg_table) l :
  (forall x, has_col x T = has_column x n) -> forallb (fun x => has_column x n) l = true -> first_missing l T = None.
Proof.
  intros HT. unfold first_missing. induction l as [|x r IH]; intro H; [reflexivity|].
  cbn [forallb] in H. apply andb_prop in H. destruct H as [Hx Hr]. cbn [find]. rewrite HT, Hx. cbn [negb]. now apply IH.
Qed.
Lemma first_missing_has_col T l : forallb (fun x => has_col x T) l = true -> first_missing l T = None.
Proof.
  unfold first_missing. induction l as [|x r IH]; intro H; [reflexivity|].
  cbn [forallb] in H. apply andb_prop in H. destruct H as [Hx Hr]. cbn [find]. rewrite Hx. cbn [negb]. now apply IH.
Qed.

Section Create.
Variables (s : schema) (E : list (string * list string)) (tn : string) (n : table_def).
Let nks := t_constraints n.
Let ts := map table_cat s.
Let c := mkCat ts E.
Hypothesis Hname : t_name n = tn.
Hypothesis Hfresh : forall T0, In T0 ts -> String.eqb (pt_name T0) tn = false.
Hypothesis Hnocheck : existsb is_check nks = false.
Hypothesis Hpk1 : Nat.leb (List.length (filter is_pk nks)) 1 = true.
Hypothesis Hkcols : forallb (fun k => forallb (fun x => has_column x n) (constraint_columns k)) nks = true.
Hypothesis Hind : nodup_str (tn :: map fst (flat_map (idx_cat tn) nks)) = true.
Hypothesis Hifree : forallb (fun x => negb (rel_exists x c)) (map fst (flat_map (idx_cat tn) nks)) = true.
Hypothesis Hcn : nodup_str (map fst (flat_map (con_cat tn) nks)) = true.
Hypothesis Hfk : forallb (fk_ready c n) nks = true.

Let T1 := mkPt tn (map (pre_col n) (t_columns n)) [] [].
Let pcs := filter is_pk nks.
Let T2 := match pcs with
          | [CPrimaryKey a pk] =>
              with_idx (with_con (set_notnull_cols pk T1) (tn +++ "_pkey") (KPk pk)) (tn +++ "_pkey") (mkPi pk true true)
          | _ => T1
          end.

Lemma pcs_shape : pcs = [] \/ exists a pk, pcs = [CPrimaryKey a pk].
Proof.
  unfold pcs in *. destruct (filter is_pk nks) as [|k [|k2 r]] eqn:Ef; [now left| |discriminate].
  right. assert (Hin : In k (filter is_pk nks)) by (rewrite Ef; now left).
  apply filter_In in Hin. destruct Hin as [_ Hk]. destruct k; try discriminate. eauto.
Qed.

Lemma T2_name : pt_name T2 = tn.
Proof. unfold T2. destruct pcs_shape as [->|(a & pk & ->)]; reflexivity. Qed.

Lemma T2_has_col x : has_col x T2 = has_column x n.
Proof.
  unfold T2, has_col, has_column. destruct pcs_shape as [->|(a & pk & ->)]; cbn [pt_cols with_idx with_con set_notnull_cols T1].
  - rewrite existsb_map. reflexivity.
  - rewrite map_map, existsb_map. apply existsb_ext_in. intros y _. cbn [pre_col pc_name].
    now destruct (mem_str (c_name y) pk).
Qed.

Lemma pk_of_pcs : match pcs with
                  | [CPrimaryKey a pk] => pk_of n = Some (a, pk)
                  | _ => pk_of n = None
                  end.
Proof.
  unfold pk_of. fold nks. destruct pcs_shape as [Hp|(a & pk & Hp)]; rewrite Hp.
  - unfold pcs in Hp. now rewrite (find_pk_none _ Hp).
  - unfold pcs in Hp. now rewrite (find_pk_filter _ _ _ Hp).
Qed.

Lemma T2_cols : pt_cols T2 = map (col_cat n) (t_columns n).
Proof.
  pose proof pk_of_pcs as Hpk. unfold T2. destruct pcs_shape as [Hp|(a & pk & Hp)]; rewrite Hp in *.
  - cbn [pt_cols T1]. apply map_ext. intro x. unfold pre_col, col_cat. rewrite Hpk. now rewrite orb_false_r.
  - cbn [pt_cols with_idx with_con set_notnull_cols T1]. rewrite (set_notnull_pre n pk) by (intro; now right).
    apply map_ext. intro x. unfold col_cat. rewrite Hpk. reflexivity.
Qed.

Lemma T2_cons : pt_cons T2 = bt_of_list (pk_con_entries tn nks).
Proof.
  unfold T2, pk_con_entries. fold pcs. destruct pcs_shape as [->|(a & pk & ->)]; reflexivity.
Qed.
Lemma T2_idx : pt_idx T2 = bt_of_list (pk_idx_entries tn nks).
Proof.
  unfold T2, pk_idx_entries. fold pcs. destruct pcs_shape as [->|(a & pk & ->)]; reflexivity.
Qed.

(* names *)
Lemma inames_perm : Permutation (map fst (flat_map (idx_cat tn) nks))
                                (map fst (pk_idx_entries tn nks) ++ map fst (uq_entries tn nks ++ ix_entries tn nks)).
Proof. rewrite <- map_app. apply Permutation_map, idx_partition. Qed.
Lemma cnames_perm : Permutation (map fst (flat_map (con_cat tn) nks))
                                (map fst (pk_con_entries tn nks) ++ map fst (fk_entries tn nks)).
Proof. rewrite <- map_app. apply Permutation_map, con_partition. exact Hnocheck. Qed.

Lemma inames_split : NoDup (map fst (pk_idx_entries tn nks) ++ map fst (uq_entries tn nks ++ ix_entries tn nks)).
Proof.
  eapply Permutation_NoDup; [apply inames_perm|]. apply nodup_str_NoDup.
  now apply nodup_str_cons in Hind.
Qed.
Lemma cnames_split : NoDup (map fst (pk_con_entries tn nks) ++ map fst (fk_entries tn nks)).
Proof. eapply Permutation_NoDup; [apply cnames_perm|]. now apply nodup_str_NoDup. Qed.

Lemma NoDup_app_disjoint {A} (a b : list A) : NoDup (a ++ b) -> forall x, In x a -> In x b -> False.
Proof.
  induction a as [|y r IH]; intros H x Ha Hb; [destruct Ha|].
  cbn [app] in H. inversion H; subst. destruct Ha as [->|Ha].
  - apply H2. apply in_or_app. now right.
  - now apply (IH H3 x).
Qed.

Lemma iname_free x : In x (map fst (flat_map (idx_cat tn) nks)) ->
  mem_str x (rel_names c) = false /\ String.eqb x tn = false.
Proof.
  intro Hx. split.
  - rewrite forallb_forall in Hifree. specialize (Hifree x Hx). now apply negb_true_iff in Hifree.
  - apply nodup_str_cons in Hind. destruct Hind as [Hi _].
    destruct (String.eqb x tn) eqn:Ex; [|reflexivity]. apply String.eqb_eq in Ex. subst x.
    apply mem_str_In in Hx. congruence.
Qed.

(* the foreign keys *)
Lemma fk_in f : In f (create_fks tn nks) ->
  exists fn fc rt rc od ou, In (CForeignKey fn fc rt rc od ou) nks
    /\ f = mkFk (Some (build_foreign_key_name tn fc fn)) fc rt rc od ou.
Proof.
  unfold create_fks. intro H. apply in_flat_map in H. destruct H as (k & Hk & Hf).
  destruct k as [a pc|un uc|fn fc rt rc od ou|cn ce|inn ic]; try (destruct Hf; fail). destruct Hf as [<-|[]]. eauto 10.
Qed.

Lemma fks_ok f : In f (create_fks tn nks) ->
  fk_name f <> None /\ first_missing (fk_cols f) T2 = None
  /\ Nat.eqb (List.length (fk_cols f)) (List.length (fk_rcols f)) = true
  /\ target_ok c tn T2 f = true.
Proof.
  intro Hin. destruct (fk_in f Hin) as (fn & fc & rt & rc & od & ou & Hk & ->).
  cbn [fk_name fk_cols fk_rcols fk_rtable].
  rewrite forallb_forall in Hkcols, Hfk. pose proof (Hkcols _ Hk) as Hc1. pose proof (Hfk _ Hk) as Hr.
  cbn [constraint_columns fk_ready] in Hc1, Hr. apply andb_prop in Hr. destruct Hr as [Har Ht].
  split; [discriminate|]. split; [apply (first_missing_cols n); [apply T2_has_col|exact Hc1]|]. split; [exact Har|].
  unfold target_ok. cbn [fk_rtable fk_rcols]. rewrite Hname in Ht.
  destruct (String.eqb rt tn).
  - apply andb_prop in Ht. destruct Ht as [Hrc Hpk].
    rewrite (first_missing_cols n T2 rc T2_has_col Hrc).
    pose proof pk_of_pcs as Hp. unfold T2. destruct pcs_shape as [Hs|(a & pk & Hs)]; rewrite Hs in *.
    + rewrite Hp in Hpk. discriminate.
    + rewrite Hp in Hpk. unfold unique_indexes_on, with_idx, with_con, set_notnull_cols, T1.
      cbn [pt_idx bt_insert filter snd pi_unique pi_cols andb]. now rewrite Hpk.
  - fold c in Ht. destruct (find_table rt c) as [RT|]; [|discriminate].
    apply andb_prop in Ht. destruct Ht as [Hrc Hu]. rewrite (first_missing_has_col RT rc Hrc).
    destruct (unique_indexes_on RT rc); [discriminate|reflexivity].
Qed.
Lemma NoDup_app_r {A} (a b : list A) : NoDup (a ++ b) -> NoDup b.
Proof. induction a as [|x r IH]; intro H; [exact H|]. cbn [app] in H. inversion H; subst. now apply IH. Qed.

Lemma fk_keys_are_entries : map fk_key (create_fks tn nks) = map fst (fk_entries tn nks).
Proof. unfold fk_entries. now rewrite map_map. Qed.

Lemma fks_nodup : nodup_str (map fk_key (create_fks tn nks)) = true.
Proof.
  rewrite fk_keys_are_entries. apply NoDup_nodup_str. exact (NoDup_app_r _ _ cnames_split).
Qed.

Lemma bt_keys_of_list_in {V} (l : list (string * V)) x : In x (bt_keys (bt_of_list l)) -> In x (map fst l).
Proof.
  unfold bt_keys. intro H. apply in_map_iff in H. destruct H as (kv & <- & Hin).
  apply bt_of_list_in in Hin. now apply in_map.
Qed.

Lemma fks_new f : In f (create_fks tn nks) -> mem_str (fk_key f) (bt_keys (pt_cons T2)) = false.
Proof.
  intro Hin. destruct (mem_str (fk_key f) (bt_keys (pt_cons T2))) eqn:Em; [|reflexivity]. exfalso.
  apply mem_str_In in Em. rewrite T2_cons in Em. apply bt_keys_of_list_in in Em.
  apply (NoDup_app_disjoint _ _ cnames_split (fk_key f) Em).
  rewrite <- fk_keys_are_entries. now apply in_map.
Qed.

(* the table after CREATE TABLE *)
Let T3 := fold_left add_fk_entry (create_fks tn nks) T2.

Lemma T3_facts : pt_name T3 = tn /\ pt_cols T3 = map (col_cat n) (t_columns n)
  /\ pt_idx T3 = bt_of_list (pk_idx_entries tn nks)
  /\ pt_cons T3 = bt_of_list (pk_con_entries tn nks ++ fk_entries tn nks).
Proof.
  unfold T3. destruct (pt_cons_fold_fks (create_fks tn nks) T2) as (A & B & C & D).
  rewrite A, B, C, D, T2_name, T2_cols, T2_idx, T2_cons. repeat split.
  unfold fk_entries. apply fold_insert_of_list.
Qed.

Lemma T3_has_col x : has_col x T3 = has_column x n.
Proof.
  rewrite <- T2_has_col. unfold has_col. destruct (pt_cons_fold_fks (create_fks tn nks) T2) as (_ & _ & C & _).
  fold T3 in C. now rewrite C.
Qed.

(* the index statements *)
Lemma entry_cols e : In e (uq_entries tn nks ++ ix_entries tn nks) -> first_missing (pi_cols (snd e)) T3 = None.
Proof.
  intro Hin. apply (first_missing_cols n); [apply T3_has_col|].
  rewrite forallb_forall in Hkcols.
  apply in_app_or in Hin. destruct Hin as [Hin|Hin]; unfold uq_entries, ix_entries in Hin;
    apply in_flat_map in Hin; destruct Hin as (k & Hk & He); apply filter_In in Hk; destruct Hk as [Hk Hkind];
    destruct k; try discriminate; cbn [idx_cat] in He; destruct He as [<-|[]]; cbn [snd pi_cols];
    exact (Hkcols _ Hk).
Qed.

Lemma entries_nodup : nodup_str (map fst (uq_entries tn nks ++ ix_entries tn nks)) = true.
Proof. apply NoDup_nodup_str. exact (NoDup_app_r _ _ inames_split). Qed.

Lemma entries_new e : In e (uq_entries tn nks ++ ix_entries tn nks) ->
  mem_str (fst e) (rel_names c ++ tn :: bt_keys (pt_idx T3)) = false.
Proof.
  intro Hin.
  assert (Hx : In (fst e) (map fst (flat_map (idx_cat tn) nks))).
  { eapply Permutation_in; [apply Permutation_sym, inames_perm|]. apply in_or_app. right. now apply in_map. }
  destruct (iname_free _ Hx) as [Ha Hb].
  rewrite mem_str_app, Ha. cbn [mem_str existsb orb]. rewrite Hb. cbn [orb].
  destruct (existsb (String.eqb (fst e)) (bt_keys (pt_idx T3))) eqn:Em; [|reflexivity]. exfalso.
  fold (mem_str (fst e) (bt_keys (pt_idx T3))) in Em. apply mem_str_In in Em.
  destruct T3_facts as (_ & _ & Hi & _). rewrite Hi in Em. apply bt_keys_of_list_in in Em.
  apply (NoDup_app_disjoint _ _ inames_split (fst e) Em). now apply in_map.
Qed.

(* the final table *)
Lemma final_table :
  fold_left add_entry (uq_entries tn nks ++ ix_entries tn nks) T3 = table_cat n.
Proof.
  destruct (pt_idx_fold_entries (uq_entries tn nks ++ ix_entries tn nks) T3) as (A & B & C & D).
  destruct T3_facts as (Hn & Hc & Hi & Hk).
  set (TF := fold_left add_entry (uq_entries tn nks ++ ix_entries tn nks) T3) in *.
  assert (HTF : TF = mkPt (pt_name TF) (pt_cols TF) (pt_cons TF) (pt_idx TF)) by (destruct TF; reflexivity).
  rewrite HTF, A, B, C, D, Hn, Hc, Hi, Hk.
  unfold table_cat. rewrite Hname. fold nks. rewrite (first_pk_only_id nks Hpk1). f_equal.
  - (* constraints *)
    symmetry. apply bt_perm.
    + apply nodup_str_NoDup. exact Hcn.
    + apply con_partition. exact Hnocheck.
  - (* indexes *)
    assert (Hmap : map (fun e : string * pg_index => (fst e, mkPi (pi_cols (snd e)) (pi_unique (snd e)) false))
                       (uq_entries tn nks ++ ix_entries tn nks) = uq_entries tn nks ++ ix_entries tn nks).
    { rewrite <- (map_id (uq_entries tn nks ++ ix_entries tn nks)) at 2. apply map_ext_in.
      intros e He. apply in_app_or in He. destruct He as [He|He]; unfold uq_entries, ix_entries in He;
        apply in_flat_map in He; destruct He as (k & Hk' & He); destruct k; cbn [idx_cat] in He;
        try (destruct He; fail); destruct He as [<-|[]]; try reflexivity;
        apply filter_In in Hk'; destruct Hk' as [_ Hk']; discriminate. }
    rewrite Hmap, fold_insert_of_list. symmetry. apply bt_perm.
    + apply nodup_str_NoDup. now apply nodup_str_cons in Hind.
    + apply idx_partition.
Qed.
End Create.

Lemma create_coldef_names tn ks cols : map cd_name (map (create_coldef tn ks) cols) = map c_name cols.
Proof. rewrite map_map. apply map_ext. reflexivity. Qed.

(* ---------- the CREATE TYPE statements of a CREATE TABLE ---------- *)
Lemma create_enum_types_pairs tn : forall cols seen,
  create_enum_types tn cols seen
  = map (fun e => SCreateType (fst e) (snd e))
        (flat_map (fun st => match st with SCreateType n l => [(n, l)] | _ => [] end) (create_enum_types tn cols seen)).
Proof.
  induction cols as [|c r IH]; intro seen; [reflexivity|]. cbn [create_enum_types].
  destruct (c_type c) as [st|vl|np ns|cl|cu|e v]; try apply IH.
  destruct (mem_str e seen); [apply IH|].
  rewrite flat_map_app, map_app, <- IH. f_equal.
  unfold create_enum_type. destruct (ev_is_integer v); reflexivity.
Qed.

Lemma exec_types ts : forall (L : list (string * list string)) E0,
  nodup_str (map fst L) = true ->
  (forall e, In e L -> type_exists (fst e) (mkCat ts E0) = false
                       /\ forallb is_quoted_literal (snd e) = true /\ first_dup (snd e) = None) ->
  exec_all (mkCat ts E0) (map (fun e => SCreateType (fst e) (snd e)) L)
  = Ok (mkCat ts (fold_left (fun m e => bt_insert (fst e) (snd e) m) L E0)).
Proof.
  induction L as [|e r IH]; intros E0 Hnd Hok; [reflexivity|].
  cbn [map exec_all fold_left exec].
  destruct (Hok e (or_introl eq_refl)) as (Hte & Hq & Hd). rewrite Hq, Hte, Hd. cbn [negb].
  unfold set_enums. cbn [c_tables c_enums].
  cbn [map] in Hnd. apply nodup_str_cons in Hnd. destruct Hnd as [He Hr].
  rewrite (IH (bt_insert (fst e) (snd e) E0) Hr); [reflexivity|].
  intros e' He'. destruct (Hok e' (or_intror He')) as (A & B & C). split; [|split; assumption].
  unfold type_exists in *. cbn [c_enums c_tables] in *. apply orb_false_iff in A. destruct A as [A1 A2].
  rewrite A2, orb_false_r. rewrite bt_mem_keys, mem_keys_insert. rewrite bt_mem_keys in A1. rewrite A1, orb_false_r.
  destruct (String.eqb (fst e') (fst e)) eqn:Eq; [|reflexivity]. exfalso.
  apply String.eqb_eq in Eq. unfold mem_str in He.
  assert (existsb (String.eqb (fst e)) (map fst r) = true); [|congruence].
  apply existsb_exists. exists (fst e'). split; [now apply in_map|]. rewrite Eq. apply String.eqb_refl.
Qed.

Lemma bt_mem_fold_insert {V} x (L : list (string * V)) : forall m,
  bt_mem x (fold_left (fun m e => bt_insert (fst e) (snd e) m) L m) = (mem_str x (map fst L) || bt_mem x m)%bool.
Proof.
  induction L as [|e r IH]; intro m; [reflexivity|]. cbn [fold_left map]. rewrite IH, !bt_mem_keys, mem_keys_insert.
  cbn [mem_str existsb]. unfold mem_str. destruct (String.eqb x (fst e)), (existsb (String.eqb x) (map fst r)); reflexivity.
Qed.

Theorem sim_pg_create_table s tn cols ks :
  hyp_create_table s tn cols ks = true -> step_sim s (CreateTable tn cols ks).
Proof.
  unfold hyp_create_table. intro H. apply andb_prop in H. destruct H as [Hnew H]. apply negb_true_iff in Hnew.
  destruct (normalize (mkTable tn None cols ks)) as [n|] eqn:En; [|discriminate].
  cbv zeta in H.
  repeat (apply andb_prop in H; destruct H as [H ?]).
  rename H into Hpairs, H0 into Hfk, H1 into Hcn, H2 into Hifree, H3 into Hind, H4 into Hkcols, H5 into Hres,
         H6 into Htype, H7 into Hrel, H8 into Hcnd, H9 into Hpk1, H10 into Hnocheck,
         H11 into Hlabels, H12 into Htn, H13 into Htfree, H14 into Htnd.
  apply negb_true_iff in Htype, Hrel, Hnocheck, Htn.
  destruct (normalize_keeps _ _ En) as [Hname _]. cbn [t_name] in Hname.
  set (nks := t_constraints n) in *.
  set (types := table_enums n) in *.
  set (ts := map table_cat s). set (E := c_enums (catalog_of s)).
  set (E1 := fold_left (fun m e => bt_insert (fst e) (snd e) m) types E).
  assert (Hc : catalog_of s = mkCat ts E) by reflexivity.
  rewrite Hc in Hrel, Htype, Hres, Hifree, Hfk, Htfree.
  assert (Hfresh : forall T0, In T0 ts -> String.eqb (pt_name T0) tn = false) by (apply (fresh_tables ts E); exact Hrel).
  unfold pairs_eqb, dec_b in Hpairs.
  destruct (list_eq_dec _ (created_type_pairs tn (t_columns n)) types) as [Hpairs'|]; [|discriminate]. clear Hpairs.
  assert (Happly : step_schema s (CreateTable tn cols ks) = s ++ [n]).
  { unfold step_schema. cbn [apply_action]. now rewrite Hnew, En. }
  assert (Hafter : catalog_of (s ++ [n]) = mkCat (ts ++ [table_cat n]) E1).
  { unfold catalog_of. rewrite map_app, flat_map_app. cbn [map flat_map]. rewrite app_nil_r.
    fold types. unfold E1, E, catalog_of. cbn [c_enums]. now rewrite fold_insert_of_list. }
  exists (map (fun e => SCreateType (fst e) (snd e)) types
          ++ [create_table_stmt tn (t_columns n) (filter not_unique_c nks)]
          ++ map (stmt_of_entry tn) (uq_entries tn nks ++ ix_entries tn nks)).
  split.
  { cbn [gen]. unfold gen_create_table. rewrite En. fold nks.
    rewrite (create_enum_types_pairs tn (t_columns n) []). fold (created_type_pairs tn (t_columns n)).
    rewrite Hpairs', uq_stmts, ix_stmts, map_app. reflexivity. }
  rewrite Happly, Hafter, Hc.
  (* --- CREATE TYPE ... --- *)
  assert (Htypes : exec_all (mkCat ts E) (map (fun e => SCreateType (fst e) (snd e)) types) = Ok (mkCat ts E1)).
  { apply exec_types; [exact Htnd|]. intros e He.
    rewrite forallb_forall in Htfree, Hlabels.
    pose proof (Htfree (fst e) (in_map fst _ _ He)) as A. apply negb_true_iff in A.
    pose proof (Hlabels e He) as B. apply andb_prop in B. destruct B as [B1 B2].
    repeat split; try assumption. destruct (first_dup (snd e)); [discriminate|reflexivity]. }
  assert (Happ : forall l1 l2 c0 c1 c2, exec_all c0 l1 = Ok c1 -> exec_all c1 l2 = Ok c2 -> exec_all c0 (l1 ++ l2) = Ok c2).
  { induction l1 as [|st r IH]; intros l2 c0 c1 c2 H1 H2; [cbn [exec_all] in H1; injection H1 as <-; exact H2|].
    cbn [app exec_all] in *. destruct (exec c0 st) as [cx|]; [|discriminate].
    destruct (exec_all cx r) as [cy|[i e]] eqn:Er; [|discriminate]. injection H1 as <-.
    now rewrite (IH l2 cx cy c2 Er H2). }
  apply (Happ _ _ _ _ _ Htypes). cbn [app].
  (* from here on the catalog is (ts, E1) *)
  assert (Htype1 : type_exists tn (mkCat ts E1) = false).
  { unfold type_exists in *. cbn [c_enums c_tables] in *. apply orb_false_iff in Htype. destruct Htype as [A B].
    unfold E1. rewrite bt_mem_fold_insert, Htn, A, B. reflexivity. }
  destruct (mk_cols_ok (mkCat ts E1) n (t_columns n)) as [Hmk Hnopk].
  { exact Hres. }
  rewrite Hname in Hmk, Hnopk. fold nks in Hmk, Hnopk.
  set (T1 := mkPt tn (map (pre_col n) (t_columns n)) [] []).
  set (pcs := filter is_pk nks).
  set (T2 := match pcs with
             | [CPrimaryKey a pk] =>
                 with_idx (with_con (set_notnull_cols pk T1) (tn +++ "_pkey") (KPk pk)) (tn +++ "_pkey") (mkPi pk true true)
             | _ => T1
             end).
  set (T3 := fold_left add_fk_entry (create_fks tn nks) T2).
  eapply exec_all_cons_ok with (c1 := mkCat (ts ++ [T3]) E1).
  - (* CREATE TABLE *)
    unfold create_table_stmt. cbn [exec]. unfold rel_exists in *. cbn [c_tables] in *.
    change (rel_names (mkCat ts E1)) with (rel_names (mkCat ts E)). rewrite Hrel, Htype1.
    rewrite create_coldef_names, (first_dup_none _ Hcnd), Hmk, Hnopk. cbn [app].
    rewrite create_pks_not_unique, create_fks_not_unique, create_pks_filter. fold pcs.
    unfold set_tables. cbn [c_tables c_enums]. fold T1.
    assert (Hadd : (match create_pks pcs with
                    | [pk] => add_pk (mkCat (ts ++ [T1]) E1) tn None pk
                    | _ => Ok (mkCat (ts ++ [T1]) E1)
                    end) = Ok (mkCat (ts ++ [T2]) E1)
                   /\ match create_pks pcs with _ :: _ :: _ => False | _ => True end).
    { destruct (pcs_shape tn n Hpk1) as [Hs|(a & pk & Hs)]; fold nks in Hs; fold pcs in Hs; unfold T2; rewrite Hs;
        cbn [create_pks flat_map app]; (split; [|exact I]); [reflexivity|].
      unfold add_pk. rewrite (find_last ts E1 tn Hfresh T1 eq_refl). cbn [has_pk T1 pt_cons existsb].
      assert (Hin : In (CPrimaryKey a pk) nks).
      { assert (Hin : In (CPrimaryKey a pk) (filter is_pk nks)) by (fold pcs; rewrite Hs; now left).
        now apply filter_In in Hin. }
      assert (Hpkcols : first_missing pk T1 = None).
      { apply (first_missing_cols n).
        - intro x. unfold has_col, has_column, T1. cbn [pt_cols]. now rewrite existsb_map.
        - rewrite forallb_forall in Hkcols. exact (Hkcols _ Hin). }
      rewrite Hpkcols.
      assert (Hpkn : pkey_name (mkCat (ts ++ [T1]) E1) T1 = tn +++ "_pkey").
      { unfold pkey_name. cbn [pt_name T1 pt_cons bt_keys map]. rewrite app_nil_r.
        rewrite (rel_names_last ts E1 T1). cbn [pt_name pt_idx T1 bt_keys map choose_name].
        assert (Hx : In (tn +++ "_pkey") (map fst (flat_map (idx_cat tn) nks))).
        { apply in_map_iff. exists (tn +++ "_pkey", mkPi pk true true). split; [reflexivity|].
          apply in_flat_map. exists (CPrimaryKey a pk). split; [exact Hin|now left]. }
        destruct (iname_free s E tn n Hind Hifree _ Hx) as [Ha Hb].
        change (map table_cat s) with ts in Ha.
        change (rel_names (mkCat ts E1)) with (rel_names (mkCat ts E)).
        rewrite mem_str_app, Ha. cbn [mem_str existsb orb]. now rewrite Hb. }
      rewrite Hpkn. now rewrite (replace_last ts E1 tn Hfresh T1 _ eq_refl). }
    destruct Hadd as [Hadd Hle].
    assert (Hfks : add_fks (mkCat (ts ++ [T2]) E1) tn (create_fks tn nks) = Ok (mkCat (ts ++ [T3]) E1)).
    { apply (exec_fks ts E1 tn Hfresh).
      - exact (T2_name tn n Hpk1).
      - intros f Hf. eapply (fks_ok s E1 tn n); eauto.
      - eapply (fks_nodup s E1 tn n); eauto.
      - intros f Hf. eapply (fks_new s E1 tn n); eauto. }
    cbn [map app]. destruct (create_pks pcs) as [|pk0 [|pk1 r1]]; try contradiction; cbv iota beta in Hadd |- *;
      first [rewrite Hadd | injection Hadd as Hadd; rewrite Hadd]; rewrite Hfks; reflexivity.
  - (* CREATE [UNIQUE] INDEX ... *)
    rewrite (exec_indexes ts E1 tn Hfresh (uq_entries tn nks ++ ix_entries tn nks) T3).
    + f_equal. f_equal. f_equal. f_equal. eapply (final_table tn n); eauto.
    + destruct (T3_facts tn n Hpk1) as (A & _). exact A.
    + intros e He. eapply (entry_cols tn n); eauto.
    + eapply (entries_nodup s E1 tn n); eauto.
    + intros e He. eapply (entries_new s E1 tn n); eauto.
Qed.
