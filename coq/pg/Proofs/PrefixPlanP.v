(* PG layer, C14: equivariance of gen_plan (evolving schema included). *)
From VV.M1 Require Import PrefixStrP PrefixP PrefixApplyP.
From VV.PG Require Export PrefixGenP.

Fixpoint side_plan (p : string) (s : schema) (acts : list action) : bool :=
  match acts with
  | [] => true
  | a :: r => (side_pg s a && no_user_name_equals_derived p s a && side_plan p (step_schema s a) r)%bool
  end.

Lemma step_schema_literal p s a : no_dot p -> no_user_name_equals_derived p s a = true ->
  step_schema (literal_schema p s) (literal_action p a) = literal_schema p (step_schema s a).
Proof.
  intros Hp Hs. unfold step_schema. rewrite (apply_equivariant p s a Hp Hs).
  destruct (apply_action s a); reflexivity.
Qed.

Theorem gen_plan_equivariant p : no_dot p -> forall acts s, side_plan p s acts = true ->
  gen_plan (literal_schema p s) (map (literal_action p) acts)
  = match gen_plan s acts with Ok qs => Ok (map (map (rename_stmt p)) qs) | Err e => Err e end.
Proof.
  intros Hp. induction acts as [|a r IH]; intros s H; [reflexivity|].
  cbn [side_plan] in H. apply andb_prop in H. destruct H as [H Hr]. apply andb_prop in H. destruct H as [Hs Hu].
  cbn [map gen_plan].
  rewrite (gen_equivariant p s a (pending_of a r) _ Hp Hs).
  destruct (gen s (pending_of a r) a) as [q|e]; [|reflexivity].
  fold (step_schema (literal_schema p s) (literal_action p a)). fold (step_schema s a).
  rewrite (step_schema_literal p s a Hp Hu), (IH _ Hr).
  destruct (gen_plan (step_schema s a) r); reflexivity.
Qed.
