(* PG layer, C14: equivariance of gen_plan (evolving schema included). *)
From VV.M1 Require Import PrefixHyp PrefixStrP PrefixP PrefixApplyP.
From VV.PG Require Export PrefixGenP.

Fixpoint side_plan (p : string) (s : schema) (acts : list action) : bool :=
  match acts with
  | [] => true
  | a :: r => (side_pg s a && no_user_name_equals_derived p s a && side_plan p (step_schema s a) r)%bool
  end.

Lemma step_schema_literal p s a : no_dot p -> no_user_name_equals_derived p s a = true ->
  step_schema (literal_schema p s) (literal_action p a) = literal_schema p (step_schema s a).
Proof.
  intros Hp Hs. unfold step_schema. rewrite (apply_equivariant p s a Hp Hs).
  destruct (apply_action s a); reflexivity.
Qed.

Theorem gen_plan_equivariant p : no_dot p -> forall acts s, side_plan p s acts = true ->
  gen_plan (literal_schema p s) (map (literal_action p) acts)
  = match gen_plan s acts with Ok qs => Ok (map (map (rename_stmt p)) qs) | Err e => Err e end.
Proof.
  intros Hp. induction acts as [|a r IH]; intros s H; [reflexivity|].
  cbn [side_plan] in H. apply andb_prop in H. destruct H as [H Hr]. apply andb_prop in H. destruct H as [Hs Hu].
  cbn [map gen_plan].
  rewrite (gen_equivariant p s a (pending_of a r) _ Hp Hs).
  destruct (gen s (pending_of a r) a) as [q|e]; [|reflexivity].
  fold (step_schema (literal_schema p s) (literal_action p a)). fold (step_schema s a).
  rewrite (step_schema_literal p s a Hp Hu), (IH _ Hr).
  destruct (gen_plan (step_schema s a) r); reflexivity.
Qed.

(* ---------- MigrationPlan::with_prefix (after the D10 repair: inline foreign_key targets are prefixed too) ----------
   the SQL generated for the prefixed plan on the literally renamed baseline is the renamed SQL of the plain plan,
   provided every inline foreign_key reference is well formed (PrefixHyp.inline_fks_parse) *)
Theorem with_prefix_gen_plan p pl s : p <> "" -> no_dot p ->
  forallb inline_fks_parse (p_actions pl) = true -> side_plan p s (p_actions pl) = true ->
  gen_plan (literal_schema p s) (p_actions (plan_with_prefix p pl))
  = match gen_plan s (p_actions pl) with Ok qs => Ok (map (map (rename_stmt p)) qs) | Err e => Err e end.
Proof.
  intros Hne Hp Hfk Hs. rewrite (plan_with_prefix_is_literal p pl Hne Hfk).
  now apply gen_plan_equivariant.
Qed.

(* one action *)
Theorem with_prefix_gen p s a P P' : p <> "" -> no_dot p -> inline_fks_parse a = true -> side_pg s a = true ->
  gen (literal_schema p s) P' (action_with_prefix p a)
  = match gen s P a with Ok q => Ok (map (rename_stmt p) q) | Err e => Err e end.
Proof.
  intros Hne Hp Hfk Hs. rewrite (with_prefix_is_literal p a Hne Hfk). now apply gen_equivariant.
Qed.
