(* PG layer: the simulation invariant  Sim s c := c = catalog_of s  — lifting over plans and histories. *)
From VV.PG Require Export CatP.

(* one action: the generator succeeds and executing its statements from catalog_of s ends in catalog_of of
   the evolved schema (the schema build_plan_queries itself carries forward: apply errors ignored) *)
Definition step_sim (s : schema) (a : action) : Prop :=
  exists q, gen s [] a = Ok q /\ exec_all (catalog_of s) q = Ok (catalog_of (step_schema s a)).

Fixpoint all_steps (P : schema -> action -> Prop) (s : schema) (acts : list action) : Prop :=
  match acts with
  | [] => True
  | a :: r => P s a /\ all_steps P (step_schema s a) r
  end.
Definition final_schema (s : schema) (acts : list action) : schema := fold_left step_schema acts s.

Lemma final_schema_apply_all : forall acts s s', apply_all s acts = Ok s' -> final_schema s acts = s'.
Proof.
  induction acts as [|a r IH]; intros s s' H; cbn [apply_all] in H.
  - now injection H.
  - unfold final_schema. cbn [fold_left]. unfold step_schema at 2.
    destruct (apply_action s a) as [s1|]; [|discriminate]. now apply IH.
Qed.

Theorem Sim_plan : forall acts s n,
  all_steps step_sim s acts ->
  exists qs, gen_plan s acts = Ok qs /\
             run_actions (catalog_of s) n qs = Ok (catalog_of (final_schema s acts)).
Proof.
  induction acts as [|a r IH]; intros s n H.
  - exists []. split; reflexivity.
  - destruct H as [(q & Hg & He) Hr].
    destruct (IH (step_schema s a) (S n) Hr) as (qs & Hgp & Hrun).
    exists (q :: qs). split.
    + cbn [gen_plan]. rewrite gen_pending_irrelevant, Hg.
      fold (step_schema s a). now rewrite Hgp.
    + cbn [run_actions]. rewrite He. exact Hrun.
Qed.

(* a history = the action lists of its migrations, executed one after the other on the same database *)
Fixpoint run_history (c : catalog) (s : schema) (h : list (list action)) : option catalog :=
  match h with
  | [] => Some c
  | acts :: r =>
      match gen_plan s acts with
      | Err _ => None
      | Ok qs => match run_actions c 0 qs with
                 | Err _ => None
                 | Ok c' => run_history c' (final_schema s acts) r
                 end
      end
  end.
Fixpoint all_history (P : schema -> action -> Prop) (s : schema) (h : list (list action)) : Prop :=
  match h with
  | [] => True
  | acts :: r => all_steps P s acts /\ all_history P (final_schema s acts) r
  end.

Theorem Sim_history : forall h s,
  all_history step_sim s h ->
  run_history (catalog_of s) s h = Some (catalog_of (fold_left final_schema h s)).
Proof.
  induction h as [|acts r IH]; intros s H; [reflexivity|].
  destruct H as [Ha Hr]. cbn [run_history fold_left].
  destruct (Sim_plan acts s 0 Ha) as (qs & Hg & Hrun).
  rewrite Hg, Hrun. now apply IH.
Qed.

(* from an empty database *)
Corollary Sim_history_from_empty h :
  all_history step_sim [] h ->
  run_history empty_catalog [] h = Some (catalog_of (fold_left final_schema h [])).
Proof. intro H. rewrite <- catalog_of_nil. now apply Sim_history. Qed.
