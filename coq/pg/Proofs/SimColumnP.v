(* PG layer: simulation lemmas for the actions that change one attribute of one column. *)
From VV.M1 Require Import BtP PrefixStrP.
From VV.PG Require Export SimCreateP.

(* ---------- one column of one table ---------- *)
Lemma update_first_col_names cn f : (forall c, c_name (f c) = c_name c) -> forall cols cols',
  update_first_col cn f cols = Some cols' -> map c_name cols' = map c_name cols.
Proof. intros Hf. apply (update_first_col_map c_name cn f Hf). Qed.

Lemma update_first_col_cat (h : column_def -> pg_col) (g : pg_col -> pg_col) cn f :
  (forall x, pc_name (h x) = c_name x) ->
  forall cols cols',
  (forall x, In x cols -> String.eqb (c_name x) cn = true -> h (f x) = g (h x)) ->
  nodup_str (map c_name cols) = true -> update_first_col cn f cols = Some cols' ->
  map h cols' = map (fun y => if String.eqb (pc_name y) cn then g y else y) (map h cols).
Proof.
  intros Hn. induction cols as [|c r IH]; intros cols' Hg Hnd Hu; [discriminate|].
  cbn [map] in Hnd. apply nodup_str_cons in Hnd. destruct Hnd as [Hc Hr].
  cbn [update_first_col] in Hu. cbn [map]. rewrite Hn.
  destruct (String.eqb (c_name c) cn) eqn:E.
  - injection Hu as <-. cbn [map]. rewrite (Hg c (or_introl eq_refl) E). f_equal.
    apply String.eqb_eq in E. subst cn. clear -Hc Hn.
    induction r as [|y r IHr]; [reflexivity|]. cbn [map] in *. rewrite Hn.
    unfold mem_str in Hc. cbn [existsb] in Hc. apply orb_false_iff in Hc. destruct Hc as [H1 H2].
    rewrite BtP.str_eqb_sym, H1. f_equal. now apply IHr.
  - destruct (update_first_col cn f r) as [r'|] eqn:Er; [|discriminate]. injection Hu as <-.
    cbn [map]. f_equal. apply IH; [intros; apply Hg; [now right|assumption]|exact Hr|reflexivity].
Qed.

Lemma update_col_const (T : pg_table) cn (g : pg_col -> pg_col) x0 :
  nodup_str (map pc_name (pt_cols T)) = true -> find_col cn T = Some x0 ->
  update_col T cn (fun _ => g x0) = update_col T cn g.
Proof.
  intros Hnd Hf. unfold update_col. f_equal. unfold find_col in Hf.
  induction (pt_cols T) as [|y r IH]; [reflexivity|].
  cbn [map] in Hnd. apply nodup_str_cons in Hnd. destruct Hnd as [Hy Hr].
  cbn [find] in Hf. cbn [map]. destruct (String.eqb (pc_name y) cn) eqn:E.
  - injection Hf as <-. f_equal. apply String.eqb_eq in E. subst cn. clear -Hy.
    induction r as [|z r IHr]; [reflexivity|]. cbn [map] in *.
    unfold mem_str in Hy. cbn [existsb] in Hy. apply orb_false_iff in Hy. destruct Hy as [H1 H2].
    rewrite BtP.str_eqb_sym, H1. f_equal. now apply IHr.
  - f_equal. now apply IH.
Qed.

Lemma pt_cols_names t : map pc_name (pt_cols (table_cat t)) = map c_name (t_columns t).
Proof. unfold table_cat. cbn [pt_cols]. rewrite map_map. apply map_ext. reflexivity. Qed.

Lemma find_col_table_cat cn t c :
  find (fun x => String.eqb (c_name x) cn) (t_columns t) = Some c -> find_col cn (table_cat t) = Some (col_cat t c).
Proof.
  unfold find_col, table_cat. cbn [pt_cols]. rewrite find_map. cbn [col_cat pc_name].
  intro H. change (fun x => String.eqb (pc_name (col_cat t x)) cn) with (fun x => String.eqb (c_name x) cn).
  now rewrite H.
Qed.

(* the generic step: the schema side *)
Lemma column_update s tn cn t c (f : column_def -> column_def) (g : pg_col -> pg_col) :
  nodup_str (map t_name s) = true ->
  find (fun x => String.eqb (t_name x) tn) s = Some t ->
  find (fun x => String.eqb (c_name x) cn) (t_columns t) = Some c ->
  nodup_str (map c_name (t_columns t)) = true ->
  (forall x, c_name (f x) = c_name x) ->
  (forall x, In x (t_columns t) -> String.eqb (c_name x) cn = true -> col_cat t (f x) = g (col_cat t x)) ->
  (forall cols', update_first_col cn f (t_columns t) = Some cols' ->
                 enums_of_cols (t_name t) cols' [] = enums_of_cols (t_name t) (t_columns t) []) ->
  exists s', update_table tn (update_column tn cn f) s = Ok s' /\
             catalog_of s' = replace_table (update_col (table_cat t) cn (fun _ => g (col_cat t c))) tn (catalog_of s).
Proof.
  intros Hnd Hf Hc Hcnd Hname Hg Hen.
  assert (Hhas : existsb (fun x => String.eqb (c_name x) cn) (t_columns t) = true).
  { apply existsb_exists. apply find_some in Hc. destruct Hc as [Hin E]. eauto. }
  destruct (update_first_col_some cn f (t_columns t) Hhas) as [cols' Hu].
  set (t' := mkTable (t_name t) (t_description t) cols' (t_constraints t)).
  assert (Hft : update_column tn cn f t = Ok t') by (unfold update_column; now rewrite Hu).
  assert (Hen' : table_enums t' = table_enums t) by (unfold table_enums, t'; cbn [t_name t_columns]; now apply Hen).
  destruct (update_table_spec tn _ s t t' Hnd Hf Hft eq_refl Hen') as (s' & Hup & Hcat & _).
  exists s'. split; [exact Hup|]. rewrite Hcat. f_equal.
  rewrite (update_col_const (table_cat t) cn g (col_cat t c)).
  - unfold update_col, table_cat, t'. cbn [t_name t_columns t_constraints pt_name pt_cols pt_cons pt_idx]. f_equal.
    rewrite (map_ext _ (col_cat t)) by (apply col_cat_ext; reflexivity).
    apply (update_first_col_cat (col_cat t) g cn f); [reflexivity|exact Hg|exact Hcnd|exact Hu].
  - now rewrite pt_cols_names.
  - now apply find_col_table_cat.
Qed.

(* ---------- shared preparation ---------- *)
Lemma the_column_spec s tn cn t c : the_column s tn cn = Some (t, c) ->
  find (fun x => String.eqb (t_name x) tn) s = Some t /\
  find (fun x => String.eqb (c_name x) cn) (t_columns t) = Some c /\
  find_column_s s tn cn = Some c.
Proof.
  unfold the_column, find_column_s, find_table_s.
  destruct (find (fun x => String.eqb (t_name x) tn) s) as [t0|]; [|discriminate].
  destruct (find (fun c0 => String.eqb (c_name c0) cn) (t_columns t0)) as [c0|] eqn:E; [|discriminate].
  intro H. injection H as <- <-. repeat split; assumption.
Qed.

Lemma has_column_find cn t c : find (fun x => String.eqb (c_name x) cn) (t_columns t) = Some c -> has_column cn t = true.
Proof. intro H. unfold has_column. apply existsb_exists. apply find_some in H. destruct H. eauto. Qed.

(* executing ALTER TABLE tn ALTER COLUMN cn <something that rewrites the column> *)
Lemma exec_with_col s tn cn t c op (x' : pg_col) :
  find (fun x => String.eqb (t_name x) tn) s = Some t ->
  find (fun x => String.eqb (c_name x) cn) (t_columns t) = Some c ->
  (forall (T : pg_table) (cat : catalog),
      find_table tn cat = Some T -> find_col cn T = Some (col_cat t c) -> cat = catalog_of s -> T = table_cat t ->
      exec_alter_op cat tn op = Ok (replace_table (update_col T cn (fun _ => x')) tn cat, tn)) ->
  exec (catalog_of s) (SAlterTable tn [op])
  = Ok (replace_table (update_col (table_cat t) cn (fun _ => x')) tn (catalog_of s)).
Proof.
  intros Hf Hc Hop. cbn [exec]. rewrite find_table_catalog_of, Hf. cbn [option_map exec_alter_ops].
  rewrite (Hop (table_cat t) (catalog_of s)); [reflexivity| | |reflexivity|reflexivity].
  - now rewrite find_table_catalog_of, Hf.
  - now apply find_col_table_cat.
Qed.

Lemma exec_update s tn cn t e w :
  find (fun x => String.eqb (t_name x) tn) s = Some t -> has_column cn t = true ->
  exec (catalog_of s) (SUpdate tn cn e w) = Ok (catalog_of s).
Proof. intros Hf Hh. cbn [exec]. rewrite find_table_catalog_of, Hf. cbn [option_map]. now rewrite has_col_table_cat, Hh. Qed.

(* ---------- ModifyColumnNullable ---------- *)
Theorem sim_pg_modify_column_nullable s tn cn b fw :
  hyp_modify_nullable s tn cn b = true -> step_sim s (ModifyColumnNullable tn cn b fw).
Proof.
  unfold hyp_modify_nullable, column_frame. intro H. apply andb_prop in H. destruct H as [H Hb].
  apply andb_prop in H. destruct H as [Hnd Hcnd].
  destruct (the_column s tn cn) as [[t c]|] eqn:Ecol; [|discriminate].
  destruct (the_column_spec _ _ _ _ _ Ecol) as (Hf & Hc & Hfc).
  pose proof (find_name _ _ _ Hf) as Hname.
  set (g := fun x : pg_col => mkPc (pc_name x) (pc_type x) (negb b) (pc_default x) (pc_autoinc x)).
  destruct (column_update s tn cn t c (set_nullable b) g Hnd Hf Hc Hcnd) as (s' & Hup & Hcat).
  - reflexivity.
  - intros x Hx Ex. unfold col_cat, g. cbn [set_nullable c_name c_type c_nullable c_default pc_name pc_type pc_default pc_autoinc].
    f_equal. destruct b; cbn [negb orb] in *; [|reflexivity].
    apply andb_prop in Hb. destruct Hb as [Hb _]. apply negb_true_iff in Hb. unfold in_pk_of in Hb.
    apply String.eqb_eq in Ex. rewrite Ex. destruct (pk_of t) as [[a cols]|]; [exact Hb|reflexivity].
  - intros cols' Hu. apply enums_of_cols_ext. eapply update_first_col_map; [|exact Hu]. reflexivity.
  - pose proof (has_column_find _ _ _ Hc) as Hhas.
    assert (Halter : exec (catalog_of s) (SAlterTable tn [if b then ADropNotNull cn else ASetNotNull cn])
                     = Ok (catalog_of s')).
    { rewrite Hcat. apply (exec_with_col s tn cn t c _ _ Hf Hc).
      intros T cat HT Hcol -> ->. unfold exec_alter_op. rewrite HT. destruct b.
      - apply andb_prop in Hb. cbn [negb orb] in Hb. destruct Hb as [_ Hk]. apply negb_true_iff in Hk.
        rewrite Hk, Hcol. reflexivity.
      - rewrite Hcol. reflexivity. }
    unfold step_sim. rewrite (step_schema_ok s _ s') by exact Hup.
    cbn [gen]. unfold gen_modify_column_nullable.
    destruct b; cbv iota in Halter; [eexists; split; [reflexivity|]; cbn [app exec_all]; now rewrite Halter|].
    destruct (normalize_fill_with fw) as [v|]; eexists; (split; [reflexivity|]); cbn [app exec_all].
    + rewrite (exec_update s tn cn t _ _ Hf Hhas). now rewrite Halter.
    + now rewrite Halter.
Qed.

(* ---------- ModifyColumnDefault ---------- *)
Theorem sim_pg_modify_column_default s tn cn d :
  hyp_modify_default s tn cn d = true -> step_sim s (ModifyColumnDefault tn cn d).
Proof.
  unfold hyp_modify_default, column_frame. intro H. apply andb_prop in H. destruct H as [H Hd].
  apply andb_prop in H. destruct H as [Hnd Hcnd].
  destruct (the_column s tn cn) as [[t c]|] eqn:Ecol; [|discriminate].
  destruct (the_column_spec _ _ _ _ _ Ecol) as (Hf & Hc & Hfc).
  pose proof (find_name _ _ _ Hf) as Hname.
  assert (Huniq : forall x, In x (t_columns t) -> String.eqb (c_name x) cn = true -> x = c)
    by (apply (find_col_unique cn _ c Hcnd Hc)).
  destruct d as [dv|].
  - (* SET DEFAULT *)
    apply andb_prop in Hd. destruct Hd as [Hne Heq]. apply negb_true_iff in Hne.
    unfold dec_b in Heq. destruct (option_eq_dec string_dec _ _) as [Heq'|]; [|discriminate]. clear Heq.
    set (e := normalize_enum_default (c_type c) dv) in *.
    set (g := fun x : pg_col => mkPc (pc_name x) (pc_type x) (pc_notnull x) (Some e) (pc_autoinc x)).
    destruct (column_update s tn cn t c (set_default (option_map default_of_string (Some dv))) g Hnd Hf Hc Hcnd)
      as (s' & Hup & Hcat).
    + reflexivity.
    + intros x Hx Ex. rewrite (Huniq x Hx Ex). unfold col_cat, g.
      cbn [option_map default_of_string set_default c_name c_type c_nullable pc_name pc_type pc_notnull pc_autoinc].
      f_equal. exact Heq'.
    + intros cols' Hu. apply enums_of_cols_ext. eapply update_first_col_map; [|exact Hu]. reflexivity.
    + unfold step_sim. rewrite (step_schema_ok s _ s') by exact Hup.
      eexists. split; [reflexivity|]. cbn [gen]. unfold gen_modify_column_default. rewrite Hfc. fold e.
      cbn [exec_all]. rewrite Hcat.
      rewrite (exec_with_col s tn cn t c (ASetDefault cn e) (g (col_cat t c)) Hf Hc); [reflexivity|].
      intros T cat HT Hcol -> ->. unfold exec_alter_op. rewrite HT, Hne, Hcol. reflexivity.
  - (* DROP DEFAULT *)
    apply negb_true_iff in Hd.
    set (g := fun x : pg_col => mkPc (pc_name x) (pc_type x) (pc_notnull x) None false).
    destruct (column_update s tn cn t c (set_default (option_map default_of_string None)) g Hnd Hf Hc Hcnd)
      as (s' & Hup & Hcat).
    + reflexivity.
    + intros x Hx Ex. rewrite (Huniq x Hx Ex). unfold col_cat in Hd. cbn [pc_autoinc] in Hd.
      unfold g, col_cat. cbn [option_map set_default c_name c_type c_nullable pc_name pc_type pc_notnull].
      rewrite Hd. reflexivity.
    + intros cols' Hu. apply enums_of_cols_ext. eapply update_first_col_map; [|exact Hu]. reflexivity.
    + unfold step_sim. rewrite (step_schema_ok s _ s') by exact Hup.
      eexists. split; [reflexivity|]. cbn [gen gen_modify_column_default exec_all]. rewrite Hcat.
      rewrite (exec_with_col s tn cn t c (ADropDefault cn) (g (col_cat t c)) Hf Hc); [reflexivity|].
      intros T cat HT Hcol -> ->. unfold exec_alter_op. rewrite HT, Hcol. reflexivity.
Qed.

(* ---------- ModifyColumnType between non-enum types ---------- *)
Lemma enums_update_plain tn cn f : 
  (forall x, is_enum_type (c_type x) = false -> String.eqb (c_name x) cn = true -> is_enum_type (c_type (f x)) = false) ->
  forall cols cols' seen,
  (forall x, In x cols -> String.eqb (c_name x) cn = true -> is_enum_type (c_type x) = false) ->
  update_first_col cn f cols = Some cols' -> enums_of_cols tn cols' seen = enums_of_cols tn cols seen.
Proof.
  intros Hf. induction cols as [|c r IH]; intros cols' seen Hp Hu; [discriminate|].
  cbn [update_first_col] in Hu. destruct (String.eqb (c_name c) cn) eqn:E.
  - injection Hu as <-. cbn [enums_of_cols].
    pose proof (Hp c (or_introl eq_refl) E) as H1. pose proof (Hf c H1 E) as H2.
    destruct (c_type c); try discriminate; destruct (c_type (f c)); try discriminate; reflexivity.
  - destruct (update_first_col cn f r) as [r'|] eqn:Er; [|discriminate]. injection Hu as <-.
    cbn [enums_of_cols]. destruct (c_type c); try (apply IH; [intros; apply Hp; [now right|assumption]|reflexivity]).
    destruct (ev_is_integer values || mem_str name seen)%bool;
      [|f_equal]; apply IH; try reflexivity; intros; apply Hp; try (now right); assumption.
Qed.

Lemma default_text_plain c ty : is_enum_type (c_type c) = false -> is_enum_type ty = false ->
  column_default_text (set_type ty c) = column_default_text c.
Proof.
  intros H1 H2. unfold column_default_text. cbn [set_type c_default c_type]. destruct (c_default c); [|reflexivity].
  now rewrite H1, H2.
Qed.

Theorem sim_pg_modify_column_type s tn cn ty fw :
  hyp_modify_type s tn cn ty = true -> step_sim s (ModifyColumnType tn cn ty fw).
Proof.
  unfold hyp_modify_type, column_frame. intro H. apply andb_prop in H. destruct H as [H Hd].
  apply andb_prop in H. destruct H as [Hnd Hcnd].
  destruct (the_column s tn cn) as [[t c]|] eqn:Ecol; [|discriminate].
  destruct (the_column_spec _ _ _ _ _ Ecol) as (Hf & Hc & Hfc).
  pose proof (find_name _ _ _ Hf) as Hname.
  assert (Huniq : forall x, In x (t_columns t) -> String.eqb (c_name x) cn = true -> x = c)
    by (apply (find_col_unique cn _ c Hcnd Hc)).
  repeat (apply andb_prop in Hd; destruct Hd as [Hd ?]).
  rename Hd into Hold, H into Hauto, H0 into Hres, H1 into Hnew.
  apply negb_true_iff in Hold, Hnew. apply Bool.eqb_prop in Hauto.
  destruct (resolve_type (catalog_of s) (sea_type tn ty)) as [[x b]|] eqn:Eres; [|discriminate].
  destruct b; [discriminate|]. apply String.eqb_eq in Hres. subst x.
  set (g := fun x : pg_col => mkPc (pc_name x) (cat_type tn ty) (pc_notnull x) (pc_default x) (pc_autoinc x || false)).
  destruct (column_update s tn cn t c (set_type ty) g Hnd Hf Hc Hcnd) as (s' & Hup & Hcat).
  - reflexivity.
  - intros x Hx Ex. rewrite (Huniq x Hx Ex). unfold g. rewrite orb_false_r, <- Hauto.
    unfold col_cat. cbn [set_type c_name c_type c_nullable pc_name pc_type pc_notnull pc_default pc_autoinc].
    rewrite Hname. f_equal. apply (default_text_plain c ty Hold Hnew).
  - intros cols' Hu. apply (enums_update_plain (t_name t) cn (set_type ty)); [| |exact Hu].
    + intros; exact Hnew.
    + intros x Hx Ex. now rewrite (Huniq x Hx Ex).
  - pose proof (has_column_find _ _ _ Hc) as Hhas.
    unfold step_sim. rewrite (step_schema_ok s _ s') by exact Hup.
    eexists. split; [reflexivity|]. cbn [gen]. unfold gen_modify_column_type. rewrite Hfc. cbn [option_map].
    assert (Hup_all : forall l c0, exec_all (catalog_of s) l = Ok c0 ->
              exec_all (catalog_of s) (fill_with_updates tn cn fw ++ l) = Ok c0).
    { intros l c0 Hl. destruct fw as [m|]; [|exact Hl]. unfold fill_with_updates.
      induction m as [|p r IH]; [exact Hl|]. cbn [map app exec_all].
      rewrite (exec_update s tn cn t _ _ Hf Hhas). now rewrite IH. }
    destruct (c_type c) as [st|vl|np ns|cl|cu|en ev] eqn:Ect; try discriminate;
      destruct ty as [st'|vl'|np' ns'|cl'|cu'|en' ev'] eqn:Ety; try discriminate;
      cbv iota beta; cbn [app]; apply Hup_all; cbn [exec_all]; rewrite Hcat;
      rewrite (exec_with_col s tn cn t c _ (g (col_cat t c)) Hf Hc); try reflexivity;
      intros T cat HT Hcol -> ->; unfold exec_alter_op; rewrite HT, Hcol, Eres; reflexivity.
Qed.

(* ---------- AddColumn, back-fill sequence ---------- *)
Lemma find_replace tn c T0 T' : find_table tn c = Some T0 -> pt_name T' = tn ->
  find_table tn (replace_table T' tn c) = Some T'.
Proof.
  unfold find_table, replace_table, map_table, set_tables. cbn [c_tables]. intros H HT.
  induction (c_tables c) as [|x r IH]; [discriminate|]. cbn [find map] in *.
  destruct (String.eqb (pt_name x) tn) eqn:E.
  - now rewrite HT, String.eqb_refl.
  - rewrite E. now apply IH.
Qed.
Lemma replace_replace tn c A B : pt_name A = tn -> replace_table B tn (replace_table A tn c) = replace_table B tn c.
Proof.
  intro HA. unfold replace_table, map_table, set_tables. cbn [c_tables c_enums]. f_equal.
  rewrite map_map. apply map_ext. intro y. destruct (String.eqb (pt_name y) tn) eqn:E; [|now rewrite E].
  now rewrite HA, String.eqb_refl.
Qed.
Lemma type_exists_replace n tn c T0 T' : find_table tn c = Some T0 -> pt_name T' = tn ->
  type_exists n (replace_table T' tn c) = type_exists n c.
Proof.
  intros _ HT. unfold type_exists, replace_table, map_table, set_tables. cbn [c_tables c_enums]. f_equal.
  rewrite existsb_map. apply existsb_ext_in. intros y _. destruct (String.eqb (pt_name y) tn) eqn:E; [|reflexivity].
  apply String.eqb_eq in E. now rewrite HT, E.
Qed.
Lemma resolve_replace tn c T0 T' ty : find_table tn c = Some T0 -> pt_name T' = tn ->
  resolve_type (replace_table T' tn c) ty = resolve_type c ty.
Proof.
  intros H HT. unfold resolve_type. rewrite !(type_exists_replace _ tn c T0 T' H HT). reflexivity.
Qed.

Lemma find_col_snoc cn (cols : list pg_col) x :
  existsb (fun y => String.eqb (pc_name y) cn) cols = false -> pc_name x = cn ->
  find (fun y => String.eqb (pc_name y) cn) (cols ++ [x]) = Some x.
Proof.
  intros H Hx. induction cols as [|y r IH]; cbn [app find existsb] in *.
  - now rewrite Hx, String.eqb_refl.
  - apply orb_false_iff in H. destruct H as [H1 H2]. rewrite H1. now apply IH.
Qed.
Lemma update_snoc cn (cols : list pg_col) x x' :
  existsb (fun y => String.eqb (pc_name y) cn) cols = false -> pc_name x = cn ->
  map (fun y => if String.eqb (pc_name y) cn then x' else y) (cols ++ [x]) = cols ++ [x'].
Proof.
  intros H Hx. induction cols as [|y r IH]; cbn [app map existsb] in *.
  - now rewrite Hx, String.eqb_refl.
  - apply orb_false_iff in H. destruct H as [H1 H2]. rewrite H1. f_equal. now apply IH.
Qed.

Theorem sim_pg_add_column_backfill s tn col fw :
  hyp_add_column_backfill s tn col fw = true -> step_sim s (AddColumn tn col fw).
Proof.
  unfold hyp_add_column_backfill, hyp_add_column_gen. intro H. apply andb_prop in H. destruct H as [Hnd H].
  destruct (find (fun x => String.eqb (t_name x) tn) s) as [t|] eqn:Hf; [|discriminate].
  cbv zeta in H.
  repeat (apply andb_prop in H; destruct H as [H ?]).
  rename H into Hnew, H0 into Hpk, H1 into Hres, H2 into Hnorm, H3 into Hbf, H4 into Hne.
  apply negb_true_iff in Hnew, Hne. apply Bool.eqb_prop in Hbf.
  pose proof (find_name _ _ _ Hf) as Hname.
  set (t' := mkTable (t_name t) (t_description t) (t_columns t ++ [col]) (t_constraints t)) in *.
  destruct (normalize t') as [nt|] eqn:En; [|discriminate].
  unfold table_def_eqb, dec_b in Hnorm. destruct (table_def_eq_dec nt t') as [->|]; [|discriminate].
  assert (Hft : (fun t0 : table_def =>
                  if has_column (c_name col) t0 then Err (ColumnExists tn (c_name col))
                  else match normalize (mkTable (t_name t0) (t_description t0) (t_columns t0 ++ [col]) (t_constraints t0)) with
                       | Err _ => Err TableValidation
                       | Ok n => Ok n
                       end) t = @Ok table_def planner_error t').
  { cbv beta. rewrite Hnew. fold t'. now rewrite En. }
  assert (Hen : table_enums t' = table_enums t).
  { unfold table_enums, t'. cbn [t_name t_columns]. now apply enums_of_cols_snoc_plain. }
  destruct (update_table_spec tn _ s t t' Hnd Hf Hft eq_refl Hen) as (s' & Hup & Hc & _).
  (* the back-fill conditions *)
  unfold needs_backfill in Hbf. apply andb_prop in Hbf. destruct Hbf as [Hbf Hfw]. apply andb_prop in Hbf. destruct Hbf as [Hnn Hdef].
  apply negb_true_iff in Hnn. destruct (c_default col) as [dv|] eqn:Edef; [discriminate|].
  destruct fw as [fv|]; [|discriminate].
  destruct (resolve_type (catalog_of s) (sea_type tn (c_type col))) as [[x b]|] eqn:Eres; [|discriminate].
  destruct b; [discriminate|]. apply String.eqb_eq in Hres. subst x.
  set (cn := c_name col). set (ty := cat_type tn (c_type col)).
  set (T := table_cat t).
  set (x1 := mkPc cn ty false None false). set (x2 := mkPc cn ty true None false).
  set (T1 := mkPt (pt_name T) (pt_cols T ++ [x1]) (pt_cons T) (pt_idx T)).
  set (T2 := mkPt (pt_name T) (pt_cols T ++ [x2]) (pt_cons T) (pt_idx T)).
  assert (HT : find_table tn (catalog_of s) = Some T) by (rewrite find_table_catalog_of, Hf; reflexivity).
  assert (HTn : pt_name T = tn) by (unfold T; now rewrite pt_name_table_cat).
  assert (Hnocol : existsb (fun y => String.eqb (pc_name y) cn) (pt_cols T) = false).
  { fold (has_col cn T). unfold T. now rewrite has_col_table_cat. }
  assert (Hdt : column_default_text (set_nullable true col) = None /\ column_default_text col = None).
  { unfold column_default_text. cbn [set_nullable c_default]. now rewrite Edef. }
  destruct Hdt as [Hd1 Hd2].
  (* statement 1: ADD COLUMN, nullable *)
  assert (S1 : exec (catalog_of s) (SAlterTable tn [AAddColumn (sea_coldef tn (set_nullable true col))])
               = Ok (replace_table T1 tn (catalog_of s))).
  { cbn [exec]. rewrite HT. cbn [exec_alter_ops]. unfold exec_alter_op. rewrite HT.
    unfold sea_coldef. cbn [cd_name cd_type cd_notnull cd_default cd_pk set_nullable c_name c_type c_nullable negb].
    fold cn. change (has_col cn T) with (existsb (fun y => String.eqb (pc_name y) cn) (pt_cols T)). rewrite Hnocol.
    unfold mk_col. cbn [cd_type cd_name cd_notnull cd_default]. rewrite Eres, Hd1. reflexivity. }
  set (c1 := replace_table T1 tn (catalog_of s)).
  assert (HT1 : find_table tn c1 = Some T1) by (apply (find_replace tn _ T T1 HT HTn)).
  (* statement 2: UPDATE *)
  assert (S2 : forall e, exec c1 (SUpdate tn cn e None) = Ok c1).
  { intro e. cbn [exec]. rewrite HT1. unfold has_col, T1. cbn [pt_cols]. rewrite existsb_app. cbn [existsb pc_name x1].
    now rewrite String.eqb_refl, orb_true_r. }
  (* statement 3: ALTER COLUMN .. TYPE .., ALTER COLUMN .. SET NOT NULL *)
  assert (Hfc1 : find_col cn T1 = Some x1) by (apply find_col_snoc; [exact Hnocol|reflexivity]).
  assert (Hsame : update_col T1 cn (fun _ => x1) = T1).
  { unfold update_col, T1. cbn [pt_name pt_cols pt_cons pt_idx]. f_equal. apply update_snoc; [exact Hnocol|reflexivity]. }
  assert (Hnn2 : update_col T1 cn (fun _ => x2) = T2).
  { unfold update_col, T1, T2. cbn [pt_name pt_cols pt_cons pt_idx]. f_equal. apply update_snoc; [exact Hnocol|reflexivity]. }
  assert (S3 : exec c1 (SAlterTable tn (modify_column_ops (sea_coldef tn col))) = Ok (replace_table T2 tn (catalog_of s))).
  { unfold modify_column_ops, sea_coldef. cbn [cd_name cd_type cd_notnull cd_default]. rewrite Hnn, Hd2. cbn [negb app].
    cbn [exec]. rewrite HT1. cbn [exec_alter_ops]. fold cn.
    assert (O1 : exec_alter_op c1 tn (AAlterType cn (sea_type tn (c_type col)) None) = Ok (c1, tn)).
    { unfold exec_alter_op. rewrite HT1, Hfc1. unfold c1 at 1. rewrite (resolve_replace tn _ T T1 _ HT HTn), Eres.
      cbn [pc_name pc_type pc_notnull pc_default pc_autoinc x1 orb]. fold ty. fold x1. rewrite Hsame.
      unfold c1. now rewrite (replace_replace tn _ T1 T1 HTn). }
    rewrite O1.
    unfold exec_alter_op. rewrite HT1, Hfc1. cbn [pc_name pc_type pc_default pc_autoinc x1]. fold x2. rewrite Hnn2.
    unfold c1. now rewrite (replace_replace tn _ T1 T2 HTn). }
  exists ([SAlterTable tn [AAddColumn (sea_coldef tn (set_nullable true col))]]
          ++ [SUpdate tn cn (convert_default_pg (if String.eqb fv "" then "''" else fv)) None]
          ++ [SAlterTable tn (modify_column_ops (sea_coldef tn col))]). split.
  - cbn [gen]. unfold gen_add_column. rewrite Hnn, Edef. cbn [negb andb normalize_fill_with option_map].
    unfold create_enum_type. destruct (c_type col) as [st|vl|np ns|cl|cu|en ev]; try reflexivity.
    unfold is_string_enum in Hne. apply negb_false_iff in Hne. now rewrite Hne.
  - rewrite (step_schema_ok s _ s') by exact Hup. cbn [app exec_all]. rewrite S1. fold c1. rewrite S2, S3.
    f_equal. rewrite Hc. f_equal.
    unfold T2, T, table_cat, t'. cbn [t_name t_columns t_constraints pt_name pt_cols pt_cons pt_idx].
    f_equal. rewrite map_app. cbn [map]. f_equal. f_equal.
    unfold x2, col_cat, cn, ty. cbn [t_name t_constraints]. rewrite Hname, Hnn, Hd2. cbn [negb orb].
    unfold pk_of in *. cbn [t_constraints].
    destruct (find is_pk (t_constraints t)) as [[a cols| | | |]|]; try reflexivity.
    apply negb_true_iff in Hpk. rewrite Hpk. cbn [andb]. now destruct a.
Qed.
