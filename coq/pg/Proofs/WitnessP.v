(* PG layer: refutation witnesses of the full C03 statement, closed by computation on the faithful model.
   Each is also a corpus file (corpus/pg/*.json) replayed on the real code by every check run. *)
From VV.PG Require Export CorrGen.

Definition icol (n : string) : column_def := mkCol n (TSimple Integer) false None None None None None None.
Definition ncol (n : string) (ty : column_type) : column_def := mkCol n ty true None None None None None None.
Definition w_status : column_type := TEnum "status" (EVString ["on"; "off"]).
Definition w_level : column_type := TEnum "level" (EVInteger [mkNum "low" 0; mkNum "high" 1]).
Definition pk_id : table_constraint := CPrimaryKey false ["id"].

(* D13: enum shared by two columns *)
Definition w_shared : schema := [mkTable "t" None [icol "id"; ncol "a" w_status; ncol "b" w_status] [pk_id]].
Lemma drop_type_shared_refuted :
  run_plan w_shared [DeleteColumn "t" "b"] = Some (Err (0, 1, ETypeInUse "t_status"))%nat.
Proof. vm_compute. reflexivity. Qed.

(* D13: integer enum never had a type *)
Definition w_int : schema := [mkTable "t" None [icol "id"; ncol "lvl" w_level] [pk_id]].
Lemma drop_type_int_enum_refuted :
  run_plan w_int [DeleteColumn "t" "lvl"] = Some (Err (0, 1, ENoType "t_level"))%nat.
Proof. vm_compute. reflexivity. Qed.

(* D2: DROP TABLE before the referencing foreign key is dropped *)
Definition w_fk : table_constraint := CForeignKey None ["user_id"] "user" ["id"] None None.
Definition w_d2 : schema :=
  [mkTable "user" None [icol "id"] [pk_id];
   mkTable "post" None [icol "id"; ncol "user_id" (TSimple Integer)] [pk_id; w_fk]].
Lemma drop_table_order_refuted :
  run_plan w_d2 [DeleteTable "user"; RemoveConstraint "post" w_fk]
  = Some (Err (0, 0, EDependentFk "user" "post" "fk_post__user_id"))%nat.
Proof. vm_compute. reflexivity. Qed.

(* D11: explicit CHECK missing from CREATE TABLE *)
Definition w_check : list action := [CreateTable "t" [icol "id"] [pk_id; CCheck "chk_pos" "id > 0"]].
Lemma check_dropped_refuted :
  match run_plan [] w_check with
  | Some (Ok c) => cat_diff c (catalog_of (after_of [] w_check)) = [DMissingConstraint "t" "chk_pos"]
  | _ => False
  end.
Proof. vm_compute. reflexivity. Qed.

(* D13: {table}_pkey after RenameTable *)
Definition w_t : schema := [mkTable "t" None [icol "id"] [pk_id]].
Lemma pkey_after_rename_refuted :
  run_plan w_t [RenameTable "t" "u"; RemoveConstraint "u" pk_id] = Some (Err (1, 0, ENoConstraint "u" "u_pkey"))%nat.
Proof. vm_compute. reflexivity. Qed.

(* D18: a member of a composite index is dropped, then the index is dropped by name *)
Definition w_d18 : schema :=
  [mkTable "t" None [icol "id"; ncol "a" (TSimple Integer); ncol "b" (TSimple Integer)] [pk_id; CIndex None ["a"; "b"]]].
Lemma composite_member_refuted :
  run_plan w_d18 [DeleteColumn "t" "b"; RemoveConstraint "t" (CIndex None ["a"; "b"]); AddConstraint "t" (CIndex None ["a"])]
  = Some (Err (1, 0, ENoIndex "ix_t__a_b"))%nat.
Proof. vm_compute. reflexivity. Qed.

(* D18, the sequel in the next migration: RemoveConstraint compares by equality, so the shrunk key [part] survives the
   planner's RemoveConstraint PrimaryKey [id; part] in the replayed baseline and AddConstraint PrimaryKey appends a
   second primary key; catalog_of counts the first, a foreign key to the intended key has no unique index to use *)
Definition w_stale0 : schema :=
  [mkTable "a" None [icol "id"] [pk_id];
   mkTable "a_b" None [icol "id"; icol "part"; icol "author_id"] [CPrimaryKey false ["id"; "part"]]].
Definition w_stale_plan : list action :=
  [DeleteColumn "a_b" "id"; RemoveConstraint "a_b" (CPrimaryKey false ["id"; "part"]);
   AddConstraint "a_b" (CPrimaryKey false ["author_id"])].
Lemma stale_key_two_primary_keys :
  map (fun t => filter is_pk (t_constraints t)) (after_of w_stale0 w_stale_plan)
  = [[pk_id]; [CPrimaryKey false ["part"]; CPrimaryKey false ["author_id"]]]
  /\ base_stale_key_tables (after_of w_stale0 w_stale_plan) = ["a_b"].
Proof. vm_compute. split; reflexivity. Qed.
Lemma stale_key_refuted :
  run_plan (after_of w_stale0 w_stale_plan)
    [AddColumn "a" (ncol "b_author_id" (TSimple Integer)) None;
     AddConstraint "a" (CForeignKey None ["b_author_id"] "a_b" ["author_id"] None None)]
  = Some (Err (1, 0, EFkNoUniqueTarget "a" "a_b"))%nat.
Proof. vm_compute. reflexivity. Qed.


(* DROP TABLE leaves the enum type behind *)
Definition w_enum_t : schema := [mkTable "t" None [icol "id"; ncol "s" w_status] [pk_id]].
Lemma enum_left_by_drop_table_refuted :
  match run_plan w_enum_t [DeleteTable "t"] with
  | Some (Ok c) => cat_diff c (catalog_of []) = [DExtraType "t_status"]
  | _ => False
  end.
Proof. vm_compute. reflexivity. Qed.

(* the type name is quoted where it is created and unquoted (hence folded) where it is used *)
Lemma enum_case_fold_refuted :
  run_plan [] [CreateTable "t" [icol "id"; ncol "s" (TEnum "Status" (EVString ["on"]))] [pk_id]]
  = Some (Err (0, 1, ENoType "t_status"))%nat.
Proof. vm_compute. reflexivity. Qed.

(* RenameColumn keeps the derived index name *)
Definition w_ix : schema := [mkTable "t" None [icol "id"; ncol "a" (TSimple Integer)] [pk_id; CIndex None ["a"]]].
Lemma rename_column_names_refuted :
  run_plan w_ix [RenameColumn "t" "a" "b"; RemoveConstraint "t" (CIndex None ["b"])]
  = Some (Err (1, 0, ENoIndex "ix_t__b"))%nat.
Proof. vm_compute. reflexivity. Qed.

(* the full statement of C03 (Properties/C03.v) is false of the faithful model *)
Lemma c03_refuted :
  ~ (forall s acts s', apply_all s acts = Ok s' ->
       exists stmts c', gen_plan s acts = Ok stmts /\ run_actions (catalog_of s) 0 stmts = Ok c'
                        /\ cat_equiv c' (catalog_of s') = true).
Proof.
  intro H.
  destruct (H w_shared [DeleteColumn "t" "b"] (after_of w_shared [DeleteColumn "t" "b"]))
    as (st & c' & Hg & Hr & _).
  - vm_compute. reflexivity.
  - vm_compute in Hg. injection Hg as <-. vm_compute in Hr. discriminate.
Qed.
