(* PG layer: ModifyColumnDefault with the stored default text characterised (no comparison of rendered texts). *)
From VV.PG Require Export RenameColP.

Lemma convert_plain x : default_is_plain x = true -> convert_default_pg x = x.
Proof.
  unfold default_is_plain, convert_default_pg. cbv zeta. intro H.
  repeat (apply andb_prop in H; destruct H as [H ?]).
  apply negb_true_iff in H1, H2. rewrite H2, H1.
  destruct (parse_pg_type_cast x); [discriminate|reflexivity].
Qed.

Lemma hyp_modify_default_of_plain s tn cn x :
  hyp_modify_default_plain s tn cn x = true -> hyp_modify_default s tn cn (Some x) = true.
Proof.
  unfold hyp_modify_default_plain, hyp_modify_default. intro H.
  apply andb_prop in H. destruct H as [H Ht]. apply andb_prop in H. destruct H as [Hfr Hpl]. rewrite Hfr. cbn [andb].
  destruct (the_column s tn cn) as [[t c]|]; [|discriminate]. rewrite Ht. cbn [andb].
  unfold dec_b. destruct (option_eq_dec string_dec _ _) as [|Hne]; [reflexivity|]. exfalso. apply Hne.
  unfold column_default_text. cbn [set_default c_default c_type default_to_sql is_string_default].
  assert (Hx : String.eqb x "" = false).
  { unfold default_is_plain in Hpl. cbv zeta in Hpl. repeat (apply andb_prop in Hpl; destruct Hpl as [Hpl ?]).
    now apply negb_true_iff. }
  rewrite Hx, (convert_plain x Hpl). unfold normalize_enum_default. f_equal.
  destruct (is_enum_type (c_type c)); reflexivity.
Qed.

Theorem sim_pg_modify_column_default_plain s tn cn x :
  hyp_modify_default_plain s tn cn x = true -> step_sim s (ModifyColumnDefault tn cn (Some x)).
Proof. intro H. apply sim_pg_modify_column_default. now apply hyp_modify_default_of_plain. Qed.
