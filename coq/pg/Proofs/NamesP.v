(* PG layer, C19: the name under which gen creates a constraint / index / enum type equals the name under which
   gen drops it — on the CreateTable path, the AddConstraint path, the AddColumn / ModifyColumnType paths — and
   the refutations: CHECK on the CreateTable path (never created), integer enums (never created), RenameTable. *)
From VV.PG Require Export Names WitnessP.

(* AddConstraint creates exactly what RemoveConstraint drops, for every constraint kind *)
Lemma add_remove_symmetric tn k :
  created_names (gen_add_constraint tn k) = dropped_names (gen_remove_constraint tn k).
Proof. destruct k; reflexivity. Qed.

(* ... and that name is dropped_name (Hyp.v), the one the simulation lemmas use *)
Lemma remove_drops_dropped_name tn k : dropped_names (gen_remove_constraint tn k) = [dropped_name tn k].
Proof. destruct k; reflexivity. Qed.

(* CreateTable path: every normalised constraint except CHECK is created under the name RemoveConstraint drops *)
Lemma in_flat_map_intro {A B} (f : A -> list B) x y l : In x l -> In y (f x) -> In y (flat_map f l).
Proof. intros. apply in_flat_map. eauto. Qed.

Lemma create_table_names tn cols ks n q :
  normalize (mkTable tn None cols ks) = Ok n -> gen_create_table tn cols ks = Ok q ->
  forall k, In k (t_constraints n) -> is_check k = false ->
  In (dropped_name tn k) (created_names q).
Proof.
  intros Hn Hg k Hk Hc. unfold gen_create_table in Hg. rewrite Hn in Hg. injection Hg as <-.
  unfold created_names. rewrite flat_map_app. apply in_or_app. right.
  cbn [app flat_map]. rewrite flat_map_app.
  destruct k as [a pc|un uc|fn fc rt rc od ou|cn ce|inn ic]; try discriminate.
  - (* primary key: the clause PRIMARY KEY (..) of CREATE TABLE *)
    apply in_or_app. left. cbn [stmt_created create_table_stmt]. unfold create_pks, create_fks.
    apply in_or_app. left. apply in_map_iff. exists pc. split; [reflexivity|].
    apply in_flat_map. exists (CPrimaryKey a pc). split; [|now left].
    apply filter_In. split; [exact Hk|reflexivity].
  - (* unique: CREATE UNIQUE INDEX *)
    apply in_or_app. right. apply in_or_app. left.
    apply in_flat_map. exists (SCreateIndex true (build_unique_constraint_name tn uc un) tn uc). split; [|now left].
    apply (in_flat_map_intro _ (CUnique un uc)); [exact Hk|]. now left.
  - (* foreign key: CONSTRAINT name FOREIGN KEY of CREATE TABLE *)
    apply in_or_app. left. cbn [stmt_created create_table_stmt]. unfold create_pks, create_fks.
    apply in_or_app. right. apply in_or_app. left.
    apply in_flat_map. exists (mkFk (Some (build_foreign_key_name tn fc fn)) fc rt rc od ou). split; [|now left].
    apply in_flat_map. exists (CForeignKey fn fc rt rc od ou). split; [|now left].
    apply filter_In. split; [exact Hk|reflexivity].
  - (* index: CREATE INDEX *)
    apply in_or_app. right. apply in_or_app. right.
    apply in_flat_map. exists (SCreateIndex false (build_index_name tn ic inn) tn ic). split; [|now left].
    apply (in_flat_map_intro _ (CIndex inn ic)); [exact Hk|]. now left.
Qed.

(* refutation: a CHECK constraint handed to CreateTable is never created (D11) although RemoveConstraint drops it *)
Lemma create_table_check_refuted :
  exists tn cols ks q k, gen_create_table tn cols ks = Ok q /\ In k ks /\
    ~ In (dropped_name tn k) (created_names q).
Proof.
  exists "t", [icol "id"], [pk_id; CCheck "chk_pos" "id > 0"]. eexists. exists (CCheck "chk_pos" "id > 0").
  split; [vm_compute; reflexivity|]. split; [right; now left|].
  vm_compute. intros [H|[]]. discriminate.
Qed.

(* enum types: created by AddColumn under the name DeleteColumn drops (string enums) *)
Lemma enum_add_delete_symmetric s tn col fw :
  is_string_enum (c_type col) = true ->
  find_column_s s tn (c_name col) = Some col ->
  created_types (gen_add_column tn col fw) = dropped_types (gen_delete_column s tn (c_name col)).
Proof.
  intros He Hf. unfold gen_delete_column. rewrite Hf.
  unfold gen_add_column, create_enum_type, drop_enum_type.
  destruct (c_type col) as [st|vl|np ns|cl|ct|name vals]; try discriminate.
  unfold is_string_enum in He. apply negb_true_iff in He. rewrite He.
  destruct (negb (c_nullable col) && _ && _)%bool.
  - destruct (normalize_fill_with fw); reflexivity.
  - reflexivity.
Qed.

(* ... and CreateTable creates the same type name for a string-enum column (first column using the enum name) *)
Lemma enum_create_table_name tn name vals c rest :
  ev_is_integer vals = false -> c_type c = TEnum name vals ->
  created_types (create_enum_types tn (c :: rest) []) = build_enum_type_name tn name :: created_types (create_enum_types tn rest [name]).
Proof.
  intros He Hc. cbn [create_enum_types]. rewrite Hc. cbn [mem_str existsb].
  unfold create_enum_type. rewrite He. reflexivity.
Qed.

(* refutation: an integer enum is never created but DeleteColumn drops {table}_{enum} (D13) *)
Lemma int_enum_refuted :
  exists s tn col, find_column_s s tn (c_name col) = Some col /\
    created_types (gen_add_column tn col None) = [] /\
    dropped_types (gen_delete_column s tn (c_name col)) = ["t_level"].
Proof. exists w_int, "t", (ncol "lvl" w_level). repeat split. Qed.

(* refutation across RenameTable: what was created as {old}_pkey / ix_{old}__.. is dropped as {new}_pkey / ix_{new}__.. *)
Lemma rename_table_refuted :
  exists old new k, created_names (gen_add_constraint old k) <> dropped_names (gen_remove_constraint new k)
    /\ (forall s, gen s [] (RenameTable old new) = Ok [SAlterTable old [ARenameTo new]]).
Proof.
  exists "t", "u", pk_id. split; [vm_compute; discriminate|reflexivity].
Qed.
Lemma rename_table_index_refuted :
  created_names (gen_add_constraint "t" (CIndex None ["a"])) = ["ix_t__a"] /\
  dropped_names (gen_remove_constraint "u" (CIndex None ["a"])) = ["ix_u__a"].
Proof. split; reflexivity. Qed.

(* ModifyColumnType, enum-to-enum with a changed value list: the temporary type is created as {t}_{e}_new and the
   old one dropped, then renamed back: afterwards the type is again called what DeleteColumn drops *)
Lemma enum_values_change_keeps_name tn c e v1 v2 d :
  v1 <> v2 ->
  let s := [mkTable tn None [mkCol c (TEnum e v1) true d None None None None None] []] in
  exists rest, gen_modify_column_type s tn c (TEnum e v2) None
    = SCreateType (build_enum_type_name tn e +++ "_new") (enum_sql_values v2) :: rest
    /\ In (SDropType (build_enum_type_name tn e)) rest
    /\ In (SRenameType (build_enum_type_name tn e +++ "_new") (build_enum_type_name tn e)) rest.
Proof.
  intros Hv s. unfold gen_modify_column_type, find_column_s, find_table_s, s. cbn [find t_name].
  rewrite String.eqb_refl. cbn [t_columns find c_name]. rewrite String.eqb_refl. cbn [option_map c_type c_default].
  rewrite String.eqb_refl. cbn [andb].
  unfold dec_b. destruct (enum_values_eq_dec v1 v2) as [E|_]; [contradiction|]. cbn [negb fill_with_updates app].
  eexists. split; [reflexivity|]. destruct d; cbn [app]; split; auto 10 using in_eq, in_cons.
Qed.
