(* PG layer: a PostgreSQL catalog model — object lifetimes, name spaces, attributes, dependency refusals.
   MODELLED, NOT VERIFIED: no PostgreSQL server exists in the sandbox; every rule below is taken from the
   PostgreSQL reference manual / catalog semantics and cited as [Rn]; the list is repeated in the evidence
   `assumptions`.  Only refusals PostgreSQL is certain to make are encoded; where the engine is more lenient
   than the real one it says so.  No proofs here.

   [R1]  one name space for relations (tables, indexes): CREATE TABLE / CREATE INDEX / RENAME TO refuse an
         existing relation name (42P07 "relation already exists").
   [R2]  one name space for types; every table owns a composite row type of its own name, so CREATE TYPE n and
         CREATE TABLE n / RENAME TO n refuse when an enum type or a table named n exists (42710).
   [R3]  a column's type must exist: a built-in type, an enum type or a row type (42704).  Unquoted identifiers
         are folded to lower case, quoted ones are taken verbatim (manual 4.1.1).
   [R4]  CREATE TYPE ... AS ENUM takes string literals; labels are distinct.
   [R5]  PRIMARY KEY: at most one per table (42P16); its columns become NOT NULL; it owns a unique index and a
         constraint both named {table}_pkey (if that relation name is taken PostgreSQL appends a number).
   [R6]  FOREIGN KEY: referenced table and columns exist, arities agree, and the referenced columns are exactly
         the column set of a unique index / primary key of the referenced table (42830); constraint names are
         unique per table (42710).
   [R7]  DROP TABLE refuses while a foreign key of ANOTHER table references it (2BP01); it removes the table's
         indexes, constraints and row type; enum types used by its columns stay.
   [R8]  DROP COLUMN refuses while a foreign key of another table references the column (2BP01); indexes and
         table constraints involving the column (multi-column ones included, the primary key included) are
         dropped with it.
   [R9]  DROP INDEX: the index must exist (42704), must not back a constraint, and no foreign key may need it.
   [R10] DROP CONSTRAINT: the constraint must exist on that table (42704); a primary-key / unique constraint
         takes its index with it and refuses when a foreign key needs that index (2BP01); NOT NULL stays.
   [R11] DROP TYPE: the type must exist (42704) and no column may use it (2BP01).
   [R12] ALTER TYPE a RENAME TO b: a exists, b free in the type name space; columns follow.
   [R13] ALTER TABLE a RENAME TO b: the row type is renamed with the table; indexes, constraints and enum types
         keep their names; foreign keys of other tables follow the table.
   [R14] ALTER COLUMN ... TYPE x [USING e]: x must exist (cast feasibility is not judged); NOT NULL, DEFAULT
         and an owned sequence stay.  SET/DROP NOT NULL, SET/DROP DEFAULT, COMMENT ON COLUMN, UPDATE,
         RENAME COLUMN need the table and the column (42P01 / 42703); DROP NOT NULL refuses on a primary-key
         column (42P16); RENAME COLUMN refuses an existing target name (42701); indexes, constraints and
         foreign keys of other tables follow a renamed column.
   [R15] ADD COLUMN refuses an existing column name (42701).
   [R16] serial / smallserial / bigserial = integer / smallint / bigint + an owned sequence (autoinc flag);
         the sequence name is chosen by PostgreSQL so as not to clash and is not tracked.
   Representation: indexes and constraints of a table and the enum types of the database are maps keyed by
   name (sorted association lists, Str.v bt_insert / bt_get = BTreeMap<String, _>), so that two catalogs holding
   the same objects are equal terms whatever the order in which the objects were created.
   Not modelled (the engine accepts): cast feasibility, data-dependent failures, operator classes (e.g. an
   index on a json column), CHECK expression validity, identifier truncation at 63 bytes. *)
From VV.PG Require Export Render.

Record pg_col := mkPc {
  pc_name : string;
  pc_type : string;            (* resolved type: built-in text (lower case) or the name of an enum / row type *)
  pc_notnull : bool;
  pc_default : option string;
  pc_autoinc : bool }.

Inductive con_kind :=
| KPk (cols : list string)
| KUnique (cols : list string)
| KFk (cols : list string) (rtable : string) (rcols : list string) (od ou : ref_action)
| KCheck (expr : string).
Record pg_index := mkPi { pi_cols : list string; pi_unique : bool; pi_con : bool }.
Record pg_table := mkPt {
  pt_name : string;
  pt_cols : list pg_col;
  pt_cons : list (string * con_kind);     (* constraint name -> constraint, sorted by name *)
  pt_idx : list (string * pg_index) }.    (* index name -> index, sorted by name *)
Record catalog := mkCat {
  c_tables : list pg_table;
  c_enums : list (string * list string) }. (* enum type name -> labels, sorted by name *)
Definition empty_catalog : catalog := mkCat [] [].

Inductive pg_error :=
| ERelationExists (n : string)                       (* R1 *)
| ETypeExists (n : string)                           (* R2 *)
| ENoTable (t : string)
| ENoColumn (t c : string)
| EColumnExists (t c : string)                       (* R15 / R14 *)
| ENoIndex (n : string)                              (* R9 *)
| ENoConstraint (t n : string)                       (* R10 *)
| EConstraintExists (t n : string)                   (* R6 *)
| ENoType (n : string)                               (* R3 / R11 *)
| ETypeInUse (n : string)                            (* R11 *)
| EDependentFk (t by_table by_con : string)          (* R7 / R8 / R9 / R10 *)
| EIndexBacksConstraint (n : string)                 (* R9 *)
| EFkNoUniqueTarget (t rt : string)                  (* R6 *)
| EFkArity (t : string)                              (* R6 *)
| EMultiplePk (t : string)                           (* R5 *)
| EPkColumnNullable (t c : string)                   (* R14 *)
| ELabelExists (n l : string)                        (* R4 *)
| ESyntax (what : string).                           (* R4 *)

(* ---------- maps keyed by name ---------- *)
Definition bt_remove {V} (k : string) (m : list (string * V)) : list (string * V) :=
  filter (fun kv => negb (String.eqb (fst kv) k)) m.
Definition bt_map {V W} (f : V -> W) (m : list (string * V)) : list (string * W) :=
  map (fun kv => (fst kv, f (snd kv))) m.
Definition bt_keys {V} (m : list (string * V)) : list string := map fst m.

(* ---------- look-ups ---------- *)
Definition find_table (n : string) (c : catalog) : option pg_table :=
  find (fun t => String.eqb (pt_name t) n) (c_tables c).
Definition find_col (n : string) (t : pg_table) : option pg_col :=
  find (fun x => String.eqb (pc_name x) n) (pt_cols t).
Definition has_col (n : string) (t : pg_table) : bool := existsb (fun x => String.eqb (pc_name x) n) (pt_cols t).
Definition find_enum (n : string) (c : catalog) : option (list string) := bt_get n (c_enums c).

Definition rel_names (c : catalog) : list string :=
  flat_map (fun t => pt_name t :: bt_keys (pt_idx t)) (c_tables c).
Definition rel_exists (n : string) (c : catalog) : bool := mem_str n (rel_names c).
Definition type_exists (n : string) (c : catalog) : bool :=
  (bt_mem n (c_enums c) || existsb (fun t => String.eqb (pt_name t) n) (c_tables c))%bool.

Definition set_tables (c : catalog) (ts : list pg_table) : catalog := mkCat ts (c_enums c).
Definition set_enums (c : catalog) (es : list (string * list string)) : catalog := mkCat (c_tables c) es.
Definition map_table (n : string) (f : pg_table -> pg_table) (c : catalog) : catalog :=
  set_tables c (map (fun t => if String.eqb (pt_name t) n then f t else t) (c_tables c)).
Definition replace_table (t' : pg_table) (n : string) (c : catalog) : catalog := map_table n (fun _ => t') c.

(* ---------- types [R3] [R16] ---------- *)
Definition builtin_types : list string :=
  ["smallint"; "integer"; "bigint"; "real"; "double precision"; "text"; "bool"; "boolean"; "date"; "time";
   "timestamp"; "timestamp with time zone"; "timestamp without time zone"; "interval"; "bytea"; "uuid"; "json";
   "jsonb"; "inet"; "cidr"; "macaddr"; "xml"; "varchar"; "char"; "decimal"; "numeric"].
Fixpoint before_paren (s : string) : string :=
  match s with
  | EmptyString => EmptyString
  | String a r => if Ascii.eqb a "("%char then EmptyString else String a (before_paren r)
  end.
Definition type_base (s : string) : string := trim (before_paren s).
Definition serial_base (s : string) : option string :=
  if String.eqb s "serial" then Some "integer"
  else if String.eqb s "smallserial" then Some "smallint"
  else if String.eqb s "bigserial" then Some "bigint" else None.

(* resolved (type, autoinc) *)
Definition resolve_type (c : catalog) (ty : pg_type) : result (string * bool) pg_error :=
  if ty_quoted ty then
    if type_exists (ty_text ty) c then Ok (ty_text ty, false) else Err (ENoType (ty_text ty))
  else
    let n := lower (ty_text ty) in
    match serial_base n with
    | Some b => Ok (b, true)
    | None =>
        if mem_str (type_base n) builtin_types then Ok (n, false)
        else if type_exists n c then Ok (n, false) else Err (ENoType n)
    end.

(* ---------- list helpers ---------- *)
Definition subset_str (a b : list string) : bool := forallb (fun x => mem_str x b) a.
Definition same_set (a b : list string) : bool :=
  (Nat.eqb (List.length a) (List.length b) && subset_str a b && subset_str b a)%bool.
Fixpoint first_dup (l : list string) : option string :=
  match l with [] => None | x :: r => if mem_str x r then Some x else first_dup r end.
Definition first_missing (l : list string) (t : pg_table) : option string :=
  find (fun x => negb (has_col x t)) l.

(* does an expression mention identifier c as a whole word?  (identifier characters: letters, digits, _) *)
Definition is_ident_char (a : ascii) : bool :=
  let n := N_of_ascii a in
  ((N.leb 48 n && N.leb n 57) || (N.leb 65 n && N.leb n 90) || (N.leb 97 n && N.leb n 122) || N.eqb n 95)%bool.
Fixpoint mentions_aux (c : string) (s tok : string) : bool :=
  match s with
  | EmptyString => String.eqb (rev_string tok) c
  | String a r =>
      if is_ident_char a then mentions_aux c r (String a tok)
      else (String.eqb (rev_string tok) c || mentions_aux c r EmptyString)%bool
  end.
Definition mentions (c expr : string) : bool := mentions_aux c expr EmptyString.

Definition con_involves (c : string) (self : string) (k : con_kind) : bool :=
  match k with
  | KPk cols | KUnique cols => mem_str c cols
  | KFk cols rt rcols _ _ => (mem_str c cols || (String.eqb rt self && mem_str c rcols))%bool
  | KCheck e => mentions c e
  end.

(* foreign keys (table, constraint name) that reference table t, optionally restricted by a predicate on the
   referenced column list; self references are listed only when [with_self] *)
Definition inbound_fks (c : catalog) (t : string) (with_self : bool) (p : list string -> bool)
  : list (string * string) :=
  flat_map (fun x =>
    if (negb with_self && String.eqb (pt_name x) t)%bool then []
    else flat_map (fun k => match snd k with
                            | KFk _ rt rcols _ _ =>
                                if (String.eqb rt t && p rcols)%bool then [(pt_name x, fst k)] else []
                            | _ => []
                            end) (pt_cons x)) (c_tables c).

Definition unique_indexes_on (t : pg_table) (cols : list string) : list (string * pg_index) :=
  filter (fun i => (pi_unique (snd i) && same_set (pi_cols (snd i)) cols)%bool) (pt_idx t).

(* a foreign key certainly needs index i of table t when i is the only unique index over its referenced columns *)
Definition fk_needing_index (c : catalog) (t : pg_table) (i : pg_index) : option (string * string) :=
  if negb (pi_unique i) then None
  else match inbound_fks c (pt_name t) true
               (fun rcols => (same_set rcols (pi_cols i)
                              && Nat.leb (List.length (unique_indexes_on t rcols)) 1)%bool) with
       | x :: _ => Some x
       | [] => None
       end.

(* [R5] name of an implicit primary-key index: {t}_pkey, or {t}_pkey1.. when taken *)
Fixpoint choose_name (base : string) (taken : list string) (n : nat) (fuel : nat) : string :=
  let cand := match n with O => base | _ => base +++ N_to_string (N.of_nat n) end in
  match fuel with
  | O => cand
  | S f => if mem_str cand taken then choose_name base taken (S n) f else cand
  end.
Definition pkey_name (c : catalog) (t : pg_table) : string :=
  choose_name (pt_name t +++ "_pkey") (rel_names c ++ bt_keys (pt_cons t)) 0 9.

Definition is_kpk (k : con_kind) : bool := match k with KPk _ => true | _ => false end.
Definition has_pk (t : pg_table) : bool := existsb (fun k => is_kpk (snd k)) (pt_cons t).
Definition set_notnull_cols (cols : list string) (t : pg_table) : pg_table :=
  mkPt (pt_name t)
       (map (fun x => if mem_str (pc_name x) cols
                      then mkPc (pc_name x) (pc_type x) true (pc_default x) (pc_autoinc x) else x) (pt_cols t))
       (pt_cons t) (pt_idx t).
Definition with_con (t : pg_table) (n : string) (k : con_kind) : pg_table :=
  mkPt (pt_name t) (pt_cols t) (bt_insert n k (pt_cons t)) (pt_idx t).
Definition with_idx (t : pg_table) (n : string) (i : pg_index) : pg_table :=
  mkPt (pt_name t) (pt_cols t) (pt_cons t) (bt_insert n i (pt_idx t)).

(* add a primary key to table t (already in the catalog) [R5] *)
Definition add_pk (c : catalog) (tn : string) (name : option string) (cols : list string)
  : result catalog pg_error :=
  match find_table tn c with
  | None => Err (ENoTable tn)
  | Some t =>
      if has_pk t then Err (EMultiplePk tn)
      else match first_missing cols t with
           | Some x => Err (ENoColumn tn x)
           | None =>
               let mk (n : string) :=
                 replace_table (with_idx (with_con (set_notnull_cols cols t) n (KPk cols)) n (mkPi cols true true)) tn c in
               match name with
               | Some n =>
                   if rel_exists n c then Err (ERelationExists n)
                   else if bt_mem n (pt_cons t) then Err (EConstraintExists tn n)
                   else Ok (mk n)
               | None => Ok (mk (pkey_name c t))
               end
           end
  end.

Definition add_unique (c : catalog) (tn : string) (name : option string) (cols : list string)
  : result catalog pg_error :=
  match find_table tn c with
  | None => Err (ENoTable tn)
  | Some t =>
      match first_missing cols t with
      | Some x => Err (ENoColumn tn x)
      | None =>
          let n := match name with
                   | Some n => n
                   | None => choose_name (tn +++ "_" +++ join "_" cols +++ "_key")
                                         (rel_names c ++ bt_keys (pt_cons t)) 0 9
                   end in
          if rel_exists n c then Err (ERelationExists n)
          else if bt_mem n (pt_cons t) then Err (EConstraintExists tn n)
          else Ok (replace_table (with_idx (with_con t n (KUnique cols)) n (mkPi cols true true)) tn c)
      end
  end.

Definition norm_act (o : option ref_action) : ref_action := match o with Some a => a | None => NoAction end.

(* add a foreign key to table tn [R6] *)
Definition add_fk (c : catalog) (tn : string) (f : fkdef) : result catalog pg_error :=
  match find_table tn c with
  | None => Err (ENoTable tn)
  | Some t =>
      match first_missing (fk_cols f) t with
      | Some x => Err (ENoColumn tn x)
      | None =>
          match find_table (fk_rtable f) c with
          | None => Err (ENoTable (fk_rtable f))
          | Some rt =>
              match first_missing (fk_rcols f) rt with
              | Some x => Err (ENoColumn (fk_rtable f) x)
              | None =>
                  if negb (Nat.eqb (List.length (fk_cols f)) (List.length (fk_rcols f))) then Err (EFkArity tn)
                  else match unique_indexes_on rt (fk_rcols f) with
                       | [] => Err (EFkNoUniqueTarget tn (fk_rtable f))
                       | _ =>
                           let n := match fk_name f with
                                    | Some n => n
                                    | None => choose_name (tn +++ "_" +++ join "_" (fk_cols f) +++ "_fkey")
                                                          (bt_keys (pt_cons t)) 0 9
                                    end in
                           if bt_mem n (pt_cons t) then Err (EConstraintExists tn n)
                           else Ok (replace_table
                                      (with_con t n (KFk (fk_cols f) (fk_rtable f) (fk_rcols f)
                                                         (norm_act (fk_on_delete f)) (norm_act (fk_on_update f)))) tn c)
                       end
              end
          end
      end
  end.

Definition add_check (c : catalog) (tn n e : string) : result catalog pg_error :=
  match find_table tn c with
  | None => Err (ENoTable tn)
  | Some t =>
      if bt_mem n (pt_cons t) then Err (EConstraintExists tn n)
      else Ok (replace_table (with_con t n (KCheck e)) tn c)
  end.

(* a column definition becomes a catalog column [R3] [R16] *)
Definition mk_col (c : catalog) (d : coldef) : result pg_col pg_error :=
  match resolve_type c (cd_type d) with
  | Err e => Err e
  | Ok (ty, auto) => Ok (mkPc (cd_name d) ty (cd_notnull d) (cd_default d) auto)
  end.

Definition update_col (t : pg_table) (cn : string) (f : pg_col -> pg_col) : pg_table :=
  mkPt (pt_name t) (map (fun x => if String.eqb (pc_name x) cn then f x else x) (pt_cols t)) (pt_cons t) (pt_idx t).

Definition rename_con_cols (a b self : string) (k : con_kind) : con_kind :=
  match k with
  | KPk cols => KPk (rename_in a b cols)
  | KUnique cols => KUnique (rename_in a b cols)
  | KFk cols rt rcols od ou =>
      KFk (rename_in a b cols) rt (if String.eqb rt self then rename_in a b rcols else rcols) od ou
  | KCheck e => KCheck e   (* PostgreSQL rewrites the stored expression; the text is opaque here *)
  end.

(* ---------- ALTER TABLE, one sub-command [R5] [R6] [R8] [R10] [R13] [R14] [R15] ---------- *)
Definition exec_alter_op (c : catalog) (tn : string) (op : alter_op) : result (catalog * string) pg_error :=
  match find_table tn c with
  | None => Err (ENoTable tn)
  | Some t =>
      let keep (r : result catalog pg_error) := match r with Ok c' => Ok (c', tn) | Err e => Err e end in
      let with_col (cn : string) (f : pg_col -> result pg_col pg_error) :=
        match find_col cn t with
        | None => Err (ENoColumn tn cn)
        | Some x => match f x with
                    | Err e => Err e
                    | Ok x' => Ok (replace_table (update_col t cn (fun _ => x')) tn c, tn)
                    end
        end in
      match op with
      | AAddColumn d =>
          if has_col (cd_name d) t then Err (EColumnExists tn (cd_name d))
          else match mk_col c d with
               | Err e => Err e
               | Ok x =>
                   let c1 := replace_table (mkPt (pt_name t) (pt_cols t ++ [x]) (pt_cons t) (pt_idx t)) tn c in
                   if cd_pk d then keep (add_pk c1 tn None [cd_name d]) else Ok (c1, tn)
               end
      | ADropColumn cn =>
          if negb (has_col cn t) then Err (ENoColumn tn cn)
          else match inbound_fks c tn false (mem_str cn) with
               | (bt, bk) :: _ => Err (EDependentFk tn bt bk)
               | [] =>
                   Ok (replace_table
                         (mkPt (pt_name t)
                               (filter (fun x => negb (String.eqb (pc_name x) cn)) (pt_cols t))
                               (filter (fun k => negb (con_involves cn tn (snd k))) (pt_cons t))
                               (filter (fun i => negb (mem_str cn (pi_cols (snd i)))) (pt_idx t))) tn c, tn)
               end
      | ARenameColumn a b =>
          if negb (has_col a t) then Err (ENoColumn tn a)
          else if has_col b t then Err (EColumnExists tn b)
          else
            let t' := mkPt (pt_name t)
                           (map (fun x => if String.eqb (pc_name x) a
                                          then mkPc b (pc_type x) (pc_notnull x) (pc_default x) (pc_autoinc x)
                                          else x) (pt_cols t))
                           (bt_map (rename_con_cols a b tn) (pt_cons t))
                           (bt_map (fun i => mkPi (rename_in a b (pi_cols i)) (pi_unique i) (pi_con i)) (pt_idx t)) in
            (* foreign keys of other tables follow the column *)
            Ok (set_tables c (map (fun x =>
                  if String.eqb (pt_name x) tn then t'
                  else mkPt (pt_name x) (pt_cols x)
                            (bt_map (fun k => match k with
                                              | KFk cols rt rcols od ou =>
                                                  if String.eqb rt tn then KFk cols rt (rename_in a b rcols) od ou else k
                                              | _ => k
                                              end) (pt_cons x)) (pt_idx x)) (c_tables c)), tn)
      | AAlterType cn ty _ =>
          with_col cn (fun x => match resolve_type c ty with
                                | Err e => Err e
                                | Ok (ty', auto) =>
                                    Ok (mkPc (pc_name x) ty' (pc_notnull x) (pc_default x) (pc_autoinc x || auto))
                                end)
      | ASetNotNull cn =>
          with_col cn (fun x => Ok (mkPc (pc_name x) (pc_type x) true (pc_default x) (pc_autoinc x)))
      | ADropNotNull cn =>
          if existsb (fun k => match snd k with KPk cols => mem_str cn cols | _ => false end) (pt_cons t)
          then (if has_col cn t then Err (EPkColumnNullable tn cn) else Err (ENoColumn tn cn))
          else with_col cn (fun x => Ok (mkPc (pc_name x) (pc_type x) false (pc_default x) (pc_autoinc x)))
      | ASetDefault cn e =>
          if String.eqb (trim e) "" then Err (ESyntax "SET DEFAULT without an expression")
          else with_col cn (fun x => Ok (mkPc (pc_name x) (pc_type x) (pc_notnull x) (Some e) (pc_autoinc x)))
      | ADropDefault cn =>
          with_col cn (fun x => Ok (mkPc (pc_name x) (pc_type x) (pc_notnull x) None false))
      | AAddPk n cols => keep (add_pk c tn n cols)
      | AAddUnique n cols => keep (add_unique c tn n cols)
      | AAddFk f => keep (add_fk c tn f)
      | AAddCheck n e => keep (add_check c tn n e)
      | ADropConstraint n =>
          match bt_get n (pt_cons t) with
          | None => Err (ENoConstraint tn n)
          | Some k =>
              let key := match k with KPk _ | KUnique _ => true | _ => false end in
              let drop_it := replace_table
                               (mkPt (pt_name t) (pt_cols t) (bt_remove n (pt_cons t))
                                     (if key then bt_remove n (pt_idx t) else pt_idx t)) tn c in
              if key then
                match bt_get n (pt_idx t) with
                | Some i => match fk_needing_index c t i with
                            | Some (bt, bk) => Err (EDependentFk tn bt bk)
                            | None => Ok (drop_it, tn)
                            end
                | None => Ok (drop_it, tn)
                end
              else Ok (drop_it, tn)
          end
      | ARenameTo b =>
          if rel_exists b c then Err (ERelationExists b)
          else if type_exists b c then Err (ETypeExists b)
          else
            Ok (set_tables c (map (fun x =>
                  let cons' := bt_map (fun k => match k with
                                                | KFk cols rt rcols od ou =>
                                                    if String.eqb rt tn then KFk cols b rcols od ou else k
                                                | _ => k
                                                end) (pt_cons x) in
                  (* columns typed with the table's row type follow too *)
                  let cols' := map (fun y => if String.eqb (pc_type y) tn
                                             then mkPc (pc_name y) b (pc_notnull y) (pc_default y) (pc_autoinc y) else y)
                                   (pt_cols x) in
                  mkPt (if String.eqb (pt_name x) tn then b else pt_name x) cols' cons' (pt_idx x)) (c_tables c)), b)
      end
  end.

Fixpoint exec_alter_ops (c : catalog) (tn : string) (ops : list alter_op) : result catalog pg_error :=
  match ops with
  | [] => Ok c
  | op :: r => match exec_alter_op c tn op with
               | Err e => Err e
               | Ok (c', tn') => exec_alter_ops c' tn' r
               end
  end.

Fixpoint add_fks (c : catalog) (tn : string) (fks : list fkdef) : result catalog pg_error :=
  match fks with
  | [] => Ok c
  | f :: r => match add_fk c tn f with Err e => Err e | Ok c' => add_fks c' tn r end
  end.
Fixpoint add_checks (c : catalog) (tn : string) (l : list (string * string)) : result catalog pg_error :=
  match l with
  | [] => Ok c
  | (n, e) :: r => match add_check c tn n e with Err e' => Err e' | Ok c' => add_checks c' tn r end
  end.

Definition is_quoted_literal (s : string) : bool :=
  (Nat.leb 2 (String.length s) && starts_with_char sq s && starts_with_char sq (rev_string s))%bool.

Definition retype_cols (a b : string) (t : pg_table) : pg_table :=
  mkPt (pt_name t)
       (map (fun x => if String.eqb (pc_type x) a
                      then mkPc (pc_name x) b (pc_notnull x) (pc_default x) (pc_autoinc x) else x) (pt_cols t))
       (pt_cons t) (pt_idx t).

(* ---------- one statement ---------- *)
Definition exec (c : catalog) (s : stmt) : result catalog pg_error :=
  match s with
  | SCreateType n labels =>                                             (* [R2] [R4] *)
      if negb (forallb is_quoted_literal labels) then Err (ESyntax "enum label is not a string literal")
      else if type_exists n c then Err (ETypeExists n)
      else match first_dup labels with
           | Some l => Err (ELabelExists n l)
           | None => Ok (set_enums c (bt_insert n labels (c_enums c)))
           end
  | SDropType n =>                                                      (* [R11] *)
      match find_enum n c with
      | None => Err (ENoType n)
      | Some _ =>
          if existsb (fun t => existsb (fun x => String.eqb (pc_type x) n) (pt_cols t)) (c_tables c)
          then Err (ETypeInUse n)
          else Ok (set_enums c (bt_remove n (c_enums c)))
      end
  | SRenameType a b =>                                                  (* [R12] *)
      match find_enum a c with
      | None => Err (ENoType a)
      | Some labels =>
          if type_exists b c then Err (ETypeExists b)
          else Ok (mkCat (map (retype_cols a b) (c_tables c)) (bt_insert b labels (bt_remove a (c_enums c))))
      end
  | SAddValue n l =>
      match find_enum n c with
      | None => Err (ENoType n)
      | Some labels =>
          if negb (is_quoted_literal l) then Err (ESyntax "enum label is not a string literal")
          else if mem_str l labels then Err (ELabelExists n l)
          else Ok (set_enums c (bt_insert n (labels ++ [l]) (c_enums c)))
      end
  | SCreateTable tn cols pks fks checks =>                              (* [R1] [R2] [R3] [R5] [R6] *)
      if rel_exists tn c then Err (ERelationExists tn)
      else if type_exists tn c then Err (ETypeExists tn)
      else match first_dup (map cd_name cols) with
           | Some x => Err (EColumnExists tn x)
           | None =>
               match map_result (mk_col c) cols with
               | Err e => Err e
               | Ok pcols =>
                   let c1 := set_tables c (c_tables c ++ [mkPt tn pcols [] []]) in
                   let all_pks := map (fun d => [cd_name d]) (filter cd_pk cols) ++ pks in
                   match all_pks with
                   | _ :: _ :: _ => Err (EMultiplePk tn)
                   | _ =>
                       match (match all_pks with [pk] => add_pk c1 tn None pk | _ => Ok c1 end) with
                       | Err e => Err e
                       | Ok c2 => match add_fks c2 tn fks with
                                  | Err e => Err e
                                  | Ok c3 => add_checks c3 tn checks
                                  end
                       end
                   end
               end
           end
  | SDropTable tn =>                                                    (* [R7] *)
      match find_table tn c with
      | None => Err (ENoTable tn)
      | Some _ =>
          match inbound_fks c tn false (fun _ => true) with
          | (bt, bk) :: _ => Err (EDependentFk tn bt bk)
          | [] => Ok (set_tables c (filter (fun t => negb (String.eqb (pt_name t) tn)) (c_tables c)))
          end
      end
  | SAlterTable tn ops =>
      match find_table tn c with
      | None => Err (ENoTable tn)
      | Some _ => exec_alter_ops c tn ops
      end
  | SCreateIndex u n tn cols =>                                         (* [R1] *)
      match find_table tn c with
      | None => Err (ENoTable tn)
      | Some t =>
          if rel_exists n c then Err (ERelationExists n)
          else match first_missing cols t with
               | Some x => Err (ENoColumn tn x)
               | None => Ok (replace_table (with_idx t n (mkPi cols u false)) tn c)
               end
      end
  | SDropIndex n =>                                                     (* [R9] *)
      match find (fun t => bt_mem n (pt_idx t)) (c_tables c) with
      | None => Err (ENoIndex n)
      | Some t =>
          match bt_get n (pt_idx t) with
          | None => Err (ENoIndex n)
          | Some i =>
              if pi_con i then Err (EIndexBacksConstraint n)
              else match fk_needing_index c t i with
                   | Some (bt, bk) => Err (EDependentFk (pt_name t) bt bk)
                   | None => Ok (replace_table (mkPt (pt_name t) (pt_cols t) (pt_cons t) (bt_remove n (pt_idx t)))
                                               (pt_name t) c)
                   end
          end
      end
  | SCommentOnColumn tn cn _ | SUpdate tn cn _ _ =>                      (* [R14] *)
      match find_table tn c with
      | None => Err (ENoTable tn)
      | Some t => if has_col cn t then Ok c else Err (ENoColumn tn cn)
      end
  | SRaw _ => Ok c                                                       (* A4: raw SQL is excluded from catalog judgement *)
  end.

Fixpoint exec_all (c : catalog) (l : list stmt) : result catalog (nat * pg_error) :=
  match l with
  | [] => Ok c
  | s :: r => match exec c s with
              | Err e => Err (O, e)
              | Ok c' => match exec_all c' r with
                         | Err (i, e) => Err (S i, e)
                         | Ok c'' => Ok c''
                         end
              end
  end.

(* ---------- catalog_of (DESIGN Appendix A, pg row): the catalog a fresh creation of the schema must leave ---------- *)
Definition pk_of (t : table_def) : option (bool * list string) :=
  match find is_pk (t_constraints t) with
  | Some (CPrimaryKey auto cols) => Some (auto, cols)
  | _ => None
  end.

(* the type a column is believed to have: built-in names folded to lower case (that is how PostgreSQL reads the
   unquoted text), a string enum is the type {table}_{enum} exactly as CREATE TYPE names it *)
Definition cat_type (table : string) (ty : column_type) : string :=
  match ty with
  | TEnum name vals => if ev_is_integer vals then "integer" else build_enum_type_name table name
  | _ => lower (type_text table ty)
  end.

Definition col_cat (t : table_def) (c : column_def) : pg_col :=
  let in_pk := match pk_of t with Some (_, cols) => mem_str (c_name c) cols | None => false end in
  let auto := match pk_of t with
              | Some (true, cols) => (mem_str (c_name c) cols && supports_auto_increment (c_type c))%bool
              | _ => false
              end in
  mkPc (c_name c) (cat_type (t_name t) (c_type c)) (negb (c_nullable c) || in_pk)%bool
       (column_default_text c) auto.

(* only the first PRIMARY KEY constraint counts (a table has one) *)
Fixpoint first_pk_only (seen : bool) (cs : list table_constraint) : list table_constraint :=
  match cs with
  | [] => []
  | CPrimaryKey a cols :: r => if seen then first_pk_only true r else CPrimaryKey a cols :: first_pk_only true r
  | k :: r => k :: first_pk_only seen r
  end.

Definition con_cat (tn : string) (k : table_constraint) : list (string * con_kind) :=
  match k with
  | CPrimaryKey _ cols => [(tn +++ "_pkey", KPk cols)]
  | CForeignKey n cols rt rcols od ou =>
      [(build_foreign_key_name tn cols n, KFk cols rt rcols (norm_act od) (norm_act ou))]
  | CCheck n e => [(n, KCheck e)]
  | CUnique _ _ | CIndex _ _ => []
  end.
Definition idx_cat (tn : string) (k : table_constraint) : list (string * pg_index) :=
  match k with
  | CPrimaryKey _ cols => [(tn +++ "_pkey", mkPi cols true true)]
  | CUnique n cols => [(build_unique_constraint_name tn cols n, mkPi cols true false)]
  | CIndex n cols => [(build_index_name tn cols n, mkPi cols false false)]
  | _ => []
  end.

Definition table_cat (t : table_def) : pg_table :=
  let cs := first_pk_only false (t_constraints t) in
  mkPt (t_name t) (map (col_cat t) (t_columns t))
       (bt_of_list (flat_map (con_cat (t_name t)) cs))
       (bt_of_list (flat_map (idx_cat (t_name t)) cs)).

(* one enum type per distinct string-enum name used in the table (first occurrence gives the labels) *)
Fixpoint enums_of_cols (tn : string) (cols : list column_def) (seen : list string) : list (string * list string) :=
  match cols with
  | [] => []
  | c :: r =>
      match c_type c with
      | TEnum name vals =>
          if (ev_is_integer vals || mem_str name seen)%bool then enums_of_cols tn r seen
          else (build_enum_type_name tn name, enum_sql_values vals) :: enums_of_cols tn r (name :: seen)
      | _ => enums_of_cols tn r seen
      end
  end.
Definition table_enums (t : table_def) : list (string * list string) := enums_of_cols (t_name t) (t_columns t) [].

Definition catalog_of (s : schema) : catalog := mkCat (map table_cat s) (bt_of_list (flat_map table_enums s)).

(* ---------- comparison of two catalogs (what C03 compares; comments are not part of it) ---------- *)
Inductive diff_item :=
| DMissingTable (t : string) | DExtraTable (t : string)
| DMissingColumn (t c : string) | DExtraColumn (t c : string) | DColumnDiffers (t c what : string)
| DMissingIndex (t n : string) | DExtraIndex (t n : string) | DIndexDiffers (t n : string)
| DMissingConstraint (t n : string) | DExtraConstraint (t n : string) | DConstraintDiffers (t n : string)
| DMissingType (n : string) | DExtraType (n : string) | DTypeLabels (n : string).

(* default texts are compared after the same normalisation on both sides: surrounding blanks dropped, the
   spellings convert_default_for_backend identifies (now() / CURRENT_TIMESTAMP ...) identified, one pair of
   enclosing quotes dropped (whether a literal is written quoted depends on the column type at the time) *)
Definition unquote_lit (s : string) : string := if is_quoted_literal s then strip_ends s else s.
Definition canon_default (d : option string) : option string :=
  option_map (fun s => unquote_lit (convert_default_pg (trim s))) d.
Definition opt_str_eqb (a b : option string) : bool := dec_b (option_eq_dec string_dec) a b.

Definition ref_action_eqb (a b : ref_action) : bool := dec_b ref_action_eq_dec a b.
Definition str_list_eqb (a b : list string) : bool := dec_b (list_eq_dec string_dec) a b.
Definition con_kind_eqb (a b : con_kind) : bool :=
  match a, b with
  | KPk x, KPk y => str_list_eqb x y
  | KUnique x, KUnique y => str_list_eqb x y
  | KFk c1 t1 r1 d1 u1, KFk c2 t2 r2 d2 u2 =>
      (str_list_eqb c1 c2 && String.eqb t1 t2 && str_list_eqb r1 r2 && ref_action_eqb d1 d2 && ref_action_eqb u1 u2)%bool
  | KCheck x, KCheck y => String.eqb x y
  | _, _ => false
  end.

Definition col_diff (tn : string) (got want : pg_col) : list diff_item :=
  (if String.eqb (pc_type got) (pc_type want) then [] else [DColumnDiffers tn (pc_name want) "type"])
  ++ (if Bool.eqb (pc_notnull got) (pc_notnull want) then [] else [DColumnDiffers tn (pc_name want) "notnull"])
  ++ (if opt_str_eqb (canon_default (pc_default got)) (canon_default (pc_default want)) then []
      else [DColumnDiffers tn (pc_name want) "default"])
  ++ (if Bool.eqb (pc_autoinc got) (pc_autoinc want) then [] else [DColumnDiffers tn (pc_name want) "autoincrement"]).

Definition table_diff (got want : pg_table) : list diff_item :=
  let tn := pt_name want in
  flat_map (fun w => match find_col (pc_name w) got with
                     | None => [DMissingColumn tn (pc_name w)]
                     | Some g => col_diff tn g w
                     end) (pt_cols want)
  ++ flat_map (fun g => if has_col (pc_name g) want then [] else [DExtraColumn tn (pc_name g)]) (pt_cols got)
  ++ flat_map (fun w => match bt_get (fst w) (pt_idx got) with
                        | None => [DMissingIndex tn (fst w)]
                        | Some g => if (str_list_eqb (pi_cols g) (pi_cols (snd w)) && Bool.eqb (pi_unique g) (pi_unique (snd w))
                                        && Bool.eqb (pi_con g) (pi_con (snd w)))%bool then [] else [DIndexDiffers tn (fst w)]
                        end) (pt_idx want)
  ++ flat_map (fun g => if bt_mem (fst g) (pt_idx want) then [] else [DExtraIndex tn (fst g)]) (pt_idx got)
  ++ flat_map (fun w => match bt_get (fst w) (pt_cons got) with
                        | None => [DMissingConstraint tn (fst w)]
                        | Some g => if con_kind_eqb g (snd w) then [] else [DConstraintDiffers tn (fst w)]
                        end) (pt_cons want)
  ++ flat_map (fun g => if bt_mem (fst g) (pt_cons want) then [] else [DExtraConstraint tn (fst g)]) (pt_cons got).

Definition cat_diff (got want : catalog) : list diff_item :=
  flat_map (fun w => match find_table (pt_name w) got with
                     | None => [DMissingTable (pt_name w)]
                     | Some g => table_diff g w
                     end) (c_tables want)
  ++ flat_map (fun g => match find_table (pt_name g) want with None => [DExtraTable (pt_name g)] | Some _ => [] end)
              (c_tables got)
  ++ flat_map (fun w => match bt_get (fst w) (c_enums got) with
                        | None => [DMissingType (fst w)]
                        | Some g => if str_list_eqb g (snd w) then [] else [DTypeLabels (fst w)]
                        end) (c_enums want)
  ++ flat_map (fun g => if bt_mem (fst g) (c_enums want) then [] else [DExtraType (fst g)]) (c_enums got).

Definition cat_equiv (got want : catalog) : bool := match cat_diff got want with [] => true | _ => false end.
