(* PG layer: abstract syntax of the PostgreSQL statements that vespertide-query can emit on the
   Postgres backend (sea-query 0.32 PostgresQueryBuilder + the raw format! strings of the 13 builders).
   User-supplied fragments (default expressions, CHECK expressions, fill values, raw SQL, comments)
   are carried verbatim.  No proofs here. *)
From VV.M1 Require Export Apply.

(* a type as written in a statement: sea-query prints enum / custom type names UNQUOTED
   (backend/postgres/table.rs:79-80  `ColumnType::Enum { name, .. } => name.to_string()`), the raw
   format! strings of modify_column_type.rs:180-186 print them QUOTED *)
Record pg_type := mkTy { ty_text : string; ty_quoted : bool }.

Record coldef := mkCd {
  cd_name : string;
  cd_type : pg_type;          (* rendered type text, e.g. "integer", "serial", "decimal(10, 2)", "user_status" *)
  cd_notnull : bool;
  cd_default : option string; (* expression text verbatim *)
  cd_pk : bool }.             (* inline PRIMARY KEY *)

Record fkdef := mkFk {
  fk_name : option string;
  fk_cols : list string;
  fk_rtable : string;
  fk_rcols : list string;
  fk_on_delete : option ref_action;
  fk_on_update : option ref_action }.

Inductive alter_op :=
| AAddColumn (c : coldef)
| ADropColumn (c : string)
| ARenameColumn (a b : string)
| AAlterType (c : string) (ty : pg_type) (usng : option string)
| ASetNotNull (c : string)
| ADropNotNull (c : string)
| ASetDefault (c e : string)
| ADropDefault (c : string)
| AAddPk (n : option string) (cols : list string)
| AAddUnique (n : option string) (cols : list string)
| AAddFk (f : fkdef)
| AAddCheck (n e : string)
| ADropConstraint (n : string)
| ARenameTo (b : string).

Inductive stmt :=
| SCreateType (n : string) (labels : list string)     (* labels = literal texts as written: 'active' or 0 *)
| SDropType (n : string)
| SRenameType (a b : string)
| SAddValue (n label : string)
| SCreateTable (t : string) (cols : list coldef) (pks : list (list string)) (fks : list fkdef)
               (checks : list (string * string))
| SDropTable (t : string)
| SAlterTable (t : string) (ops : list alter_op)
| SCreateIndex (unique : bool) (n t : string) (cols : list string)
| SDropIndex (n : string)
| SCommentOnColumn (t c : string) (text : option string)
| SUpdate (t c e : string) (cond : option string)
| SRaw (text : string).

(* ---------- decidable equality ---------- *)
Definition pg_type_eq_dec (x y : pg_type) : {x = y} + {x <> y}.
Proof. decide equality; auto using string_dec, bool_dec. Defined.
Definition coldef_eq_dec (x y : coldef) : {x = y} + {x <> y}.
Proof. decide equality; auto using string_dec, bool_dec, pg_type_eq_dec; apply option_eq_dec, string_dec. Defined.
Definition fkdef_eq_dec (x y : fkdef) : {x = y} + {x <> y}.
Proof.
  decide equality; auto using string_dec;
    try (apply option_eq_dec; auto using string_dec, ref_action_eq_dec); apply list_eq_dec, string_dec.
Defined.
Definition alter_op_eq_dec (x y : alter_op) : {x = y} + {x <> y}.
Proof.
  decide equality; auto using string_dec, coldef_eq_dec, pg_type_eq_dec, fkdef_eq_dec;
    try (apply option_eq_dec, string_dec); apply list_eq_dec, string_dec.
Defined.
Definition stmt_eq_dec (x y : stmt) : {x = y} + {x <> y}.
Proof.
  decide equality; auto using string_dec, bool_dec;
    try (apply option_eq_dec, string_dec);
    try (apply list_eq_dec; auto using string_dec, coldef_eq_dec, fkdef_eq_dec, alter_op_eq_dec);
    try (apply list_eq_dec, string_dec);
    try (apply pair_eq_dec; apply string_dec).
Defined.
Definition stmts_eqb (a b : list stmt) : bool := dec_b (list_eq_dec stmt_eq_dec) a b.
