(* PG layer: how column types and default expressions are rendered on the Postgres backend.
   Shared by Gen.v (statement generation) and Engine.v (catalog_of).  No proofs here. *)
From VV.PG Require Export Ast.

(* ---------- small string utilities ---------- *)
(* str::to_lowercase restricted to ASCII (generators of the engine profile produce ASCII only; named in
   the trusted base) *)
Definition lower (s : string) : string := map_string to_lower_ascii_char s.

Fixpoint contains_sub (p s : string) : bool :=
  if starts_with p s then true
  else match s with EmptyString => false | String _ r => contains_sub p r end.

(* split at the first occurrence of p: Some (before, after) *)
Fixpoint split_first (p s acc : string) : option (string * string) :=
  if starts_with p s then Some (rev_string acc, substring (String.length p) (String.length s - String.length p) s)
  else match s with
       | EmptyString => None
       | String a r => split_first p r (String a acc)
       end.

Definition first_char (s : string) : option ascii := match s with String a _ => Some a | EmptyString => None end.
Definition sq : ascii := "'"%char.
Definition dq : ascii := """"%char.
Definition quote_lit (s : string) : string := String sq (s +++ String sq EmptyString).
Definition starts_with_char (c : ascii) (s : string) : bool :=
  match s with String a _ => Ascii.eqb a c | EmptyString => false end.

(* str::replace('\'', "''") *)
Fixpoint escape_sq (s : string) : string :=
  match s with
  | EmptyString => EmptyString
  | String a r => if Ascii.eqb a sq then String sq (String sq (escape_sq r)) else String a (escape_sq r)
  end.

(* ---------- types (helpers.rs:48-141 apply_column_type_with_table, then sea-query
   backend/postgres/table.rs:11-84 prepare_column_type) ---------- *)
Definition simple_type_text (s : simple_type) : string :=
  match s with
  | SmallInt => "smallint" | Integer => "integer" | BigInt => "bigint" | Real => "real"
  | DoublePrecision => "double precision" | Text => "text" | Boolean => "bool" | Date => "date"
  | Time => "time" | Timestamp => "timestamp" | Timestamptz => "timestamp with time zone"
  | Interval => "interval" | Bytea => "bytea" | Uuid => "uuid" | Json => "json"
  | Inet => "INET" | Cidr => "CIDR" | Macaddr => "MACADDR" | Xml => "XML"
  end.

Definition type_text (table : string) (ty : column_type) : string :=
  match ty with
  | TSimple s => simple_type_text s
  | TVarchar n => "varchar(" +++ N_to_string n +++ ")"
  | TNumeric p s => "decimal(" +++ N_to_string p +++ ", " +++ N_to_string s +++ ")"
  | TChar n => "char(" +++ N_to_string n +++ ")"
  | TCustom c => c
  | TEnum name vals => if ev_is_integer vals then "integer" else build_enum_type_name table name
  end.

(* sea-query prints every type name unquoted *)
Definition sea_type (table : string) (ty : column_type) : pg_type := mkTy (type_text table ty) false.

(* backend/postgres/table.rs:253-260 prepare_column_auto_increment (only reached for the three integer types) *)
Definition serial_text (ty : column_type) : option string :=
  match ty with
  | TSimple SmallInt => Some "smallserial"
  | TSimple Integer => Some "serial"
  | TSimple BigInt => Some "bigserial"
  | _ => None
  end.

Definition is_enum_type (ty : column_type) : bool := match ty with TEnum _ _ => true | _ => false end.
Definition is_string_default (d : default_value) : bool := match d with DStr _ => true | _ => false end.

(* EnumValues::to_sql_values (column.rs:297-305) *)
Definition enum_sql_values (v : enum_values) : list string :=
  match v with
  | EVString l => map (fun s => quote_lit (escape_sq s)) l
  | EVInteger l => map (fun n => Z_to_string (nv_value n)) l
  end.

(* ---------- defaults ---------- *)
(* helpers.rs:285-310 needs_quoting *)
Definition needs_quoting (s : string) : bool :=
  let t := trim s in
  if String.eqb t "" then true
  else if (starts_with_char sq t || starts_with_char dq t)%bool then false
  else if (contains_char "("%char t || contains_char ")"%char t)%bool then false
  else if eq_ignore_ascii_case t "null" then false
  else if (eq_ignore_ascii_case t "current_timestamp" || eq_ignore_ascii_case t "current_date"
           || eq_ignore_ascii_case t "current_time")%bool then false
  else true.

(* helpers.rs:275-281 normalize_enum_default *)
Definition normalize_enum_default (ty : column_type) (value : string) : string :=
  if (is_enum_type ty && needs_quoting value)%bool then quote_lit value else value.

(* helpers.rs:190-232 parse_pg_type_cast.  Quoted form: find the closing quote ('' is an escaped quote),
   the rest must start with "::" and name a non-empty type. *)
Fixpoint close_quote (s acc : string) : option (string * string) :=   (* (inner, rest after the closing quote) *)
  match s with
  | EmptyString => None
  | String a r =>
      if Ascii.eqb a sq then
        match r with
        | String b r' => if Ascii.eqb b sq then close_quote r' (String sq (String sq acc))
                         else Some (rev_string acc, r)
        | EmptyString => Some (rev_string acc, r)
        end
      else close_quote r (String a acc)
  end.
Definition parse_pg_type_cast (expr : string) : option (string * string) :=
  let t := trim expr in
  match t with
  | String a after_open =>
      if Ascii.eqb a sq then
        match close_quote after_open EmptyString with
        | None => None
        | Some (inner, rest) =>
            if starts_with "::" rest then
              let cast := lower (trim (substring 2 (String.length rest - 2) rest)) in
              if String.eqb cast "" then None else Some (quote_lit inner, cast)
            else None
        end
      else
        match split_first "::" t EmptyString with
        | None => None
        | Some (v, c) =>
            let value := trim v in
            let cast := lower (trim c) in
            if (negb (String.eqb value "") && negb (String.eqb cast ""))%bool then Some (value, cast) else None
        end
  | EmptyString => None
  end.

(* helpers.rs:153-188 convert_default_for_backend, Postgres branch *)
Definition convert_default_pg (d : string) : string :=
  let l := lower d in
  if (String.eqb l "gen_random_uuid()" || String.eqb l "uuid()" || String.eqb l "lower(hex(randomblob(16)))")%bool
  then "gen_random_uuid()"
  else if (String.eqb l "current_timestamp()" || String.eqb l "now()" || String.eqb l "current_timestamp"
           || String.eqb l "getdate()")%bool
  then "CURRENT_TIMESTAMP"
  else match parse_pg_type_cast d with
       | Some (v, c) => v +++ "::" +++ c
       | None => d
       end.

(* helpers.rs:312-347 build_sea_column_def_with_table: the DEFAULT text of a column definition *)
Definition column_default_text (c : column_def) : option string :=
  match c_default c with
  | None => None
  | Some d =>
      let converted := convert_default_pg (default_to_sql d) in
      Some (if (is_enum_type (c_type c) && is_string_default d && needs_quoting converted)%bool
            then quote_lit converted else converted)
  end.

(* helpers.rs:12-20 normalize_fill_with *)
Definition normalize_fill_with (f : option string) : option string :=
  option_map (fun s => if String.eqb s "" then "''" else s) f.
