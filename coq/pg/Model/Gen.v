(* PG layer: the PostgreSQL branch of vespertide-query's 13 builders (sql/*.rs) and build_plan_queries
   (builder.rs:16-92), as they are, quirks included.  The statements are the abstract ones of Ast.v; what
   the text looks like is fixed by sea-query 0.32 and read back by tools/pg_sqlparse.py.  No proofs here. *)
From VV.PG Require Export Render.

Definition find_table_s (s : schema) (t : string) : option table_def :=
  find (fun x => String.eqb (t_name x) t) s.
Definition find_column_s (s : schema) (t c : string) : option column_def :=
  match find_table_s s t with
  | Some td => find (fun x => String.eqb (c_name x) c) (t_columns td)
  | None => None
  end.

Definition qid (s : string) : string := String dq (s +++ String dq EmptyString).   (* format!("\"{}\"", s) *)

(* helpers.rs:312-347 build_sea_column_def_with_table *)
Definition sea_coldef (table : string) (c : column_def) : coldef :=
  mkCd (c_name c) (sea_type table (c_type c)) (negb (c_nullable c)) (column_default_text c) false.

(* helpers.rs:358-389 build_create_enum_type_sql *)
Definition create_enum_type (table : string) (ty : column_type) : list stmt :=
  match ty with
  | TEnum name vals =>
      if ev_is_integer vals then [] else [SCreateType (build_enum_type_name table name) (enum_sql_values vals)]
  | _ => []
  end.
(* helpers.rs:395-418 build_drop_enum_type_sql: no is_integer test *)
Definition drop_enum_type (table : string) (ty : column_type) : list stmt :=
  match ty with
  | TEnum name _ => [SDropType (build_enum_type_name table name)]
  | _ => []
  end.

(* ---------- create_table.rs ---------- *)
(* :189-199 one CREATE TYPE per distinct enum NAME; the name is marked as seen before the integer test *)
Fixpoint create_enum_types (table : string) (cols : list column_def) (seen : list string) : list stmt :=
  match cols with
  | [] => []
  | c :: r =>
      match c_type c with
      | TEnum name _ =>
          if mem_str name seen then create_enum_types table r seen
          else create_enum_type table (c_type c) ++ create_enum_types table r (name :: seen)
      | _ => create_enum_types table r seen
      end
  end.

(* :12-165 build_create_table_for_backend, Postgres *)
(* one column of CREATE TABLE: inline PRIMARY KEY only without a table-level key; serial for an auto-increment key column *)
Definition create_coldef (table : string) (ks : list table_constraint) (c : column_def) : coldef :=
  let has_table_pk := existsb is_pk ks in
  let auto_cols := flat_map (fun k => match k with CPrimaryKey true pk => pk | _ => [] end) ks in
  let d := sea_coldef table c in
  let pk := (match c_primary_key c with Some _ => true | None => false end && negb has_table_pk)%bool in
  let ty := if (mem_str (c_name c) auto_cols && supports_auto_increment (c_type c))%bool
            then match serial_text (c_type c) with Some s => mkTy s false | None => cd_type d end
            else cd_type d in
  mkCd (cd_name d) ty (cd_notnull d) (cd_default d) pk.
Definition create_pks (ks : list table_constraint) : list (list string) :=
  flat_map (fun k => match k with CPrimaryKey _ pk => [pk] | _ => [] end) ks.
Definition create_fks (table : string) (ks : list table_constraint) : list fkdef :=
  flat_map (fun k => match k with
                     | CForeignKey n fc rt rc od ou => [mkFk (Some (build_foreign_key_name table fc n)) fc rt rc od ou]
                     | _ => []
                     end) ks.
Definition create_table_stmt (table : string) (cols : list column_def) (ks : list table_constraint) : stmt :=
  SCreateTable table (map (create_coldef table ks) cols) (create_pks ks) (create_fks table ks)
    [].   (* :150-154 CHECK constraints are not emitted *)

Definition not_unique_c (k : table_constraint) : bool := match k with CUnique _ _ => false | _ => true end.
Inductive gen_error := GenNormalize.   (* create_table.rs:176-178 *)

Definition gen_create_table (table : string) (cols : list column_def) (ks : list table_constraint)
  : result (list stmt) gen_error :=
  match normalize (mkTable table None cols ks) with
  | Err _ => Err GenNormalize
  | Ok n =>
      let cols := t_columns n in
      let ks := t_constraints n in
      let not_unique := filter not_unique_c ks in
      Ok (create_enum_types table cols []
          ++ [create_table_stmt table cols not_unique]
          ++ flat_map (fun k => match k with
                                | CUnique n uc => [SCreateIndex true (build_unique_constraint_name table uc n) table uc]
                                | _ => []
                                end) ks
          ++ flat_map (fun k => match k with
                                | CIndex n ic => [SCreateIndex false (build_index_name table ic n) table ic]
                                | _ => []
                                end) ks)
  end.

(* sea-query backend/postgres/table.rs:131-190: ModifyColumn = ALTER COLUMN c TYPE ty, then one sub-command per spec *)
Definition modify_column_ops (d : coldef) : list alter_op :=
  [AAlterType (cd_name d) (cd_type d) None]
  ++ (if cd_notnull d then [ASetNotNull (cd_name d)] else [])
  ++ match cd_default d with Some e => [ASetDefault (cd_name d) e] | None => [] end.

(* ---------- add_column.rs:107-151 (not SQLite) ---------- *)
Definition gen_add_column (table : string) (col : column_def) (fill_with : option string) : list stmt :=
  let needs_backfill :=
    (negb (c_nullable col) && match c_default col with None => true | Some _ => false end
     && match fill_with with Some _ => true | None => false end)%bool in
  create_enum_type table (c_type col)
  ++ if needs_backfill then
       [SAlterTable table [AAddColumn (sea_coldef table (set_nullable true col))]]
       ++ match normalize_fill_with fill_with with
          | Some f => [SUpdate table (c_name col) (convert_default_pg f) None]
          | None => []
          end
       ++ [SAlterTable table (modify_column_ops (sea_coldef table col))]
     else [SAlterTable table [AAddColumn (sea_coldef table col)]].

(* ---------- delete_column.rs:95-110 ---------- *)
Definition gen_delete_column (s : schema) (table column : string) : list stmt :=
  [SAlterTable table [ADropColumn column]]
  ++ match find_column_s s table column with
     | Some c => drop_enum_type table (c_type c)
     | None => []
     end.

(* ---------- modify_column_type.rs ---------- *)
Definition lit (s : string) : string := quote_lit (escape_sq s).   (* sea-query string value (A7: no backslash) *)
(* :17-33 build_fill_with_updates (BTreeMap order = the order the action carries) *)
Definition fill_with_updates (table column : string) (fw : option (list (string * string))) : list stmt :=
  match fw with
  | None => []
  | Some l => map (fun p => SUpdate table column (lit (snd p)) (Some (qid column +++ " = " +++ lit (fst p)))) l
  end.

Definition gen_modify_column_type (s : schema) (table column : string) (new_type : column_type)
  (fw : option (list (string * string))) : list stmt :=
  let old := option_map c_type (find_column_s s table column) in
  let needs_enum_migration :=
    match old, new_type with
    | Some (TEnum on ov), TEnum nn nv => negb (String.eqb on nn && dec_b enum_values_eq_dec ov nv)%bool
    | _, _ => false
    end in
  if needs_enum_migration then
    match old, new_type with
    | Some (TEnum on _), TEnum nn nv =>
        let old_type_name := build_enum_type_name table on in
        let new_type_name := build_enum_type_name table nn in
        let names_differ := negb (String.eqb on nn) in
        let target := if names_differ then new_type_name else old_type_name +++ "_new" in
        let column_default :=
          match find_column_s s table column with Some c => c_default c | None => None end in
        fill_with_updates table column fw
        ++ [SCreateType target (enum_sql_values nv)]
        ++ match column_default with Some _ => [SAlterTable table [ADropDefault column]] | None => [] end
        ++ [SAlterTable table [AAlterType column (mkTy target true)
                                          (Some (qid column +++ "::text::" +++ qid target))]]
        ++ [SDropType old_type_name]
        ++ (if names_differ then [] else [SRenameType target old_type_name])
        ++ match column_default with
           | Some d => [SAlterTable table [ASetDefault column (normalize_enum_default new_type (default_to_sql d))]]
           | None => []
           end
    | _, _ => []
    end
  else
    fill_with_updates table column fw
    ++ match new_type with
       | TEnum nn _ =>
           let should_create := match old with Some (TEnum on _) => negb (String.eqb on nn) | _ => true end in
           if should_create then create_enum_type table new_type else []
       | _ => []
       end
    ++ [SAlterTable table [AAlterType column (sea_type table new_type) None]]
    ++ match old with
       | Some (TEnum on _) =>
           let should_drop := match new_type with TEnum nn _ => negb (String.eqb on nn) | _ => true end in
           if should_drop then [SDropType (build_enum_type_name table on)] else []
       | _ => []
       end.

(* ---------- modify_column_nullable.rs:23-57 ---------- *)
Definition gen_modify_column_nullable (table column : string) (nullable : bool) (fill_with : option string)
  : list stmt :=
  (if nullable then []
   else match normalize_fill_with fill_with with
        | Some f => [SUpdate table column (convert_default_pg f) (Some (qid column +++ " IS NULL"))]
        | None => []
        end)
  ++ [SAlterTable table [if nullable then ADropNotNull column else ASetNotNull column]].

(* ---------- modify_column_default.rs:22-51 ---------- *)
Definition gen_modify_column_default (s : schema) (table column : string) (new_default : option string)
  : list stmt :=
  match new_default with
  | Some d =>
      let normalized := match find_column_s s table column with
                        | Some c => normalize_enum_default (c_type c) d
                        | None => d
                        end in
      [SAlterTable table [ASetDefault column normalized]]
  | None => [SAlterTable table [ADropDefault column]]
  end.

(* ---------- modify_column_comment.rs:20-34 ---------- *)
Definition gen_modify_column_comment (table column : string) (c : option string) : list stmt :=
  [SCommentOnColumn table column (option_map (fun x => quote_lit (escape_sq x)) c)].

(* ---------- add_constraint.rs (not SQLite) ---------- *)
Definition gen_add_constraint (table : string) (k : table_constraint) : list stmt :=
  match k with
  | CPrimaryKey _ cols => [SAlterTable table [AAddPk None cols]]
  | CUnique n cols => [SCreateIndex true (build_unique_constraint_name table cols n) table cols]
  | CForeignKey n cols rt rcols od ou =>
      [SAlterTable table [AAddFk (mkFk (Some (build_foreign_key_name table cols n)) cols rt rcols od ou)]]
  | CIndex n cols => [SCreateIndex false (build_index_name table cols n) table cols]
  | CCheck n e => [SAlterTable table [AAddCheck n e]]
  end.

(* ---------- remove_constraint.rs (not SQLite) ---------- *)
Definition gen_remove_constraint (table : string) (k : table_constraint) : list stmt :=
  match k with
  | CPrimaryKey _ _ => [SAlterTable table [ADropConstraint (table +++ "_pkey")]]       (* :74-86 *)
  | CUnique n cols => [SDropIndex (build_unique_constraint_name table cols n)]          (* :166-181 *)
  | CForeignKey n cols _ _ _ _ => [SAlterTable table [ADropConstraint (build_foreign_key_name table cols n)]]
  | CIndex n cols => [SDropIndex (build_index_name table cols n)]
  | CCheck n _ => [SAlterTable table [ADropConstraint n]]
  end.

(* ---------- mod.rs:41-156 build_action_queries_with_pending, Postgres; pending constraints matter to SQLite only.
   Statements whose text is empty are skipped by every consumer: on Postgres only a blank RawSql can be. ---------- *)
Definition gen (s : schema) (pending : list table_constraint) (a : action) : result (list stmt) gen_error :=
  match a with
  | CreateTable t cols ks => gen_create_table t cols ks
  | DeleteTable t => Ok [SDropTable t]
  | AddColumn t col fw => Ok (gen_add_column t col fw)
  | RenameColumn t a b => Ok [SAlterTable t [ARenameColumn a b]]
  | DeleteColumn t c => Ok (gen_delete_column s t c)
  | ModifyColumnType t c ty fw => Ok (gen_modify_column_type s t c ty fw)
  | ModifyColumnNullable t c n fw => Ok (gen_modify_column_nullable t c n fw)
  | ModifyColumnDefault t c d => Ok (gen_modify_column_default s t c d)
  | ModifyColumnComment t c d => Ok (gen_modify_column_comment t c d)
  | RenameTable a b => Ok [SAlterTable a [ARenameTo b]]
  | RawSql sql => Ok (if String.eqb (trim sql) "" then [] else [SRaw sql])
  | AddConstraint t k => Ok (gen_add_constraint t k)
  | RemoveConstraint t k => Ok (gen_remove_constraint t k)
  end.

(* builder.rs:30-58 the pending set: later AddConstraint Index/Unique actions of the same table *)
Definition pending_of (a : action) (rest : list action) : list table_constraint :=
  match a with
  | AddConstraint t _ =>
      flat_map (fun r => match r with
                         | AddConstraint t' k =>
                             if String.eqb t' t then match k with CIndex _ _ | CUnique _ _ => [k] | _ => [] end else []
                         | _ => []
                         end) rest
  | _ => []
  end.

(* builder.rs:16-92: evolving schema, apply errors ignored, the first builder error aborts everything *)
Fixpoint gen_plan (s : schema) (acts : list action) : result (list (list stmt)) gen_error :=
  match acts with
  | [] => Ok []
  | a :: r =>
      match gen s (pending_of a r) a with
      | Err e => Err e
      | Ok q =>
          let s' := match apply_action s a with Ok s' => s' | Err _ => s end in
          match gen_plan s' r with
          | Err e => Err e
          | Ok qs => Ok (q :: qs)
          end
      end
  end.
