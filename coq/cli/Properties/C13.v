(* C13 — all CLI views of pending work agree; history is append-only.
   Pinned statements only: each theorem is closed by [exact] of a lemma proved in Proofs/.
   Status per statement: (P) proved for all projects; (R) refuted on a concrete witness by computation —
   (D6, D7, the pattern overwrite and the version reuse were repaired in /repo: their former refutations are now positive theorems) —
   each (R) witness is replayed on the real binary by checks/c13.py (corpus/cli/c13_*.json). *)
From VV.CLI Require Import Project ProjectP NamingP HistoryP.

(* ------------------------------------------------------------------ (P) diff <-> revision *)
Theorem C13_diff_iff_revision : forall P m f env,
  ((exists acts, cmd_diff P = Ok (DiffChanges acts)) <->
   (exists o, cmd_revision P m f env = Ok o /\
              (o = RevRefused \/ o = RevNeedsTty \/ o = RevRefusedVersion \/ o = RevRefusedExists
               \/ exists file p, o = RevWrote file p)))
  /\ (cmd_diff P = Ok DiffNone <-> cmd_revision P m f env = Ok RevNothing)
  /\ (forall e, cmd_diff P = Err e <-> cmd_revision P m f env = Err e)
  /\ (re_tty env = true -> cmd_revision P m f env <> Ok RevNeedsTty).
Proof. exact diff_iff_revision. Qed.
Print Assumptions C13_diff_iff_revision.
Check C13_diff_iff_revision : forall P m f env,
  ((exists acts, cmd_diff P = Ok (DiffChanges acts)) <->
   (exists o, cmd_revision P m f env = Ok o /\
              (o = RevRefused \/ o = RevNeedsTty \/ o = RevRefusedVersion \/ o = RevRefusedExists
               \/ exists file p, o = RevWrote file p)))
  /\ (cmd_diff P = Ok DiffNone <-> cmd_revision P m f env = Ok RevNothing)
  /\ (forall e, cmd_diff P = Err e <-> cmd_revision P m f env = Err e)
  /\ (re_tty env = true -> cmd_revision P m f env <> Ok RevNeedsTty).

(* non-vacuity: a project on which diff lists a change and revision (told the fill value) writes version 2 *)
Example C13_diff_iff_revision_nonvacuous :
  cmd_diff P_nullable = Ok (DiffChanges [ModifyColumnNullable "user" "email" false None])
  /\ cmd_revision P_nullable "tighten" ["user.email=''"] env0
     = Ok (RevWrote "0002_tighten.vespertide.json"
             (mkPlan "uuid" (Some "tighten") (Some "now") 2 [ModifyColumnNullable "user" "email" false (Some "''")]))
  /\ cmd_revision P_nullable "tighten" [] env0 = Ok RevNeedsTty.
Proof. repeat split; vm_compute; reflexivity. Qed.

(* ------------------------------------------------------------------ (P) sql renders diff, prefix = "" *)
Theorem C13_sql_renders_diff : forall P,
  pj_prefix P = "" ->
  (cmd_diff P = Ok DiffNone <-> cmd_sql P = Ok SqlNone)
  /\ (forall acts, cmd_diff P = Ok (DiffChanges acts) <-> exists v b, cmd_sql P = Ok (SqlRender v acts b)).
Proof. exact sql_renders_diff. Qed.
Print Assumptions C13_sql_renders_diff.
Check C13_sql_renders_diff : forall P,
  pj_prefix P = "" ->
  (cmd_diff P = Ok DiffNone <-> cmd_sql P = Ok SqlNone)
  /\ (forall acts, cmd_diff P = Ok (DiffChanges acts) <-> exists v b, cmd_sql P = Ok (SqlRender v acts b)).

Example C13_sql_renders_diff_nonvacuous :
  pj_prefix P_nullable = "" /\ exists b, cmd_sql P_nullable = Ok (SqlRender 2 [ModifyColumnNullable "user" "email" false None] b).
Proof. split; [reflexivity|]. eexists. vm_compute. reflexivity. Qed.

(* (P) any prefix, no stored migration: sql shows diff's actions with table names prefixed *)
Theorem C13_sql_renders_prefixed_diff_without_history : forall P,
  pj_migrations P = [] ->
  (cmd_diff P = Ok DiffNone <-> cmd_sql P = Ok SqlNone)
  /\ (forall acts, cmd_diff P = Ok (DiffChanges acts) ->
        cmd_sql P = Ok (SqlRender 1 (map (action_with_prefix (pj_prefix P)) acts) [])).
Proof. exact sql_renders_prefixed_diff_without_history. Qed.
Print Assumptions C13_sql_renders_prefixed_diff_without_history.
Check C13_sql_renders_prefixed_diff_without_history : forall P,
  pj_migrations P = [] ->
  (cmd_diff P = Ok DiffNone <-> cmd_sql P = Ok SqlNone)
  /\ (forall acts, cmd_diff P = Ok (DiffChanges acts) ->
        cmd_sql P = Ok (SqlRender 1 (map (action_with_prefix (pj_prefix P)) acts) [])).

Example C13_sql_without_history_nonvacuous :
  exists cols ks,
    cmd_diff (mkProject (pj_config P_prefix) (pj_models P_prefix) []) = Ok (DiffChanges [CreateTable "user" cols ks])
    /\ cmd_sql (mkProject (pj_config P_prefix) (pj_models P_prefix) []) = Ok (SqlRender 1 [CreateTable "app_user" cols ks] []).
Proof. do 2 eexists. split; vm_compute; reflexivity. Qed.

(* (R) non-empty prefix and one stored migration: diff is empty, sql re-creates and drops (DESIGN D8) *)
Theorem C13_sql_prefix_refuted :
  exists P, pj_prefix P = "app_" /\ List.length (pj_models P) = 1%nat /\ List.length (pj_migrations P) = 1%nat
            /\ cmd_diff P = Ok DiffNone
            /\ exists v acts b, cmd_sql P = Ok (SqlRender v acts b) /\ acts <> [].
Proof. exact sql_prefix_refuted. Qed.
Print Assumptions C13_sql_prefix_refuted.
Check C13_sql_prefix_refuted :
  exists P, pj_prefix P = "app_" /\ List.length (pj_models P) = 1%nat /\ List.length (pj_migrations P) = 1%nat
            /\ cmd_diff P = Ok DiffNone
            /\ exists v acts b, cmd_sql P = Ok (SqlRender v acts b) /\ acts <> [].

(* ------------------------------------------------------------------ (P) status "synchronized" iff diff finds nothing (D7 repaired by b3fae31) *)
Theorem C13_status_sync_iff_no_diff : forall P,
  (cmd_status P = Ok StSync -> cmd_diff P = Ok DiffNone)
  /\ (forall plans, load_migrations P = Ok plans -> plans <> [] ->
        (cmd_status P = Ok StSync <-> cmd_diff P = Ok DiffNone)
        /\ (cmd_status P = Ok StDiffers <-> exists acts, cmd_diff P = Ok (DiffChanges acts))
        /\ ((exists e, cmd_status P = Err e) <-> (exists e, cmd_diff P = Err e)))
  /\ (load_migrations P = Ok [] -> forall models, load_models P = Ok models ->
        cmd_status P = Ok (if is_nil models then StEmpty else StNoMigrations))
  /\ (forall e, load_models P = Err e \/ (exists m, load_models P = Ok m /\ load_migrations P = Err e) ->
        cmd_status P = Err e /\ cmd_diff P = Err e).
Proof. exact status_sync_iff_no_diff. Qed.
Print Assumptions C13_status_sync_iff_no_diff.
Check C13_status_sync_iff_no_diff : forall P,
  (cmd_status P = Ok StSync -> cmd_diff P = Ok DiffNone)
  /\ (forall plans, load_migrations P = Ok plans -> plans <> [] ->
        (cmd_status P = Ok StSync <-> cmd_diff P = Ok DiffNone)
        /\ (cmd_status P = Ok StDiffers <-> exists acts, cmd_diff P = Ok (DiffChanges acts))
        /\ ((exists e, cmd_status P = Err e) <-> (exists e, cmd_diff P = Err e)))
  /\ (load_migrations P = Ok [] -> forall models, load_models P = Ok models ->
        cmd_status P = Ok (if is_nil models then StEmpty else StNoMigrations))
  /\ (forall e, load_models P = Err e \/ (exists m, load_models P = Ok m /\ load_migrations P = Err e) ->
        cmd_status P = Err e /\ cmd_diff P = Err e).

(* non-vacuity: the old D7 witness (nullability change only) is now reported; an unchanged model set is synchronized *)
Example C13_status_nonvacuous :
  cmd_status P_nullable = Ok StDiffers
  /\ cmd_diff P_nullable = Ok (DiffChanges [ModifyColumnNullable "user" "email" false None])
  /\ cmd_status (mkProject default_config (pj_models P_prefix) (pj_migrations P_prefix)) = Ok StSync
  /\ cmd_diff (mkProject default_config (pj_models P_prefix) (pj_migrations P_prefix)) = Ok DiffNone.
Proof. repeat split; vm_compute; reflexivity. Qed.

(* ------------------------------------------------------------------ (P) log = what the macro builds the runtime from *)
(* a history whose files all pass validate_migration_plan (what `revision` writes does, C13_revision_output_loadable):
   no exception; log_view [] = LogNone ("No migrations found"), log_view es = LogEntries es otherwise *)
Theorem C13_log_equals_runtime : forall P,
  validate_files (pj_migrations P) = Ok tt ->
  (forall es, macro_blocks P = Ok es -> cmd_log P = Ok (log_view es))
  /\ (exists es, cmd_log P = Ok (log_view es)
                 /\ (macro_blocks P = Ok es \/ exists e, macro_blocks P = Err (MacroModels e))).
Proof. exact log_equals_runtime. Qed.
Print Assumptions C13_log_equals_runtime.
Check C13_log_equals_runtime : forall P,
  validate_files (pj_migrations P) = Ok tt ->
  (forall es, macro_blocks P = Ok es ->
     cmd_log P = Ok (match es with [] => LogNone | _ => LogEntries es end))
  /\ (exists es, cmd_log P = Ok (match es with [] => LogNone | _ => LogEntries es end)
                 /\ (macro_blocks P = Ok es \/ exists e, macro_blocks P = Err (MacroModels e))).

Example C13_log_equals_runtime_nonvacuous :
  validate_files (pj_migrations P_prefix) = Ok tt
  /\ exists es, cmd_log P_prefix = Ok (LogEntries es) /\ macro_blocks P_prefix = Ok es
             /\ map le_actions es = [[CreateTable "app_user" [col_id; col_email true] []]].
Proof. split; [vm_compute; reflexivity|]. eexists. repeat split; vm_compute; reflexivity. Qed.

(* (P) any history, hand-written files included: agreement up to the loaders' difference *)
Theorem C13_log_equals_runtime_any_history : forall P,
  (forall es, cmd_log P = Ok (LogEntries es) ->
     macro_blocks P = Ok es \/ exists e, macro_blocks P = Err (MacroModels e))
  /\ (forall es, macro_blocks P = Ok es ->
        cmd_log P = Ok (LogEntries es)
        \/ (es = [] /\ cmd_log P = Ok LogNone)
        \/ exists f e, cmd_log P = Err (ELoadMigration f e)).
Proof. exact log_equals_runtime_any_history. Qed.
Print Assumptions C13_log_equals_runtime_any_history.
Check C13_log_equals_runtime_any_history : forall P,
  (forall es, cmd_log P = Ok (LogEntries es) ->
     macro_blocks P = Ok es \/ exists e, macro_blocks P = Err (MacroModels e))
  /\ (forall es, macro_blocks P = Ok es ->
        cmd_log P = Ok (LogEntries es)
        \/ (es = [] /\ cmd_log P = Ok LogNone)
        \/ exists f e, cmd_log P = Err (ELoadMigration f e)).

(* (R) the exception above is real for a hand-written file (the CLI loader validates stored plans, the macro's does
   not); `revision` no longer writes such a file *)
Theorem C13_log_rejects_what_runtime_runs_refuted :
  exists P es, macro_blocks P = Ok es /\ List.length es = 2%nat /\ exists f e, cmd_log P = Err (ELoadMigration f e).
Proof. exact log_rejects_what_runtime_runs_refuted. Qed.
Print Assumptions C13_log_rejects_what_runtime_runs_refuted.
Check C13_log_rejects_what_runtime_runs_refuted :
  exists P es, macro_blocks P = Ok es /\ List.length es = 2%nat /\ exists f e, cmd_log P = Err (ELoadMigration f e).

(* ------------------------------------------------------------------ (P) append-only history (overwrites repaired by fcb5089) *)
(* for EVERY filename pattern and every stored history: what revision writes is one new file with a version greater
   than all stored ones, appended to an untouched history *)
Theorem C13_revision_append_only : forall P m f env file p,
  cmd_revision P m f env = Ok (RevWrote file p) ->
  p_version p = (max_version P + 1)%N
  /\ (forall v, In v (versions P) -> (v < p_version p)%N)
  /\ ~ In file (file_names P)
  /\ pj_migrations (step_revision P m f env) = pj_migrations P ++ [(file, p)].
Proof. exact revision_append_only. Qed.
Print Assumptions C13_revision_append_only.
Check C13_revision_append_only : forall P m f env file p,
  cmd_revision P m f env = Ok (RevWrote file p) ->
  p_version p = (max_version P + 1)%N
  /\ (forall v, In v (versions P) -> (v < p_version p)%N)
  /\ ~ In file (file_names P)
  /\ pj_migrations (step_revision P m f env) = pj_migrations P ++ [(file, p)].

Example C13_revision_append_only_nonvacuous :
  exists file p, cmd_revision P_nullable "tighten" ["user.email=''"] env0 = Ok (RevWrote file p)
                 /\ file = "0002_tighten.vespertide.json" /\ p_version p = 2%N.
Proof. do 2 eexists. split; [vm_compute; reflexivity|]. split; reflexivity. Qed.

(* (P) no run of revision ever removes or changes a stored migration; every outcome but RevWrote leaves the project as it is *)
Theorem C13_revision_never_overwrites : forall P m f env,
  (forall n q, In (n, q) (pj_migrations P) -> In (n, q) (pj_migrations (step_revision P m f env)))
  /\ (forall o, cmd_revision P m f env = Ok o -> (forall file p, o <> RevWrote file p) -> step_revision P m f env = P)
  /\ (forall e, cmd_revision P m f env = Err e -> step_revision P m f env = P).
Proof. exact revision_never_overwrites. Qed.
Print Assumptions C13_revision_never_overwrites.
Check C13_revision_never_overwrites : forall P m f env,
  (forall n q, In (n, q) (pj_migrations P) -> In (n, q) (pj_migrations (step_revision P m f env)))
  /\ (forall o, cmd_revision P m f env = Ok o -> (forall file p, o <> RevWrote file p) -> step_revision P m f env = P)
  /\ (forall e, cmd_revision P m f env = Err e -> step_revision P m f env = P).

(* (P) the u32 corner, formerly a refutation: at version 4294967295 revision refuses instead of reusing the version *)
Theorem C13_revision_saturation_refused :
  max_version P_saturated = u32_max
  /\ cmd_revision P_saturated "big" [] env0 = Ok RevRefusedVersion
  /\ cmd_revision P_saturated "other" [] env0 = Ok RevRefusedVersion
  /\ step_revision P_saturated "big" [] env0 = P_saturated.
Proof. exact revision_saturation_refused. Qed.
Print Assumptions C13_revision_saturation_refused.
Check C13_revision_saturation_refused :
  max_version P_saturated = u32_max
  /\ cmd_revision P_saturated "big" [] env0 = Ok RevRefusedVersion
  /\ cmd_revision P_saturated "other" [] env0 = Ok RevRefusedVersion
  /\ step_revision P_saturated "big" [] env0 = P_saturated.

(* (P) a pattern without a version placeholder, formerly a refutation: the same comment again is refused, another one is written *)
Theorem C13_filename_pattern_refused :
  cmd_revision P_same_name "same" [] env0 = Ok RevRefusedExists
  /\ step_revision P_same_name "same" [] env0 = P_same_name
  /\ exists p, cmd_revision P_same_name "other" [] env0 = Ok (RevWrote "other.vespertide.json" p) /\ p_version p = 2%N.
Proof. exact filename_pattern_refused. Qed.
Print Assumptions C13_filename_pattern_refused.
Check C13_filename_pattern_refused :
  cmd_revision P_same_name "same" [] env0 = Ok RevRefusedExists
  /\ step_revision P_same_name "same" [] env0 = P_same_name
  /\ exists p, cmd_revision P_same_name "other" [] env0 = Ok (RevWrote "other.vespertide.json" p) /\ p_version p = 2%N.

(* ------------------------------------------------------------------ (P) file names under the default pattern *)
Theorem C13_filename_fresh : forall v v' c c' f f',
  v <> v' ->
  migration_filename v c f default_pattern <> migration_filename v' c' f' default_pattern.
Proof. exact filename_fresh. Qed.
Print Assumptions C13_filename_fresh.
Check C13_filename_fresh : forall v v' c c' f f',
  v <> v' ->
  migration_filename v c f default_pattern <> migration_filename v' c' f' default_pattern.

Example C13_filename_fresh_nonvacuous :
  migration_filename 7 (Some "12 Add_users.") FJson default_pattern = "0007_12_add_users.vespertide.json"
  /\ migration_filename 12345 None FYml default_pattern = "12345.vespertide.yml".
Proof. split; vm_compute; reflexivity. Qed.

(* (P) hence with the default pattern (names given by the tool) the file-exists refusal never fires *)
Theorem C13_default_pattern_never_refused : forall P m f env,
  cf_pattern (pj_config P) = default_pattern ->
  tool_named P ->
  cmd_revision P m f env <> Ok RevRefusedExists.
Proof. exact default_pattern_never_refused. Qed.
Print Assumptions C13_default_pattern_never_refused.
Check C13_default_pattern_never_refused : forall P m f env,
  cf_pattern (pj_config P) = default_pattern ->
  (forall n q, In (n, q) (pj_migrations P) ->
     exists fmt, n = migration_filename (p_version q) (p_comment q) fmt default_pattern) ->
  cmd_revision P m f env <> Ok RevRefusedExists.

Example C13_default_pattern_nonvacuous :
  cf_pattern (pj_config P_nullable) = default_pattern /\ tool_named P_nullable.
Proof.
  split; [reflexivity|]. intros n q [H|[]]. inversion H; subst. exists FJson. vm_compute. reflexivity.
Qed.

(* ------------------------------------------------------------------ (P) what revision writes can be loaded again (D6 repaired by 446c8b4) *)
(* unfilled a = the action lacks a required fill_with (AddColumn NOT NULL without default, or NOT NULL change);
   enum_free a = validate_migration_plan does not look at enum values for this action *)
Theorem C13_revision_output_loadable : forall P m f env file p,
  cmd_revision P m f env = Ok (RevWrote file p) ->
  (forall a, In a (p_actions p) -> unfilled a = false)
  /\ (validate_migration_plan p = Ok tt
      \/ ((exists a, In a (p_actions p) /\ enum_free a = false)
          /\ exists t c x, validate_migration_plan p = Err (VInvalidEnumDefault t c x)))
  /\ ((forall a, In a (p_actions p) -> enum_free a = true) -> validate_migration_plan p = Ok tt).
Proof. exact revision_output_loadable. Qed.
Print Assumptions C13_revision_output_loadable.
Check C13_revision_output_loadable : forall P m f env file p,
  cmd_revision P m f env = Ok (RevWrote file p) ->
  (forall a, In a (p_actions p) -> unfilled a = false)
  /\ (validate_migration_plan p = Ok tt
      \/ ((exists a, In a (p_actions p) /\ enum_free a = false)
          /\ exists t c x, validate_migration_plan p = Err (VInvalidEnumDefault t c x)))
  /\ ((forall a, In a (p_actions p) -> enum_free a = true) -> validate_migration_plan p = Ok tt).

(* non-vacuity: the old D6 witness now gets the default as fill value, and every view works afterwards *)
Example C13_revision_output_loadable_nonvacuous :
  exists file p,
    cmd_revision P_defaulted "tighten" [] env0 = Ok (RevWrote file p)
    /\ p_actions p = [ModifyColumnNullable "user" "email" false (Some "'x'")]
    /\ validate_migration_plan p = Ok tt
    /\ cmd_diff (step_revision P_defaulted "tighten" [] env0) = Ok DiffNone
    /\ cmd_status (step_revision P_defaulted "tighten" [] env0) = Ok StSync.
Proof. do 2 eexists. split; [vm_compute; reflexivity|]. repeat split; vm_compute; reflexivity. Qed.

(* (P) and the extended history stays loadable, so log keeps showing what the runtime runs *)
Theorem C13_revision_keeps_history_loadable : forall P m f env file p,
  cmd_revision P m f env = Ok (RevWrote file p) ->
  validate_migration_plan p = Ok tt ->
  validate_files (pj_migrations (step_revision P m f env)) = Ok tt
  /\ exists plans, load_migrations (step_revision P m f env) = Ok plans.
Proof. exact revision_keeps_history_loadable. Qed.
Print Assumptions C13_revision_keeps_history_loadable.
Check C13_revision_keeps_history_loadable : forall P m f env file p,
  cmd_revision P m f env = Ok (RevWrote file p) ->
  validate_migration_plan p = Ok tt ->
  validate_files (pj_migrations (step_revision P m f env)) = Ok tt
  /\ exists plans, load_migrations (step_revision P m f env) = Ok plans.

(* (R) what remains: a --fill-with value for a new enum column is written without being checked *)
Theorem C13_revision_enum_fill_unchecked_refuted :
  exists P m f env file p,
    cmd_revision P m f env = Ok (RevWrote file p)
    /\ p_actions p = [AddColumn "user" ecol (Some "zzz")]
    /\ validate_migration_plan p = Err (VInvalidEnumDefault "user" "st" "zzz")
    /\ cmd_diff (step_revision P m f env) = Err (ELoadMigration file (VInvalidEnumDefault "user" "st" "zzz")).
Proof. exact revision_enum_fill_unchecked_refuted. Qed.
Print Assumptions C13_revision_enum_fill_unchecked_refuted.
Check C13_revision_enum_fill_unchecked_refuted :
  exists P m f env file p,
    cmd_revision P m f env = Ok (RevWrote file p)
    /\ p_actions p = [AddColumn "user" ecol (Some "zzz")]
    /\ validate_migration_plan p = Err (VInvalidEnumDefault "user" "st" "zzz")
    /\ cmd_diff (step_revision P m f env) = Err (ELoadMigration file (VInvalidEnumDefault "user" "st" "zzz")).
