(* C13 — all CLI views of pending work agree; history is append-only.
   Pinned statements only: each theorem is closed by [exact] of a lemma proved in Proofs/.
   Status per statement: (P) proved for all projects; (R) refuted on a concrete witness by computation —
   (D6, D7, D8, the pattern overwrite, the version reuse and the unchecked enum fill value were repaired in /repo: their
   former refutations are now positive theorems; the only (R) left concerns hand-written history files) —
   each (R) witness is replayed on the real binary by checks/c13.py (corpus/cli/c13_*.json). *)
From VV.M1 Require Import Oracles PrefixHyp PrefixP PrefixApplyP.
From VV.CLI Require Import Project ProjectP NamingP HistoryP SqlPrefixP.

(* ------------------------------------------------------------------ (P) diff <-> revision *)
Theorem C13_diff_iff_revision : forall P m f env,
  ((exists acts, cmd_diff P = Ok (DiffChanges acts)) <->
   (exists o, cmd_revision P m f env = Ok o /\
              (o = RevRefused \/ o = RevNeedsTty \/ o = RevRefusedVersion \/ o = RevRefusedExists
               \/ (exists e, o = RevRefusedInvalid e) \/ exists file p, o = RevWrote file p)))
  /\ (cmd_diff P = Ok DiffNone <-> cmd_revision P m f env = Ok RevNothing)
  /\ (forall e, cmd_diff P = Err e <-> cmd_revision P m f env = Err e)
  /\ (re_tty env = true -> cmd_revision P m f env <> Ok RevNeedsTty).
Proof. exact diff_iff_revision. Qed.
Print Assumptions C13_diff_iff_revision.
Check C13_diff_iff_revision : forall P m f env,
  ((exists acts, cmd_diff P = Ok (DiffChanges acts)) <->
   (exists o, cmd_revision P m f env = Ok o /\
              (o = RevRefused \/ o = RevNeedsTty \/ o = RevRefusedVersion \/ o = RevRefusedExists
               \/ (exists e, o = RevRefusedInvalid e) \/ exists file p, o = RevWrote file p)))
  /\ (cmd_diff P = Ok DiffNone <-> cmd_revision P m f env = Ok RevNothing)
  /\ (forall e, cmd_diff P = Err e <-> cmd_revision P m f env = Err e)
  /\ (re_tty env = true -> cmd_revision P m f env <> Ok RevNeedsTty).

(* non-vacuity: a project on which diff lists a change and revision (told the fill value) writes version 2 *)
Example C13_diff_iff_revision_nonvacuous :
  cmd_diff P_nullable = Ok (DiffChanges [ModifyColumnNullable "user" "email" false None])
  /\ cmd_revision P_nullable "tighten" ["user.email=''"] env0
     = Ok (RevWrote "0002_tighten.vespertide.json"
             (mkPlan "uuid" (Some "tighten") (Some "now") 2 [ModifyColumnNullable "user" "email" false (Some "''")]))
  /\ cmd_revision P_nullable "tighten" [] env0 = Ok RevNeedsTty.
Proof. repeat split; vm_compute; reflexivity. Qed.

(* ------------------------------------------------------------------ (P) sql renders diff, for every prefix (D8 repaired by 72fa6f0) *)
(* ONE statement for every project and prefix: sql renders exactly the actions diff lists, table names prefixed, with
   diff's version, against the replay of the prefixed history ([prefixed_baseline pfx plans]).
   History: before 72fa6f0 the prefixed history was diffed against unprefixed models and prefixed again (P_prefix below:
   diff empty, sql = CREATE TABLE app_user + DROP TABLE app_app_user); that behaviour is gone, see C13_sql_prefix_witness. *)
Theorem C13_sql_renders_diff : forall P plans,
  load_migrations P = Ok plans ->
  (forall pb, prefixed_baseline (pj_prefix P) plans = Ok pb ->
     (cmd_diff P = Ok DiffNone <-> cmd_sql P = Ok SqlNone)
     /\ (forall acts, cmd_diff P = Ok (DiffChanges acts) ->
           cmd_sql P = Ok (SqlRender (next_version plans) (map (action_with_prefix (pj_prefix P)) acts) pb))
     /\ (forall v pacts b, cmd_sql P = Ok (SqlRender v pacts b) ->
           exists acts, cmd_diff P = Ok (DiffChanges acts)
                        /\ pacts = map (action_with_prefix (pj_prefix P)) acts /\ v = next_version plans /\ b = pb))
  /\ (forall e, prefixed_baseline (pj_prefix P) plans = Err e -> (exists d, cmd_diff P = Ok d) -> cmd_sql P = Err (EBaseline e))
  /\ ((exists e, cmd_diff P = Err e) -> exists e, cmd_sql P = Err e).
Proof. exact sql_renders_diff. Qed.
Print Assumptions C13_sql_renders_diff.
Check C13_sql_renders_diff : forall P plans,
  load_migrations P = Ok plans ->
  (forall pb, replay (map (plan_with_prefix (pj_prefix P)) plans) = Ok pb ->
     (cmd_diff P = Ok DiffNone <-> cmd_sql P = Ok SqlNone)
     /\ (forall acts, cmd_diff P = Ok (DiffChanges acts) ->
           cmd_sql P = Ok (SqlRender (next_version plans) (map (action_with_prefix (pj_prefix P)) acts) pb))
     /\ (forall v pacts b, cmd_sql P = Ok (SqlRender v pacts b) ->
           exists acts, cmd_diff P = Ok (DiffChanges acts)
                        /\ pacts = map (action_with_prefix (pj_prefix P)) acts /\ v = next_version plans /\ b = pb))
  /\ (forall e, replay (map (plan_with_prefix (pj_prefix P)) plans) = Err e -> (exists d, cmd_diff P = Ok d) -> cmd_sql P = Err (EBaseline e))
  /\ ((exists e, cmd_diff P = Err e) -> exists e, cmd_sql P = Err e).

Example C13_sql_renders_diff_nonvacuous :
  exists plans pb, load_migrations P_nullable = Ok plans /\ prefixed_baseline (pj_prefix P_nullable) plans = Ok pb
    /\ cmd_sql P_nullable = Ok (SqlRender 2 [ModifyColumnNullable "user" "email" false None] pb).
Proof. do 2 eexists. split; [vm_compute; reflexivity|]. split; vm_compute; reflexivity. Qed.

(* (P) the baseline sql renders against: the plain replay for the empty prefix, empty for an empty history ... *)
Theorem C13_sql_baseline_plain : forall P plans,
  load_migrations P = Ok plans ->
  (pj_prefix P = "" -> prefixed_baseline (pj_prefix P) plans = replay plans)
  /\ (pj_migrations P = [] -> prefixed_baseline (pj_prefix P) plans = Ok []).
Proof. exact sql_baseline_plain. Qed.
Print Assumptions C13_sql_baseline_plain.
Check C13_sql_baseline_plain : forall P plans,
  load_migrations P = Ok plans ->
  (pj_prefix P = "" -> replay (map (plan_with_prefix (pj_prefix P)) plans) = replay plans)
  /\ (pj_migrations P = [] -> replay (map (plan_with_prefix (pj_prefix P)) plans) = Ok []).

(* (P) ... and in general the replayed history with every table name and foreign-key target literally prefixed, errors
   included, under the side conditions of layer m1's equivariance theorem (no '.' in the prefix, inline foreign keys parse,
   no user-chosen index name equal to a derived one) *)
Theorem C13_sql_baseline_is_prefixed_baseline : forall p plans,
  p <> "" -> no_dot p ->
  forallb (fun pl => forallb inline_fks_parse (p_actions pl)) plans = true ->
  side_all p [] (flat_map p_actions plans) = true ->
  prefixed_baseline p plans = lift_apply p (replay plans).
Proof. exact sql_baseline_is_prefixed_baseline. Qed.
Print Assumptions C13_sql_baseline_is_prefixed_baseline.
Check C13_sql_baseline_is_prefixed_baseline : forall p plans,
  p <> "" -> no_dot p ->
  forallb (fun pl => forallb inline_fks_parse (p_actions pl)) plans = true ->
  side_all p [] (flat_map p_actions plans) = true ->
  replay (map (plan_with_prefix p) plans)
  = match replay plans with Ok s => Ok (literal_schema p s) | Err e => Err (literal_perr p e) end.

Example C13_sql_baseline_prefixed_nonvacuous :
  no_dot "app_" /\ forallb (fun pl => forallb inline_fks_parse (p_actions pl)) [init_plan] = true
  /\ side_all "app_" [] (flat_map p_actions [init_plan]) = true.
Proof. repeat split; vm_compute; reflexivity. Qed.

(* (P) the former D8 witness (prefix "app_", one table, one stored migration): diff and sql agree *)
Theorem C13_sql_prefix_witness :
  pj_prefix P_prefix = "app_"
  /\ cmd_diff P_prefix = Ok DiffNone /\ cmd_sql P_prefix = Ok SqlNone
  /\ exists b,
       cmd_sql (mkProject (pj_config P_prefix) [("user.json", user_table false)] (pj_migrations P_prefix))
       = Ok (SqlRender 2 [ModifyColumnNullable "app_user" "email" false None] b)
       /\ map t_name b = ["app_user"].
Proof. exact sql_prefix_witness. Qed.
Print Assumptions C13_sql_prefix_witness.
Check C13_sql_prefix_witness :
  pj_prefix P_prefix = "app_"
  /\ cmd_diff P_prefix = Ok DiffNone /\ cmd_sql P_prefix = Ok SqlNone
  /\ exists b,
       cmd_sql (mkProject (pj_config P_prefix) [("user.json", user_table false)] (pj_migrations P_prefix))
       = Ok (SqlRender 2 [ModifyColumnNullable "app_user" "email" false None] b)
       /\ map t_name b = ["app_user"].

(* ------------------------------------------------------------------ (P) status "synchronized" iff diff finds nothing (D7 repaired by b3fae31) *)
Theorem C13_status_sync_iff_no_diff : forall P,
  (cmd_status P = Ok StSync -> cmd_diff P = Ok DiffNone)
  /\ (forall plans, load_migrations P = Ok plans -> plans <> [] ->
        (cmd_status P = Ok StSync <-> cmd_diff P = Ok DiffNone)
        /\ (cmd_status P = Ok StDiffers <-> exists acts, cmd_diff P = Ok (DiffChanges acts))
        /\ ((exists e, cmd_status P = Err e) <-> (exists e, cmd_diff P = Err e)))
  /\ (load_migrations P = Ok [] -> forall models, load_models P = Ok models ->
        cmd_status P = Ok (if is_nil models then StEmpty else StNoMigrations))
  /\ (forall e, load_models P = Err e \/ (exists m, load_models P = Ok m /\ load_migrations P = Err e) ->
        cmd_status P = Err e /\ cmd_diff P = Err e).
Proof. exact status_sync_iff_no_diff. Qed.
Print Assumptions C13_status_sync_iff_no_diff.
Check C13_status_sync_iff_no_diff : forall P,
  (cmd_status P = Ok StSync -> cmd_diff P = Ok DiffNone)
  /\ (forall plans, load_migrations P = Ok plans -> plans <> [] ->
        (cmd_status P = Ok StSync <-> cmd_diff P = Ok DiffNone)
        /\ (cmd_status P = Ok StDiffers <-> exists acts, cmd_diff P = Ok (DiffChanges acts))
        /\ ((exists e, cmd_status P = Err e) <-> (exists e, cmd_diff P = Err e)))
  /\ (load_migrations P = Ok [] -> forall models, load_models P = Ok models ->
        cmd_status P = Ok (if is_nil models then StEmpty else StNoMigrations))
  /\ (forall e, load_models P = Err e \/ (exists m, load_models P = Ok m /\ load_migrations P = Err e) ->
        cmd_status P = Err e /\ cmd_diff P = Err e).

(* non-vacuity: the old D7 witness (nullability change only) is now reported; an unchanged model set is synchronized *)
Example C13_status_nonvacuous :
  cmd_status P_nullable = Ok StDiffers
  /\ cmd_diff P_nullable = Ok (DiffChanges [ModifyColumnNullable "user" "email" false None])
  /\ cmd_status (mkProject default_config (pj_models P_prefix) (pj_migrations P_prefix)) = Ok StSync
  /\ cmd_diff (mkProject default_config (pj_models P_prefix) (pj_migrations P_prefix)) = Ok DiffNone.
Proof. repeat split; vm_compute; reflexivity. Qed.

(* ------------------------------------------------------------------ (P) log = what the macro builds the runtime from *)
(* a history whose files all pass validate_migration_plan (what `revision` writes does, C13_revision_output_loadable):
   no exception; log_view [] = LogNone ("No migrations found"), log_view es = LogEntries es otherwise *)
Theorem C13_log_equals_runtime : forall P,
  validate_files (pj_migrations P) = Ok tt ->
  (forall es, macro_blocks P = Ok es -> cmd_log P = Ok (log_view es))
  /\ (exists es, cmd_log P = Ok (log_view es)
                 /\ (macro_blocks P = Ok es \/ exists e, macro_blocks P = Err (MacroModels e))).
Proof. exact log_equals_runtime. Qed.
Print Assumptions C13_log_equals_runtime.
Check C13_log_equals_runtime : forall P,
  validate_files (pj_migrations P) = Ok tt ->
  (forall es, macro_blocks P = Ok es ->
     cmd_log P = Ok (match es with [] => LogNone | _ => LogEntries es end))
  /\ (exists es, cmd_log P = Ok (match es with [] => LogNone | _ => LogEntries es end)
                 /\ (macro_blocks P = Ok es \/ exists e, macro_blocks P = Err (MacroModels e))).

Example C13_log_equals_runtime_nonvacuous :
  validate_files (pj_migrations P_prefix) = Ok tt
  /\ exists es, cmd_log P_prefix = Ok (LogEntries es) /\ macro_blocks P_prefix = Ok es
             /\ map le_actions es = [[CreateTable "app_user" [col_id; col_email true] []]].
Proof. split; [vm_compute; reflexivity|]. eexists. repeat split; vm_compute; reflexivity. Qed.

(* (P) any history, hand-written files included: agreement up to the loaders' difference *)
Theorem C13_log_equals_runtime_any_history : forall P,
  (forall es, cmd_log P = Ok (LogEntries es) ->
     macro_blocks P = Ok es \/ exists e, macro_blocks P = Err (MacroModels e))
  /\ (forall es, macro_blocks P = Ok es ->
        cmd_log P = Ok (LogEntries es)
        \/ (es = [] /\ cmd_log P = Ok LogNone)
        \/ exists f e, cmd_log P = Err (ELoadMigration f e)).
Proof. exact log_equals_runtime_any_history. Qed.
Print Assumptions C13_log_equals_runtime_any_history.
Check C13_log_equals_runtime_any_history : forall P,
  (forall es, cmd_log P = Ok (LogEntries es) ->
     macro_blocks P = Ok es \/ exists e, macro_blocks P = Err (MacroModels e))
  /\ (forall es, macro_blocks P = Ok es ->
        cmd_log P = Ok (LogEntries es)
        \/ (es = [] /\ cmd_log P = Ok LogNone)
        \/ exists f e, cmd_log P = Err (ELoadMigration f e)).

(* (R) the exception above is real for a hand-written file (the CLI loader validates stored plans, the macro's does
   not); `revision` no longer writes such a file *)
Theorem C13_log_rejects_what_runtime_runs_refuted :
  exists P es, macro_blocks P = Ok es /\ List.length es = 2%nat /\ exists f e, cmd_log P = Err (ELoadMigration f e).
Proof. exact log_rejects_what_runtime_runs_refuted. Qed.
Print Assumptions C13_log_rejects_what_runtime_runs_refuted.
Check C13_log_rejects_what_runtime_runs_refuted :
  exists P es, macro_blocks P = Ok es /\ List.length es = 2%nat /\ exists f e, cmd_log P = Err (ELoadMigration f e).

(* ------------------------------------------------------------------ (P) append-only history (overwrites repaired by fcb5089) *)
(* for EVERY filename pattern and every stored history: what revision writes is one new file with a version greater
   than all stored ones, appended to an untouched history *)
Theorem C13_revision_append_only : forall P m f env file p,
  cmd_revision P m f env = Ok (RevWrote file p) ->
  p_version p = (max_version P + 1)%N
  /\ (forall v, In v (versions P) -> (v < p_version p)%N)
  /\ ~ In file (file_names P)
  /\ pj_migrations (step_revision P m f env) = pj_migrations P ++ [(file, p)].
Proof. exact revision_append_only. Qed.
Print Assumptions C13_revision_append_only.
Check C13_revision_append_only : forall P m f env file p,
  cmd_revision P m f env = Ok (RevWrote file p) ->
  p_version p = (max_version P + 1)%N
  /\ (forall v, In v (versions P) -> (v < p_version p)%N)
  /\ ~ In file (file_names P)
  /\ pj_migrations (step_revision P m f env) = pj_migrations P ++ [(file, p)].

Example C13_revision_append_only_nonvacuous :
  exists file p, cmd_revision P_nullable "tighten" ["user.email=''"] env0 = Ok (RevWrote file p)
                 /\ file = "0002_tighten.vespertide.json" /\ p_version p = 2%N.
Proof. do 2 eexists. split; [vm_compute; reflexivity|]. split; reflexivity. Qed.

(* (P) no run of revision ever removes or changes a stored migration; every outcome but RevWrote leaves the project as it is.
   The statement quantifies over every project, hence over all three migration formats (cf_migration_format only selects the
   file extension in [migration_filename]; the existence test in [revision_finish] does not look at it): there is ONE guard
   for json / yaml / yml, as in revision.rs (`if path.exists() { bail! }` before the format-specific writer is chosen).
   K-cli's overwrite streams run colliding messages under all three formats. *)
Theorem C13_revision_never_overwrites : forall P m f env,
  (forall n q, In (n, q) (pj_migrations P) -> In (n, q) (pj_migrations (step_revision P m f env)))
  /\ (forall o, cmd_revision P m f env = Ok o -> (forall file p, o <> RevWrote file p) -> step_revision P m f env = P)
  /\ (forall e, cmd_revision P m f env = Err e -> step_revision P m f env = P).
Proof. exact revision_never_overwrites. Qed.
Print Assumptions C13_revision_never_overwrites.
Check C13_revision_never_overwrites : forall P m f env,
  (forall n q, In (n, q) (pj_migrations P) -> In (n, q) (pj_migrations (step_revision P m f env)))
  /\ (forall o, cmd_revision P m f env = Ok o -> (forall file p, o <> RevWrote file p) -> step_revision P m f env = P)
  /\ (forall e, cmd_revision P m f env = Err e -> step_revision P m f env = P).

(* (P) the u32 corner, formerly a refutation: at version 4294967295 revision refuses instead of reusing the version *)
Theorem C13_revision_saturation_refused :
  max_version P_saturated = u32_max
  /\ cmd_revision P_saturated "big" [] env0 = Ok RevRefusedVersion
  /\ cmd_revision P_saturated "other" [] env0 = Ok RevRefusedVersion
  /\ step_revision P_saturated "big" [] env0 = P_saturated.
Proof. exact revision_saturation_refused. Qed.
Print Assumptions C13_revision_saturation_refused.
Check C13_revision_saturation_refused :
  max_version P_saturated = u32_max
  /\ cmd_revision P_saturated "big" [] env0 = Ok RevRefusedVersion
  /\ cmd_revision P_saturated "other" [] env0 = Ok RevRefusedVersion
  /\ step_revision P_saturated "big" [] env0 = P_saturated.

(* (P) a pattern without a version placeholder, formerly a refutation: the same comment again is refused, another one is written *)
Theorem C13_filename_pattern_refused :
  cmd_revision P_same_name "same" [] env0 = Ok RevRefusedExists
  /\ step_revision P_same_name "same" [] env0 = P_same_name
  /\ exists p, cmd_revision P_same_name "other" [] env0 = Ok (RevWrote "other.vespertide.json" p) /\ p_version p = 2%N.
Proof. exact filename_pattern_refused. Qed.
Print Assumptions C13_filename_pattern_refused.
Check C13_filename_pattern_refused :
  cmd_revision P_same_name "same" [] env0 = Ok RevRefusedExists
  /\ step_revision P_same_name "same" [] env0 = P_same_name
  /\ exists p, cmd_revision P_same_name "other" [] env0 = Ok (RevWrote "other.vespertide.json" p) /\ p_version p = 2%N.

(* ------------------------------------------------------------------ (P) file names under the default pattern *)
Theorem C13_filename_fresh : forall v v' c c' f f',
  v <> v' ->
  migration_filename v c f default_pattern <> migration_filename v' c' f' default_pattern.
Proof. exact filename_fresh. Qed.
Print Assumptions C13_filename_fresh.
Check C13_filename_fresh : forall v v' c c' f f',
  v <> v' ->
  migration_filename v c f default_pattern <> migration_filename v' c' f' default_pattern.

Example C13_filename_fresh_nonvacuous :
  migration_filename 7 (Some "12 Add_users.") FJson default_pattern = "0007_12_add_users.vespertide.json"
  /\ migration_filename 12345 None FYml default_pattern = "12345.vespertide.yml".
Proof. split; vm_compute; reflexivity. Qed.

(* (P) hence with the default pattern (names given by the tool) the file-exists refusal never fires *)
Theorem C13_default_pattern_never_refused : forall P m f env,
  cf_pattern (pj_config P) = default_pattern ->
  tool_named P ->
  cmd_revision P m f env <> Ok RevRefusedExists.
Proof. exact default_pattern_never_refused. Qed.
Print Assumptions C13_default_pattern_never_refused.
Check C13_default_pattern_never_refused : forall P m f env,
  cf_pattern (pj_config P) = default_pattern ->
  (forall n q, In (n, q) (pj_migrations P) ->
     exists fmt, n = migration_filename (p_version q) (p_comment q) fmt default_pattern) ->
  cmd_revision P m f env <> Ok RevRefusedExists.

Example C13_default_pattern_nonvacuous :
  cf_pattern (pj_config P_nullable) = default_pattern /\ tool_named P_nullable.
Proof.
  split; [reflexivity|]. intros n q [H|[]]. inversion H; subst. exists FJson. vm_compute. reflexivity.
Qed.

(* ------------------------------------------------------------------ (P) what revision writes can be loaded again (446c8b4, 06565a6) *)
(* for every project, message, --fill-with list and environment (no hypothesis excluding bad fill values any more):
   the written plan passes the validation the loader applies, and lacks no fill value *)
Theorem C13_revision_output_loadable : forall P m f env file p,
  cmd_revision P m f env = Ok (RevWrote file p) ->
  validate_migration_plan p = Ok tt
  /\ (forall a, In a (p_actions p) -> unfilled a = false).
Proof. exact revision_output_loadable. Qed.
Print Assumptions C13_revision_output_loadable.
Check C13_revision_output_loadable : forall P m f env file p,
  cmd_revision P m f env = Ok (RevWrote file p) ->
  validate_migration_plan p = Ok tt
  /\ (forall a, In a (p_actions p) -> unfilled a = false).

(* non-vacuity: the old D6 witness gets the default as fill value, and every view works afterwards *)
Example C13_revision_output_loadable_nonvacuous :
  exists file p,
    cmd_revision P_defaulted "tighten" [] env0 = Ok (RevWrote file p)
    /\ p_actions p = [ModifyColumnNullable "user" "email" false (Some "'x'")]
    /\ cmd_diff (step_revision P_defaulted "tighten" [] env0) = Ok DiffNone
    /\ cmd_status (step_revision P_defaulted "tighten" [] env0) = Ok StSync.
Proof. do 2 eexists. split; [vm_compute; reflexivity|]. repeat split; vm_compute; reflexivity. Qed.

(* (P) and the extended history stays loadable, so log keeps showing what the runtime runs *)
Theorem C13_revision_keeps_history_loadable : forall P m f env file p,
  cmd_revision P m f env = Ok (RevWrote file p) ->
  validate_files (pj_migrations (step_revision P m f env)) = Ok tt
  /\ exists plans, load_migrations (step_revision P m f env) = Ok plans.
Proof. exact revision_keeps_history_loadable. Qed.
Print Assumptions C13_revision_keeps_history_loadable.
Check C13_revision_keeps_history_loadable : forall P m f env file p,
  cmd_revision P m f env = Ok (RevWrote file p) ->
  validate_files (pj_migrations (step_revision P m f env)) = Ok tt
  /\ exists plans, load_migrations (step_revision P m f env) = Ok plans.

(* (P) the refusal added by 06565a6 only ever concerns an enum value, and leaves the project as it is *)
Theorem C13_revision_refuses_invalid_plan : forall P m f env e,
  cmd_revision P m f env = Ok (RevRefusedInvalid e) ->
  (exists t c x, e = VInvalidEnumDefault t c x)
  /\ step_revision P m f env = P.
Proof. exact revision_refuses_invalid_plan. Qed.
Print Assumptions C13_revision_refuses_invalid_plan.
Check C13_revision_refuses_invalid_plan : forall P m f env e,
  cmd_revision P m f env = Ok (RevRefusedInvalid e) ->
  (exists t c x, e = VInvalidEnumDefault t c x)
  /\ step_revision P m f env = P.

(* (P) formerly refuted: `--fill-with user.st=zzz` for a new enum column is refused, a label is accepted *)
Theorem C13_revision_enum_fill_refused :
  cmd_revision P_enum "second" ["user.st=zzz"] env0 = Ok (RevRefusedInvalid (VInvalidEnumDefault "user" "st" "zzz"))
  /\ step_revision P_enum "second" ["user.st=zzz"] env0 = P_enum
  /\ exists p, cmd_revision P_enum "second" ["user.st='b'"] env0 = Ok (RevWrote "0002_second.vespertide.json" p)
               /\ p_actions p = [AddColumn "user" ecol (Some "'b'")].
Proof. exact revision_enum_fill_refused. Qed.
Print Assumptions C13_revision_enum_fill_refused.
Check C13_revision_enum_fill_refused :
  cmd_revision P_enum "second" ["user.st=zzz"] env0 = Ok (RevRefusedInvalid (VInvalidEnumDefault "user" "st" "zzz"))
  /\ step_revision P_enum "second" ["user.st=zzz"] env0 = P_enum
  /\ exists p, cmd_revision P_enum "second" ["user.st='b'"] env0 = Ok (RevWrote "0002_second.vespertide.json" p)
               /\ p_actions p = [AddColumn "user" ecol (Some "'b'")].
