(* C20 — export output depends only on the current models, with no residue.
   Pinned statements only: each theorem is closed by [exact] of a lemma proved in Proofs/.
   (P) proved for every starting tree and every model list.  The four former (R) refutations (path collision, mod.json,
   dotted stem, sanitised directory) were repaired in /repo (350766d, 18ab122) and are positive statements now; their
   witnesses are replayed on the real binary by checks/c20.py (corpus/cli/c20_*.json) and must pass.
   "generated files" = files with the ORM's extension (.rs for SeaORM, .py for the Python ORMs). *)
From VV.CLI Require Import ExportTree ExportP ExportReachP DirsP.

(* (P) the generated files after an export are the same whatever the directory held before;
   with t2 = [] : the same as an export into an empty directory *)
Theorem C20_export_canonical : forall o ms t1 t2 r1 r2,
  export o ms t1 = Ok r1 -> export o ms t2 = Ok r2 ->
  forall p, path_has_ext (orm_ext o) p = true -> file_at p r1 = file_at p r2.
Proof. exact export_canonical. Qed.
Print Assumptions C20_export_canonical.
Check C20_export_canonical : forall o ms t1 t2 r1 r2,
  export o ms t1 = Ok r1 -> export o ms t2 = Ok r2 ->
  forall p, path_has_ext (orm_ext o) p = true -> file_at p r1 = file_at p r2.

Definition ex_models : list emodel :=
  [mkEModel [] "user.json" (tbl "user") true; mkEModel ["sub"; "deep"] "post.vespertide.yaml" (tbl "post") true].
Definition ex_dirty : dir :=
  [("old.rs", NFile [LOther "stale"]); ("keep.txt", NFile [LOther "k"]);
   ("gone", NDir [("mod.rs", NFile [LDecl "z"]); ("e", NDir [])]);
   ("sub", NDir [("mod.rs", NFile [LDecl "removed"]); ("removed.rs", NFile [LOther "stale"])]);
   ("stay", NDir [("n.py", NFile [LOther "py"])])].

(* non-vacuity: both runs succeed; the dirty directory keeps its foreign files and loses the stale ones *)
Example C20_export_canonical_nonvacuous :
  exists r1 r2, export SeaOrm ex_models ex_dirty = Ok r1 /\ export SeaOrm ex_models [] = Ok r2
    /\ file_at ["sub"; "deep"; "post.rs"] r1 = Some [LEntity "post"]
    /\ file_at ["sub"; "mod.rs"] r1 = Some [LDecl "deep"]
    /\ file_at ["old.rs"] r1 = None /\ file_at ["sub"; "removed.rs"] r1 = None /\ lookup ["gone"] r1 = None
    /\ file_at ["keep.txt"] r1 = Some [LOther "k"] /\ file_at ["stay"; "n.py"] r1 = Some [LOther "py"].
Proof. do 2 eexists. split; [vm_compute; reflexivity|]. split; [vm_compute; reflexivity|]. repeat split; vm_compute; reflexivity. Qed.

(* (P) exporting again without changing the models changes no generated file *)
Theorem C20_export_idempotent : forall o ms t r1 r2,
  export o ms t = Ok r1 -> export o ms r1 = Ok r2 ->
  forall p, path_has_ext (orm_ext o) p = true -> file_at p r2 = file_at p r1.
Proof. exact export_idempotent. Qed.
Print Assumptions C20_export_idempotent.
Check C20_export_idempotent : forall o ms t r1 r2,
  export o ms t = Ok r1 -> export o ms r1 = Ok r2 ->
  forall p, path_has_ext (orm_ext o) p = true -> file_at p r2 = file_at p r1.

Example C20_export_idempotent_nonvacuous :
  exists r1 r2, export SeaOrm ex_models ex_dirty = Ok r1 /\ export SeaOrm ex_models r1 = Ok r2 /\ same_tree r1 r2 = true.
Proof. do 2 eexists. split; [vm_compute; reflexivity|]. split; vm_compute; reflexivity. Qed.

(* (P) exactly one entity file per model, holding its rendering, placed as the model file is laid out (names sanitised);
   a successful export implies there was no collision (fix 18ab122) *)
Theorem C20_export_entities_exact : forall o ms t r,
  export o ms t = Ok r ->
  no_collision o ms = true
  /\ forall m, In m ms -> file_at (out_path o m) r = Some (entity_content m).
Proof. exact export_entities_exact. Qed.
Print Assumptions C20_export_entities_exact.
Check C20_export_entities_exact : forall o ms t r,
  export o ms t = Ok r ->
  no_collision o ms = true
  /\ forall m, In m ms -> file_at (out_path o m) r = Some [LEntity (t_name (em_table m))].

Example C20_no_collision_nonvacuous :
  no_collision SeaOrm ex_models = true /\ no_collision SqlAlchemy ex_models = true
  /\ map (out_path SqlModel) ex_models = [["user.py"]; ["sub"; "deep"; "post.py"]].
Proof. repeat split; vm_compute; reflexivity. Qed.

(* (P) the collision case is an explicit refusal, decided before the directory is cleaned or written *)
Theorem C20_export_collision_refused : forall o ms t,
  forallb normalize_ok ms = true ->
  (no_collision o ms = false <-> export o ms t = Err XCollision).
Proof. exact export_collision_refused. Qed.
Print Assumptions C20_export_collision_refused.
Check C20_export_collision_refused : forall o ms t,
  forallb normalize_ok ms = true ->
  (no_collision o ms = false <-> export o ms t = Err XCollision).

(* (P) no residue: every generated file left is the entity of a current model or a module index *)
Theorem C20_export_no_residue : forall o ms t r,
  export o ms t = Ok r ->
  forall p c, path_has_ext (orm_ext o) p = true -> file_at p r = Some c ->
    (exists m, In m ms /\ p = out_path o m) \/ (o = SeaOrm /\ last p "" = "mod.rs").
Proof. exact export_no_residue. Qed.
Print Assumptions C20_export_no_residue.
Check C20_export_no_residue : forall o ms t r,
  export o ms t = Ok r ->
  forall p c, path_has_ext (orm_ext o) p = true -> file_at p r = Some c ->
    (exists m, In m ms /\ p = out_path o m) \/ (o = SeaOrm /\ last p "" = "mod.rs").

(* (P) directories are minimal: no directory below the root is left without a file beneath it (the cleaner removes
   a sub-directory iff it is empty after its own recursion; every directory the export creates receives a file) *)
Theorem C20_dirs_minimal : forall o ms t r,
  export o ms t = Ok r ->
  forall p, p <> [] -> is_dir_at p r = true -> exists q c, file_at (p ++ q) r = Some c.
Proof. exact dirs_minimal. Qed.
Print Assumptions C20_dirs_minimal.
Check C20_dirs_minimal : forall o ms t r,
  export o ms t = Ok r ->
  forall p, p <> [] -> is_dir_at p r = true -> exists q c, file_at (p ++ q) r = Some c.

(* a Python export into the dirty directory: `stay` held only a .py file and goes, `gone` keeps its .rs file but loses
   its empty sub-directory `e`, `sub/deep` is created for the entity *)
Example C20_dirs_minimal_nonvacuous :
  exists r, export SqlAlchemy ex_models ex_dirty = Ok r
    /\ is_dir_at ["sub"; "deep"] r = true
    /\ lookup ["stay"] r = None
    /\ lookup ["gone"] r = Some (NDir [("mod.rs", NFile [LDecl "z"])]).
Proof. eexists. split; [vm_compute; reflexivity|]. repeat split; vm_compute; reflexivity. Qed.

(* (P) SeaORM: the `pub mod` chain reaches every entity (fix 350766d: chain and entity path are the same function of
   the model path; the only side condition is that no path component is empty after sanitising) *)
Theorem C20_mod_chain_reaches_all : forall ms t r,
  export SeaOrm ms t = Ok r ->
  forall m, In m ms -> path_names_nonempty m = true -> entity_reachable m r = true.
Proof. exact mod_chain_reaches_all. Qed.
Print Assumptions C20_mod_chain_reaches_all.
Check C20_mod_chain_reaches_all : forall ms t r,
  export SeaOrm ms t = Ok r ->
  forall m, In m ms -> path_names_nonempty m = true -> entity_reachable m r = true.

Example C20_mod_chain_nonvacuous :
  forallb path_names_nonempty ex_models = true
  /\ exists r, export SeaOrm ex_models ex_dirty = Ok r /\ forallb (fun m => entity_reachable m r) ex_models = true.
Proof. split; [vm_compute; reflexivity|]. eexists. split; vm_compute; reflexivity. Qed.

(* (P) formerly refuted: a '.' in the file stem *)
Theorem C20_mod_chain_dotted_stem_reached :
  exists m r,
    export SeaOrm [m] [] = Ok r /\ em_file m = "a.b.json"
    /\ entity_reachable m r = true
    /\ flat r = [(["a_b.rs"], KFile [LEntity "ab"]); (["mod.rs"], KFile [LDecl "a_b"])].
Proof. exact mod_chain_dotted_stem_reached. Qed.
Print Assumptions C20_mod_chain_dotted_stem_reached.
Check C20_mod_chain_dotted_stem_reached :
  exists m r,
    export SeaOrm [m] [] = Ok r /\ em_file m = "a.b.json"
    /\ entity_reachable m r = true
    /\ flat r = [(["a_b.rs"], KFile [LEntity "ab"]); (["mod.rs"], KFile [LDecl "a_b"])].

(* (P) formerly refuted: a directory name that sanitize_filename changes *)
Theorem C20_mod_chain_spaced_dir_reached :
  exists m r,
    export SeaOrm [m] [] = Ok r /\ em_dirs m = ["my dir"]
    /\ entity_reachable m r = true
    /\ file_at ["my_dir"; "x.rs"] r = Some [LEntity "x"]
    /\ file_at ["my_dir"; "mod.rs"] r = Some [LDecl "x"]
    /\ file_at ["mod.rs"] r = Some [LDecl "my_dir"]
    /\ lookup ["my dir"] r = None.
Proof. exact mod_chain_spaced_dir_reached. Qed.
Print Assumptions C20_mod_chain_spaced_dir_reached.
Check C20_mod_chain_spaced_dir_reached :
  exists m r,
    export SeaOrm [m] [] = Ok r /\ em_dirs m = ["my dir"]
    /\ entity_reachable m r = true
    /\ file_at ["my_dir"; "x.rs"] r = Some [LEntity "x"]
    /\ file_at ["my_dir"; "mod.rs"] r = Some [LDecl "x"]
    /\ file_at ["mod.rs"] r = Some [LDecl "my_dir"]
    /\ lookup ["my dir"] r = None.

(* (P) formerly refuted: `a b.json` / `a_b.json` collide: refused for every ORM and every starting tree *)
Theorem C20_export_collision_refused_witness : forall o t,
  export o [mkEModel [] "a b.json" (tbl "first") true; mkEModel [] "a_b.json" (tbl "second") true] t = Err XCollision.
Proof. exact export_collision_refused_witness. Qed.
Print Assumptions C20_export_collision_refused_witness.
Check C20_export_collision_refused_witness : forall o t,
  export o [mkEModel [] "a b.json" (tbl "first") true; mkEModel [] "a_b.json" (tbl "second") true] t = Err XCollision.

(* (P) formerly refuted: `mod.json` is refused by a SeaORM export (and harmless for the Python ORMs) *)
Theorem C20_export_mod_stem_refused_witness :
  (forall t, export SeaOrm [mkEModel [] "mod.json" (tbl "mod") true; mkEModel [] "user.json" (tbl "user") true] t = Err XCollision)
  /\ exists r, export SqlAlchemy [mkEModel [] "mod.json" (tbl "mod") true; mkEModel [] "user.json" (tbl "user") true] [] = Ok r
               /\ flat r = [(["mod.py"], KFile [LEntity "mod"]); (["user.py"], KFile [LEntity "user"])].
Proof. exact export_mod_stem_refused_witness. Qed.
Print Assumptions C20_export_mod_stem_refused_witness.
Check C20_export_mod_stem_refused_witness :
  (forall t, export SeaOrm [mkEModel [] "mod.json" (tbl "mod") true; mkEModel [] "user.json" (tbl "user") true] t = Err XCollision)
  /\ exists r, export SqlAlchemy [mkEModel [] "mod.json" (tbl "mod") true; mkEModel [] "user.json" (tbl "user") true] [] = Ok r
               /\ flat r = [(["mod.py"], KFile [LEntity "mod"]); (["user.py"], KFile [LEntity "user"])].
