(* C14 at the CLI level — a table prefix renames tables and nothing else: with prefix p, what `vespertide sql` and
   `vespertide log` hand to the SQL generator (pending plan / stored plans, version, baseline) is what they hand to it for
   the literally renamed project (every table name, foreign-key target and inline foreign_key of the models and of the
   stored migrations prefixed by hand) with an empty prefix.  Stated after the loaders ([sql_core], [incr_walk]); the
   loaders' accept/reject behaviour on the renamed project and the generator itself are tied on the real binary by
   checks/clirun.py:c14_part (sql / log of both projects, three backends, byte-equal stdout).
   Side conditions = those of layer m1's equivariance theorems (VV.M1.PrefixApplyP, PrefixDiffP, PrefixP).
   Pinned statements only. *)
From VV.M1 Require Import Oracles PrefixHyp PrefixP PrefixApplyP.
From VV.CLI Require Import Project PrefixCliP.

Theorem C14_sql_prefix_is_literal_renaming : forall p models plans,
  p <> "" -> no_dot p ->
  forallb (fun pl => forallb inline_fks_parse (p_actions pl)) plans = true ->
  side_all p [] (flat_map p_actions plans) = true ->
  (forall b acts, replay plans = Ok b -> diff_actions b models = Ok acts -> forallb inline_fks_parse acts = true) ->
  sql_core "" (literal_schema p models) (map (literal_plan p) plans)
  = match sql_core p models plans with Ok o => Ok o | Err e => Err (literal_cli_error p e) end.
Proof. exact sql_prefix_is_literal_renaming. Qed.
Print Assumptions C14_sql_prefix_is_literal_renaming.
Check C14_sql_prefix_is_literal_renaming : forall p models plans,
  p <> "" -> no_dot p ->
  forallb (fun pl => forallb inline_fks_parse (p_actions pl)) plans = true ->
  side_all p [] (flat_map p_actions plans) = true ->
  (forall b acts, replay plans = Ok b -> diff_actions b models = Ok acts -> forallb inline_fks_parse acts = true) ->
  sql_core "" (literal_schema p models) (map (literal_plan p) plans)
  = match sql_core p models plans with
    | Ok o => Ok o
    | Err e => Err (match e with EBaseline x => EBaseline (literal_perr p x) | other => other end)
    end.

(* non-vacuity: users / posts with a foreign key, prefix app_, a pending rebuild-forcing change on the FK-carrying table *)
Definition c14_users : table_def :=
  mkTable "users" None [mkCol "id" (TSimple Integer) false None None (Some (PKBool true)) None None None] [].
Definition c14_posts (slug_unique : option str_or_bool_or_array) : table_def :=
  mkTable "posts" None
    [mkCol "id" (TSimple Integer) false None None (Some (PKBool true)) None None None;
     mkCol "user_id" (TSimple Integer) false None None None None None (Some (FKStr "users.id"));
     mkCol "slug" (TSimple Text) false None None None slug_unique None None] [].
Definition c14_history : list plan :=
  [mkPlan "id-1" (Some "init") None 1
     [CreateTable "users" (t_columns c14_users) []; CreateTable "posts" (t_columns (c14_posts (Some (SBool true)))) []]].

Example C14_sql_prefix_nonvacuous :
  no_dot "app_"
  /\ forallb (fun pl => forallb inline_fks_parse (p_actions pl)) c14_history = true
  /\ side_all "app_" [] (flat_map p_actions c14_history) = true
  /\ exists b, sql_core "app_" [c14_users; c14_posts None] c14_history
               = Ok (SqlRender 2 [RemoveConstraint "app_posts" (CUnique None ["slug"])] b)
     /\ map t_name b = ["app_users"; "app_posts"]
     /\ existsb (fun k => match k with CForeignKey _ _ "app_users" _ _ _ => true | _ => false end)
                (flat_map t_constraints b) = true.
Proof.
  split; [vm_compute; reflexivity|]. split; [vm_compute; reflexivity|]. split; [vm_compute; reflexivity|].
  eexists. split; [vm_compute; reflexivity|]. split; vm_compute; reflexivity.
Qed.

Theorem C14_log_prefix_is_literal_renaming : forall p plans,
  p <> "" ->
  forallb (fun pl => forallb inline_fks_parse (p_actions pl)) plans = true ->
  incr_walk [] (map (plan_with_prefix p) plans)
  = incr_walk [] (map (plan_with_prefix "") (map (literal_plan p) plans)).
Proof. exact log_prefix_is_literal_renaming. Qed.
Print Assumptions C14_log_prefix_is_literal_renaming.
Check C14_log_prefix_is_literal_renaming : forall p plans,
  p <> "" ->
  forallb (fun pl => forallb inline_fks_parse (p_actions pl)) plans = true ->
  incr_walk [] (map (plan_with_prefix p) plans)
  = incr_walk [] (map (plan_with_prefix "") (map (literal_plan p) plans)).
