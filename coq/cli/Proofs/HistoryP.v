(* Proofs about `revision` and the stored history: the new version is 1 + the maximum (saturating
   at u32::MAX), an existing file is touched only when the new file name equals its name, and with
   the default pattern that never happens below the saturation point. *)
From VV.CLI Require Import Project NamingP.
From Coq Require Import Lia.

Local Open Scope N_scope.

(* ------------------------------------------------------------------ maximum of a list *)
Lemma fold_max_ge_acc : forall l a, a <= fold_left N.max l a.
Proof. induction l as [|x l IH]; intros a; cbn [fold_left]; [lia|]. specialize (IH (N.max a x)). lia. Qed.

Lemma fold_max_ge_in : forall l a v, In v l -> v <= fold_left N.max l a.
Proof.
  induction l as [|x l IH]; intros a v Hin; [contradiction|].
  cbn [fold_left]. destruct Hin as [->|Hin].
  - pose proof (fold_max_ge_acc l (N.max a v)). lia.
  - apply IH. exact Hin.
Qed.

Lemma fold_max_acc_swap : forall l a b, fold_left N.max l (N.max a b) = N.max (fold_left N.max l a) b.
Proof.
  induction l as [|x l IH]; intros a b; cbn [fold_left]; [reflexivity|].
  replace (N.max (N.max a b) x) with (N.max (N.max a x) b) by lia. apply IH.
Qed.

Lemma fold_max_insert : forall (le : plan -> plan -> bool) x l a,
  fold_left N.max (map p_version (insert_le le x l)) a = fold_left N.max (map p_version (x :: l)) a.
Proof.
  intros le x. induction l as [|y r IH]; intros a; [reflexivity|].
  cbn [insert_le]. destruct (le x y); [reflexivity|].
  cbn [map fold_left]. rewrite IH. cbn [map fold_left].
  replace (N.max (N.max a (p_version y)) (p_version x)) with (N.max (N.max a (p_version x)) (p_version y)) by lia.
  reflexivity.
Qed.

Lemma fold_max_sort : forall l a,
  fold_left N.max (map p_version (sort_plans l)) a = fold_left N.max (map p_version l) a.
Proof.
  unfold sort_plans, sort_le. induction l as [|x r IH]; intros a; [reflexivity|].
  cbn [fold_right]. rewrite fold_max_insert. cbn [map fold_left]. apply IH.
Qed.

Lemma versions_map : forall P, versions P = map p_version (map snd (pj_migrations P)).
Proof. intros P. unfold versions. rewrite map_map. reflexivity. Qed.

Lemma next_version_loaded : forall P plans,
  load_migrations P = Ok plans -> next_version plans = N.min u32_max (max_version P + 1).
Proof.
  intros P plans H. unfold load_migrations in H.
  destruct (validate_files (pj_migrations P)); [|discriminate H]. inversion H; subst plans.
  unfold next_version, max_version. rewrite fold_max_sort, versions_map. reflexivity.
Qed.

(* ------------------------------------------------------------------ what revision writes *)
Lemma revision_wrote : forall P m f env file p,
  cmd_revision P m f env = Ok (RevWrote file p) ->
  exists plans, load_migrations P = Ok plans
    /\ p_version p = next_version plans
    /\ p_comment p = Some m
    /\ file = migration_filename (p_version p) (Some m) (cf_migration_format (pj_config P)) (cf_pattern (pj_config P)).
Proof.
  intros P m f env file p. unfold cmd_revision.
  destruct (load_models P) as [models|e]; [|intros H; discriminate H].
  destruct (load_migrations P) as [plans|e]; [|intros H; discriminate H].
  unfold plan_next.
  destruct (replay plans) as [baseline|e]; [|intros H; discriminate H].
  destruct (diff_actions baseline models) as [acts|e]; [|intros H; discriminate H].
  cbn [p_actions p_version].
  destruct (is_nil acts); [intros H; discriminate H|].
  destruct (refuses acts); [intros H; discriminate H|].
  set (fv := parse_fill_with_args f). set (a0 := map (apply_fill fv) acts).
  destruct (collect_fills a0 baseline) as [|mi mr].
  - destruct (find_missing_enum_fill_with (mkPlan "" None None 0 a0) baseline) as [|ei er].
    + intros H. inversion H; subst. exists plans. repeat split; reflexivity.
    + destruct (re_tty env); [|intros H; discriminate H].
      intros H. inversion H; subst. exists plans. repeat split; reflexivity.
  - destruct (re_tty env); [|intros H; discriminate H].
    set (a1 := map (apply_fill (fv ++ mi :: mr)) a0).
    destruct (find_missing_enum_fill_with (mkPlan "" None None 0 a1) baseline) as [|ei er];
      intros H; inversion H; subst; exists plans; repeat split; reflexivity.
Qed.

Lemma write_file_fresh : forall name p fs,
  ~ In name (map fst fs) -> write_file name p fs = fs ++ [(name, p)].
Proof.
  induction fs as [|[n q] r IH]; intros Hn; [reflexivity|].
  cbn [write_file]. cbn [map fst In] in Hn.
  destruct (String.eqb n name) eqn:He.
  - apply String.eqb_eq in He. exfalso. apply Hn. left. exact He.
  - cbn [app]. rewrite IH; [reflexivity|]. intros Hin. apply Hn. right. exact Hin.
Qed.

Lemma write_file_keeps_others : forall name p fs n q,
  In (n, q) fs -> n <> name -> In (n, q) (write_file name p fs).
Proof.
  induction fs as [|[n0 q0] r IH]; intros n q Hin Hne; [contradiction|].
  cbn [write_file]. destruct (String.eqb n0 name) eqn:He.
  - apply String.eqb_eq in He. destruct Hin as [Heq|Hin].
    + inversion Heq; subst. contradiction.
    + right. exact Hin.
  - destruct Hin as [Heq|Hin]; [left; exact Heq|right; apply IH; assumption].
Qed.

Theorem revision_append_only : forall P m f env file p,
  cmd_revision P m f env = Ok (RevWrote file p) ->
  p_version p = N.min u32_max (max_version P + 1)
  /\ (max_version P < u32_max ->
        p_version p = max_version P + 1 /\ forall v, In v (versions P) -> v < p_version p)
  /\ (~ In file (file_names P) ->
        pj_migrations (step_revision P m f env) = pj_migrations P ++ [(file, p)])
  /\ (forall n q, In (n, q) (pj_migrations P) -> n <> file ->
        In (n, q) (pj_migrations (step_revision P m f env))).
Proof.
  intros P m f env file p H.
  destruct (revision_wrote _ _ _ _ _ _ H) as [plans [Hl [Hv _]]].
  rewrite (next_version_loaded _ _ Hl) in Hv.
  split; [exact Hv|]. split.
  - intros Hlt. assert (Hpv : p_version p = max_version P + 1) by (rewrite Hv; lia).
    split; [exact Hpv|]. intros v Hin. rewrite Hpv.
    pose proof (fold_max_ge_in (versions P) 0 v Hin) as Hle. unfold max_version. lia.
  - unfold step_revision. rewrite H. cbn [project_after pj_migrations]. split.
    + intros Hn. apply write_file_fresh. exact Hn.
    + intros n q Hin Hne. apply write_file_keeps_others; assumption.
Qed.

(* ------------------------------------------------------------------ default pattern: never an overwrite *)
(* every stored file carries the name the tool gives to its (version, comment) under the default pattern *)
Definition tool_named (P : project) : Prop :=
  forall n q, In (n, q) (pj_migrations P) ->
    exists fmt, n = migration_filename (p_version q) (p_comment q) fmt default_pattern.

Theorem revision_never_overwrites : forall P m f env file p,
  cf_pattern (pj_config P) = default_pattern ->
  tool_named P ->
  max_version P < u32_max ->
  cmd_revision P m f env = Ok (RevWrote file p) ->
  ~ In file (file_names P)
  /\ pj_migrations (step_revision P m f env) = pj_migrations P ++ [(file, p)].
Proof.
  intros P m f env file p Hpat Hnamed Hlt H.
  destruct (revision_append_only _ _ _ _ _ _ H) as [_ [Hfresh [Happ _]]].
  destruct (Hfresh Hlt) as [_ Hgt].
  destruct (revision_wrote _ _ _ _ _ _ H) as [plans [_ [_ [_ Hname]]]].
  assert (Hnot : ~ In file (file_names P)).
  { unfold file_names. intros Hin. apply in_map_iff in Hin. destruct Hin as [[n q] [Hn Hin]]. cbn [fst] in Hn. subst n.
    destruct (Hnamed _ _ Hin) as [fmt Hq].
    assert (Hvq : In (p_version q) (versions P)).
    { unfold versions. apply in_map_iff. exists (file, q). split; [reflexivity|exact Hin]. }
    specialize (Hgt _ Hvq).
    rewrite Hpat in Hname. rewrite Hname in Hq.
    apply filename_fresh in Hq; [exact Hq|]. lia. }
  split; [exact Hnot|]. apply Happ. exact Hnot.
Qed.

(* ------------------------------------------------------------------ refutations (closed by computation) *)
Definition cfg_pattern (pat : string) : config := mkConfig "models" "migrations" FJson FJson pat "src/models" "".
Definition kcol (n : string) : column_def := mkCol n (TSimple Integer) false None None (Some (PKBool true)) None None None.
Definition ncol (n : string) : column_def := mkCol n (TSimple Text) true None None None None None None.
Definition env0 : rev_env := mkEnv false "uuid" "now".

(* a pattern without a version placeholder: the same comment twice gives the same file *)
Definition P_same_name : project :=
  mkProject (cfg_pattern "%m") [("user.json", mkTable "user" None [kcol "id"; ncol "email"] [])]
            [("same.vespertide.json", mkPlan "id-1" (Some "same") None 1 [CreateTable "user" [kcol "id"] []])].

Theorem filename_pattern_refuted :
  exists P m f env file p,
    cmd_revision P m f env = Ok (RevWrote file p)
    /\ In file (file_names P)
    /\ p_version p = 2
    /\ pj_migrations (step_revision P m f env) = [(file, p)].     (* the first migration is gone *)
Proof.
  exists P_same_name, "same", [], env0. do 2 eexists.
  split; [vm_compute; reflexivity|]. split; [left; reflexivity|]. split; vm_compute; reflexivity.
Qed.

(* the u32 corner: at version 4294967295 saturating_add returns the same version again *)
Definition P_saturated : project :=
  mkProject default_config [("user.json", mkTable "user" None [kcol "id"; ncol "email"] [])]
            [("4294967295_big.vespertide.json", mkPlan "id-1" (Some "big") None 4294967295 [CreateTable "user" [kcol "id"] []])].

Theorem revision_saturation_refuted :
  exists P m f env file p,
    cmd_revision P m f env = Ok (RevWrote file p)
    /\ max_version P = u32_max
    /\ In (p_version p) (versions P)            (* the "new" version is an old one *)
    /\ In file (file_names P).                  (* and with the same comment the old file is overwritten *)
Proof.
  exists P_saturated, "big", [], env0. do 2 eexists.
  split; [vm_compute; reflexivity|]. split; [reflexivity|]. split; left; reflexivity.
Qed.

(* D6: nullable -> NOT NULL on a column that has a default: nothing is asked (find_missing_fill_with skips
   defaulted columns), the plan is written without fill_with, and the loader's validate_migration_plan
   rejects that very file from then on: every command fails *)
Definition dcol (nullable : bool) : column_def :=
  mkCol "email" (TSimple Text) nullable (Some (DStr "'x'")) None None None None None.
Definition P_defaulted : project :=
  mkProject default_config [("user.json", mkTable "user" None [kcol "id"; dcol false] [])]
            [("0001_init.vespertide.json", mkPlan "id-1" (Some "init") None 1 [CreateTable "user" [kcol "id"; dcol true] []])].

Theorem revision_output_loadable_refuted :
  exists P m f env file p,
    cmd_revision P m f env = Ok (RevWrote file p)
    /\ p_actions p = [ModifyColumnNullable "user" "email" false None]
    /\ cmd_diff (step_revision P m f env) = Err (ELoadMigration file (VMissingFillWith "user" "email"))
    /\ cmd_status (step_revision P m f env) = Err (ELoadMigration file (VMissingFillWith "user" "email"))
    /\ cmd_log (step_revision P m f env) = Err (ELoadMigration file (VMissingFillWith "user" "email")).
Proof.
  exists P_defaulted, "tighten", [], env0. do 2 eexists.
  split; [vm_compute; reflexivity|]. split; [reflexivity|]. split; [|split]; vm_compute; reflexivity.
Qed.
