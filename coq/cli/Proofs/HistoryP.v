(* Proofs about `revision` and the stored history: the new version is 1 + the maximum (saturating
   at u32::MAX), an existing file is touched only when the new file name equals its name, and with
   the default pattern that never happens below the saturation point. *)
From VV.CLI Require Import Project NamingP.
From Coq Require Import Lia.

Local Open Scope N_scope.

(* ------------------------------------------------------------------ maximum of a list *)
Lemma fold_max_ge_acc : forall l a, a <= fold_left N.max l a.
Proof. induction l as [|x l IH]; intros a; cbn [fold_left]; [lia|]. specialize (IH (N.max a x)). lia. Qed.

Lemma fold_max_ge_in : forall l a v, In v l -> v <= fold_left N.max l a.
Proof.
  induction l as [|x l IH]; intros a v Hin; [contradiction|].
  cbn [fold_left]. destruct Hin as [->|Hin].
  - pose proof (fold_max_ge_acc l (N.max a v)). lia.
  - apply IH. exact Hin.
Qed.

Lemma fold_max_acc_swap : forall l a b, fold_left N.max l (N.max a b) = N.max (fold_left N.max l a) b.
Proof.
  induction l as [|x l IH]; intros a b; cbn [fold_left]; [reflexivity|].
  replace (N.max (N.max a b) x) with (N.max (N.max a x) b) by lia. apply IH.
Qed.

Lemma fold_max_insert : forall (le : plan -> plan -> bool) x l a,
  fold_left N.max (map p_version (insert_le le x l)) a = fold_left N.max (map p_version (x :: l)) a.
Proof.
  intros le x. induction l as [|y r IH]; intros a; [reflexivity|].
  cbn [insert_le]. destruct (le x y); [reflexivity|].
  cbn [map fold_left]. rewrite IH. cbn [map fold_left].
  replace (N.max (N.max a (p_version y)) (p_version x)) with (N.max (N.max a (p_version x)) (p_version y)) by lia.
  reflexivity.
Qed.

Lemma fold_max_sort : forall l a,
  fold_left N.max (map p_version (sort_plans l)) a = fold_left N.max (map p_version l) a.
Proof.
  unfold sort_plans, sort_le. induction l as [|x r IH]; intros a; [reflexivity|].
  cbn [fold_right]. rewrite fold_max_insert. cbn [map fold_left]. apply IH.
Qed.

Lemma versions_map : forall P, versions P = map p_version (map snd (pj_migrations P)).
Proof. intros P. unfold versions. rewrite map_map. reflexivity. Qed.

Lemma next_version_loaded : forall P plans,
  load_migrations P = Ok plans -> next_version plans = N.min u32_max (max_version P + 1).
Proof.
  intros P plans H. unfold load_migrations in H.
  destruct (validate_files (pj_migrations P)); [|discriminate H]. inversion H; subst plans.
  unfold next_version, max_version. rewrite fold_max_sort, versions_map. reflexivity.
Qed.

(* ------------------------------------------------------------------ what revision writes *)
Lemma fold_max_in_or_acc : forall l a, fold_left N.max l a = a \/ In (fold_left N.max l a) l.
Proof.
  induction l as [|x l IH]; intros a; [left; reflexivity|].
  cbn [fold_left]. destruct (IH (N.max a x)) as [H|H].
  - rewrite H. destruct (N.max_spec a x) as [[_ ->]|[_ ->]]; [right; left; reflexivity|left; reflexivity].
  - right. right. exact H.
Qed.

Lemma in_insert_le : forall A (le : A -> A -> bool) x y l, In x l -> In x (insert_le le y l).
Proof.
  intros A le x y. induction l as [|z r IH]; intros H; [contradiction|].
  cbn [insert_le]. destruct (le y z); [right; exact H|].
  destruct H as [->|H]; [left; reflexivity|right; apply IH; exact H].
Qed.
Lemma in_insert_le_self : forall A (le : A -> A -> bool) y l, In y (insert_le le y l).
Proof.
  intros A le y. induction l as [|z r IH]; [left; reflexivity|].
  cbn [insert_le]. destruct (le y z); [left; reflexivity|right; exact IH].
Qed.
Lemma in_sort_plans : forall q l, In q l -> In q (sort_plans l).
Proof.
  unfold sort_plans, sort_le. intros q. induction l as [|x r IH]; intros H; [contradiction|].
  cbn [fold_right]. destruct H as [->|H]; [apply in_insert_le_self|apply in_insert_le, IH; exact H].
Qed.

(* ------------------------------------------------------------------ what revision writes can be loaded again *)
(* an action validate_migration_plan rejects with MissingFillWith *)
Definition unfilled (a : action) : bool :=
  match a with
  | AddColumn _ c None => (negb (c_nullable c) && is_none (c_default c))%bool
  | ModifyColumnNullable _ _ false None => true
  | _ => false
  end.
(* an action on which validate_migration_plan looks at enum values *)
Definition enum_free (a : action) : bool :=
  match a with
  | AddColumn _ c _ => match c_type c with TEnum _ _ => false | _ => true end
  | ModifyColumnType _ _ ty _ => match ty with TEnum _ _ => false | _ => true end
  | _ => true
  end.

Lemma validate_enum_value_cases : forall v vs t c,
  validate_enum_value v vs t c = Ok tt \/ exists x, validate_enum_value v vs t c = Err (VInvalidEnumDefault t c x).
Proof.
  intros v vs t c. unfold validate_enum_value. destruct (extract_enum_value v) as [x|]; [|left; reflexivity].
  destruct (mem_str x (ev_variant_names vs)); [left; reflexivity|right; eauto].
Qed.

Lemma first_err_enum_cases : forall (fw : list (string * string)) vs t c,
  first_err (fun kv => validate_enum_value (snd kv) vs t c) fw = Ok tt
  \/ exists x, first_err (fun kv => validate_enum_value (snd kv) vs t c) fw = Err (VInvalidEnumDefault t c x).
Proof.
  induction fw as [|kv r IH]; intros vs t c; [left; reflexivity|].
  cbn [first_err]. destruct (validate_enum_value_cases (snd kv) vs t c) as [H|[x H]]; rewrite H; [apply IH|right; eauto].
Qed.

Lemma validate_action_cases : forall a,
  unfilled a = false ->
  validate_action a = Ok tt
  \/ (enum_free a = false /\ exists t c x, validate_action a = Err (VInvalidEnumDefault t c x)).
Proof.
  intros a Hu. destruct a as [| |t c f| | |t c ty f|t c n f| | | | | |]; try (left; reflexivity).
  - (* AddColumn *)
    cbn [validate_action enum_free].
    assert (Hc : (negb (c_nullable c) && match c_default c with None => true | _ => false end
                  && match f with None => true | _ => false end)%bool = false).
    { cbn [unfilled] in Hu. destruct f; [rewrite Bool.andb_false_r; reflexivity|].
      unfold is_none in Hu. rewrite Bool.andb_true_r. exact Hu. }
    rewrite Hc. destruct (c_type c) as [| | | | |en vs]; try (left; reflexivity).
    unfold vseq.
    destruct f as [fv|].
    + destruct (validate_enum_value_cases fv vs t (c_name c)) as [H|[x H]]; rewrite H; [|right; split; [reflexivity|do 3 eexists; reflexivity]].
      destruct (c_default c) as [d|]; [|left; reflexivity].
      destruct (validate_enum_value_cases (default_to_sql d) vs t (c_name c)) as [H2|[x H2]]; rewrite H2; [left; reflexivity|right; split; [reflexivity|do 3 eexists; reflexivity]].
    + destruct (c_default c) as [d|]; [|left; reflexivity].
      destruct (validate_enum_value_cases (default_to_sql d) vs t (c_name c)) as [H2|[x H2]]; rewrite H2; [left; reflexivity|right; split; [reflexivity|do 3 eexists; reflexivity]].
  - (* ModifyColumnType *)
    cbn [validate_action enum_free]. destruct f as [fw|]; [|left; reflexivity].
    destruct ty as [| | | | |en vs]; try (left; reflexivity).
    destruct (first_err_enum_cases fw vs t c) as [H|[x H]]; rewrite H; [left; reflexivity|right; split; [reflexivity|do 3 eexists; reflexivity]].
  - (* ModifyColumnNullable *)
    cbn [validate_action]. cbn [unfilled] in Hu.
    destruct n; [left; reflexivity|]. destruct f; [left; reflexivity|discriminate Hu].
Qed.

Lemma validate_plan_cases : forall acts,
  (forall a, In a acts -> unfilled a = false) ->
  first_err validate_action acts = Ok tt
  \/ (exists a, In a acts /\ enum_free a = false) /\ exists t c x, first_err validate_action acts = Err (VInvalidEnumDefault t c x).
Proof.
  induction acts as [|a r IH]; intros Hu; [left; reflexivity|].
  cbn [first_err].
  destruct (validate_action_cases a (Hu a (or_introl eq_refl))) as [H|[He [t [c [x H]]]]]; rewrite H.
  - destruct (IH (fun b Hb => Hu b (or_intror Hb))) as [H2|[[b [Hb He]] H2]]; [left; exact H2|].
    right. split; [exists b; split; [right; exact Hb|exact He]|exact H2].
  - right. split; [exists a; split; [left; reflexivity|exact He]|eauto].
Qed.

(* --- the fill pipeline of cmd_revision leaves nothing unfilled --- *)
Lemma collect_has_addcolumn : forall l s t c,
  In (AddColumn t c None) l -> (negb (c_nullable c) && is_none (c_default c))%bool = true ->
  exists v, In (t, c_name c, v) (collect_fills l s).
Proof.
  induction l as [|a r IH]; intros s t c Hin Hc; [contradiction|].
  destruct Hin as [->|Hin].
  - cbn [collect_fills]. change (is_none (@None string)) with true. rewrite Bool.andb_true_r. rewrite Hc. eexists. left. reflexivity.
  - destruct (IH s t c Hin Hc) as [v Hv]. exists v.
    cbn [collect_fills]. destruct a; try exact Hv.
    + destruct (negb (c_nullable column) && is_none (c_default column) && is_none fill_with)%bool; [right; exact Hv|exact Hv].
    + destruct (negb nullable && is_none fill_with)%bool; [|exact Hv].
      destruct (lookup_col s table column) as [cc|]; [|right; exact Hv].
      destruct (is_none (c_default cc)); [right; exact Hv|exact Hv].
Qed.

Lemma collect_has_nullable : forall l s t col,
  In (ModifyColumnNullable t col false None) l ->
  (exists v, In (t, col, v) (collect_fills l s))
  \/ (exists c d, lookup_col s t col = Some c /\ c_default c = Some d).
Proof.
  induction l as [|a r IH]; intros s t col Hin; [contradiction|].
  destruct Hin as [->|Hin].
  - cbn [collect_fills negb is_none andb].
    destruct (lookup_col s t col) as [c|] eqn:Hl.
    + destruct (c_default c) as [d|] eqn:Hd; cbn [is_none].
      * right. eauto.
      * left. eexists. left. reflexivity.
    + left. eexists. left. reflexivity.
  - destruct (IH s t col Hin) as [[v Hv]|Hd]; [|right; exact Hd]. left. exists v.
    cbn [collect_fills]. destruct a; try exact Hv.
    + destruct (negb (c_nullable column) && is_none (c_default column) && is_none fill_with)%bool; [right; exact Hv|exact Hv].
    + destruct (negb nullable && is_none fill_with)%bool; [|exact Hv].
      destruct (lookup_col s table column) as [cc|]; [|right; exact Hv].
      destruct (is_none (c_default cc)); [right; exact Hv|exact Hv].
Qed.

Lemma fv_get_found : forall t c v fv m, In (t, c, v) m -> fv_get t c (fv ++ m) <> None.
Proof.
  intros t c v fv m Hin. unfold fv_get.
  destruct (find (fun e => (String.eqb (fst (fst e)) t && String.eqb (snd (fst e)) c)%bool) (rev (fv ++ m))) eqn:Hf; [discriminate|].
  exfalso. pose proof (find_none _ _ Hf (t, c, v)) as Hn.
  assert (Hi : In (t, c, v) (rev (fv ++ m))) by (rewrite <- in_rev; apply in_or_app; right; exact Hin).
  specialize (Hn Hi). cbn [fst snd] in Hn. rewrite !String.eqb_refl in Hn. discriminate Hn.
Qed.

(* fine after the prompts, or a NOT NULL change of a column that has a default in the baseline *)
Definition ok_or_defaulted (baseline : schema) (x : action) : Prop :=
  unfilled x = false
  \/ exists t col c d, x = ModifyColumnNullable t col false None /\ lookup_col baseline t col = Some c /\ c_default c = Some d.

Lemma unfilled_shape : forall a, unfilled a = true ->
  (exists t c, a = AddColumn t c None /\ (negb (c_nullable c) && is_none (c_default c))%bool = true)
  \/ (exists t col, a = ModifyColumnNullable t col false None).
Proof.
  intros a H. destruct a as [| |t c f| | |t c ty f|t c n f| | | | | |]; try discriminate H.
  - destruct f; [discriminate H|]. left. eauto.
  - destruct n; [discriminate H|]. destruct f; [discriminate H|]. right. eauto.
Qed.

Lemma no_prompt_ok : forall a0 baseline x,
  collect_fills a0 baseline = [] -> In x a0 -> ok_or_defaulted baseline x.
Proof.
  intros a0 baseline x Hc Hin. destruct (unfilled x) eqn:Hu; [|left; exact Hu].
  destruct (unfilled_shape x Hu) as [[t [c [-> Hcc]]]|[t [col ->]]].
  - destruct (collect_has_addcolumn _ baseline _ _ Hin Hcc) as [v Hv]. rewrite Hc in Hv. contradiction.
  - destruct (collect_has_nullable _ baseline _ _ Hin) as [[v Hv]|[c [d [Hl Hd]]]].
    + rewrite Hc in Hv. contradiction.
    + right. exists t, col, c, d. auto.
Qed.

Lemma prompted_ok : forall a0 baseline fv x,
  In x (map (apply_fill (fv ++ collect_fills a0 baseline)) a0) -> ok_or_defaulted baseline x.
Proof.
  intros a0 baseline fv x Hin. apply in_map_iff in Hin. destruct Hin as [y [<- Hy]].
  set (m := collect_fills a0 baseline).
  destruct (unfilled y) eqn:Hu.
  - destruct (unfilled_shape y Hu) as [[t [c [-> Hcc]]]|[t [col ->]]].
    + destruct (collect_has_addcolumn _ baseline _ _ Hy Hcc) as [v Hv].
      pose proof (fv_get_found t (c_name c) v fv m Hv) as Hf.
      left. cbn [apply_fill]. destruct (fv_get t (c_name c) (fv ++ m)); [reflexivity|contradiction].
    + destruct (collect_has_nullable _ baseline _ _ Hy) as [[v Hv]|[c [d [Hl Hd]]]].
      * pose proof (fv_get_found t col v fv m Hv) as Hf.
        left. cbn [apply_fill]. destruct (fv_get t col (fv ++ m)); [reflexivity|contradiction].
      * cbn [apply_fill]. destruct (fv_get t col (fv ++ m)); [left; reflexivity|].
        right. exists t, col, c, d. auto.
  - left. destruct y as [| |t c f| | |t c ty f|t c n f| | | | | |]; try exact Hu.
    + cbn [apply_fill]. destruct f; [exact Hu|]. destruct (fv_get t (c_name c) (fv ++ m)); [reflexivity|exact Hu].
    + cbn [apply_fill]. destruct f; [exact Hu|]. destruct (fv_get t c (fv ++ m)); [|exact Hu]. destruct n; reflexivity.
Qed.

Lemma enum_fills_keep : forall l i me x,
  In x (apply_enum_fills i l me) -> In x l \/ unfilled x = false.
Proof.
  induction l as [|a r IH]; intros i me x Hin; [contradiction|].
  cbn [apply_enum_fills] in Hin. destruct Hin as [<-|Hin].
  - destruct a; try (left; left; reflexivity).
    destruct (find (fun e => Nat.eqb (fst e) i) me) as [[k unc]|]; [|left; left; reflexivity].
    destruct new_type as [| | | | |en vs]; try (left; left; reflexivity).
    destruct vs as [[|f0 fr]|]; try (left; left; reflexivity). right. reflexivity.
  - destruct (IH _ _ _ Hin) as [H|H]; [left; right; exact H|right; exact H].
Qed.

Lemma default_fills : forall baseline x, ok_or_defaulted baseline x -> unfilled (default_as_fill baseline x) = false.
Proof.
  intros baseline x [Hu|[t [col [c [d [-> [Hl Hd]]]]]]].
  - destruct x as [| |t c f| | |t c ty f|t c n f| | | | | |]; try exact Hu.
    cbn [default_as_fill]. destruct n; [reflexivity|]. destruct f; [reflexivity|discriminate Hu].
  - cbn [default_as_fill]. rewrite Hl, Hd. reflexivity.
Qed.

(* --- every run that gets past the prompts ends in revision_finish, with nothing left unfilled --- *)
Definition finish_kind (o : rev_out) : Prop :=
  (exists file p, o = RevWrote file p) \/ o = RevRefusedExists \/ exists e, o = RevRefusedInvalid e.

Lemma revision_reaches_finish : forall P m f env o,
  cmd_revision P m f env = Ok o -> finish_kind o ->
  exists plans baseline a2,
    load_migrations P = Ok plans
    /\ existsb (fun q => N.leb (next_version plans) (p_version q)) plans = false
    /\ o = revision_finish P m env (next_version plans) baseline a2
    /\ forall a, In a (map (default_as_fill baseline) a2) -> unfilled a = false.
Proof.
  intros P m f env o. unfold cmd_revision.
  assert (Hnk : forall o', (o' = RevNothing \/ o' = RevRefusedVersion \/ o' = RevRefused \/ o' = RevNeedsTty) -> ~ finish_kind o').
  { intros o' Hk [[x [y Hc]]|[Hc|[x Hc]]]; destruct Hk as [Hk|[Hk|[Hk|Hk]]]; subst o'; discriminate Hc. }
  destruct (load_models P) as [models|e]; [|intros H; discriminate H].
  destruct (load_migrations P) as [plans|e]; [|intros H; discriminate H].
  unfold plan_next.
  destruct (replay plans) as [baseline|e]; [|intros H; discriminate H].
  destruct (diff_actions baseline models) as [acts|e]; [|intros H; discriminate H].
  cbn [p_actions p_version].
  destruct (is_nil acts); [intros H Hk; inversion H; subst; exfalso; apply (Hnk RevNothing); auto|].
  destruct (existsb (fun q => N.leb (next_version plans) (p_version q)) plans) eqn:Hv;
    [intros H Hk; inversion H; subst; exfalso; apply (Hnk RevRefusedVersion); auto|].
  destruct (refuses acts); [intros H Hk; inversion H; subst; exfalso; apply (Hnk RevRefused); auto|].
  set (fv := parse_fill_with_args f). set (a0 := map (apply_fill fv) acts).
  assert (Hfinal : forall a1 a2, (forall x, In x a1 -> ok_or_defaulted baseline x) ->
                                 (forall x, In x a2 -> In x a1 \/ unfilled x = false) ->
                                 forall a, In a (map (default_as_fill baseline) a2) -> unfilled a = false).
  { intros a1 a2 H1 H2 a Hin. apply in_map_iff in Hin. destruct Hin as [x [<- Hx]].
    apply default_fills. destruct (H2 x Hx) as [Hi|Hu]; [apply H1; exact Hi|left; exact Hu]. }
  assert (Hleaf : forall a1 a2, (forall x, In x a1 -> ok_or_defaulted baseline x) ->
                                (forall x, In x a2 -> In x a1 \/ unfilled x = false) ->
            @Ok rev_out cli_error (revision_finish P m env (next_version plans) baseline a2) = Ok o ->
            exists plans0 baseline0 a20,
              @Ok (list plan) cli_error plans = Ok plans0
              /\ existsb (fun q => N.leb (next_version plans0) (p_version q)) plans0 = false
              /\ o = revision_finish P m env (next_version plans0) baseline0 a20
              /\ forall a, In a (map (default_as_fill baseline0) a20) -> unfilled a = false).
  { intros a1 a2 H1 H2 H. inversion H. exists plans, baseline, a2.
    split; [reflexivity|]. split; [exact Hv|]. split; [reflexivity|]. exact (Hfinal a1 a2 H1 H2). }
  destruct (collect_fills a0 baseline) as [|mi mr] eqn:Hmiss.
  - assert (H1 : forall x, In x a0 -> ok_or_defaulted baseline x) by (intros x Hx; exact (no_prompt_ok a0 baseline x Hmiss Hx)).
    destruct (find_missing_enum_fill_with (mkPlan "" None None 0 a0) baseline) as [|ei er].
    + intros H _. exact (Hleaf a0 a0 H1 (fun x Hx => or_introl Hx) H).
    + destruct (re_tty env); [|intros H Hk; inversion H; subst; exfalso; apply (Hnk RevNeedsTty); auto].
      intros H _. exact (Hleaf a0 _ H1 (fun x Hx => enum_fills_keep _ _ _ x Hx) H).
  - destruct (re_tty env); [|intros H Hk; inversion H; subst; exfalso; apply (Hnk RevNeedsTty); auto].
    set (a1 := map (apply_fill (fv ++ mi :: mr)) a0).
    assert (H1 : forall x, In x a1 -> ok_or_defaulted baseline x).
    { intros x Hx. unfold a1 in Hx. rewrite <- Hmiss in Hx. exact (prompted_ok a0 baseline fv x Hx). }
    destruct (find_missing_enum_fill_with (mkPlan "" None None 0 a1) baseline) as [|ei er]; intros H _.
    + exact (Hleaf a1 a1 H1 (fun x Hx => or_introl Hx) H).
    + exact (Hleaf a1 _ H1 (fun x Hx => enum_fills_keep _ _ _ x Hx) H).
Qed.

Lemma mem_str_in : forall x l, mem_str x l = true <-> In x l.
Proof.
  intros x l. unfold mem_str. rewrite existsb_exists. split.
  - intros [y [Hin He]]. apply String.eqb_eq in He. subst y. exact Hin.
  - intros Hin. exists x. split; [exact Hin|apply String.eqb_refl].
Qed.

(* the two ways a revision gets as far as naming its file: it writes it, or refuses because it exists *)
Lemma revision_named : forall P m f env o,
  cmd_revision P m f env = Ok o ->
  (exists file p, o = RevWrote file p) \/ o = RevRefusedExists ->
  exists plans name,
    load_migrations P = Ok plans
    /\ existsb (fun q => N.leb (next_version plans) (p_version q)) plans = false
    /\ name = migration_filename (next_version plans) (Some m) (cf_migration_format (pj_config P)) (cf_pattern (pj_config P))
    /\ (o = RevRefusedExists -> In name (file_names P))
    /\ (forall file p, o = RevWrote file p ->
          file = name /\ p_version p = next_version plans /\ p_comment p = Some m /\ ~ In name (file_names P)
          /\ validate_migration_plan p = Ok tt /\ forall a, In a (p_actions p) -> unfilled a = false).
Proof.
  intros P m f env o H Hk.
  assert (Hfk : finish_kind o) by (destruct Hk as [Hk|Hk]; [left; exact Hk|right; left; exact Hk]).
  destruct (revision_reaches_finish _ _ _ _ _ H Hfk) as [plans [baseline [a2 [Hl [Hv [Ho Hu]]]]]].
  exists plans. eexists. split; [exact Hl|]. split; [exact Hv|]. split; [reflexivity|].
  unfold revision_finish in Ho.
  destruct (validate_migration_plan _) as [[]|e] eqn:Hval.
  - destruct (mem_str _ (file_names P)) eqn:Hm.
    + subst o. split; [intros _; apply mem_str_in; exact Hm|intros file p Hc; discriminate Hc].
    + subst o. split; [intros Hc; discriminate Hc|]. intros file p Hc. inversion Hc; subst. cbn [p_version p_comment p_actions].
      split; [reflexivity|]. split; [reflexivity|]. split; [reflexivity|]. split.
      * intros Hin. apply mem_str_in in Hin. rewrite Hin in Hm. discriminate Hm.
      * split; [exact Hval|exact Hu].
  - subst o. destruct Hk as [[x [y Hc]]|Hc]; discriminate Hc.
Qed.

Lemma revision_wrote : forall P m f env file p,
  cmd_revision P m f env = Ok (RevWrote file p) ->
  exists plans, load_migrations P = Ok plans
    /\ existsb (fun q => N.leb (next_version plans) (p_version q)) plans = false
    /\ p_version p = next_version plans
    /\ p_comment p = Some m
    /\ file = migration_filename (p_version p) (Some m) (cf_migration_format (pj_config P)) (cf_pattern (pj_config P))
    /\ ~ In file (file_names P).
Proof.
  intros P m f env file p H.
  destruct (revision_named _ _ _ _ _ H (or_introl (ex_intro _ file (ex_intro _ p eq_refl)))) as [plans [name [Hl [Hv [Hn [_ Hw]]]]]].
  destruct (Hw file p eq_refl) as [Hf [Hpv [Hc [Hnot _]]]].
  exists plans. subst name. rewrite Hpv. subst file. auto 10.
Qed.

Lemma write_file_fresh : forall name p fs,
  ~ In name (map fst fs) -> write_file name p fs = fs ++ [(name, p)].
Proof.
  induction fs as [|[n q] r IH]; intros Hn; [reflexivity|].
  cbn [write_file]. cbn [map fst In] in Hn.
  destruct (String.eqb n name) eqn:He.
  - apply String.eqb_eq in He. exfalso. apply Hn. left. exact He.
  - cbn [app]. rewrite IH; [reflexivity|]. intros Hin. apply Hn. right. exact Hin.
Qed.

(* all stored versions are below the new one *)
Lemma new_version_above : forall P plans,
  load_migrations P = Ok plans ->
  existsb (fun q => N.leb (next_version plans) (p_version q)) plans = false ->
  (forall v, In v (versions P) -> v < next_version plans) /\ next_version plans = max_version P + 1.
Proof.
  intros P plans Hl Hv.
  pose proof (next_version_loaded _ _ Hl) as Hnv.
  assert (Hall : forall v, In v (versions P) -> v < next_version plans).
  { intros v Hin. unfold versions in Hin. apply in_map_iff in Hin. destruct Hin as [[n q] [<- Hin]]. cbn [snd].
    unfold load_migrations in Hl. destruct (validate_files (pj_migrations P)); [|discriminate Hl]. inversion Hl; subst plans.
    assert (Hq : In q (sort_plans (map snd (pj_migrations P)))).
    { apply in_sort_plans. apply in_map_iff. exists (n, q). split; [reflexivity|exact Hin]. }
    destruct (N.ltb (p_version q) (next_version (sort_plans (map snd (pj_migrations P))))) eqn:E; [apply N.ltb_lt; exact E|].
    exfalso. apply N.ltb_ge in E.
    assert (Ht : existsb (fun q0 => N.leb (next_version (sort_plans (map snd (pj_migrations P)))) (p_version q0))
                   (sort_plans (map snd (pj_migrations P))) = true).
    { apply existsb_exists. exists q. split; [exact Hq|apply N.leb_le; exact E]. }
    rewrite Ht in Hv. discriminate Hv. }
  split; [exact Hall|].
  rewrite Hnv in *. unfold max_version in *.
  destruct (fold_max_in_or_acc (versions P) 0) as [H0|Hin].
  - rewrite H0. unfold u32_max. lia.
  - specialize (Hall _ Hin). unfold u32_max in *. lia.
Qed.

(* since fix fcb5089, for EVERY filename pattern and every stored history: what revision writes is a new file
   with a version greater than all stored ones, appended to an otherwise untouched history *)
Theorem revision_append_only : forall P m f env file p,
  cmd_revision P m f env = Ok (RevWrote file p) ->
  p_version p = max_version P + 1
  /\ (forall v, In v (versions P) -> v < p_version p)
  /\ ~ In file (file_names P)
  /\ pj_migrations (step_revision P m f env) = pj_migrations P ++ [(file, p)].
Proof.
  intros P m f env file p H.
  destruct (revision_wrote _ _ _ _ _ _ H) as [plans [Hl [Hv [Hpv [_ [_ Hnot]]]]]].
  destruct (new_version_above _ _ Hl Hv) as [Hall Hnv].
  rewrite Hpv. split; [exact Hnv|]. split; [exact Hall|]. split; [exact Hnot|].
  unfold step_revision. rewrite H. cbn [project_after pj_migrations]. apply write_file_fresh. exact Hnot.
Qed.

(* every other outcome leaves the project as it is *)
Theorem revision_never_overwrites : forall P m f env,
  (forall n q, In (n, q) (pj_migrations P) -> In (n, q) (pj_migrations (step_revision P m f env)))
  /\ (forall o, cmd_revision P m f env = Ok o -> (forall file p, o <> RevWrote file p) -> step_revision P m f env = P)
  /\ (forall e, cmd_revision P m f env = Err e -> step_revision P m f env = P).
Proof.
  intros P m f env. unfold step_revision.
  destruct (cmd_revision P m f env) as [o|e] eqn:H.
  - split.
    + destruct o; cbn [project_after]; try (intros n q Hin; exact Hin).
      intros n q Hin. cbn [pj_migrations].
      destruct (revision_append_only _ _ _ _ _ _ H) as [_ [_ [_ Happ]]].
      unfold step_revision in Happ. rewrite H in Happ. cbn [project_after pj_migrations] in Happ.
      rewrite Happ. apply in_or_app. left. exact Hin.
    + split; [|intros e He; discriminate He].
      intros o' Ho Hne. inversion Ho; subst o'. destruct o; try reflexivity. exfalso. exact (Hne _ _ eq_refl).
  - split; [intros n q Hin; exact Hin|]. split; [intros o Ho; discriminate Ho|reflexivity].
Qed.

(* ------------------------------------------------------------------ default pattern: the file-exists refusal never fires *)
(* every stored file carries the name the tool gives to its (version, comment) under the default pattern *)
Definition tool_named (P : project) : Prop :=
  forall n q, In (n, q) (pj_migrations P) ->
    exists fmt, n = migration_filename (p_version q) (p_comment q) fmt default_pattern.

Theorem default_pattern_never_refused : forall P m f env,
  cf_pattern (pj_config P) = default_pattern ->
  tool_named P ->
  cmd_revision P m f env <> Ok RevRefusedExists.
Proof.
  intros P m f env Hpat Hnamed H.
  destruct (revision_named _ _ _ _ _ H (or_intror eq_refl)) as [plans [name [Hl [Hv [Hn [Hex _]]]]]].
  specialize (Hex eq_refl).
  destruct (new_version_above _ _ Hl Hv) as [Hall _].
  unfold file_names in Hex. apply in_map_iff in Hex. destruct Hex as [[n q] [Hnq Hin]]. cbn [fst] in Hnq. subst n.
  destruct (Hnamed _ _ Hin) as [fmt Hq].
  assert (Hvq : In (p_version q) (versions P)).
  { unfold versions. apply in_map_iff. exists (name, q). split; [reflexivity|exact Hin]. }
  specialize (Hall _ Hvq).
  rewrite Hpat in Hn. rewrite Hn in Hq.
  apply filename_fresh in Hq; [exact Hq|]. lia.
Qed.

(* ------------------------------------------------------------------ the former overwrite witnesses are refused now *)
Definition cfg_pattern (pat : string) : config := mkConfig "models" "migrations" FJson FJson pat "src/models" "".
Definition kcol (n : string) : column_def := mkCol n (TSimple Integer) false None None (Some (PKBool true)) None None None.
Definition ncol (n : string) : column_def := mkCol n (TSimple Text) true None None None None None None.
Definition env0 : rev_env := mkEnv false "uuid" "now".

(* a pattern without a version placeholder and the same comment twice *)
Definition P_same_name : project :=
  mkProject (cfg_pattern "%m") [("user.json", mkTable "user" None [kcol "id"; ncol "email"] [])]
            [("same.vespertide.json", mkPlan "id-1" (Some "same") None 1 [CreateTable "user" [kcol "id"] []])].

Theorem filename_pattern_refused :
  cmd_revision P_same_name "same" [] env0 = Ok RevRefusedExists
  /\ step_revision P_same_name "same" [] env0 = P_same_name
  /\ exists p, cmd_revision P_same_name "other" [] env0 = Ok (RevWrote "other.vespertide.json" p) /\ p_version p = 2.
Proof. split; [vm_compute; reflexivity|]. split; [vm_compute; reflexivity|]. eexists. split; vm_compute; reflexivity. Qed.

(* the u32 corner: at version 4294967295 there is no greater version to hand out *)
Definition P_saturated : project :=
  mkProject default_config [("user.json", mkTable "user" None [kcol "id"; ncol "email"] [])]
            [("4294967295_big.vespertide.json", mkPlan "id-1" (Some "big") None 4294967295 [CreateTable "user" [kcol "id"] []])].

Theorem revision_saturation_refused :
  max_version P_saturated = u32_max
  /\ cmd_revision P_saturated "big" [] env0 = Ok RevRefusedVersion
  /\ cmd_revision P_saturated "other" [] env0 = Ok RevRefusedVersion
  /\ step_revision P_saturated "big" [] env0 = P_saturated.
Proof. repeat split; vm_compute; reflexivity. Qed.

(* since fixes 446c8b4 and 06565a6, for every project, message, --fill-with list and environment: what revision writes
   passes the very validation the loader applies, and lacks no fill value *)
Theorem revision_output_loadable : forall P m f env file p,
  cmd_revision P m f env = Ok (RevWrote file p) ->
  validate_migration_plan p = Ok tt
  /\ (forall a, In a (p_actions p) -> unfilled a = false).
Proof.
  intros P m f env file p H.
  destruct (revision_named _ _ _ _ _ H (or_introl (ex_intro _ file (ex_intro _ p eq_refl)))) as [plans [name [_ [_ [_ [_ Hw]]]]]].
  destruct (Hw file p eq_refl) as [_ [_ [_ [_ [Hv Hu]]]]]. split; assumption.
Qed.

(* the new refusal only ever concerns an enum value (a --fill-with value or an enum without labels): a missing fill
   value never gets that far; it is refused before anything is written and leaves the project as it is *)
Theorem revision_refuses_invalid_plan : forall P m f env e,
  cmd_revision P m f env = Ok (RevRefusedInvalid e) ->
  (exists t c x, e = VInvalidEnumDefault t c x)
  /\ step_revision P m f env = P.
Proof.
  intros P m f env e H. split.
  - destruct (revision_reaches_finish _ _ _ _ _ H (or_intror (or_intror (ex_intro _ e eq_refl)))) as [plans [baseline [a2 [_ [_ [Ho Hu]]]]]].
    unfold revision_finish in Ho. unfold validate_migration_plan in Ho. cbn [p_actions] in Ho.
    destruct (validate_plan_cases _ Hu) as [Hok|[_ [t [c [x Herr]]]]].
    + rewrite Hok in Ho. destruct (mem_str _ (file_names P)); discriminate Ho.
    + rewrite Herr in Ho. inversion Ho; subst e. eauto.
  - unfold step_revision. rewrite H. reflexivity.
Qed.

(* and then every command keeps working on the extended history *)
Lemma validate_files_write : forall name p fs,
  validate_files fs = Ok tt -> validate_migration_plan p = Ok tt -> validate_files (write_file name p fs) = Ok tt.
Proof.
  induction fs as [|[n q] r IH]; intros Hv Hp.
  - cbn [write_file validate_files]. rewrite Hp. reflexivity.
  - cbn [validate_files] in Hv. destruct (validate_migration_plan q) as [[]|e] eqn:Hq; [|discriminate Hv].
    cbn [write_file]. destruct (String.eqb n name).
    + cbn [validate_files]. rewrite Hp. exact Hv.
    + cbn [validate_files]. rewrite Hq. apply IH; assumption.
Qed.

Theorem revision_keeps_history_loadable : forall P m f env file p,
  cmd_revision P m f env = Ok (RevWrote file p) ->
  validate_files (pj_migrations (step_revision P m f env)) = Ok tt
  /\ exists plans, load_migrations (step_revision P m f env) = Ok plans.
Proof.
  intros P m f env file p H.
  destruct (revision_output_loadable _ _ _ _ _ _ H) as [Hp _].
  destruct (revision_wrote _ _ _ _ _ _ H) as [plans [Hl _]].
  assert (Hv : validate_files (pj_migrations P) = Ok tt).
  { unfold load_migrations in Hl. destruct (validate_files (pj_migrations P)) as [[]|e]; [reflexivity|discriminate Hl]. }
  assert (Hv2 : validate_files (pj_migrations (step_revision P m f env)) = Ok tt).
  { unfold step_revision. rewrite H. cbn [project_after pj_migrations]. apply validate_files_write; assumption. }
  split; [exact Hv2|]. unfold load_migrations. rewrite Hv2. eauto.
Qed.

(* the D6 witness: nullable -> NOT NULL on a column that has a default now records the default as fill value *)
Definition dcol (nullable : bool) : column_def :=
  mkCol "email" (TSimple Text) nullable (Some (DStr "'x'")) None None None None None.
Definition P_defaulted : project :=
  mkProject default_config [("user.json", mkTable "user" None [kcol "id"; dcol false] [])]
            [("0001_init.vespertide.json", mkPlan "id-1" (Some "init") None 1 [CreateTable "user" [kcol "id"; dcol true] []])].

Definition ecol : column_def :=
  mkCol "st" (TEnum "st" (EVString ["a"; "b"])) false None None None None None None.
Definition P_enum : project :=
  mkProject default_config [("user.json", mkTable "user" None [kcol "id"; ecol] [])]
            [("0001_init.vespertide.json", mkPlan "id-1" (Some "init") None 1 [CreateTable "user" [kcol "id"] []])].

(* the former witness of the unchecked enum fill value: refused now, nothing written *)
Theorem revision_enum_fill_refused :
  cmd_revision P_enum "second" ["user.st=zzz"] env0 = Ok (RevRefusedInvalid (VInvalidEnumDefault "user" "st" "zzz"))
  /\ step_revision P_enum "second" ["user.st=zzz"] env0 = P_enum
  /\ exists p, cmd_revision P_enum "second" ["user.st='b'"] env0 = Ok (RevWrote "0002_second.vespertide.json" p)
               /\ p_actions p = [AddColumn "user" ecol (Some "'b'")].
Proof. split; [vm_compute; reflexivity|]. split; [vm_compute; reflexivity|]. eexists. split; vm_compute; reflexivity. Qed.
