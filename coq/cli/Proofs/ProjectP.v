(* Proofs about the project model: agreement of the CLI views (C13). *)
From VV.CLI Require Import Project.
From Coq Require Import Lia.

(* ------------------------------------------------------------------ small facts *)
Lemma plan_with_prefix_empty : forall p, plan_with_prefix "" p = p.
Proof. intros p. unfold plan_with_prefix. reflexivity. Qed.

Lemma map_plan_with_prefix_empty : forall ps, map (plan_with_prefix "") ps = ps.
Proof. induction ps as [|p r IH]; cbn [map]; [reflexivity|]. rewrite plan_with_prefix_empty, IH. reflexivity. Qed.

Lemma plan_next_unfold : forall models plans,
  plan_next models plans =
  match replay plans with
  | Err e => Err (PlanReplay e)
  | Ok baseline =>
      match diff_actions baseline models with
      | Err e => Err (PlanDiff e)
      | Ok acts => Ok (mkPlan "" None None (next_version plans) acts)
      end
  end.
Proof. reflexivity. Qed.

Lemma is_nil_map : forall A B (f : A -> B) l, is_nil (map f l) = is_nil l.
Proof. intros A B f l. destruct l; reflexivity. Qed.

Lemma is_nil_true : forall A (l : list A), is_nil l = true -> l = [].
Proof. intros A l H. destruct l; [reflexivity|discriminate]. Qed.

(* ------------------------------------------------------------------ diff <-> revision *)
(* what cmd_revision returns, as a function of what cmd_diff returns *)
Definition rev_visible (o : rev_out) : Prop :=
  o = RevRefused \/ o = RevNeedsTty \/ exists file p, o = RevWrote file p.

Lemma revision_cases : forall P m f env,
  match cmd_diff P with
  | Err e => cmd_revision P m f env = Err e
  | Ok DiffNone => cmd_revision P m f env = Ok RevNothing
  | Ok (DiffChanges _) =>
      exists o, cmd_revision P m f env = Ok o /\ rev_visible o /\ (re_tty env = true -> o <> RevNeedsTty)
  end.
Proof.
  intros P m f env. unfold cmd_diff, cmd_revision.
  destruct (load_models P) as [models|e]; [|reflexivity].
  destruct (load_migrations P) as [plans|e]; [|reflexivity].
  rewrite plan_next_unfold.
  destruct (replay plans) as [baseline|e]; [|reflexivity].
  destruct (diff_actions baseline models) as [acts|e]; [|reflexivity].
  cbn [p_actions p_version].
  destruct (is_nil acts) eqn:Hnil; [reflexivity|].
  destruct (refuses acts) eqn:Href.
  { eexists. split; [reflexivity|]. split; [left; reflexivity|]. intros _ H. discriminate H. }
  set (fv := parse_fill_with_args f).
  set (a0 := map (apply_fill fv) acts).
  destruct (collect_fills a0 baseline) as [|mi mr] eqn:Hmiss.
  - (* nothing to ask for AddColumn / ModifyColumnNullable *)
    destruct (find_missing_enum_fill_with (mkPlan "" None None 0 a0) baseline) as [|ei er] eqn:Hme.
    + eexists. split; [reflexivity|]. split; [right; right; eauto|]. intros _ H. discriminate H.
    + destruct (re_tty env) eqn:Htty.
      * eexists. split; [reflexivity|]. split; [right; right; eauto|]. intros _ H. discriminate H.
      * eexists. split; [reflexivity|]. split; [right; left; reflexivity|]. intros H. discriminate H.
  - destruct (re_tty env) eqn:Htty.
    + set (a1 := map (apply_fill (fv ++ mi :: mr)) a0).
      destruct (find_missing_enum_fill_with (mkPlan "" None None 0 a1) baseline) as [|ei er] eqn:Hme.
      * eexists. split; [reflexivity|]. split; [right; right; eauto|]. intros _ H. discriminate H.
      * eexists. split; [reflexivity|]. split; [right; right; eauto|]. intros _ H. discriminate H.
    + eexists. split; [reflexivity|]. split; [right; left; reflexivity|]. intros H. discriminate H.
Qed.

Theorem diff_iff_revision : forall P m f env,
  ((exists acts, cmd_diff P = Ok (DiffChanges acts)) <->
   (exists o, cmd_revision P m f env = Ok o /\ rev_visible o))
  /\ (cmd_diff P = Ok DiffNone <-> cmd_revision P m f env = Ok RevNothing)
  /\ (forall e, cmd_diff P = Err e <-> cmd_revision P m f env = Err e)
  /\ (re_tty env = true -> cmd_revision P m f env <> Ok RevNeedsTty).
Proof.
  intros P m f env. pose proof (revision_cases P m f env) as H.
  destruct (cmd_diff P) as [[|acts]|e].
  - (* DiffNone *)
    repeat split.
    + intros [a Ha]. discriminate Ha.
    + intros [o [Ho Hv]]. rewrite H in Ho. inversion Ho; subst o.
      destruct Hv as [Hv|[Hv|[x [y Hv]]]]; discriminate Hv.
    + intros _. exact H.
    + intros He. discriminate He.
    + intros He. rewrite H in He. discriminate He.
    + intros _ Hn. rewrite H in Hn. discriminate Hn.
  - destruct H as [o [Ho [Hv Ht]]].
    repeat split.
    + intros _. exists o. split; assumption.
    + intros _. exists acts. reflexivity.
    + intros Hd. discriminate Hd.
    + intros Hr. rewrite Ho in Hr. inversion Hr; subst o.
      destruct Hv as [Hv|[Hv|[x [y Hv]]]]; discriminate Hv.
    + intros He. discriminate He.
    + intros He. rewrite Ho in He. discriminate He.
    + intros Htty Hn. rewrite Ho in Hn. inversion Hn; subst o. exact (Ht Htty eq_refl).
  - repeat split.
    + intros [a Ha]. discriminate Ha.
    + intros [o [Ho _]]. rewrite H in Ho. discriminate Ho.
    + intros Hd. discriminate Hd.
    + intros Hr. rewrite H in Hr. discriminate Hr.
    + intros He. inversion He; subst. exact H.
    + intros He. rewrite H in He. inversion He; subst. reflexivity.
    + intros _ Hn. rewrite H in Hn. discriminate Hn.
Qed.

(* ------------------------------------------------------------------ sql vs diff *)
Theorem sql_renders_diff : forall P,
  pj_prefix P = "" ->
  (cmd_diff P = Ok DiffNone <-> cmd_sql P = Ok SqlNone)
  /\ (forall acts, cmd_diff P = Ok (DiffChanges acts) <->
                   exists v b, cmd_sql P = Ok (SqlRender v acts b)).
Proof.
  intros P Hp. unfold cmd_diff, cmd_sql. rewrite Hp.
  destruct (load_models P) as [models|e].
  2:{ split; [split; intros H; discriminate H|]. intros acts. split; [intros H; discriminate H|intros [v [b H]]; discriminate H]. }
  destruct (load_migrations P) as [plans|e].
  2:{ split; [split; intros H; discriminate H|]. intros acts. split; [intros H; discriminate H|intros [v [b H]]; discriminate H]. }
  rewrite map_plan_with_prefix_empty, plan_next_unfold.
  destruct (replay plans) as [baseline|e].
  2:{ split; [split; intros H; discriminate H|]. intros acts. split; [intros H; discriminate H|intros [v [b H]]; discriminate H]. }
  destruct (diff_actions baseline models) as [acts0|e].
  2:{ split; [split; intros H; discriminate H|]. intros acts. split; [intros H; discriminate H|intros [v [b H]]; discriminate H]. }
  rewrite plan_with_prefix_empty. cbn [p_actions p_version].
  destruct (is_nil acts0) eqn:Hn.
  - split; [split; reflexivity|]. intros acts. split; [intros H; discriminate H|intros [v [b H]]; discriminate H].
  - split; [split; intros H; discriminate H|]. intros acts. split.
    + intros H. inversion H; subst acts. eauto.
    + intros [v [b H]]. inversion H; subst. reflexivity.
Qed.

(* with a prefix but no stored migration `sql` still shows what `diff` lists, table names prefixed *)
Theorem sql_renders_prefixed_diff_without_history : forall P,
  pj_migrations P = [] ->
  (cmd_diff P = Ok DiffNone <-> cmd_sql P = Ok SqlNone)
  /\ (forall acts, cmd_diff P = Ok (DiffChanges acts) ->
        cmd_sql P = Ok (SqlRender 1 (map (action_with_prefix (pj_prefix P)) acts) [])).
Proof.
  intros P Hm. unfold cmd_diff, cmd_sql, load_migrations. rewrite Hm.
  cbn [validate_files map sort_plans sort_le fold_right].
  destruct (load_models P) as [models|e].
  2:{ split; [split; intros H; discriminate H|]. intros acts H; discriminate H. }
  rewrite plan_next_unfold.
  change (replay []) with (@Ok schema planner_error []). cbv beta iota.
  destruct (diff_actions [] models) as [acts0|e].
  2:{ split; [split; intros H; discriminate H|]. intros acts H; discriminate H. }
  assert (Hpp : p_actions (plan_with_prefix (pj_prefix P) (mkPlan "" None None (next_version []) acts0))
                = map (action_with_prefix (pj_prefix P)) acts0
                /\ p_version (plan_with_prefix (pj_prefix P) (mkPlan "" None None (next_version []) acts0)) = 1%N).
  { unfold plan_with_prefix. destruct (String.eqb (pj_prefix P) "") eqn:He.
    - apply String.eqb_eq in He. rewrite He. cbn [p_actions p_version]. split; [|reflexivity].
      clear. induction acts0 as [|a r IH]; [reflexivity|]. cbn [map]. rewrite <- IH. reflexivity.
    - cbn [p_actions p_version]. split; reflexivity. }
  destruct Hpp as [Hpa Hpv]. rewrite Hpa, Hpv, is_nil_map. cbn [p_actions].
  destruct (is_nil acts0) eqn:Hn.
  - split; [split; reflexivity|]. intros acts H; discriminate H.
  - split; [split; intros H; discriminate H|]. intros acts H. inversion H; subst acts. reflexivity.
Qed.

(* ------------------------------------------------------------------ witnesses (closed by computation) *)
Definition col_id : column_def := mkCol "id" (TSimple Integer) false None None (Some (PKBool true)) None None None.
Definition col_email (nullable : bool) : column_def := mkCol "email" (TSimple Text) nullable None None None None None None.
Definition user_table (nullable : bool) : table_def := mkTable "user" None [col_id; col_email nullable] [].
Definition init_plan : plan :=
  mkPlan "id-1" (Some "init") (Some "2026-01-01T00:00:00Z") 1 [CreateTable "user" [col_id; col_email true] []].

(* D8: prefix "app_", one table, one stored migration *)
Definition P_prefix : project :=
  mkProject (mkConfig "models" "migrations" FJson FJson default_pattern "src/models" "app_")
            [("user.json", user_table true)]
            [("0001_init.vespertide.json", init_plan)].

Lemma sql_prefix_refuted_witness :
  cmd_diff P_prefix = Ok DiffNone
  /\ exists cols ks b,
       cmd_sql P_prefix = Ok (SqlRender 2 [CreateTable "app_user" cols ks; DeleteTable "app_app_user"] b).
Proof. split; [vm_compute; reflexivity|]. do 3 eexists. vm_compute. reflexivity. Qed.

Theorem sql_prefix_refuted :
  exists P, pj_prefix P = "app_" /\ List.length (pj_models P) = 1%nat /\ List.length (pj_migrations P) = 1%nat
            /\ cmd_diff P = Ok DiffNone
            /\ exists v acts b, cmd_sql P = Ok (SqlRender v acts b) /\ acts <> [].
Proof.
  exists P_prefix. split; [reflexivity|]. split; [reflexivity|]. split; [reflexivity|].
  split; [vm_compute; reflexivity|].
  destruct sql_prefix_refuted_witness as [_ [cols [ks [b H]]]].
  do 3 eexists. split; [exact H|]. intros Hc. discriminate Hc.
Qed.

(* D7: nullability change only *)
Definition P_nullable : project :=
  mkProject default_config [("user.json", user_table false)] [("0001_init.vespertide.json", init_plan)].

Theorem status_refuted :
  exists P, cmd_status P = Ok StSync
            /\ cmd_diff P = Ok (DiffChanges [ModifyColumnNullable "user" "email" false None]).
Proof. exists P_nullable. split; vm_compute; reflexivity. Qed.

(* ------------------------------------------------------------------ log vs the macro *)
Lemma validate_files_err : forall fs e, validate_files fs = Err e -> exists f ve, e = ELoadMigration f ve.
Proof.
  induction fs as [|[f p] r IH]; cbn [validate_files]; intros e H; [discriminate H|].
  destruct (validate_migration_plan p) as [u|ve].
  - exact (IH e H).
  - inversion H; subst e. eauto.
Qed.

Theorem log_equals_runtime : forall P,
  (forall es, cmd_log P = Ok (LogEntries es) ->
     macro_blocks P = Ok es \/ exists e, macro_blocks P = Err (MacroModels e))
  /\ (forall es, macro_blocks P = Ok es ->
        cmd_log P = Ok (LogEntries es)
        \/ (es = [] /\ cmd_log P = Ok LogNone)
        \/ exists f e, cmd_log P = Err (ELoadMigration f e)).
Proof.
  intros P. unfold cmd_log, macro_blocks, load_migrations, macro_load_migrations.
  split; intros es.
  - destruct (validate_files (pj_migrations P)) as [[]|e]; [|intros H; discriminate H].
    destruct (sort_plans (map snd (pj_migrations P))) as [|p r] eqn:Hs; [intros H; discriminate H|].
    intros H. inversion H; subst es.
    destruct (map_result normalize (map snd (pj_models P))) as [ns|e]; [left; reflexivity|right; eauto].
  - destruct (map_result normalize (map snd (pj_models P))) as [ns|e]; [|intros H; discriminate H].
    intros H. inversion H; subst es.
    destruct (validate_files (pj_migrations P)) as [[]|e] eqn:Hv.
    + destruct (sort_plans (map snd (pj_migrations P))) as [|p r] eqn:Hs.
      * right; left. split; reflexivity.
      * left. reflexivity.
    + right; right. destruct (validate_files_err _ _ Hv) as [file [ve He]]. subst e. eauto.
Qed.

(* the two differ exactly where the loaders differ: the CLI loader validates stored plans, the macro's does not
   (D6: the file below is what `revision` itself writes for nullable -> NOT NULL on a defaulted column) *)
Definition P_unvalidated : project :=
  mkProject default_config [("user.json", user_table false)]
    [("0001_init.vespertide.json", init_plan);
     ("0002_tighten.vespertide.json", mkPlan "id-2" (Some "tighten") None 2 [ModifyColumnNullable "user" "email" false None])].

Theorem log_rejects_what_runtime_runs_refuted :
  exists P es, macro_blocks P = Ok es /\ List.length es = 2%nat /\ exists f e, cmd_log P = Err (ELoadMigration f e).
Proof. exists P_unvalidated. eexists. split; [vm_compute; reflexivity|]. split; [reflexivity|]. do 2 eexists. vm_compute. reflexivity. Qed.
