(* Proofs about the project model: agreement of the CLI views (C13). *)
From VV.CLI Require Import Project.
From Coq Require Import Lia.

(* ------------------------------------------------------------------ small facts *)
Lemma plan_with_prefix_empty : forall p, plan_with_prefix "" p = p.
Proof. intros p. unfold plan_with_prefix. reflexivity. Qed.

Lemma map_plan_with_prefix_empty : forall ps, map (plan_with_prefix "") ps = ps.
Proof. induction ps as [|p r IH]; cbn [map]; [reflexivity|]. rewrite plan_with_prefix_empty, IH. reflexivity. Qed.

Lemma plan_next_unfold : forall models plans,
  plan_next models plans =
  match replay plans with
  | Err e => Err (PlanReplay e)
  | Ok baseline =>
      match diff_actions baseline models with
      | Err e => Err (PlanDiff e)
      | Ok acts => Ok (mkPlan "" None None (next_version plans) acts)
      end
  end.
Proof. reflexivity. Qed.

Lemma is_nil_map : forall A B (f : A -> B) l, is_nil (map f l) = is_nil l.
Proof. intros A B f l. destruct l; reflexivity. Qed.

Lemma is_nil_true : forall A (l : list A), is_nil l = true -> l = [].
Proof. intros A l H. destruct l; [reflexivity|discriminate]. Qed.

(* ------------------------------------------------------------------ diff <-> revision *)
(* what cmd_revision returns, as a function of what cmd_diff returns *)
Definition rev_visible (o : rev_out) : Prop :=
  o = RevRefused \/ o = RevNeedsTty \/ o = RevRefusedVersion \/ o = RevRefusedExists
  \/ (exists e, o = RevRefusedInvalid e) \/ exists file p, o = RevWrote file p.

Lemma finish_visible : forall P m env v b a2,
  rev_visible (revision_finish P m env v b a2) /\ revision_finish P m env v b a2 <> RevNeedsTty.
Proof.
  intros P m env v b a2. unfold revision_finish.
  destruct (validate_migration_plan _) as [u|e].
  - destruct (mem_str _ (file_names P)); (split; [unfold rev_visible; eauto 12|discriminate]).
  - split; [unfold rev_visible; eauto 12|discriminate].
Qed.

Ltac rev_leaf :=
  eexists; split; [reflexivity|]; split;
  [first [apply finish_visible | unfold rev_visible; eauto 12]
  |first [intros _; apply finish_visible | intros _ Hx; discriminate Hx | intros Hx; discriminate Hx]].

Lemma revision_cases : forall P m f env,
  match cmd_diff P with
  | Err e => cmd_revision P m f env = Err e
  | Ok DiffNone => cmd_revision P m f env = Ok RevNothing
  | Ok (DiffChanges _) =>
      exists o, cmd_revision P m f env = Ok o /\ rev_visible o /\ (re_tty env = true -> o <> RevNeedsTty)
  end.
Proof.
  intros P m f env. unfold cmd_diff, cmd_revision.
  destruct (load_models P) as [models|e]; [|reflexivity].
  destruct (load_migrations P) as [plans|e]; [|reflexivity].
  rewrite plan_next_unfold.
  destruct (replay plans) as [baseline|e]; [|reflexivity].
  destruct (diff_actions baseline models) as [acts|e]; [|reflexivity].
  cbn [p_actions p_version].
  destruct (is_nil acts) eqn:Hnil; [reflexivity|].
  destruct (existsb (fun q => N.leb (next_version plans) (p_version q)) plans); [rev_leaf|].
  destruct (refuses acts) eqn:Href; [rev_leaf|].
  set (fv := parse_fill_with_args f).
  set (a0 := map (apply_fill fv) acts).
  destruct (collect_fills a0 baseline) as [|mi mr] eqn:Hmiss.
  - destruct (find_missing_enum_fill_with (mkPlan "" None None 0 a0) baseline) as [|ei er] eqn:Hme; [rev_leaf|].
    destruct (re_tty env) eqn:Htty; rev_leaf.
  - destruct (re_tty env) eqn:Htty; [|rev_leaf].
    set (a1 := map (apply_fill (fv ++ mi :: mr)) a0).
    destruct (find_missing_enum_fill_with (mkPlan "" None None 0 a1) baseline) as [|ei er] eqn:Hme; rev_leaf.
Qed.

Theorem diff_iff_revision : forall P m f env,
  ((exists acts, cmd_diff P = Ok (DiffChanges acts)) <->
   (exists o, cmd_revision P m f env = Ok o /\ rev_visible o))
  /\ (cmd_diff P = Ok DiffNone <-> cmd_revision P m f env = Ok RevNothing)
  /\ (forall e, cmd_diff P = Err e <-> cmd_revision P m f env = Err e)
  /\ (re_tty env = true -> cmd_revision P m f env <> Ok RevNeedsTty).
Proof.
  intros P m f env. pose proof (revision_cases P m f env) as H.
  destruct (cmd_diff P) as [[|acts]|e].
  - (* DiffNone *)
    repeat split.
    + intros [a Ha]. discriminate Ha.
    + intros [o [Ho Hv]]. rewrite H in Ho. inversion Ho; subst o.
      destruct Hv as [Hv|[Hv|[Hv|[Hv|[[x Hv]|[x [y Hv]]]]]]]; discriminate Hv.
    + intros _. exact H.
    + intros He. discriminate He.
    + intros He. rewrite H in He. discriminate He.
    + intros _ Hn. rewrite H in Hn. discriminate Hn.
  - destruct H as [o [Ho [Hv Ht]]].
    repeat split.
    + intros _. exists o. split; assumption.
    + intros _. exists acts. reflexivity.
    + intros Hd. discriminate Hd.
    + intros Hr. rewrite Ho in Hr. inversion Hr; subst o.
      destruct Hv as [Hv|[Hv|[Hv|[Hv|[[x Hv]|[x [y Hv]]]]]]]; discriminate Hv.
    + intros He. discriminate He.
    + intros He. rewrite Ho in He. discriminate He.
    + intros Htty Hn. rewrite Ho in Hn. inversion Hn; subst o. exact (Ht Htty eq_refl).
  - repeat split.
    + intros [a Ha]. discriminate Ha.
    + intros [o [Ho _]]. rewrite H in Ho. discriminate Ho.
    + intros Hd. discriminate Hd.
    + intros Hr. rewrite H in Hr. discriminate Hr.
    + intros He. inversion He; subst. exact H.
    + intros He. rewrite H in He. inversion He; subst. reflexivity.
    + intros _ Hn. rewrite H in Hn. discriminate Hn.
Qed.

(* ------------------------------------------------------------------ sql vs diff *)
Lemma prefixed_plan_parts : forall pfx v acts,
  p_actions (plan_with_prefix pfx (mkPlan "" None None v acts)) = map (action_with_prefix pfx) acts
  /\ p_version (plan_with_prefix pfx (mkPlan "" None None v acts)) = v.
Proof.
  intros pfx v acts. unfold plan_with_prefix. destruct (String.eqb pfx "") eqn:He.
  - apply String.eqb_eq in He. subst pfx. cbn [p_actions p_version]. split; [|reflexivity].
    induction acts as [|a r IH]; [reflexivity|]. cbn [map]. rewrite <- IH. reflexivity.
  - cbn [p_actions p_version]. split; reflexivity.
Qed.

(* ONE statement for every project and every prefix (fix 72fa6f0): `sql` renders exactly the actions `diff` lists, table
   names prefixed, with diff's version, against the replay of the prefixed history *)
Theorem sql_renders_diff : forall P plans,
  load_migrations P = Ok plans ->
  let pfx := pj_prefix P in
  (forall pb, prefixed_baseline pfx plans = Ok pb ->
     (cmd_diff P = Ok DiffNone <-> cmd_sql P = Ok SqlNone)
     /\ (forall acts, cmd_diff P = Ok (DiffChanges acts) ->
           cmd_sql P = Ok (SqlRender (next_version plans) (map (action_with_prefix pfx) acts) pb))
     /\ (forall v pacts b, cmd_sql P = Ok (SqlRender v pacts b) ->
           exists acts, cmd_diff P = Ok (DiffChanges acts)
                        /\ pacts = map (action_with_prefix pfx) acts /\ v = next_version plans /\ b = pb))
  /\ (forall e, prefixed_baseline pfx plans = Err e -> (exists d, cmd_diff P = Ok d) -> cmd_sql P = Err (EBaseline e))
  /\ ((exists e, cmd_diff P = Err e) -> exists e, cmd_sql P = Err e).
Proof.
  intros P plans Hl pfx. unfold cmd_diff, cmd_sql, sql_core. rewrite Hl. fold pfx.
  destruct (load_models P) as [models|e0].
  2:{ split; [intros pb _; split; [split; intros H; discriminate H|]; split; [intros a H; discriminate H|intros v pa b H; discriminate H]|].
      split; [intros e _ [d H]; discriminate H|intros _; eauto]. }
  rewrite plan_next_unfold.
  destruct (replay plans) as [baseline|e0].
  2:{ split; [intros pb _; split; [split; intros H; discriminate H|]; split; [intros a H; discriminate H|intros v pa b H; discriminate H]|].
      split; [intros e _ [d H]; discriminate H|intros _; eauto]. }
  destruct (diff_actions baseline models) as [acts0|e0].
  2:{ split; [intros pb _; split; [split; intros H; discriminate H|]; split; [intros a H; discriminate H|intros v pa b H; discriminate H]|].
      split; [intros e _ [d H]; discriminate H|intros _; eauto]. }
  destruct (prefixed_plan_parts pfx (next_version plans) acts0) as [Hpa Hpv]. rewrite Hpa, Hpv, is_nil_map. cbn [p_actions].
  split; [|split].
  - intros pb Hpb. rewrite Hpb.
    destruct (is_nil acts0) eqn:Hn.
    + split; [split; reflexivity|]. split; [intros a H; discriminate H|intros v pa b H; discriminate H].
    + split; [split; intros H; discriminate H|]. split.
      * intros a H. inversion H; subst. reflexivity.
      * intros v pa b H. inversion H; subst. exists acts0. auto.
  - intros e He _. rewrite He. reflexivity.
  - intros [e H]. destruct (is_nil acts0); discriminate H.
Qed.

(* the prefixed baseline exists whenever `diff` works, for the empty prefix and for an empty history *)
Theorem sql_baseline_plain : forall P plans,
  load_migrations P = Ok plans ->
  (pj_prefix P = "" -> prefixed_baseline (pj_prefix P) plans = replay plans)
  /\ (pj_migrations P = [] -> prefixed_baseline (pj_prefix P) plans = Ok []).
Proof.
  intros P plans Hl. unfold prefixed_baseline. split.
  - intros ->. rewrite map_plan_with_prefix_empty. reflexivity.
  - intros Hm. unfold load_migrations in Hl. rewrite Hm in Hl. cbn in Hl. inversion Hl; subst. reflexivity.
Qed.

(* ------------------------------------------------------------------ witnesses (closed by computation) *)
Definition col_id : column_def := mkCol "id" (TSimple Integer) false None None (Some (PKBool true)) None None None.
Definition col_email (nullable : bool) : column_def := mkCol "email" (TSimple Text) nullable None None None None None None.
Definition user_table (nullable : bool) : table_def := mkTable "user" None [col_id; col_email nullable] [].
Definition init_plan : plan :=
  mkPlan "id-1" (Some "init") (Some "2026-01-01T00:00:00Z") 1 [CreateTable "user" [col_id; col_email true] []].

(* D8: prefix "app_", one table, one stored migration *)
Definition P_prefix : project :=
  mkProject (mkConfig "models" "migrations" FJson FJson default_pattern "src/models" "app_")
            [("user.json", user_table true)]
            [("0001_init.vespertide.json", init_plan)].

(* the former D8 witness: diff is empty and so is sql; with a pending change sql shows it prefixed against app_user *)
Theorem sql_prefix_witness :
  pj_prefix P_prefix = "app_"
  /\ cmd_diff P_prefix = Ok DiffNone /\ cmd_sql P_prefix = Ok SqlNone
  /\ exists b,
       cmd_sql (mkProject (pj_config P_prefix) [("user.json", user_table false)] (pj_migrations P_prefix))
       = Ok (SqlRender 2 [ModifyColumnNullable "app_user" "email" false None] b)
       /\ map t_name b = ["app_user"].
Proof.
  split; [reflexivity|]. split; [vm_compute; reflexivity|]. split; [vm_compute; reflexivity|].
  eexists. split; vm_compute; reflexivity.
Qed.

(* the D7 witness (nullability change only): since fix b3fae31 status reports the difference *)
Definition P_nullable : project :=
  mkProject default_config [("user.json", user_table false)] [("0001_init.vespertide.json", init_plan)].

(* status says "synchronized" iff diff finds nothing *)
Theorem status_sync_iff_no_diff : forall P,
  (* the property's direction holds without any side condition *)
  (cmd_status P = Ok StSync -> cmd_diff P = Ok DiffNone)
  (* with stored migrations the two commands are the same test *)
  /\ (forall plans, load_migrations P = Ok plans -> plans <> [] ->
        (cmd_status P = Ok StSync <-> cmd_diff P = Ok DiffNone)
        /\ (cmd_status P = Ok StDiffers <-> exists acts, cmd_diff P = Ok (DiffChanges acts))
        /\ ((exists e, cmd_status P = Err e) <-> (exists e, cmd_diff P = Err e)))
  (* without stored migrations status never says synchronized: it reports the two special states *)
  /\ (load_migrations P = Ok [] -> forall models, load_models P = Ok models ->
        cmd_status P = Ok (if is_nil models then StEmpty else StNoMigrations))
  (* loader errors are the same error in both *)
  /\ (forall e, load_models P = Err e \/ (exists m, load_models P = Ok m /\ load_migrations P = Err e) ->
        cmd_status P = Err e /\ cmd_diff P = Err e).
Proof.
  intros P. unfold cmd_status, cmd_diff.
  destruct (load_models P) as [models|e0].
  2:{ split; [intros H; discriminate H|]. split; [|split].
      - intros plans _ _. split; [split; intros H; discriminate H|]. split.
        + split; [intros H; discriminate H|intros [a H]; discriminate H].
        + split; intros _; eauto.
      - intros _ models H. discriminate H.
      - intros e [H|[m [H _]]]; [inversion H; subst; split; reflexivity|discriminate H]. }
  destruct (load_migrations P) as [plans|e0].
  2:{ split; [intros H; discriminate H|]. split; [|split].
      - intros plans H. discriminate H.
      - intros H. discriminate H.
      - intros e [H|[m [_ H]]]; [discriminate H|inversion H; subst; split; reflexivity]. }
  rewrite plan_next_unfold.
  destruct plans as [|p0 ps].
  - (* no stored migration *)
    change (replay []) with (@Ok schema planner_error []). cbv beta iota.
    split.
    { destruct (is_nil models); intros H; discriminate H. }
    split; [intros plans H Hne; inversion H; subst; contradiction Hne; reflexivity|].
    split; [intros _ m H; inversion H; subst; reflexivity|].
    intros e [H|[m [_ H]]]; discriminate H.
  - destruct (replay (p0 :: ps)) as [baseline|e0].
    + destruct (diff_actions baseline models) as [acts|e1]; cbn [p_actions].
      * destruct (is_nil acts) eqn:Hn.
        { split; [reflexivity|]. split; [|split].
          - intros plans _ _. split; [split; reflexivity|]. split.
            + split; [intros H; discriminate H|intros [a H]; discriminate H].
            + split; intros [e H]; discriminate H.
          - intros H. discriminate H.
          - intros e [H|[m [_ H]]]; discriminate H. }
        { split; [intros H; discriminate H|]. split; [|split].
          - intros plans _ _. split; [split; intros H; discriminate H|]. split.
            + split; [intros _; eauto|reflexivity].
            + split; intros [e H]; discriminate H.
          - intros H. discriminate H.
          - intros e [H|[m [_ H]]]; discriminate H. }
      * split; [intros H; discriminate H|]. split; [|split].
        { intros plans _ _. split; [split; intros H; discriminate H|]. split.
          - split; [intros H; discriminate H|intros [a H]; discriminate H].
          - split; intros _; eauto. }
        { intros H. discriminate H. }
        { intros e [H|[m [_ H]]]; discriminate H. }
    + split; [intros H; discriminate H|]. split; [|split].
      { intros plans _ _. split; [split; intros H; discriminate H|]. split.
        - split; [intros H; discriminate H|intros [a H]; discriminate H].
        - split; intros _; eauto. }
      { intros H. discriminate H. }
      { intros e [H|[m [_ H]]]; discriminate H. }
Qed.

(* ------------------------------------------------------------------ log vs the macro *)
Lemma validate_files_err : forall fs e, validate_files fs = Err e -> exists f ve, e = ELoadMigration f ve.
Proof.
  induction fs as [|[f p] r IH]; cbn [validate_files]; intros e H; [discriminate H|].
  destruct (validate_migration_plan p) as [u|ve].
  - exact (IH e H).
  - inversion H; subst e. eauto.
Qed.

(* any history, hand-written files included: the two agree up to the loaders' difference (the CLI loader
   validates every stored plan, the macro's loader does not; the macro normalises the models, log does not read them) *)
Theorem log_equals_runtime_any_history : forall P,
  (forall es, cmd_log P = Ok (LogEntries es) ->
     macro_blocks P = Ok es \/ exists e, macro_blocks P = Err (MacroModels e))
  /\ (forall es, macro_blocks P = Ok es ->
        cmd_log P = Ok (LogEntries es)
        \/ (es = [] /\ cmd_log P = Ok LogNone)
        \/ exists f e, cmd_log P = Err (ELoadMigration f e)).
Proof.
  intros P. unfold cmd_log, macro_blocks, load_migrations, macro_load_migrations.
  split; intros es.
  - destruct (validate_files (pj_migrations P)) as [[]|e]; [|intros H; discriminate H].
    destruct (sort_plans (map snd (pj_migrations P))) as [|p r] eqn:Hs; [intros H; discriminate H|].
    intros H. inversion H; subst es.
    destruct (map_result normalize (map snd (pj_models P))) as [ns|e]; [left; reflexivity|right; eauto].
  - destruct (map_result normalize (map snd (pj_models P))) as [ns|e]; [|intros H; discriminate H].
    intros H. inversion H; subst es.
    destruct (validate_files (pj_migrations P)) as [[]|e] eqn:Hv.
    + destruct (sort_plans (map snd (pj_migrations P))) as [|p r] eqn:Hs.
      * right; left. split; reflexivity.
      * left. reflexivity.
    + right; right. destruct (validate_files_err _ _ Hv) as [file [ve He]]. subst e. eauto.
Qed.

(* what `log` shows for a list of entries *)
Definition log_view (es : list log_entry) : log_out := match es with [] => LogNone | _ => LogEntries es end.

(* a history every file of which passes validate_migration_plan (true of what `revision` writes, see
   HistoryP.revision_output_loadable): log shows exactly what the macro builds, no exception *)
Theorem log_equals_runtime : forall P,
  validate_files (pj_migrations P) = Ok tt ->
  (forall es, macro_blocks P = Ok es -> cmd_log P = Ok (log_view es))
  /\ (exists es, cmd_log P = Ok (log_view es)
                 /\ (macro_blocks P = Ok es \/ exists e, macro_blocks P = Err (MacroModels e))).
Proof.
  intros P Hv. unfold cmd_log, macro_blocks, load_migrations, macro_load_migrations. rewrite Hv.
  assert (Hview : forall ps, match ps with
                             | [] => Ok LogNone
                             | _ => Ok (LogEntries (incr_walk [] (map (plan_with_prefix (pj_prefix P)) ps)))
                             end = @Ok log_out cli_error (log_view (incr_walk [] (map (plan_with_prefix (pj_prefix P)) ps)))).
  { intros [|p r]; reflexivity. }
  rewrite Hview. split.
  - intros es. destruct (map_result normalize (map snd (pj_models P))); intros H; [inversion H; reflexivity|discriminate H].
  - eexists. split; [reflexivity|].
    destruct (map_result normalize (map snd (pj_models P))) as [ns|e]; [left; reflexivity|right; eauto].
Qed.

(* the exception in log_equals_runtime_any_history is real for hand-written histories: the file below (an unfilled
   NOT NULL change; before fix 446c8b4 `revision` itself wrote it) is rejected by log and run by the macro *)
Definition P_unvalidated : project :=
  mkProject default_config [("user.json", user_table false)]
    [("0001_init.vespertide.json", init_plan);
     ("0002_tighten.vespertide.json", mkPlan "id-2" (Some "tighten") None 2 [ModifyColumnNullable "user" "email" false None])].

Theorem log_rejects_what_runtime_runs_refuted :
  exists P es, macro_blocks P = Ok es /\ List.length es = 2%nat /\ exists f e, cmd_log P = Err (ELoadMigration f e).
Proof. exists P_unvalidated. eexists. split; [vm_compute; reflexivity|]. split; [reflexivity|]. do 2 eexists. vm_compute. reflexivity. Qed.
