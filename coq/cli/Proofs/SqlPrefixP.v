(* C13, what the baseline `sql` renders against is: under the side conditions of layer m1's equivariance theorem
   (VV.M1.PrefixApplyP.apply_all_equivariant) the replay of the prefixed history is the replay of the history with every
   table name (and foreign-key target) literally prefixed, errors included. *)
From VV.M1 Require Import Oracles PrefixHyp PrefixStrP PrefixP PrefixApplyP.
From VV.CLI Require Import Project.

Theorem sql_baseline_is_prefixed_baseline : forall p plans,
  p <> "" -> no_dot p ->
  forallb (fun pl => forallb inline_fks_parse (p_actions pl)) plans = true ->
  side_all p [] (flat_map p_actions plans) = true ->
  prefixed_baseline p plans = lift_apply p (replay plans).
Proof.
  intros p plans Hne Hp Hfk Hs. unfold prefixed_baseline.
  replace (map (plan_with_prefix p) plans) with (map (literal_plan p) plans).
  - unfold replay.
    assert (Hacts : flat_map p_actions (map (literal_plan p) plans) = map (literal_action p) (flat_map p_actions plans)).
    { rewrite flat_map_map, map_flat_map. reflexivity. }
    rewrite Hacts. change (@nil table_def) with (literal_schema p []) at 1.
    apply (apply_all_equivariant p _ [] Hp Hs).
  - apply map_ext_in. intros pl Hin. symmetry. apply plan_with_prefix_literal_plan; [exact Hne|].
    rewrite forallb_forall in Hfk. now apply Hfk.
Qed.
