(* C14 at the CLI level: with a prefix p, what `sql` and `log` hand to the SQL generator is what they hand to it for the
   literally renamed project (every table name, foreign-key target and inline foreign_key of the models and of the stored
   migrations prefixed by hand) with no prefix — under the side conditions of layer m1's equivariance theorems. *)
From VV.M1 Require Import Oracles PrefixHyp PrefixStrP PrefixP PrefixDiffP PrefixApplyP.
From VV.CLI Require Import Project ProjectP SqlPrefixP.

Definition literal_cli_error (p : string) (e : cli_error) : cli_error :=
  match e with EBaseline x => EBaseline (literal_perr p x) | other => other end.

Lemma replay_literal_plans : forall p plans, no_dot p ->
  side_all p [] (flat_map p_actions plans) = true ->
  replay (map (literal_plan p) plans) = lift_apply p (replay plans).
Proof.
  intros p plans Hp Hs. unfold replay.
  assert (Hacts : flat_map p_actions (map (literal_plan p) plans) = map (literal_action p) (flat_map p_actions plans)).
  { rewrite flat_map_map, map_flat_map. reflexivity. }
  rewrite Hacts. change (@nil table_def) with (literal_schema p []) at 1.
  apply (apply_all_equivariant p _ [] Hp Hs).
Qed.

Lemma next_version_literal : forall p plans, next_version (map (literal_plan p) plans) = next_version plans.
Proof. intros p plans. unfold next_version. rewrite map_map. reflexivity. Qed.

Lemma map_with_prefix_literal : forall p acts, p <> "" -> forallb inline_fks_parse acts = true ->
  map (action_with_prefix p) acts = map (literal_action p) acts.
Proof.
  intros p acts Hne H. apply map_ext_in. intros a Hin. apply with_prefix_is_literal; [exact Hne|].
  rewrite forallb_forall in H. apply H. exact Hin.
Qed.

Theorem sql_prefix_is_literal_renaming : forall p models plans,
  p <> "" -> no_dot p ->
  forallb (fun pl => forallb inline_fks_parse (p_actions pl)) plans = true ->
  side_all p [] (flat_map p_actions plans) = true ->
  (forall b acts, replay plans = Ok b -> diff_actions b models = Ok acts -> forallb inline_fks_parse acts = true) ->
  sql_core "" (literal_schema p models) (map (literal_plan p) plans)
  = match sql_core p models plans with Ok o => Ok o | Err e => Err (literal_cli_error p e) end.
Proof.
  intros p models plans Hne Hp Hfk Hs Hnew. unfold sql_core.
  unfold prefixed_baseline at 1. rewrite map_plan_with_prefix_empty.
  rewrite (replay_literal_plans p plans Hp Hs), (sql_baseline_is_prefixed_baseline p plans Hne Hp Hfk Hs), next_version_literal.
  destruct (replay plans) as [b|e] eqn:Hr; cbn [lift_apply]; [|reflexivity].
  rewrite (diff_equivariant p b models Hp).
  destruct (diff_actions b models) as [acts|e] eqn:Hd; [|reflexivity].
  rewrite plan_with_prefix_empty. cbn [p_actions p_version].
  destruct (prefixed_plan_parts p (next_version plans) acts) as [Hpa Hpv]. rewrite Hpa, Hpv.
  rewrite (map_with_prefix_literal p acts Hne (Hnew b acts eq_refl Hd)). reflexivity.
Qed.

(* `log` (and the macro): the prefixed stored plans are the literally renamed stored plans *)
Theorem log_prefix_is_literal_renaming : forall p plans,
  p <> "" ->
  forallb (fun pl => forallb inline_fks_parse (p_actions pl)) plans = true ->
  incr_walk [] (map (plan_with_prefix p) plans)
  = incr_walk [] (map (plan_with_prefix "") (map (literal_plan p) plans)).
Proof.
  intros p plans Hne Hfk. rewrite map_plan_with_prefix_empty. f_equal.
  apply map_ext_in. intros pl Hin. apply plan_with_prefix_literal_plan; [exact Hne|].
  rewrite forallb_forall in Hfk. apply Hfk. exact Hin.
Qed.
