(* Proofs about migration file names (utils.rs): with the default pattern "%04v_%m" two different
   versions never give the same file name, whatever the comments and formats are. *)
From VV.CLI Require Import Project.
From Coq Require Import Lia.

Local Open Scope N_scope.

(* ------------------------------------------------------------------ strings *)
Lemma app_assoc_s : forall a b c : string, (a +++ b) +++ c = a +++ (b +++ c).
Proof. induction a as [|x a IH]; intros b c; cbn [String.append]; [reflexivity|]. rewrite IH. reflexivity. Qed.

Lemma app_empty_r : forall a : string, a +++ "" = a.
Proof. induction a as [|x a IH]; cbn [String.append]; [reflexivity|]. rewrite IH. reflexivity. Qed.

Fixpoint all_digits (s : string) : bool :=
  match s with EmptyString => true | String c r => (is_ascii_digit c && all_digits r)%bool end.

Lemma all_digits_app : forall a b, all_digits (a +++ b) = (all_digits a && all_digits b)%bool.
Proof.
  induction a as [|x a IH]; intros b; cbn [String.append all_digits]; [reflexivity|].
  rewrite IH. rewrite Bool.andb_assoc. reflexivity.
Qed.

(* longest prefix made of digits *)
Fixpoint lead_digits (s : string) : string :=
  match s with
  | EmptyString => EmptyString
  | String c r => if is_ascii_digit c then String c (lead_digits r) else EmptyString
  end.

Definition starts_nondigit (s : string) : Prop :=
  match s with EmptyString => True | String c _ => is_ascii_digit c = false end.

Lemma lead_digits_app : forall d t, all_digits d = true -> starts_nondigit t -> lead_digits (d +++ t) = d.
Proof.
  induction d as [|x d IH]; intros t Hd Ht.
  - cbn [String.append]. destruct t as [|c r]; [reflexivity|]. cbn [lead_digits]. cbn in Ht. rewrite Ht. reflexivity.
  - cbn [String.append lead_digits]. cbn [all_digits] in Hd. apply Bool.andb_true_iff in Hd. destruct Hd as [Hx Hd].
    rewrite Hx. rewrite (IH t Hd Ht). reflexivity.
Qed.

(* ------------------------------------------------------------------ decimal rendering *)
Lemma digit_char_code : forall r, r < 10 -> N_of_ascii (digit_char r) = 48 + r.
Proof.
  intros r Hr. unfold digit_char. apply N_ascii_embedding. lia.
Qed.

Lemma digit_char_is_digit : forall r, r < 10 -> is_ascii_digit (digit_char r) = true.
Proof.
  intros r Hr. unfold is_ascii_digit. rewrite (digit_char_code r Hr).
  apply Bool.andb_true_iff. split; apply N.leb_le; lia.
Qed.

Lemma parse_dec_app : forall s t a, parse_dec_acc (s +++ t) a = parse_dec_acc t (parse_dec_acc s a).
Proof. induction s as [|c s IH]; intros t a; cbn [String.append parse_dec_acc]; [reflexivity|]. apply IH. Qed.

(* N_to_string_fuel with enough fuel prints digits whose value is n, in front of the accumulator *)
Lemma N_to_string_fuel_spec : forall fuel n acc,
  n < 2 ^ N.of_nat fuel -> fuel <> O ->
  exists s, N_to_string_fuel fuel n acc = s +++ acc
            /\ all_digits s = true /\ s <> ""
            /\ forall a, parse_dec_acc s a = a * 10 ^ N.of_nat (String.length s) + n.
Proof.
  induction fuel as [|f IH]; intros n acc Hn Hf.
  - contradiction Hf; reflexivity.
  - cbn [N_to_string_fuel].
    assert (Hr : n mod 10 < 10) by (apply N.mod_lt; lia).
    assert (Hdm : n = 10 * (n / 10) + n mod 10) by (apply N.div_mod'; lia).
    destruct (N.eqb (n / 10) 0) eqn:Hq.
    + apply N.eqb_eq in Hq.
      exists (String (digit_char (n mod 10)) "").
      split; [reflexivity|]. split.
      { cbn [all_digits]. rewrite (digit_char_is_digit _ Hr). reflexivity. }
      split; [discriminate|].
      intros a. cbn [parse_dec_acc String.length]. rewrite (digit_char_code _ Hr).
      change (N.of_nat 1) with 1. rewrite N.pow_1_r. lia.
    + apply N.eqb_neq in Hq.
      assert (Hq2 : n / 10 < 2 ^ N.of_nat f).
      { assert (n / 10 <= n / 2) by (apply N.div_le_compat_l; lia).
        assert (n / 2 < 2 ^ N.of_nat f).
        { apply N.div_lt_upper_bound; [lia|].
          replace (N.of_nat (S f)) with (N.succ (N.of_nat f)) in Hn by lia.
          rewrite N.pow_succ_r' in Hn. exact Hn. }
        lia. }
      assert (Hf2 : f <> O).
      { intros ->. change (N.of_nat 0) with 0 in Hq2. rewrite N.pow_0_r in Hq2. lia. }
      destruct (IH (n / 10) (String (digit_char (n mod 10)) acc) Hq2 Hf2) as [s [Hs [Hd [Hne Hv]]]].
      exists (s +++ String (digit_char (n mod 10)) "").
      split.
      { rewrite Hs. rewrite app_assoc_s. reflexivity. }
      split.
      { rewrite all_digits_app, Hd. cbn [all_digits]. rewrite (digit_char_is_digit _ Hr). reflexivity. }
      split.
      { destruct s; [contradiction Hne; reflexivity|discriminate]. }
      intros a. rewrite parse_dec_app, Hv. cbn [parse_dec_acc]. rewrite (digit_char_code _ Hr).
      assert (Hl : String.length (s +++ String (digit_char (n mod 10)) "") = S (String.length s)).
      { clear. induction s as [|c s IH]; cbn [String.append String.length]; [reflexivity|]. rewrite IH. reflexivity. }
      rewrite Hl. replace (N.of_nat (S (String.length s))) with (N.succ (N.of_nat (String.length s))) by lia.
      rewrite N.pow_succ_r'.
      replace (a * (10 * 10 ^ N.of_nat (String.length s))) with ((a * 10 ^ N.of_nat (String.length s)) * 10) by ring.
      set (X := a * 10 ^ N.of_nat (String.length s)). clearbody X.
      set (q := n / 10) in *. set (r := n mod 10) in *. clearbody q r. clear - Hdm. lia.
Qed.

Lemma N_to_string_spec : forall n,
  all_digits (N_to_string n) = true /\ N_to_string n <> "" /\ parse_dec_acc (N_to_string n) 0 = n.
Proof.
  intros n. unfold N_to_string.
  assert (Hn : n < 2 ^ N.of_nat (S (N.to_nat (N.log2 n)))).
  { replace (N.of_nat (S (N.to_nat (N.log2 n)))) with (N.succ (N.log2 n)) by lia.
    destruct (N.eq_dec n 0) as [->|Hz]; [cbn; lia|].
    apply N.log2_spec. lia. }
  destruct (N_to_string_fuel_spec _ n "" Hn (Nat.neq_succ_0 _)) as [s [Hs [Hd [Hne Hv]]]].
  rewrite Hs, app_empty_r. split; [exact Hd|]. split; [exact Hne|]. rewrite Hv. lia.
Qed.

Lemma zeros_digits : forall k, all_digits (zeros k) = true.
Proof. induction k as [|k IH]; cbn [zeros all_digits]; [reflexivity|]. rewrite IH. reflexivity. Qed.

Lemma parse_zeros : forall k s a, parse_dec_acc (zeros k +++ s) a = parse_dec_acc s (a * 10 ^ N.of_nat k).
Proof.
  induction k as [|k IH]; intros s a.
  - cbn [zeros String.append]. change (N.of_nat 0) with 0. rewrite N.pow_0_r, N.mul_1_r. reflexivity.
  - cbn [zeros String.append parse_dec_acc]. rewrite IH.
    change (N_of_ascii "0"%char - 48) with 0. rewrite N.add_0_r.
    replace (N.of_nat (S k)) with (N.succ (N.of_nat k)) by lia. rewrite N.pow_succ_r'.
    f_equal. lia.
Qed.

Lemma fmt_version_spec : forall w v,
  all_digits (fmt_version w v) = true /\ fmt_version w v <> "" /\ parse_dec_acc (fmt_version w v) 0 = v.
Proof.
  intros w v. unfold fmt_version, pad_zeros.
  destruct (N_to_string_spec v) as [Hd [Hne Hv]].
  split; [rewrite all_digits_app, zeros_digits, Hd; reflexivity|].
  split.
  - destruct (zeros (w - String.length (N_to_string v))); cbn [String.append]; [exact Hne|discriminate].
  - rewrite parse_zeros. rewrite N.mul_0_l. exact Hv.
Qed.

Lemma fmt_version_inj : forall w w' v v', fmt_version w v = fmt_version w' v' -> v = v'.
Proof.
  intros w w' v v' H.
  destruct (fmt_version_spec w v) as [_ [_ H1]]. destruct (fmt_version_spec w' v') as [_ [_ H2]].
  rewrite H in H1. rewrite H1 in H2. exact H2.
Qed.

(* ------------------------------------------------------------------ trimming keeps the digits in front *)
Definition empty_or_underscore (s : string) : Prop :=
  s = "" \/ exists r, s = String "_"%char r.

Lemma trim_underscore_tail : forall s, empty_or_underscore (trim_trailing_seps (String "_"%char s)).
Proof.
  intros s. cbn [trim_trailing_seps].
  destruct (String.eqb (trim_trailing_seps s) "" && is_trail_sep "_"%char)%bool; [left; reflexivity|right; eauto].
Qed.

Lemma digit_not_sep : forall c, is_ascii_digit c = true -> is_trail_sep c = false.
Proof.
  intros c H. unfold is_ascii_digit in H. apply Bool.andb_true_iff in H. destruct H as [H1 H2].
  apply N.leb_le in H1. apply N.leb_le in H2.
  unfold is_trail_sep.
  destruct (Ascii.eqb c "_"%char) eqn:E1; [apply Ascii.eqb_eq in E1; subst c; cbn in H2; lia|].
  destruct (Ascii.eqb c "-"%char) eqn:E2; [apply Ascii.eqb_eq in E2; subst c; cbn in H1; lia|].
  destruct (Ascii.eqb c "."%char) eqn:E3; [apply Ascii.eqb_eq in E3; subst c; cbn in H1; lia|].
  reflexivity.
Qed.

Lemma trim_digits_front : forall d t,
  all_digits d = true -> d <> "" ->
  trim_trailing_seps (d +++ String "_"%char t) = d +++ trim_trailing_seps (String "_"%char t).
Proof.
  induction d as [|c d IH]; intros t Hd Hne; [contradiction Hne; reflexivity|].
  cbn [all_digits] in Hd. apply Bool.andb_true_iff in Hd. destruct Hd as [Hc Hd].
  cbn [String.append]. cbn [trim_trailing_seps]. fold trim_trailing_seps.
  rewrite (digit_not_sep c Hc). rewrite Bool.andb_false_r.
  destruct d as [|c2 d2].
  - cbn [String.append]. reflexivity.
  - rewrite (IH t Hd); [reflexivity|discriminate].
Qed.

(* ------------------------------------------------------------------ the default pattern *)
Lemma render_default : forall v m,
  render_go (fmt_version 4 v) v m PNormal default_pattern = fmt_version 4 v +++ String "_"%char (m +++ "").
Proof. intros v m. reflexivity. Qed.

Lemma default_name_shape : forall v c,
  exists t, render_migration_name default_pattern v c = fmt_version 4 v +++ t /\ empty_or_underscore t.
Proof.
  intros v c. unfold render_migration_name. rewrite render_default.
  destruct (fmt_version_spec 4 v) as [Hd [Hne _]].
  rewrite (trim_digits_front _ _ Hd Hne).
  destruct (String.eqb (fmt_version 4 v +++ trim_trailing_seps (String "_"%char (c +++ ""))) "") eqn:He.
  - exists "". split; [rewrite app_empty_r; reflexivity|left; reflexivity].
  - eexists. split; [reflexivity|]. apply trim_underscore_tail.
Qed.

Lemma default_filename_lead : forall v c f,
  lead_digits (migration_filename v c f default_pattern) = fmt_version 4 v.
Proof.
  intros v c f. unfold migration_filename.
  destruct (default_name_shape v (sanitize_comment c)) as [t [Ht Hs]]. rewrite Ht.
  destruct (fmt_version_spec 4 v) as [Hd _].
  rewrite app_assoc_s. apply lead_digits_app; [exact Hd|].
  destruct Hs as [->|[r ->]]; cbn; reflexivity.
Qed.

Theorem filename_fresh : forall v v' c c' f f',
  v <> v' ->
  migration_filename v c f default_pattern <> migration_filename v' c' f' default_pattern.
Proof.
  intros v v' c c' f f' Hv H.
  apply (f_equal lead_digits) in H. rewrite !default_filename_lead in H.
  apply fmt_version_inj in H. contradiction.
Qed.
