(* More proofs about the export-tree model (C20): what exactly is in the directory after an export
   (one entity file per model under [no_collision], nothing else in the ORM's language), and the
   `pub mod` chain of a SeaORM export. *)
From VV.CLI Require Import ExportTree ExportP.
From Coq Require Import Lia.

(* ------------------------------------------------------------------ write_all *)
Lemma existsb_path_false : forall p l,
  existsb (fun q => if list_eq_dec string_dec p q then true else false) l = false -> ~ In p l.
Proof.
  intros p l H Hin. induction l as [|q r IH]; [contradiction|].
  cbn [existsb] in H. apply Bool.orb_false_iff in H. destruct H as [H1 H2].
  destruct Hin as [->|Hin]; [|exact (IH H2 Hin)].
  destruct (list_eq_dec string_dec p p); [discriminate H1|contradiction].
Qed.

Lemma write_all_spec : forall o ms es es',
  write_all o ms es = Some es' ->
  distinct_paths (map (out_path o) ms) = true ->
  (forall m, In m ms -> file_at (out_path o m) es' = Some (entity_content m))
  /\ (forall p, ~ In p (map (out_path o) ms) -> file_at p es' = file_at p es).
Proof.
  intros o. induction ms as [|m r IH]; intros es es' H Hd.
  - cbn in H. inversion H; subst. split; [intros m []|reflexivity].
  - cbn [write_all] in H. cbn [map distinct_paths] in Hd.
    apply Bool.andb_true_iff in Hd. destruct Hd as [Hn Hd].
    apply Bool.negb_true_iff in Hn. apply existsb_path_false in Hn.
    destruct (mkdir_p (out_dirs m) es) as [es1|] eqn:H1; [|discriminate H].
    destruct (write_at (out_dirs m) (out_file o m) (entity_content m) es1) as [es2|] eqn:H2; [|discriminate H].
    destruct (IH es2 es' H Hd) as [IHa IHb].
    assert (Hstep : forall p, file_at p es2 = if path_eqb p (out_path o m) then Some (entity_content m) else file_at p es).
    { intros p. rewrite (file_at_write_at _ _ _ _ _ H2), (file_at_mkdir_p _ _ _ H1). reflexivity. }
    split.
    + intros m' [<-|Hin]; [|apply IHa; exact Hin].
      rewrite (IHb _ Hn), Hstep, path_eqb_refl. reflexivity.
    + intros p Hp. cbn [map In] in Hp.
      rewrite IHb by (intros Hin; apply Hp; right; exact Hin).
      rewrite Hstep. destruct (path_eqb p (out_path o m)) eqn:E; [|reflexivity].
      apply path_eqb_true in E. exfalso. apply Hp. left. symmetry. exact E.
Qed.

Lemma write_all_only : forall o ms es es',
  write_all o ms es = Some es' ->
  forall p c, file_at p es' = Some c -> (exists m, In m ms /\ p = out_path o m) \/ file_at p es = Some c.
Proof.
  intros o. induction ms as [|m r IH]; intros es es' H p c Hf.
  - cbn in H. inversion H; subst. right. exact Hf.
  - cbn [write_all] in H.
    destruct (mkdir_p (out_dirs m) es) as [es1|] eqn:H1; [|discriminate H].
    destruct (write_at (out_dirs m) (out_file o m) (entity_content m) es1) as [es2|] eqn:H2; [|discriminate H].
    destruct (IH es2 es' H p c Hf) as [[m' [Hin Hp]]|Hf2].
    + left. exists m'. split; [right; exact Hin|exact Hp].
    + rewrite (file_at_write_at _ _ _ _ _ H2), (file_at_mkdir_p _ _ _ H1) in Hf2.
      destruct (path_eqb p (out_dirs m ++ [out_file o m])) eqn:E.
      * apply path_eqb_true in E. left. exists m. split; [left; reflexivity|exact E].
      * right. exact Hf2.
Qed.

Lemma write_all_exists : forall o ms es es',
  write_all o ms es = Some es' ->
  (forall m, In m ms -> file_at (out_path o m) es' <> None)
  /\ (forall p, file_at p es <> None -> file_at p es' <> None).
Proof.
  intros o. induction ms as [|m r IH]; intros es es' H.
  - cbn in H. inversion H; subst. split; [intros m []|intros p Hp; exact Hp].
  - cbn [write_all] in H.
    destruct (mkdir_p (out_dirs m) es) as [es1|] eqn:H1; [|discriminate H].
    destruct (write_at (out_dirs m) (out_file o m) (entity_content m) es1) as [es2|] eqn:H2; [|discriminate H].
    destruct (IH es2 es' H) as [IHa IHb].
    assert (Hstep : forall p, file_at p es2 = if path_eqb p (out_path o m) then Some (entity_content m) else file_at p es).
    { intros p. rewrite (file_at_write_at _ _ _ _ _ H2), (file_at_mkdir_p _ _ _ H1). reflexivity. }
    split.
    + intros m' [<-|Hin]; [|apply IHa; exact Hin].
      apply IHb. rewrite Hstep, path_eqb_refl. discriminate.
    + intros p Hp. apply IHb. rewrite Hstep. destruct (path_eqb p (out_path o m)); [discriminate|exact Hp].
Qed.

(* ------------------------------------------------------------------ one step of the mod chain *)
(* [mod_chain_go] only ever rewrites files called mod.rs, and only by appending a line *)
Definition has_decl (p : path) (c : string) (es : dir) : bool :=
  match file_at p es with Some ls => existsb (is_decl c) ls | None => false end.

Lemma existsb_app_l : forall A (f : A -> bool) l r, existsb f l = true -> existsb f (l ++ r) = true.
Proof. intros A f l r H. rewrite existsb_app, H. reflexivity. Qed.

Lemma mod_chain_facts : forall cr es es',
  mod_chain_go cr es = Some es' ->
  (forall p, last p "" <> "mod.rs" -> file_at p es' = file_at p es)
  /\ (forall p, file_at p es <> None -> file_at p es' <> None)
  /\ (forall p c, has_decl p c es = true -> has_decl p c es' = true)
  /\ (forall p c, file_at p es' = Some c -> last p "" = "mod.rs" \/ file_at p es = Some c)
  /\ (forall pre c post, rev cr = pre ++ c :: post -> has_decl (pre ++ ["mod.rs"]) c es' = true).
Proof.
  induction cr as [|child pr IH]; intros es es' H.
  - cbn in H. inversion H; subst.
    split; [reflexivity|]. split; [intros p Hp; exact Hp|]. split; [intros p c Hp; exact Hp|].
    split; [intros p c Hp; right; exact Hp|].
    intros pre c post Hr. cbn in Hr. destruct pre; discriminate Hr.
  - cbn [mod_chain_go] in H.
    destruct (mkdir_p (rev pr) es) as [es1|] eqn:H1; [|discriminate H].
    pose proof (file_at_mkdir_p _ _ _ H1) as E1.
    set (q := rev pr ++ ["mod.rs"]) in *.
    assert (Hq : last q "" = "mod.rs") by (unfold q; apply last_last).
    (* the content read, and the tree after this step *)
    assert (Hstep : exists c0 es2,
               mod_chain_go pr es2 = Some es'
               /\ (file_at q es1 = Some c0 \/ (file_at q es1 = None /\ c0 = []))
               /\ ((existsb (is_decl child) c0 = true /\ es2 = es1)
                   \/ (existsb (is_decl child) c0 = false
                       /\ forall p, file_at p es2 = if path_eqb p q then Some (c0 ++ [LDecl child]) else file_at p es1))).
    { rewrite (lookup_file_at q es1).
      destruct (lookup q es1) as [[c0|sub]|] eqn:L; [|discriminate H|].
      - destruct (existsb (is_decl child) c0) eqn:Ex.
        + exists c0, es1. split; [exact H|]. split; [left; reflexivity|left; split; [exact Ex|reflexivity]].
        + destruct (write_at (rev pr) "mod.rs" (c0 ++ [LDecl child]) es1) as [es2|] eqn:H2; [|discriminate H].
          exists c0, es2. split; [exact H|]. split; [left; reflexivity|].
          right. split; [exact Ex|]. intros p. apply (file_at_write_at _ _ _ _ _ H2).
      - cbn [existsb] in H.
        destruct (write_at (rev pr) "mod.rs" ([] ++ [LDecl child]) es1) as [es2|] eqn:H2; [|discriminate H].
        exists [], es2. split; [exact H|]. split; [right; split; reflexivity|].
        right. split; [reflexivity|]. intros p. apply (file_at_write_at _ _ _ _ _ H2). }
    destruct Hstep as [c0 [es2 [Hrest [Hc0 Hes2]]]].
    destruct (IH es2 es' Hrest) as [IH1 [IH2 [IH3 [IH4 IH5]]]].
    (* facts about es -> es2 *)
    assert (S1 : forall p, last p "" <> "mod.rs" -> file_at p es2 = file_at p es).
    { intros p Hp. destruct Hes2 as [[_ ->]|[_ Hw]]; [apply E1|].
      rewrite Hw. destruct (path_eqb p q) eqn:E; [apply path_eqb_true in E; subst p; contradiction|apply E1]. }
    assert (S2 : forall p, file_at p es <> None -> file_at p es2 <> None).
    { intros p Hp. destruct Hes2 as [[_ ->]|[_ Hw]]; [rewrite E1; exact Hp|].
      rewrite Hw. destruct (path_eqb p q); [discriminate|rewrite E1; exact Hp]. }
    assert (S3 : forall p c, has_decl p c es = true -> has_decl p c es2 = true).
    { intros p c Hp. unfold has_decl in *. destruct Hes2 as [[_ ->]|[_ Hw]]; [rewrite E1; exact Hp|].
      rewrite Hw. destruct (path_eqb p q) eqn:E; [|rewrite E1; exact Hp].
      apply path_eqb_true in E. subst p. rewrite <- E1 in Hp.
      destruct Hc0 as [Hc|[Hc _]]; rewrite Hc in Hp; [apply existsb_app_l; exact Hp|discriminate Hp]. }
    assert (S4 : forall p c, file_at p es2 = Some c -> last p "" = "mod.rs" \/ file_at p es = Some c).
    { intros p c Hp. destruct Hes2 as [[_ ->]|[_ Hw]]; [right; rewrite <- E1; exact Hp|].
      rewrite Hw in Hp. destruct (path_eqb p q) eqn:E.
      - apply path_eqb_true in E. subst p. left. exact Hq.
      - right. rewrite <- E1. exact Hp. }
    assert (S5 : has_decl q child es2 = true).
    { unfold has_decl. destruct Hes2 as [[Hex ->]|[_ Hw]].
      - destruct Hc0 as [Hc|[_ Hc]]; [rewrite Hc; exact Hex|subst c0; discriminate Hex].
      - rewrite Hw, path_eqb_refl. rewrite existsb_app. cbn [existsb is_decl].
        rewrite String.eqb_refl. rewrite Bool.orb_true_r. reflexivity. }
    split; [intros p Hp; rewrite (IH1 p Hp); apply S1; exact Hp|].
    split; [intros p Hp; apply IH2, S2; exact Hp|].
    split; [intros p c Hp; apply IH3, S3; exact Hp|].
    split.
    { intros p c Hp. destruct (IH4 p c Hp) as [Hl|Hp2]; [left; exact Hl|apply S4; exact Hp2]. }
    intros pre c post Hr. cbn [rev] in Hr.
    destruct post as [|y post0 _] using rev_ind.
    + apply app_inj_tail in Hr. destruct Hr as [Hpre Hc]. subst pre c. apply IH3. exact S5.
    + change (pre ++ c :: post0 ++ [y]) with (pre ++ (c :: post0) ++ [y]) in Hr.
      rewrite app_assoc in Hr. apply app_inj_tail in Hr. destruct Hr as [Hpre Hy].
      apply (IH5 pre c post0). exact Hpre.
Qed.

Lemma chain_all_facts : forall ms es es',
  chain_all ms es = Some es' ->
  (forall p, last p "" <> "mod.rs" -> file_at p es' = file_at p es)
  /\ (forall p, file_at p es <> None -> file_at p es' <> None)
  /\ (forall p c, file_at p es' = Some c -> last p "" = "mod.rs" \/ file_at p es = Some c)
  /\ (forall m, In m ms -> forall pre c post, chain_comps m = pre ++ c :: post ->
        has_decl (pre ++ ["mod.rs"]) c es' = true)
  /\ (forall p c, has_decl p c es = true -> has_decl p c es' = true).
Proof.
  induction ms as [|m r IH]; intros es es' H.
  - cbn in H. inversion H; subst.
    split; [reflexivity|]. split; [intros p Hp; exact Hp|]. split; [intros p c Hp; right; exact Hp|].
    split; [intros m []|intros p c Hp; exact Hp].
  - cbn [chain_all] in H. unfold ensure_mod_chain in H.
    destruct (mod_chain_go (rev (chain_comps m)) es) as [es1|] eqn:H1; [|discriminate H].
    destruct (mod_chain_facts _ _ _ H1) as [A1 [A2 [A3 [A4 A5]]]].
    destruct (IH es1 es' H) as [B1 [B2 [B3 [B4 B5]]]].
    split; [intros p Hp; rewrite (B1 p Hp); apply A1; exact Hp|].
    split; [intros p Hp; apply B2, A2; exact Hp|].
    split.
    { intros p c Hp. destruct (B3 p c Hp) as [Hl|Hp2]; [left; exact Hl|apply A4; exact Hp2]. }
    split.
    { intros m' [<-|Hin] pre c post Hc.
      - apply B5. apply (A5 pre c post). rewrite rev_involutive. exact Hc.
      - apply (B4 m' Hin pre c post Hc). }
    intros p c Hp. apply B5, A3. exact Hp.
Qed.

Lemma reachable_of_decls : forall comps prefix es,
  (forall pre c post, comps = pre ++ c :: post -> has_decl (prefix ++ pre ++ ["mod.rs"]) c es = true) ->
  reachable_from prefix comps es = true.
Proof.
  induction comps as [|c r IH]; intros prefix es H; [reflexivity|].
  cbn [reachable_from]. apply Bool.andb_true_iff. split.
  - specialize (H [] c r eq_refl). cbn [app] in H. exact H.
  - apply IH. intros pre c' post Hr. subst r.
    specialize (H (c :: pre) c' post eq_refl).
    rewrite <- app_assoc. cbn [app] in *. exact H.
Qed.

(* ------------------------------------------------------------------ the theorems *)
Lemma export_unfold : forall o ms t r,
  export o ms t = Ok r ->
  no_collision o ms = true
  /\ exists w, write_all o ms (clean_dir (orm_ext o) t) = Some w
            /\ match o with SeaOrm => chain_all ms w = Some r | _ => r = w end.
Proof.
  intros o ms t r H. unfold export in H.
  destruct (negb (forallb normalize_ok ms)); [discriminate H|].
  destruct (no_collision o ms) eqn:Hnc; cbn [negb] in H; [|discriminate H].
  split; [reflexivity|].
  destruct (negb (forallb em_render_ok ms)); [discriminate H|].
  destruct (write_all o ms (clean_dir (orm_ext o) t)) as [w|]; [|discriminate H].
  exists w. split; [reflexivity|].
  destruct o; [|inversion H; reflexivity|inversion H; reflexivity].
  destruct (chain_all ms w); [inversion H; reflexivity|discriminate H].
Qed.

Lemma no_collision_parts : forall o ms,
  no_collision o ms = true ->
  distinct_paths (map (out_path o) ms) = true /\ forall m, In m ms -> out_file o m <> "mod.rs".
Proof.
  intros o ms H. unfold no_collision in H. apply Bool.andb_true_iff in H. destruct H as [H1 H2].
  split; [exact H1|]. intros m Hin He. rewrite forallb_forall in H2. specialize (H2 m Hin).
  rewrite He in H2. discriminate H2.
Qed.

(* since fix 18ab122 a successful export means there was no collision: every model has its entity file, holding
   exactly its rendering, at the mirrored (sanitised) path *)
Theorem export_entities_exact : forall o ms t r,
  export o ms t = Ok r ->
  no_collision o ms = true
  /\ forall m, In m ms -> file_at (out_path o m) r = Some (entity_content m).
Proof.
  intros o ms t r H.
  destruct (export_unfold _ _ _ _ H) as [Hnc [w [Hw Hr]]].
  split; [exact Hnc|]. intros m Hin.
  destruct (no_collision_parts _ _ Hnc) as [Hd Hmod].
  destruct (write_all_spec _ _ _ _ Hw Hd) as [Hent _].
  destruct o; [|subst r; apply Hent; exact Hin|subst r; apply Hent; exact Hin].
  destruct (chain_all_facts _ _ _ Hr) as [C1 _].
  rewrite C1; [apply Hent; exact Hin|].
  unfold out_path. rewrite last_last. apply Hmod. exact Hin.
Qed.

(* the collision itself is an explicit refusal, decided before the directory is cleaned or written
   (the error carries no tree: nothing has been touched; K-tree checks tree-before = tree-after on it) *)
Theorem export_collision_refused : forall o ms t,
  forallb normalize_ok ms = true ->
  (no_collision o ms = false <-> export o ms t = Err XCollision).
Proof.
  intros o ms t Hn. unfold export. rewrite Hn. cbn [negb].
  destruct (no_collision o ms); cbn [negb].
  - split; [intros H; discriminate H|].
    destruct (negb (forallb em_render_ok ms)); [intros H; discriminate H|].
    destruct (write_all o ms (clean_dir (orm_ext o) t)) as [w|]; [|intros H; discriminate H].
    destruct o; [destruct (chain_all ms w)|..]; intros H; discriminate H.
  - split; reflexivity.
Qed.

(* nothing else in the ORM's language is left: no residue of earlier exports *)
Theorem export_no_residue : forall o ms t r,
  export o ms t = Ok r ->
  forall p c, path_has_ext (orm_ext o) p = true -> file_at p r = Some c ->
    (exists m, In m ms /\ p = out_path o m) \/ (o = SeaOrm /\ last p "" = "mod.rs").
Proof.
  intros o ms t r H p c Hp Hf.
  destruct (export_unfold _ _ _ _ H) as [_ [w [Hw Hr]]].
  assert (Hwonly : forall c', file_at p w = Some c' -> exists m, In m ms /\ p = out_path o m).
  { intros c' Hc. destruct (write_all_only _ _ _ _ Hw p c' Hc) as [Hm|Hcl]; [exact Hm|].
    rewrite (clean_dir_no_ext _ _ _ Hp) in Hcl. discriminate Hcl. }
  destruct o; [|subst r; left; eapply Hwonly; exact Hf|subst r; left; eapply Hwonly; exact Hf].
  destruct (chain_all_facts _ _ _ Hr) as [_ [_ [C3 _]]].
  destruct (C3 p c Hf) as [Hl|Hf2]; [right; split; [reflexivity|exact Hl]|left; eapply Hwonly; exact Hf2].
Qed.

Lemma filter_all : forall A (f : A -> bool) l, forallb f l = true -> filter f l = l.
Proof.
  induction l as [|x r IH]; intros H; [reflexivity|]. cbn [forallb] in H. apply Bool.andb_true_iff in H. destruct H as [Hx Hr].
  cbn [filter]. rewrite Hx, (IH Hr). reflexivity.
Qed.

Lemma sanitize_nonempty : forall s, nonempty_name s = true -> nonempty_name (sanitize_filename s) = true.
Proof. intros [|c r] H; [discriminate H|reflexivity]. Qed.

Lemma chain_comps_named : forall m,
  path_names_nonempty m = true -> chain_comps m = out_dirs m ++ [out_stem (em_file m)].
Proof.
  intros m H. unfold path_names_nonempty in H. apply Bool.andb_true_iff in H. destruct H as [Hd Hs].
  unfold chain_comps. apply filter_all. rewrite forallb_app. apply Bool.andb_true_iff. split.
  - unfold out_dirs. rewrite forallb_forall in Hd. apply forallb_forall. intros x Hx.
    apply in_map_iff in Hx. destruct Hx as [y [<- Hy]]. apply sanitize_nonempty, Hd, Hy.
  - cbn [forallb]. rewrite Hs. reflexivity.
Qed.

(* SeaORM, since fix 350766d: every entity is reachable from the root mod.rs (for every model whose path has no empty
   component; chain and entity path are now the same function of the model path) *)
Theorem mod_chain_reaches_all : forall ms t r,
  export SeaOrm ms t = Ok r ->
  forall m, In m ms -> path_names_nonempty m = true -> entity_reachable m r = true.
Proof.
  intros ms t r H m Hin Hok.
  destruct (export_unfold _ _ _ _ H) as [_ [w [Hw Hr]]]. cbn in Hr.
  destruct (chain_all_facts _ _ _ Hr) as [_ [C2 [_ [C4 _]]]].
  destruct (write_all_exists _ _ _ _ Hw) as [We _].
  unfold entity_reachable. apply Bool.andb_true_iff. split.
  - specialize (C2 _ (We m Hin)). destruct (file_at (out_path SeaOrm m) r); [reflexivity|contradiction].
  - rewrite <- (chain_comps_named m Hok). apply reachable_of_decls. intros pre c post Hc. cbn [app]. apply (C4 m Hin pre c post Hc).
Qed.

(* ------------------------------------------------------------------ the former refutation witnesses (closed by computation) *)
Definition tbl (n : string) : table_def :=
  mkTable n None [mkCol "id" (TSimple Integer) false None None (Some (PKBool true)) None None None] [].

(* `a b.json` and `a_b.json` have one output path: refused, for every ORM and every starting tree *)
Theorem export_collision_refused_witness : forall o t,
  export o [mkEModel [] "a b.json" (tbl "first") true; mkEModel [] "a_b.json" (tbl "second") true] t = Err XCollision.
Proof.
  intros o t. apply export_collision_refused; [reflexivity|]. destruct o; vm_compute; reflexivity.
Qed.

(* a model file called mod.json would be written over the module index: refused (SeaORM); fine for the Python ORMs *)
Theorem export_mod_stem_refused_witness :
  (forall t, export SeaOrm [mkEModel [] "mod.json" (tbl "mod") true; mkEModel [] "user.json" (tbl "user") true] t = Err XCollision)
  /\ exists r, export SqlAlchemy [mkEModel [] "mod.json" (tbl "mod") true; mkEModel [] "user.json" (tbl "user") true] [] = Ok r
               /\ flat r = [(["mod.py"], KFile [LEntity "mod"]); (["user.py"], KFile [LEntity "user"])].
Proof.
  split.
  - intros t. apply export_collision_refused; [reflexivity|]. vm_compute. reflexivity.
  - eexists. split; vm_compute; reflexivity.
Qed.

(* a '.' inside the stem: entity a_b.rs, declared as `pub mod a_b;` *)
Theorem mod_chain_dotted_stem_reached :
  exists m r,
    export SeaOrm [m] [] = Ok r /\ em_file m = "a.b.json"
    /\ entity_reachable m r = true
    /\ flat r = [(["a_b.rs"], KFile [LEntity "ab"]); (["mod.rs"], KFile [LDecl "a_b"])].
Proof.
  exists (mkEModel [] "a.b.json" (tbl "ab") true). eexists.
  split; [vm_compute; reflexivity|]. repeat split; vm_compute; reflexivity.
Qed.

(* a directory name that sanitize_filename changes: entity and chain both use `my_dir` *)
Theorem mod_chain_spaced_dir_reached :
  exists m r,
    export SeaOrm [m] [] = Ok r /\ em_dirs m = ["my dir"]
    /\ entity_reachable m r = true
    /\ file_at ["my_dir"; "x.rs"] r = Some [LEntity "x"]
    /\ file_at ["my_dir"; "mod.rs"] r = Some [LDecl "x"]
    /\ file_at ["mod.rs"] r = Some [LDecl "my_dir"]
    /\ lookup ["my dir"] r = None.
Proof.
  exists (mkEModel ["my dir"] "x.json" (tbl "x") true). eexists.
  split; [vm_compute; reflexivity|]. repeat split; vm_compute; reflexivity.
Qed.
