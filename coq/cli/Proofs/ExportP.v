(* Proofs about the export-tree model (C20). *)
From VV.CLI Require Import ExportTree.
From Coq Require Import Lia.

(* ------------------------------------------------------------------ induction over the nested tree *)
Section NodeInd.
  Variable Pn : node -> Prop.
  Hypothesis Hfile : forall c, Pn (NFile c).
  Hypothesis Hdir : forall es, Forall (fun e => Pn (snd e)) es -> Pn (NDir es).
  Fixpoint node_ind2 (n : node) : Pn n :=
    match n with
    | NFile c => Hfile c
    | NDir es =>
        Hdir es ((fix go (l : list (string * node)) : Forall (fun e => Pn (snd e)) l :=
                    match l with
                    | [] => Forall_nil _
                    | e :: r => Forall_cons e (node_ind2 (snd e)) (go r)
                    end) es)
    end.
End NodeInd.

(* ------------------------------------------------------------------ association lists *)
Lemma get_set_same : forall n x es, get_entry n (set_entry n x es) = Some x.
Proof.
  induction es as [|[m y] r IH]; cbn [set_entry get_entry].
  - rewrite String.eqb_refl. reflexivity.
  - destruct (String.eqb m n) eqn:E; cbn [get_entry].
    + rewrite String.eqb_refl. reflexivity.
    + rewrite E. exact IH.
Qed.

Lemma get_set_other : forall n m x es, m <> n -> get_entry m (set_entry n x es) = get_entry m es.
Proof.
  intros n m x es Hne. induction es as [|[k y] r IH]; cbn [set_entry get_entry].
  - destruct (String.eqb n m) eqn:E; [apply String.eqb_eq in E; congruence|reflexivity].
  - destruct (String.eqb k n) eqn:E; cbn [get_entry].
    + apply String.eqb_eq in E. subst k.
      destruct (String.eqb n m) eqn:E2; [apply String.eqb_eq in E2; congruence|reflexivity].
    + destruct (String.eqb k m); [reflexivity|exact IH].
Qed.

(* ------------------------------------------------------------------ file_at, unfolded one level *)
Lemma file_at_nil : forall es, file_at [] es = None.
Proof. reflexivity. Qed.

Lemma file_at_cons : forall n pr es,
  file_at (n :: pr) es =
  match get_entry n es with
  | None => None
  | Some (NFile c) => match pr with [] => Some c | _ => None end
  | Some (NDir sub) => match pr with [] => None | _ => file_at pr sub end
  end.
Proof.
  intros n pr es. unfold file_at. cbn [lookup].
  destruct (get_entry n es) as [[c|sub]|]; destruct pr; reflexivity.
Qed.

Lemma file_at_empty_dir : forall p, file_at p [] = None.
Proof. intros [|n pr]; [reflexivity|]. rewrite file_at_cons. reflexivity. Qed.

Definition path_eqb (p q : path) : bool := if list_eq_dec string_dec p q then true else false.
Lemma path_eqb_true : forall p q, path_eqb p q = true <-> p = q.
Proof. intros p q. unfold path_eqb. destruct (list_eq_dec string_dec p q); split; congruence. Qed.
Lemma path_eqb_refl : forall p, path_eqb p p = true.
Proof. intros p. apply path_eqb_true. reflexivity. Qed.
Lemma path_eqb_cons : forall a p q, path_eqb (a :: p) (a :: q) = path_eqb p q.
Proof.
  intros a p q. unfold path_eqb.
  destruct (list_eq_dec string_dec (a :: p) (a :: q)) as [H|H]; destruct (list_eq_dec string_dec p q) as [H2|H2];
    try reflexivity; [inversion H; contradiction|subst; contradiction].
Qed.
Lemma path_eqb_cons_ne : forall a b p q, a <> b -> path_eqb (a :: p) (b :: q) = false.
Proof. intros a b p q H. unfold path_eqb. destruct (list_eq_dec string_dec (a :: p) (b :: q)) as [E|E]; [inversion E; contradiction|reflexivity]. Qed.

(* ------------------------------------------------------------------ mkdir_p never touches a file *)
Lemma file_at_mkdir_p : forall q es es', mkdir_p q es = Some es' -> forall p, file_at p es' = file_at p es.
Proof.
  induction q as [|d r IH]; intros es es' H p.
  - cbn in H. inversion H; subst. reflexivity.
  - cbn [mkdir_p] in H.
    destruct p as [|n pr]; [reflexivity|].
    destruct (get_entry d es) as [[c|sub0]|] eqn:Hg; [discriminate H| |].
    + destruct (mkdir_p r sub0) as [sub'|] eqn:Hm; [|discriminate H]. inversion H; subst es'.
      rewrite !file_at_cons.
      destruct (string_dec n d) as [->|Hne].
      * rewrite get_set_same, Hg. destruct pr; [reflexivity|]. apply (IH _ _ Hm).
      * rewrite (get_set_other d n _ _ Hne). reflexivity.
    + destruct (mkdir_p r []) as [sub'|] eqn:Hm; [|discriminate H]. inversion H; subst es'.
      rewrite !file_at_cons.
      destruct (string_dec n d) as [->|Hne].
      * rewrite get_set_same, Hg. destruct pr; [reflexivity|].
        rewrite (IH _ _ Hm). apply file_at_empty_dir.
      * rewrite (get_set_other d n _ _ Hne). reflexivity.
Qed.

(* ------------------------------------------------------------------ write_at changes exactly one path *)
Lemma file_at_write_at : forall ds f c es es',
  write_at ds f c es = Some es' ->
  forall p, file_at p es' = if path_eqb p (ds ++ [f]) then Some c else file_at p es.
Proof.
  induction ds as [|d r IH]; intros f c es es' H p.
  - cbn [write_at] in H. cbn [app].
    assert (Hnd : forall sub, get_entry f es <> Some (NDir sub)).
    { intros sub Hs. rewrite Hs in H. discriminate H. }
    assert (Hes : es' = set_entry f (NFile c) es).
    { destruct (get_entry f es) as [[c0|sub]|]; [inversion H; reflexivity| |inversion H; reflexivity].
      exfalso. exact (Hnd sub eq_refl). }
    subst es'. destruct p as [|n pr].
    + reflexivity.
    + rewrite !file_at_cons. destruct (string_dec n f) as [->|Hne].
      * rewrite get_set_same. destruct pr as [|x pr'].
        { rewrite path_eqb_refl. reflexivity. }
        { rewrite path_eqb_cons.
          assert (Hf : path_eqb (x :: pr') [] = false) by reflexivity. rewrite Hf.
          destruct (get_entry f es) as [[c0|sub]|]; try reflexivity. exfalso. exact (Hnd sub eq_refl). }
      * rewrite (get_set_other f n _ _ Hne). rewrite (path_eqb_cons_ne n f pr [] Hne). reflexivity.
  - cbn [write_at] in H. cbn [app].
    destruct (get_entry d es) as [[c0|sub]|] eqn:Hg; [discriminate H| |discriminate H].
    destruct (write_at r f c sub) as [sub'|] eqn:Hw; [|discriminate H]. inversion H; subst es'.
    destruct p as [|n pr]; [reflexivity|].
    rewrite !file_at_cons. destruct (string_dec n d) as [->|Hne].
    + rewrite get_set_same, Hg, path_eqb_cons. destruct pr as [|x pr'].
      * destruct (r ++ [f]) eqn:E; [destruct r; discriminate E|reflexivity].
      * apply (IH _ _ _ _ Hw).
    + rewrite (get_set_other d n _ _ Hne), (path_eqb_cons_ne n d pr (r ++ [f]) Hne). reflexivity.
Qed.

(* ------------------------------------------------------------------ cleaning removes every file with the extension *)
Lemma path_has_ext_cons : forall e n x pr, path_has_ext e (n :: x :: pr) = path_has_ext e (x :: pr).
Proof. reflexivity. Qed.

Lemma clean_entries_get : forall (cn : node -> node) ext es nm x,
  get_entry nm (clean_entries_with cn ext es) = Some x ->
  (exists c, x = NFile c /\ has_ext ext nm = false)
  \/ (exists es0, In (nm, NDir es0) es /\ x = cn (NDir es0)).
Proof.
  intros cn ext. induction es as [|[k y] r IH]; intros nm x H; [discriminate H|].
  cbn [clean_entries_with] in H. fold (clean_entries_with cn ext) in H.
  destruct y as [c|es0].
  - destruct (has_ext ext k) eqn:Hk.
    + destruct (IH _ _ H) as [Hl|[e0 [Hin He]]]; [left; exact Hl|right; exists e0; split; [right; exact Hin|exact He]].
    + cbn [get_entry] in H. destruct (String.eqb k nm) eqn:E.
      * apply String.eqb_eq in E. subst k. inversion H; subst x. left. eauto.
      * destruct (IH _ _ H) as [Hl|[e0 [Hin He]]]; [left; exact Hl|right; exists e0; split; [right; exact Hin|exact He]].
  - destruct (cn (NDir es0)) as [c|sub] eqn:Hc.
    + cbn [get_entry] in H. destruct (String.eqb k nm) eqn:E.
      * apply String.eqb_eq in E. subst k. inversion H; subst x. right. exists es0. split; [left; reflexivity|symmetry; exact Hc].
      * destruct (IH _ _ H) as [Hl|[e0 [Hin He]]]; [left; exact Hl|right; exists e0; split; [right; exact Hin|exact He]].
    + destruct sub as [|s0 sr].
      * destruct (IH _ _ H) as [Hl|[e0 [Hin He]]]; [left; exact Hl|right; exists e0; split; [right; exact Hin|exact He]].
      * cbn [get_entry] in H. destruct (String.eqb k nm) eqn:E.
        { apply String.eqb_eq in E. subst k. inversion H; subst x. right. exists es0. split; [left; reflexivity|symmetry; exact Hc]. }
        { destruct (IH _ _ H) as [Hl|[e0 [Hin He]]]; [left; exact Hl|right; exists e0; split; [right; exact Hin|exact He]]. }
Qed.

Definition no_ext_below (ext : string) (n : node) : Prop :=
  match n with
  | NFile _ => True
  | NDir es => forall p, path_has_ext ext p = true -> file_at p es = None
  end.

Lemma clean_node_no_ext : forall ext n, no_ext_below ext (clean_node ext n).
Proof.
  intros ext. apply node_ind2; [intros c; exact I|].
  intros es Hall. cbn [clean_node no_ext_below].
  intros p Hp. destruct p as [|n pr]; [reflexivity|].
  rewrite file_at_cons.
  destruct (get_entry n (clean_entries_with (clean_node ext) ext es)) as [x|] eqn:Hg; [|reflexivity].
  destruct (clean_entries_get _ _ _ _ _ Hg) as [[c [Hx Hne]]|[es0 [Hin Hx]]].
  - subst x. destruct pr as [|y pr']; [|reflexivity].
    unfold path_has_ext in Hp. cbn [last] in Hp. rewrite Hne in Hp. discriminate Hp.
  - subst x. rewrite Forall_forall in Hall. specialize (Hall _ Hin). cbn [snd] in Hall.
    destruct (clean_node ext (NDir es0)) as [c|sub] eqn:Hc.
    + cbn [clean_node] in Hc. discriminate Hc.
    + destruct pr as [|y pr']; [reflexivity|]. cbn [no_ext_below] in Hall. apply Hall.
      rewrite path_has_ext_cons in Hp. exact Hp.
Qed.

Lemma clean_dir_no_ext : forall ext es p, path_has_ext ext p = true -> file_at p (clean_dir ext es) = None.
Proof.
  intros ext es p Hp. pose proof (clean_node_no_ext ext (NDir es)) as H.
  unfold clean_dir. cbn [clean_node] in *. cbn [no_ext_below] in H. apply H. exact Hp.
Qed.

(* ------------------------------------------------------------------ two trees that hold the same generated files *)
Definition agree (ext : string) (a b : dir) : Prop :=
  forall p, path_has_ext ext p = true -> file_at p a = file_at p b.

Lemma agree_clean : forall ext a b, agree ext (clean_dir ext a) (clean_dir ext b).
Proof. intros ext a b p Hp. rewrite !clean_dir_no_ext by exact Hp. reflexivity. Qed.

Lemma agree_mkdir : forall ext q a b a' b',
  agree ext a b -> mkdir_p q a = Some a' -> mkdir_p q b = Some b' -> agree ext a' b'.
Proof.
  intros ext q a b a' b' H Ha Hb p Hp.
  rewrite (file_at_mkdir_p _ _ _ Ha), (file_at_mkdir_p _ _ _ Hb). apply H. exact Hp.
Qed.

Lemma agree_write : forall ext ds f c a b a' b',
  agree ext a b -> write_at ds f c a = Some a' -> write_at ds f c b = Some b' -> agree ext a' b'.
Proof.
  intros ext ds f c a b a' b' H Ha Hb p Hp.
  rewrite (file_at_write_at _ _ _ _ _ Ha), (file_at_write_at _ _ _ _ _ Hb).
  destruct (path_eqb p (ds ++ [f])); [reflexivity|apply H; exact Hp].
Qed.

Lemma agree_write_all : forall o ms a b a' b',
  agree (orm_ext o) a b -> write_all o ms a = Some a' -> write_all o ms b = Some b' -> agree (orm_ext o) a' b'.
Proof.
  intros o. induction ms as [|m r IH]; intros a b a' b' H Ha Hb.
  - cbn in Ha, Hb. inversion Ha; inversion Hb; subst. exact H.
  - cbn [write_all] in Ha, Hb.
    destruct (mkdir_p (out_dirs m) a) as [a1|] eqn:Ha1; [|discriminate Ha].
    destruct (mkdir_p (out_dirs m) b) as [b1|] eqn:Hb1; [|discriminate Hb].
    destruct (write_at (out_dirs m) (out_file o m) (entity_content m) a1) as [a2|] eqn:Ha2; [|discriminate Ha].
    destruct (write_at (out_dirs m) (out_file o m) (entity_content m) b1) as [b2|] eqn:Hb2; [|discriminate Hb].
    apply (IH a2 b2 a' b'); [|exact Ha|exact Hb].
    eapply agree_write; [|exact Ha2|exact Hb2].
    eapply agree_mkdir; [exact H|exact Ha1|exact Hb1].
Qed.

Lemma mod_rs_has_ext : forall d, path_has_ext "rs" (d ++ ["mod.rs"]) = true.
Proof.
  intros d. unfold path_has_ext. rewrite last_last. vm_compute. reflexivity.
Qed.

Lemma lookup_file_at : forall p es,
  file_at p es = match lookup p es with Some (NFile c) => Some c | _ => None end.
Proof. reflexivity. Qed.

Lemma agree_mod_chain : forall cr a b a' b',
  agree "rs" a b -> mod_chain_go cr a = Some a' -> mod_chain_go cr b = Some b' -> agree "rs" a' b'.
Proof.
  induction cr as [|child pr IH]; intros a b a' b' H Ha Hb.
  - cbn in Ha, Hb. inversion Ha; inversion Hb; subst. exact H.
  - cbn [mod_chain_go] in Ha, Hb.
    destruct (mkdir_p (rev pr) a) as [a1|] eqn:Ha1; [|discriminate Ha].
    destruct (mkdir_p (rev pr) b) as [b1|] eqn:Hb1; [|discriminate Hb].
    assert (H1 : agree "rs" a1 b1) by (eapply agree_mkdir; [exact H|exact Ha1|exact Hb1]).
    pose proof (H1 (rev pr ++ ["mod.rs"]) (mod_rs_has_ext _)) as Hmod.
    rewrite !lookup_file_at in Hmod.
    destruct (lookup (rev pr ++ ["mod.rs"]) a1) as [[ca|sa]|] eqn:La; [| discriminate Ha |];
      destruct (lookup (rev pr ++ ["mod.rs"]) b1) as [[cb|sb]|] eqn:Lb; try discriminate Hb; try discriminate Hmod.
    + inversion Hmod; subst cb.
      destruct (existsb (is_decl child) ca).
      * apply (IH a1 b1 a' b' H1 Ha Hb).
      * destruct (write_at (rev pr) "mod.rs" (ca ++ [LDecl child]) a1) as [a2|] eqn:Ha2; [|discriminate Ha].
        destruct (write_at (rev pr) "mod.rs" (ca ++ [LDecl child]) b1) as [b2|] eqn:Hb2; [|discriminate Hb].
        apply (IH a2 b2 a' b'); [|exact Ha|exact Hb].
        eapply agree_write; [exact H1|exact Ha2|exact Hb2].
    + cbn [existsb] in Ha, Hb.
      destruct (write_at (rev pr) "mod.rs" ([] ++ [LDecl child]) a1) as [a2|] eqn:Ha2; [|discriminate Ha].
      destruct (write_at (rev pr) "mod.rs" ([] ++ [LDecl child]) b1) as [b2|] eqn:Hb2; [|discriminate Hb].
      apply (IH a2 b2 a' b'); [|exact Ha|exact Hb].
      eapply agree_write; [exact H1|exact Ha2|exact Hb2].
Qed.

Lemma agree_chain_all : forall ms a b a' b',
  agree "rs" a b -> chain_all ms a = Some a' -> chain_all ms b = Some b' -> agree "rs" a' b'.
Proof.
  induction ms as [|m r IH]; intros a b a' b' H Ha Hb.
  - cbn in Ha, Hb. inversion Ha; inversion Hb; subst. exact H.
  - cbn [chain_all] in Ha, Hb. unfold ensure_mod_chain in Ha, Hb.
    destruct (mod_chain_go (rev (chain_comps m)) a) as [a1|] eqn:Ha1; [|discriminate Ha].
    destruct (mod_chain_go (rev (chain_comps m)) b) as [b1|] eqn:Hb1; [|discriminate Hb].
    apply (IH a1 b1 a' b'); [|exact Ha|exact Hb].
    eapply agree_mod_chain; [exact H|exact Ha1|exact Hb1].
Qed.

(* the generated-language files after an export do not depend on what the directory held before *)
Theorem export_canonical : forall o ms t1 t2 r1 r2,
  export o ms t1 = Ok r1 -> export o ms t2 = Ok r2 ->
  forall p, path_has_ext (orm_ext o) p = true -> file_at p r1 = file_at p r2.
Proof.
  intros o ms t1 t2 r1 r2 H1 H2. unfold export in H1, H2.
  destruct (negb (forallb normalize_ok ms)); [discriminate H1|].
  destruct (negb (no_collision o ms)); [discriminate H1|].
  destruct (negb (forallb em_render_ok ms)); [discriminate H1|].
  destruct (write_all o ms (clean_dir (orm_ext o) t1)) as [w1|] eqn:W1; [|discriminate H1].
  destruct (write_all o ms (clean_dir (orm_ext o) t2)) as [w2|] eqn:W2; [|discriminate H2].
  pose proof (agree_write_all o ms _ _ w1 w2 (agree_clean (orm_ext o) t1 t2) W1 W2) as Hw.
  destruct o.
  - destruct (chain_all ms w1) as [c1|] eqn:C1; [|discriminate H1].
    destruct (chain_all ms w2) as [c2|] eqn:C2; [|discriminate H2].
    inversion H1; inversion H2; subst. exact (agree_chain_all ms w1 w2 _ _ Hw C1 C2).
  - inversion H1; inversion H2; subst. exact Hw.
  - inversion H1; inversion H2; subst. exact Hw.
Qed.

Theorem export_idempotent : forall o ms t r1 r2,
  export o ms t = Ok r1 -> export o ms r1 = Ok r2 ->
  forall p, path_has_ext (orm_ext o) p = true -> file_at p r2 = file_at p r1.
Proof. intros o ms t r1 r2 H1 H2. exact (export_canonical o ms r1 t r2 r1 H2 H1). Qed.
