(* C20, dirs_minimal: after an export no directory below the root is left without a file beneath it
   (the cleaner removes a sub-directory iff it is empty after its own recursion; every directory the export
   creates receives a file). *)
From VV.CLI Require Import ExportTree ExportP ExportReachP.
From Coq Require Import Lia.

Lemma is_dir_at_cons : forall n pr es,
  is_dir_at (n :: pr) es =
  match get_entry n es with
  | None => false
  | Some (NFile _) => false
  | Some (NDir sub) => match pr with [] => true | _ => is_dir_at pr sub end
  end.
Proof.
  intros n pr es. unfold is_dir_at. cbn [lookup].
  destruct (get_entry n es) as [[c|sub]|]; destruct pr; reflexivity.
Qed.

Lemma is_dir_at_empty : forall p, p <> [] -> is_dir_at p [] = false.
Proof. intros [|n pr] H; [contradiction|]. rewrite is_dir_at_cons. reflexivity. Qed.

(* every directory below the root has a file somewhere beneath it *)
Definition populated (es : dir) : Prop :=
  forall p, p <> [] -> is_dir_at p es = true -> exists q c, file_at (p ++ q) es = Some c.

(* ------------------------------------------------------------------ the cleaner *)
Lemma clean_entries_get_dir : forall (cn : node -> node) ext es nm sub,
  get_entry nm (clean_entries_with cn ext es) = Some (NDir sub) ->
  sub <> [] /\ exists es0, In (nm, NDir es0) es /\ NDir sub = cn (NDir es0).
Proof.
  intros cn ext. induction es as [|[k y] r IH]; intros nm sub H; [discriminate H|].
  cbn [clean_entries_with] in H. fold (clean_entries_with cn ext) in H.
  destruct y as [c|es0].
  - destruct (has_ext ext k).
    + destruct (IH _ _ H) as [Hne [e0 [Hin He]]]. split; [exact Hne|]. exists e0. split; [right; exact Hin|exact He].
    + cbn [get_entry] in H. destruct (String.eqb k nm); [discriminate H|].
      destruct (IH _ _ H) as [Hne [e0 [Hin He]]]. split; [exact Hne|]. exists e0. split; [right; exact Hin|exact He].
  - destruct (cn (NDir es0)) as [c|s] eqn:Hc.
    + cbn [get_entry] in H. destruct (String.eqb k nm); [discriminate H|].
      destruct (IH _ _ H) as [Hne [e0 [Hin He]]]. split; [exact Hne|]. exists e0. split; [right; exact Hin|exact He].
    + destruct s as [|s0 sr].
      * destruct (IH _ _ H) as [Hne [e0 [Hin He]]]. split; [exact Hne|]. exists e0. split; [right; exact Hin|exact He].
      * cbn [get_entry] in H. destruct (String.eqb k nm) eqn:E.
        { apply String.eqb_eq in E. subst k. inversion H; subst sub. split; [discriminate|].
          exists es0. split; [left; reflexivity|symmetry; exact Hc]. }
        { destruct (IH _ _ H) as [Hne [e0 [Hin He]]]. split; [exact Hne|]. exists e0. split; [right; exact Hin|exact He]. }
Qed.

Definition populated_node (n : node) : Prop :=
  match n with NFile _ => True | NDir es => populated es end.

(* a non-empty populated directory has a file beneath its root *)
Lemma populated_nonempty_has_file : forall sub,
  populated sub -> sub <> [] -> exists q c, file_at q sub = Some c.
Proof.
  intros sub Hp Hne. destruct sub as [|[k y] r]; [contradiction Hne; reflexivity|].
  destruct y as [c|s2].
  - exists [k], c. rewrite file_at_cons. cbn [get_entry]. rewrite String.eqb_refl. reflexivity.
  - assert (Hd : is_dir_at [k] ((k, NDir s2) :: r) = true).
    { rewrite is_dir_at_cons. cbn [get_entry]. rewrite String.eqb_refl. reflexivity. }
    destruct (Hp [k] ltac:(discriminate) Hd) as [q [c Hq]]. exists ([k] ++ q), c. exact Hq.
Qed.

Lemma clean_node_populated : forall ext n, populated_node (clean_node ext n).
Proof.
  intros ext. apply node_ind2; [intros c; exact I|].
  intros es Hall. cbn [clean_node populated_node]. intros p Hp Hd.
  destruct p as [|n pr]; [contradiction Hp; reflexivity|].
  rewrite is_dir_at_cons in Hd.
  destruct (get_entry n (clean_entries_with (clean_node ext) ext es)) as [[c|sub]|] eqn:Hg; try discriminate Hd.
  destruct (clean_entries_get_dir _ _ _ _ _ Hg) as [Hne [es0 [Hin Hx]]].
  rewrite Forall_forall in Hall. specialize (Hall _ Hin). cbn [snd] in Hall. rewrite <- Hx in Hall. cbn [populated_node] in Hall.
  destruct pr as [|y pr'].
  - destruct (populated_nonempty_has_file sub Hall Hne) as [q [c Hq]].
    exists q, c. cbn [app]. rewrite file_at_cons, Hg. destruct q as [|a q']; [rewrite file_at_nil in Hq; discriminate Hq|exact Hq].
  - destruct (Hall (y :: pr') ltac:(discriminate) Hd) as [q [c Hq]].
    exists q, c. cbn [app]. rewrite file_at_cons, Hg. exact Hq.
Qed.

Lemma clean_dir_populated : forall ext es, populated (clean_dir ext es).
Proof.
  intros ext es. pose proof (clean_node_populated ext (NDir es)) as H. unfold clean_dir. cbn [clean_node] in *. exact H.
Qed.

(* ------------------------------------------------------------------ directories after mkdir_p / write_at *)
Lemma is_dir_at_mkdir_p : forall ds es es',
  mkdir_p ds es = Some es' ->
  forall p, is_dir_at p es' = true -> is_dir_at p es = true \/ exists rest, ds = p ++ rest.
Proof.
  induction ds as [|d r IH]; intros es es' H p Hd.
  - cbn in H. inversion H; subst. left. exact Hd.
  - cbn [mkdir_p] in H. destruct p as [|n pr]; [left; reflexivity|].
    destruct (get_entry d es) as [[c|sub0]|] eqn:Hg; [discriminate H| |].
    + destruct (mkdir_p r sub0) as [sub'|] eqn:Hm; [|discriminate H]. inversion H; subst es'.
      rewrite is_dir_at_cons in Hd. rewrite is_dir_at_cons.
      destruct (string_dec n d) as [->|Hne].
      * rewrite get_set_same in Hd. rewrite Hg. destruct pr as [|y pr']; [left; reflexivity|].
        destruct (IH _ _ Hm _ Hd) as [Hl|[rest Hr]]; [left; exact Hl|right; exists rest; rewrite Hr; reflexivity].
      * rewrite (get_set_other d n _ _ Hne) in Hd. left. exact Hd.
    + destruct (mkdir_p r []) as [sub'|] eqn:Hm; [|discriminate H]. inversion H; subst es'.
      rewrite is_dir_at_cons in Hd. rewrite is_dir_at_cons.
      destruct (string_dec n d) as [->|Hne].
      * rewrite get_set_same in Hd. destruct pr as [|y pr']; [right; exists r; reflexivity|].
        destruct (IH _ _ Hm _ Hd) as [Hl|[rest Hr]].
        { rewrite is_dir_at_empty in Hl by discriminate. discriminate Hl. }
        { right. exists rest. rewrite Hr. reflexivity. }
      * rewrite (get_set_other d n _ _ Hne) in Hd. left. exact Hd.
Qed.

Lemma is_dir_at_write_at : forall ds f c es es',
  write_at ds f c es = Some es' -> forall p, is_dir_at p es' = is_dir_at p es.
Proof.
  induction ds as [|d r IH]; intros f c es es' H p.
  - cbn [write_at] in H.
    assert (Hnd : forall sub, get_entry f es <> Some (NDir sub)).
    { intros sub Hs. rewrite Hs in H. discriminate H. }
    assert (Hes : es' = set_entry f (NFile c) es).
    { destruct (get_entry f es) as [[c0|sub]|]; [inversion H; reflexivity| |inversion H; reflexivity].
      exfalso. exact (Hnd sub eq_refl). }
    subst es'. destruct p as [|n pr]; [reflexivity|]. rewrite !is_dir_at_cons.
    destruct (string_dec n f) as [->|Hne].
    + rewrite get_set_same. destruct (get_entry f es) as [[c0|sub]|]; try reflexivity. exfalso. exact (Hnd sub eq_refl).
    + rewrite (get_set_other f n _ _ Hne). reflexivity.
  - cbn [write_at] in H.
    destruct (get_entry d es) as [[c0|sub]|] eqn:Hg; [discriminate H| |discriminate H].
    destruct (write_at r f c sub) as [sub'|] eqn:Hw; [|discriminate H]. inversion H; subst es'.
    destruct p as [|n pr]; [reflexivity|]. rewrite !is_dir_at_cons.
    destruct (string_dec n d) as [->|Hne].
    + rewrite get_set_same, Hg. destruct pr; [reflexivity|]. apply (IH _ _ _ _ Hw).
    + rewrite (get_set_other d n _ _ Hne). reflexivity.
Qed.

(* create the directories [ds], then make sure a file [ds/f] exists without touching directories or removing files *)
Lemma populated_step : forall ds f es es1 es2,
  populated es -> mkdir_p ds es = Some es1 ->
  (forall p, is_dir_at p es2 = is_dir_at p es1) ->
  (forall q, file_at q es1 <> None -> file_at q es2 <> None) ->
  file_at (ds ++ [f]) es2 <> None ->
  populated es2.
Proof.
  intros ds f es es1 es2 Hpop Hm Hdirs Hmono Hfile p Hp Hd.
  rewrite Hdirs in Hd.
  destruct (is_dir_at_mkdir_p _ _ _ Hm _ Hd) as [Hold|[rest Hr]].
  - destruct (Hpop p Hp Hold) as [q [c Hq]].
    assert (Hs : file_at (p ++ q) es2 <> None).
    { apply Hmono. rewrite (file_at_mkdir_p _ _ _ Hm). rewrite Hq. discriminate. }
    destruct (file_at (p ++ q) es2) as [c2|] eqn:E; [exists q, c2; exact E|contradiction].
  - subst ds. rewrite <- app_assoc in Hfile.
    destruct (file_at (p ++ rest ++ [f]) es2) as [c2|] eqn:E; [exists (rest ++ [f]), c2; exact E|contradiction].
Qed.

Lemma write_all_populated : forall o ms es es', populated es -> write_all o ms es = Some es' -> populated es'.
Proof.
  intros o. induction ms as [|m r IH]; intros es es' Hp H.
  - cbn in H. inversion H; subst. exact Hp.
  - cbn [write_all] in H.
    destruct (mkdir_p (out_dirs m) es) as [es1|] eqn:H1; [|discriminate H].
    destruct (write_at (out_dirs m) (out_file o m) (entity_content m) es1) as [es2|] eqn:H2; [|discriminate H].
    apply (IH es2 es'); [|exact H].
    apply (populated_step (out_dirs m) (out_file o m) es es1 es2 Hp H1).
    + intros p. apply (is_dir_at_write_at _ _ _ _ _ H2).
    + intros q Hq. rewrite (file_at_write_at _ _ _ _ _ H2). destruct (path_eqb q (out_dirs m ++ [out_file o m])); [discriminate|exact Hq].
    + rewrite (file_at_write_at _ _ _ _ _ H2), path_eqb_refl. discriminate.
Qed.

Lemma mod_chain_populated : forall cr es es', populated es -> mod_chain_go cr es = Some es' -> populated es'.
Proof.
  induction cr as [|child pr IH]; intros es es' Hp H.
  - cbn in H. inversion H; subst. exact Hp.
  - cbn [mod_chain_go] in H.
    destruct (mkdir_p (rev pr) es) as [es1|] eqn:H1; [|discriminate H].
    destruct (lookup (rev pr ++ ["mod.rs"]) es1) as [[c0|sub]|] eqn:L; [|discriminate H|].
    + destruct (existsb (is_decl child) c0).
      * apply (IH es1 es'); [|exact H].
        apply (populated_step (rev pr) "mod.rs" es es1 es1 Hp H1); [reflexivity|intros q Hq; exact Hq|].
        rewrite lookup_file_at, L. discriminate.
      * destruct (write_at (rev pr) "mod.rs" (c0 ++ [LDecl child]) es1) as [es2|] eqn:H2; [|discriminate H].
        apply (IH es2 es'); [|exact H].
        apply (populated_step (rev pr) "mod.rs" es es1 es2 Hp H1).
        { intros p. apply (is_dir_at_write_at _ _ _ _ _ H2). }
        { intros q Hq. rewrite (file_at_write_at _ _ _ _ _ H2). destruct (path_eqb q (rev pr ++ ["mod.rs"])); [discriminate|exact Hq]. }
        { rewrite (file_at_write_at _ _ _ _ _ H2), path_eqb_refl. discriminate. }
    + cbn [existsb] in H.
      destruct (write_at (rev pr) "mod.rs" ([] ++ [LDecl child]) es1) as [es2|] eqn:H2; [|discriminate H].
      apply (IH es2 es'); [|exact H].
      apply (populated_step (rev pr) "mod.rs" es es1 es2 Hp H1).
      { intros p. apply (is_dir_at_write_at _ _ _ _ _ H2). }
      { intros q Hq. rewrite (file_at_write_at _ _ _ _ _ H2). destruct (path_eqb q (rev pr ++ ["mod.rs"])); [discriminate|exact Hq]. }
      { rewrite (file_at_write_at _ _ _ _ _ H2), path_eqb_refl. discriminate. }
Qed.

Lemma chain_all_populated : forall ms es es', populated es -> chain_all ms es = Some es' -> populated es'.
Proof.
  induction ms as [|m r IH]; intros es es' Hp H.
  - cbn in H. inversion H; subst. exact Hp.
  - cbn [chain_all] in H. unfold ensure_mod_chain in H.
    destruct (mod_chain_go (rev (chain_comps m)) es) as [es1|] eqn:H1; [|discriminate H].
    apply (IH es1 es'); [|exact H]. apply (mod_chain_populated _ es es1 Hp H1).
Qed.

Theorem dirs_minimal : forall o ms t r,
  export o ms t = Ok r ->
  forall p, p <> [] -> is_dir_at p r = true -> exists q c, file_at (p ++ q) r = Some c.
Proof.
  intros o ms t r H.
  destruct (export_unfold _ _ _ _ H) as [_ [w [Hw Hr]]].
  pose proof (write_all_populated o ms _ w (clean_dir_populated (orm_ext o) t) Hw) as Hpw.
  destruct o; [exact (chain_all_populated ms w r Hpw Hr)|subst r; exact Hpw|subst r; exact Hpw].
Qed.
