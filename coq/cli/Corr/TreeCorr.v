(* K-tree: correspondence driver for the export-tree model.  checks/clirun.py runs the real
   `vespertide export` into a directory with history and prints the tree before, the models in walk
   order, and the tree after as terms; [check_tree] compares with the model as sets of
   (path, kind, content).  Also the classifiers of the C20 findings.  No proofs. *)
From VV.CLI Require Export ExportTree.

Record tree_case := mkTree {
  tc_orm : orm;
  tc_models : list emodel;
  tc_before : dir;
  tc_ok : bool;          (* exit status 0 *)
  tc_after : dir }.

Definition check_tree (c : tree_case) : list nat :=
  match export (tc_orm c) (tc_models c) (tc_before c) with
  | Ok t =>
      (if tc_ok c then [] else [1%nat]) ++ (if same_tree t (tc_after c) then [] else [2%nat])
  | Err XNormalize | Err XCollision =>      (* refusals before anything is touched: exit 1, tree as before *)
      (if tc_ok c then [1%nat] else []) ++ (if same_tree (tc_before c) (tc_after c) then [] else [3%nat])
  | Err _ => if tc_ok c then [1%nat] else []
  end.

Fixpoint tree_mismatches_from (i : nat) (cs : list tree_case) : list (nat * list nat) :=
  match cs with
  | [] => []
  | c :: r => match check_tree c with
              | [] => tree_mismatches_from (S i) r
              | l => (i, l) :: tree_mismatches_from (S i) r
              end
  end.

(* no open finding of this layer is left for C20 *)
Definition classify_tree (c : tree_case) : list bool := [].
