(* K-cli: correspondence driver for the project model.  checks/clirun.py runs the real `vespertide`
   binary in a temporary project and prints, per step, the project it found on disk (config, model
   files, migration files: all re-read and parsed by the real serde code) and what each command did
   (exit status, parsed action lines, files added / changed) as terms of the types below.
   [check_cli] recomputes every observable with the model and returns the ids of the sub-checks
   that differ.  Also here: the Gallina classifiers of the known findings.  No proofs. *)
From VV.CLI Require Export Project.

Inductive o_diff := OD_err | OD_none | OD_changes (l : list aobs).
(* OS_qerr / OL_qerr: build_plan_queries failed ("query build error"): SQL generation is outside this layer *)
Inductive o_sql := OS_err | OS_qerr | OS_none | OS_render (v : N) (l : list aobs).
Inductive o_status := OT_err | OT_sync | OT_differs | OT_empty | OT_nomig.
Inductive o_log := OL_err | OL_qerr | OL_none | OL_entries (l : list (N * list aobs)).
(* revision: exit status 1 / "No changes detected" / wrote [file] whose parsed content is [p];
   [changed] = pre-existing files whose bytes changed, [added] = new file names *)
Inductive o_rev := OR_err | OR_nothing | OR_wrote (file : string) (p : plan) (changed added : list string).

Record cli_case := mkCli {
  cc_project : project;
  cc_message : string;
  cc_fills : list string;
  cc_tty : bool;
  cc_diff : o_diff;
  cc_sql : o_sql;
  cc_status : o_status;
  cc_log : o_log;
  cc_rev : o_rev;
  (* K-baseline: the schema the runtime renders each stored migration against (harness_cli/hcli render: the macro's
     loop with the real apply_action), and the baseline the pending plan is rendered against.  The binary's own
     baselines are visible only through the statements it prints; checks/clirun.py compares those statements with
     the ones built from exactly these baselines. *)
  cc_log_baselines : option (list schema);
  cc_sql_baseline : option schema }.

Definition aobs_eq_dec (x y : aobs) : {x = y} + {x <> y}.
Proof. decide equality; [apply (list_eq_dec string_dec) | apply string_dec]. Defined.
Definition o_diff_eq_dec (x y : o_diff) : {x = y} + {x <> y}.
Proof. decide equality. apply (list_eq_dec aobs_eq_dec). Defined.
Definition o_sql_eq_dec (x y : o_sql) : {x = y} + {x <> y}.
Proof. decide equality; [apply (list_eq_dec aobs_eq_dec) | apply N.eq_dec]. Defined.
Definition o_status_eq_dec (x y : o_status) : {x = y} + {x <> y}.
Proof. decide equality. Defined.
Definition o_log_eq_dec (x y : o_log) : {x = y} + {x <> y}.
Proof. decide equality. apply (list_eq_dec (pair_eq_dec N.eq_dec (list_eq_dec aobs_eq_dec))). Defined.
Definition o_rev_eq_dec (x y : o_rev) : {x = y} + {x <> y}.
Proof. decide equality; try apply (list_eq_dec string_dec); [apply plan_eq_dec | apply string_dec]. Defined.

Definition model_diff (P : project) : o_diff :=
  match cmd_diff P with
  | Err _ => OD_err
  | Ok DiffNone => OD_none
  | Ok (DiffChanges l) => OD_changes (map obs_of_action l)
  end.
Definition model_sql (P : project) : o_sql :=
  match cmd_sql P with
  | Err _ => OS_err
  | Ok SqlNone => OS_none
  | Ok (SqlRender v l _) => OS_render v (map obs_of_action l)
  end.
Definition model_status (P : project) : o_status :=
  match cmd_status P with
  | Err _ => OT_err
  | Ok StSync => OT_sync | Ok StDiffers => OT_differs | Ok StEmpty => OT_empty | Ok StNoMigrations => OT_nomig
  end.
Definition model_log (P : project) : o_log :=
  match cmd_log P with
  | Err _ => OL_err
  | Ok LogNone => OL_none
  | Ok (LogEntries l) => OL_entries (map (fun e => (le_version e, map obs_of_action (le_actions e))) l)
  end.

(* uuid and clock are inputs of the run: taken from the file the implementation wrote *)
Definition env_of (c : cli_case) : rev_env :=
  match cc_rev c with
  | OR_wrote _ p _ _ => mkEnv (cc_tty c) (p_id p) (match p_created_at p with Some t => t | None => "" end)
  | _ => mkEnv (cc_tty c) "" ""
  end.
Definition model_rev (c : cli_case) : o_rev :=
  let P := cc_project c in
  match cmd_revision P (cc_message c) (cc_fills c) (env_of c) with
  | Err _ | Ok RevRefused | Ok RevNeedsTty | Ok RevRefusedVersion | Ok RevRefusedExists | Ok (RevRefusedInvalid _) => OR_err
  | Ok RevNothing => OR_nothing
  | Ok (RevWrote f p) => OR_wrote f p [] [f]
  end.

Definition sql_matches (m o : o_sql) : bool :=
  match o, m with
  | OS_qerr, OS_render _ _ => true
  | _, _ => dec_b o_sql_eq_dec m o
  end.
Definition log_matches (m o : o_log) : bool :=
  match o, m with
  | OL_qerr, OL_entries _ => true
  | _, _ => dec_b o_log_eq_dec m o
  end.

Definition check_cli (c : cli_case) : list nat :=
  let P := cc_project c in
  (if dec_b o_diff_eq_dec (model_diff P) (cc_diff c) then [] else [1%nat])
  ++ (if sql_matches (model_sql P) (cc_sql c) then [] else [2%nat])
  ++ (if dec_b o_status_eq_dec (model_status P) (cc_status c) then [] else [3%nat])
  ++ (if log_matches (model_log P) (cc_log c) then [] else [4%nat])
  ++ (if dec_b o_rev_eq_dec (model_rev c) (cc_rev c) then [] else [5%nat])
  ++ (match cc_log_baselines c, cmd_log P with
      | Some bs, Ok (LogEntries l) => if dec_b (list_eq_dec schema_eq_dec) (map le_baseline l) bs then [] else [6%nat]
      | Some bs, Ok LogNone => if is_nil bs then [] else [6%nat]
      | _, _ => []            (* log rejects the history (the macro's loader does not validate): nothing to compare *)
      end)
  ++ (match cc_sql_baseline c, cmd_sql P with
      | Some b, Ok (SqlRender _ _ b') => if dec_b schema_eq_dec b b' then [] else [7%nat]
      | _, _ => []
      end).

Fixpoint cli_mismatches_from (i : nat) (cs : list cli_case) : list (nat * list nat) :=
  match cs with
  | [] => []
  | c :: r => match check_cli c with
              | [] => cli_mismatches_from (S i) r
              | l => (i, l) :: cli_mismatches_from (S i) r
              end
  end.

(* ------------------------------------------------------------------ classifiers of known findings *)
(* no open finding of this layer is left for C13 (D6, D7, D8, the overwrite, the version reuse and the unchecked enum
   fill value were all repaired in /repo) *)
Definition classify_cli (c : cli_case) : list bool := [].
