(* M6a: the project state machine behind the vespertide CLI.

   project = (config, model files, migration files); every command is a function of it that
   re-derives the pending plan EXACTLY the way its Rust counterpart does:
     cmd_diff      vespertide-cli/src/commands/diff.rs:8-40
     cmd_sql       vespertide-cli/src/commands/sql.rs:8-34      (plans like diff; prefix on the new plan and on the baseline)
     cmd_status    vespertide-cli/src/commands/status.rs:8-160  (plans the next migration like diff; no prefix)
     cmd_log       vespertide-cli/src/commands/log.rs:9-104     (prefix on stored plans, incremental baseline)
     cmd_revision  vespertide-cli/src/commands/revision.rs:370-470
     macro_blocks  vespertide-macro/src/lib.rs:56-80,322-402    (what the runtime migrator is built from)
     file naming   vespertide-cli/src/utils.rs:7-101
     loaders       vespertide-loader/src/models.rs:10-35, migrations.rs:11-50 (CLI) and 52-107 (macro)

   Out of scope of this layer (DESIGN §6 C13): the SQL text.  cmd_sql / cmd_log are modelled down to
   the action list handed to build_plan_queries and the baseline schema it is rendered against.
   Files that do not parse are outside the model: a project holds *parsed* files.
   Non-ASCII text: [sanitize_comment] is exact for ASCII; bytes >= 128 are kept unchanged (exact for
   lower-case non-ASCII letters/digits, not modelled for other non-ASCII code points).
   No proofs in this file. *)
From VV.M1 Require Export Revision.

(* ------------------------------------------------------------------ configuration *)
Inductive file_format := FJson | FYaml | FYml.

Record config := mkConfig {
  cf_models_dir : string;
  cf_migrations_dir : string;
  cf_model_format : file_format;
  cf_migration_format : file_format;
  cf_pattern : string;            (* migrationFilenamePattern, default "%04v_%m" (config.rs:11) *)
  cf_export_dir : string;         (* modelExportDir, default "src/models" *)
  cf_prefix : string }.

Definition default_pattern : string := "%04v_%m".
Definition default_config : config := mkConfig "models" "migrations" FJson FJson default_pattern "src/models" "".

(* model files: (path relative to models dir, parsed table), in read_dir order (arbitrary);
   migration files: (file name, parsed plan), in read_dir order (arbitrary) *)
Record project := mkProject {
  pj_config : config;
  pj_models : list (string * table_def);
  pj_migrations : list (string * plan) }.

Definition pj_prefix (P : project) : string := cf_prefix (pj_config P).

(* export.rs:122-128: --export-dir wins over modelExportDir *)
Definition resolve_export_dir (arg : option string) (cfg : config) : string :=
  match arg with Some d => d | None => cf_export_dir cfg end.

(* ------------------------------------------------------------------ loaders *)
Inductive cli_error :=
| ELoadModels (e : load_error)                       (* load_models: normalize / validate_schema *)
| ELoadMigration (file : string) (e : validate_error) (* load_migrations: validate_migration_plan *)
| EPlanning (e : plan_error)                         (* "planning error" *)
| EBaseline (e : planner_error).                     (* schema_from_plans in sql / status / revision *)

Definition cres (A : Type) := result A cli_error.

Definition load_models (P : project) : cres schema :=
  let ms := map snd (pj_models P) in
  match loader_check ms with
  | Ok _ => Ok ms
  | Err e => Err (ELoadModels e)
  end.

(* migrations.rs:11-50: every file is validated while reading, then a stable sort by version *)
Fixpoint validate_files (fs : list (string * plan)) : cres unit :=
  match fs with
  | [] => Ok tt
  | (f, p) :: r =>
      match validate_migration_plan p with
      | Err e => Err (ELoadMigration f e)
      | Ok _ => validate_files r
      end
  end.
Definition load_migrations (P : project) : cres (list plan) :=
  match validate_files (pj_migrations P) with
  | Err e => Err e
  | Ok _ => Ok (sort_plans (map snd (pj_migrations P)))
  end.

(* ------------------------------------------------------------------ diff *)
Inductive diff_out := DiffNone | DiffChanges (acts : list action).

Definition is_nil {A} (l : list A) : bool := match l with [] => true | _ => false end.

Definition cmd_diff (P : project) : cres diff_out :=
  match load_models P with
  | Err e => Err e
  | Ok models =>
      match load_migrations P with
      | Err e => Err e
      | Ok plans =>
          match plan_next models plans with
          | Err e => Err (EPlanning e)
          | Ok p => Ok (if is_nil (p_actions p) then DiffNone else DiffChanges (p_actions p))
          end
      end
  end.

(* ------------------------------------------------------------------ sql *)
(* what emit_sql hands to build_plan_queries: the (prefixed) plan and the baseline *)
Inductive sql_out := SqlNone | SqlRender (version : N) (acts : list action) (baseline : schema).

(* sql.rs:8-34 since fix 72fa6f0: plan against the unprefixed history exactly as `diff` does, then prefix the plan
   and render it against the replay of the prefixed history.
   (history: before that fix the prefixed history was diffed against the unprefixed models and the result prefixed
   again: with prefix "app_", one table and one stored migration `diff` was empty while `sql` printed
   CREATE TABLE app_user + DROP TABLE app_app_user — DESIGN D8, witness corpus/cli/c13_d8_sql_prefix.json) *)
Definition prefixed_baseline (pfx : string) (plans : list plan) : result schema planner_error :=
  replay (map (plan_with_prefix pfx) plans).

(* the part of cmd_sql after the loaders *)
Definition sql_core (pfx : string) (models : schema) (plans : list plan) : cres sql_out :=
  match replay plans with                                                        (* sql.rs:15-16 *)
  | Err e => Err (EBaseline e)
  | Ok baseline =>
      match diff_actions baseline models with                                    (* sql.rs:17-19 *)
      | Err e => Err (EPlanning (PlanDiff e))
      | Ok acts =>
          let pplan := plan_with_prefix pfx (mkPlan "" None None (next_version plans) acts) in   (* sql.rs:23 *)
          match prefixed_baseline pfx plans with                                 (* sql.rs:24-29 *)
          | Err e => Err (EBaseline e)
          | Ok pb =>
              Ok (if is_nil (p_actions pplan) then SqlNone
                  else SqlRender (p_version pplan) (p_actions pplan) pb)
          end
      end
  end.

Definition cmd_sql (P : project) : cres sql_out :=
  match load_models P with
  | Err e => Err e
  | Ok models =>
      match load_migrations P with
      | Err e => Err e
      | Ok plans => sql_core (pj_prefix P) models plans
      end
  end.

(* ------------------------------------------------------------------ status *)
Inductive status_out := StSync | StDiffers | StEmpty | StNoMigrations.

Definition cmd_status (P : project) : cres status_out :=
  match load_models P with
  | Err e => Err e
  | Ok models =>
      match load_migrations P with
      | Err e => Err e
      | Ok plans =>
          match plans with
          | [] => Ok (if is_nil models then StEmpty else StNoMigrations)         (* status.rs:139-153 *)
          | _ =>
              match replay plans with                                            (* status.rs:112 *)
              | Err e => Err (EBaseline e)
              | Ok baseline =>
                  (* status.rs:117-119 (fix b3fae31): plan_next_migration_with_baseline, synchronized iff nothing pending *)
                  match diff_actions baseline models with
                  | Err e => Err (EPlanning (PlanDiff e))
                  | Ok acts => Ok (if is_nil acts then StSync else StDiffers)
                  end
              end
          end
      end
  end.

(* ------------------------------------------------------------------ log and the macro *)
(* `let _ = apply_action(&mut baseline, action)`: errors are ignored, but the vector has been
   mutated up to the failing point.  Only AddColumn mutates before it can fail (apply.rs:62-72:
   the column is pushed, then normalize fails, the table keeps the pushed column). *)
Fixpoint push_column_first (table : string) (c : column_def) (s : schema) : schema :=
  match s with
  | [] => []
  | t :: r =>
      if String.eqb (t_name t) table
      then mkTable (t_name t) (t_description t) (t_columns t ++ [c]) (t_constraints t) :: r
      else t :: push_column_first table c r
  end.
Definition apply_lossy (s : schema) (a : action) : schema :=
  match apply_action s a with
  | Ok s' => s'
  | Err TableValidation =>
      match a with
      | AddColumn table column _ => push_column_first table column s
      | _ => s
      end
  | Err _ => s
  end.

Record log_entry := mkEntry { le_version : N; le_actions : list action; le_baseline : schema }.

(* log.rs:31-60 and macro lib.rs:385-397 + 56-74: per plan, queries are built against the baseline
   accumulated so far, then the baseline is advanced *)
Fixpoint incr_walk (s : schema) (plans : list plan) : list log_entry :=
  match plans with
  | [] => []
  | p :: r => mkEntry (p_version p) (p_actions p) s :: incr_walk (fold_left apply_lossy (p_actions p) s) r
  end.

Inductive log_out := LogNone | LogEntries (l : list log_entry).

Definition cmd_log (P : project) : cres log_out :=
  match load_migrations P with                                                    (* models are not loaded *)
  | Err e => Err e
  | Ok plans =>
      match plans with
      | [] => Ok LogNone
      | _ => Ok (LogEntries (incr_walk [] (map (plan_with_prefix (pj_prefix P)) plans)))
      end
  end.

(* the macro: load_migrations_from_dir does NOT validate; models are loaded and normalised (their
   failure is a compile error) but otherwise unused *)
Inductive macro_error := MacroModels (e : table_error).
Definition macro_load_migrations (P : project) : list plan := sort_plans (map snd (pj_migrations P)).
Definition macro_blocks (P : project) : result (list log_entry) macro_error :=
  match map_result normalize (map snd (pj_models P)) with
  | Err e => Err (MacroModels e)
  | Ok _ => Ok (incr_walk [] (map (plan_with_prefix (pj_prefix P)) (macro_load_migrations P)))
  end.

(* ------------------------------------------------------------------ file naming (utils.rs) *)
Definition is_ascii_digit (a : ascii) : bool :=
  let n := N_of_ascii a in (N.leb 48 n && N.leb n 57)%bool.
Definition is_ascii_alnum (a : ascii) : bool :=
  let n := N_of_ascii a in
  ((N.leb 48 n && N.leb n 57) || (N.leb 65 n && N.leb n 90) || (N.leb 97 n && N.leb n 122))%bool.
Definition is_non_ascii (a : ascii) : bool := N.leb 128 (N_of_ascii a).

(* utils.rs:27-46 *)
Definition sanitize_comment_char (a : ascii) : ascii :=
  let l := to_lower_ascii_char a in
  if (is_ascii_alnum l || is_non_ascii l || Ascii.eqb l " "%char)%bool then l else "_"%char.
Definition nonempty_str (s : string) : bool := negb (String.eqb s "").
Definition sanitize_comment (comment : option string) : string :=
  match comment with
  | None => ""
  | Some c => join "_" (filter nonempty_str (split_on " "%char (map_string sanitize_comment_char c)))
  end.

Fixpoint zeros (n : nat) : string := match n with O => "" | S k => String "0"%char (zeros k) end.
(* format!("{:0w$}", v) *)
Definition pad_zeros (w : nat) (s : string) : string := zeros (w - String.length s) +++ s.
Definition fmt_version (w : nat) (v : N) : string := pad_zeros w (N_to_string v).

Fixpoint parse_dec_acc (s : string) (acc : N) : N :=
  match s with
  | EmptyString => acc
  | String c r => parse_dec_acc r (acc * 10 + (N_of_ascii c - 48))
  end.
Definition usize_max : N := 18446744073709551615.
(* width.parse::<usize>().unwrap_or(0): empty or overflowing digit strings give 0 *)
Definition parse_width (digits : string) : N :=
  let n := parse_dec_acc digits 0 in
  if N.leb n usize_max then n else 0%N.

Inductive pstate := PNormal | PPercent | PWidth (digits : string).

(* utils.rs:48-89 as a one-pass state machine; a failed placeholder emits the characters seen so far
   and re-reads the current character in the normal state, which is what `out.push(chars[i]); i += 1`
   does over the following iterations *)
Fixpoint render_go (dv : string) (v : N) (m : string) (st : pstate) (s : string) : string :=
  match s with
  | EmptyString =>
      match st with PNormal => "" | PPercent => "%" | PWidth d => "%0" +++ d end
  | String c r =>
      let normal :=
        if Ascii.eqb c "%"%char then render_go dv v m PPercent r
        else String c (render_go dv v m PNormal r) in
      match st with
      | PNormal => normal
      | PPercent =>
          if Ascii.eqb c "v"%char then dv +++ render_go dv v m PNormal r
          else if Ascii.eqb c "m"%char then m +++ render_go dv v m PNormal r
          else if Ascii.eqb c "0"%char then render_go dv v m (PWidth "") r
          else String "%"%char normal
      | PWidth d =>
          if is_ascii_digit c then render_go dv v m (PWidth (d +++ String c "")) r
          else if Ascii.eqb c "v"%char then
            (let w := parse_width d in
             if N.eqb w 0 then dv else fmt_version (N.to_nat w) v) +++ render_go dv v m PNormal r
          else "%0" +++ d +++ normal
      end
  end.

Definition is_trail_sep (a : ascii) : bool :=
  (Ascii.eqb a "_"%char || Ascii.eqb a "-"%char || Ascii.eqb a "."%char)%bool.
(* `while name.ends_with('_') || name.ends_with('-') || name.ends_with('.') { name.pop(); }` (utils.rs:91-94),
   written from the right end: a character goes iff it is a separator and everything after it went *)
Fixpoint trim_trailing_seps (s : string) : string :=
  match s with
  | EmptyString => EmptyString
  | String a r =>
      let r' := trim_trailing_seps r in
      if (String.eqb r' "" && is_trail_sep a)%bool then EmptyString else String a r'
  end.

Definition render_migration_name (pattern : string) (v : N) (sanitized : string) : string :=
  let dv := fmt_version 4 v in
  let name := trim_trailing_seps (render_go dv v sanitized PNormal pattern) in
  if String.eqb name "" then dv else name.

Definition format_ext (f : file_format) : string :=
  match f with FJson => "json" | FYaml => "yaml" | FYml => "yml" end.

(* utils.rs:7-25 *)
Definition migration_filename (v : N) (comment : option string) (f : file_format) (pattern : string) : string :=
  render_migration_name pattern v (sanitize_comment comment) +++ ".vespertide." +++ format_ext f.

(* ------------------------------------------------------------------ revision *)
(* --fill-with table.column=value (revision.rs:24-35): split_once('=') then split_once('.') on the key *)
Fixpoint split_once (c : ascii) (s : string) : option (string * string) :=
  match s with
  | EmptyString => None
  | String a r =>
      if Ascii.eqb a c then Some (EmptyString, r)
      else match split_once c r with
           | Some (x, y) => Some (String a x, y)
           | None => None
           end
  end.
Definition parse_fill_arg (arg : string) : option (string * string * string) :=
  match split_once "="%char arg with
  | Some (key, value) =>
      match split_once "."%char key with
      | Some (t, c) => Some (t, c, value)
      | None => None
      end
  | None => None
  end.
(* insertion order is kept; [fv_get] makes the later insert win, like HashMap::insert *)
Definition parse_fill_with_args (args : list string) : list (string * string * string) :=
  flat_map (fun a => match parse_fill_arg a with Some e => [e] | None => [] end) args.

Definition file_names (P : project) : list string := map fst (pj_migrations P).

(* environment of one `revision` run: is there a terminal for dialoguer (if so every prompt is
   answered with its default, cf. VV.M1.Revision), the uuid and the clock *)
Record rev_env := mkEnv { re_tty : bool; re_uuid : string; re_now : string }.

Inductive rev_out :=
| RevNothing                          (* "No changes detected", exit 0, nothing written *)
| RevRefused                          (* explicit bail-out: non-nullable FK column (revision.rs:335-368), exit 1 *)
| RevNeedsTty                         (* a prompt is needed and there is no terminal: "not a terminal", exit 1 *)
| RevRefusedVersion                   (* fix fcb5089: a stored plan already has this or a greater version (u32 saturation), exit 1 *)
| RevRefusedExists                    (* fix fcb5089: the target file already exists, nothing is overwritten, exit 1 *)
| RevRefusedInvalid (e : validate_error)  (* fix 06565a6: the filled plan fails validate_migration_plan ("invalid migration plan"), exit 1 *)
| RevWrote (file : string) (p : plan).

(* the tail of cmd_revision once every fill value is there (revision.rs:446-500): default as fill value, validation of
   the plan as the loader will validate it, id / comment / time, file name, existence test, write *)
Definition revision_finish (P : project) (message : string) (env : rev_env) (version : N) (baseline : schema)
  (a2 : list action) : rev_out :=
  let a3 := map (default_as_fill baseline) a2 in                                  (* apply_default_as_fill_with (fix 446c8b4) *)
  let p' := mkPlan (re_uuid env) (Some message) (Some (re_now env)) version a3 in
  match validate_migration_plan p' with                                           (* fix 06565a6 *)
  | Err e => RevRefusedInvalid e
  | Ok _ =>
      let cfg := pj_config P in
      let name := migration_filename version (Some message) (cf_migration_format cfg) (cf_pattern cfg) in
      if mem_str name (file_names P) then RevRefusedExists                        (* path.exists() *)
      else RevWrote name p'
  end.

Definition cmd_revision (P : project) (message : string) (fill_args : list string) (env : rev_env)
  : cres rev_out :=
  match load_models P with
  | Err e => Err e
  | Ok models =>
      match load_migrations P with
      | Err e => Err e
      | Ok plans =>
          match plan_next models plans with
          | Err e => Err (EPlanning e)
          | Ok plan =>
              if is_nil (p_actions plan) then Ok RevNothing
              else if existsb (fun q => N.leb (p_version plan) (p_version q)) plans     (* revision.rs:420-427 *)
              then Ok RevRefusedVersion
              else if refuses (p_actions plan) then Ok RevRefused
              else
                match replay plans with                                          (* revision.rs:391 *)
                | Err e => Err (EBaseline e)
                | Ok baseline =>
                    let fv := parse_fill_with_args fill_args in
                    let a0 := map (apply_fill fv) (p_actions plan) in             (* revision.rs:398 *)
                    let missing := collect_fills a0 baseline in                   (* find_missing_fill_with + prompts *)
                    let step1 : option (list action) :=
                      match missing with
                      | [] => Some a0
                      | _ => if re_tty env then Some (map (apply_fill (fv ++ missing)) a0) else None
                      end in
                    match step1 with
                    | None => Ok RevNeedsTty
                    | Some a1 =>
                        let me := find_missing_enum_fill_with (mkPlan "" None None 0 a1) baseline in
                        let step2 : option (list action) :=
                          match me with
                          | [] => Some a1
                          | _ => if re_tty env then Some (apply_enum_fills 0 a1 me) else None
                          end in
                        match step2 with
                        | None => Ok RevNeedsTty
                        | Some a2 => Ok (revision_finish P message env (p_version plan) baseline a2)
                        end
                    end
                end
          end
      end
  end.

(* fs::write: create or truncate *)
Fixpoint write_file (name : string) (p : plan) (fs : list (string * plan)) : list (string * plan) :=
  match fs with
  | [] => [(name, p)]
  | (n, q) :: r => if String.eqb n name then (name, p) :: r else (n, q) :: write_file name p r
  end.

Definition project_after (P : project) (o : cres rev_out) : project :=
  match o with
  | Ok (RevWrote name p) => mkProject (pj_config P) (pj_models P) (write_file name p (pj_migrations P))
  | _ => P
  end.

Definition step_revision (P : project) (message : string) (fill_args : list string) (env : rev_env) : project :=
  project_after P (cmd_revision P message fill_args env).

Definition versions (P : project) : list N := map (fun f => p_version (snd f)) (pj_migrations P).
Definition max_version (P : project) : N := fold_left N.max (versions P) 0%N.

(* ------------------------------------------------------------------ what the terminal shows of an action *)
(* both `diff` (format_action, diff.rs:42-195) and `sql`/`log` (Display, core/action.rs:211-350) print
   kind + table + column-level names; this is the part the K-cli correspondence parses back *)
Record aobs := mkObs { ao_kind : string; ao_names : list string }.

Definition constraint_kind (k : table_constraint) : string :=
  match k with
  | CPrimaryKey _ _ => "PK" | CUnique _ _ => "UNIQUE" | CForeignKey _ _ _ _ _ _ => "FK"
  | CCheck _ _ => "CHECK" | CIndex _ _ => "INDEX"
  end.
Definition constraint_name (k : table_constraint) : string :=
  match k with
  | CPrimaryKey _ _ => ""
  | CUnique n _ | CForeignKey n _ _ _ _ _ | CIndex n _ => match n with Some x => x | None => "" end
  | CCheck n _ => n
  end.

Definition obs_of_action (a : action) : aobs :=
  match a with
  | CreateTable t _ _ => mkObs "CreateTable" [t]
  | DeleteTable t => mkObs "DeleteTable" [t]
  | AddColumn t c _ => mkObs "AddColumn" [t; c_name c]
  | RenameColumn t a b => mkObs "RenameColumn" [t; a; b]
  | DeleteColumn t c => mkObs "DeleteColumn" [t; c]
  | ModifyColumnType t c _ _ => mkObs "ModifyColumnType" [t; c]
  | ModifyColumnNullable t c n _ => mkObs "ModifyColumnNullable" [t; c; if n then "NULL" else "NOT NULL"]
  | ModifyColumnDefault t c _ => mkObs "ModifyColumnDefault" [t; c]
  | ModifyColumnComment t c _ => mkObs "ModifyColumnComment" [t; c]
  | AddConstraint t k => mkObs "AddConstraint" [t; constraint_kind k; constraint_name k]
  | RemoveConstraint t k => mkObs "RemoveConstraint" [t; constraint_kind k; constraint_name k]
  | RenameTable a b => mkObs "RenameTable" [a; b]
  | RawSql _ => mkObs "RawSql" []
  end.
