(* M6b: the export directory as a tree and `vespertide export` as a function on it
   (vespertide-cli/src/commands/export.rs:32-342).

   A directory is an association list name -> node (first entry of a name wins, as a lookup), a node
   is a file with an abstract content or a directory.  The flat view "finite map path -> (kind,
   content id)" is [flat].  Content is a list of abstract lines: the rendering of an entity is one
   opaque line [LEntity id]; a `pub mod x;` line is [LDecl x]; anything else is [LOther _].
   The exporter itself (what the entity text is) is out of scope: [em_render_ok] says whether
   render_entity_with_schema succeeded for that model.

   Order of the parallel writes (try_join_all, export.rs:86-108) is unspecified in Rust; the model
   writes in list order.  It matters only when two models map to one output path.
   Non-ASCII file names: [sanitize_filename] is exact for ASCII; bytes >= 128 are kept.
   No proofs in this file. *)
From VV.M1 Require Export Normalize.

Inductive orm := SeaOrm | SqlAlchemy | SqlModel.
Definition orm_ext (o : orm) : string := match o with SeaOrm => "rs" | _ => "py" end.   (* export.rs:141-144 *)

Inductive cline := LEntity (id : string) | LDecl (child : string) | LOther (s : string).
Definition content := list cline.

Inductive node := NFile (c : content) | NDir (entries : list (string * node)).
Definition dir := list (string * node).
Definition path := list string.

(* ------------------------------------------------------------------ Rust path pieces *)
(* split at the last '.' *)
Definition rsplit_dot (s : string) : option (string * string) :=
  match split_on "."%char s with
  | [] | [_] => None
  | pieces => Some (join "." (removelast pieces), last pieces "")
  end.
(* Path::file_stem / Path::extension (std::path, rsplit_file_at_dot): no dot, or nothing before the
   last dot => no extension *)
Definition rust_extension (fname : string) : option string :=
  if String.eqb fname ".." then None else
  match rsplit_dot fname with
  | None => None
  | Some (before, after) => if String.eqb before "" then None else Some after
  end.
Definition rust_file_stem (fname : string) : string :=
  if String.eqb fname ".." then fname else
  match rsplit_dot fname with
  | None => fname
  | Some (before, after) => if String.eqb before "" then fname else before
  end.
Definition has_ext (e fname : string) : bool :=
  match rust_extension fname with Some x => String.eqb x e | None => false end.

Definition strip_suffix (suf s : string) : string :=
  if ends_with suf s then substring 0 (String.length s - String.length suf) s else s.

Definition is_alnum_byte (a : ascii) : bool :=
  let n := N_of_ascii a in
  ((N.leb 48 n && N.leb n 57) || (N.leb 65 n && N.leb n 90) || (N.leb 97 n && N.leb n 122) || N.leb 128 n)%bool.
(* export.rs:234-245 *)
Definition sanitize_filename_char (a : ascii) : ascii :=
  if (is_alnum_byte a || Ascii.eqb a "_"%char || Ascii.eqb a "-"%char)%bool then a else "_"%char.
Definition sanitize_filename (s : string) : string := map_string sanitize_filename_char s.

(* ------------------------------------------------------------------ models with their paths *)
(* one loaded model file: directories below the models dir, file name, parsed table, and whether
   the exporter renders it; list order = walk order (read_dir, depth first; arbitrary) *)
Record emodel := mkEModel { em_dirs : list string; em_file : string; em_table : table_def; em_render_ok : bool }.

Definition is_model_file (fname : string) : bool :=          (* export.rs:320-323 *)
  (has_ext "json" fname || has_ext "yaml" fname || has_ext "yml" fname)%bool.

(* build_output_path (export.rs:222-268, fix 350766d): directory components are sanitised like the stem, the file name
   is cut at its last '.', a ".vespertide" suffix is dropped, the stem is sanitised *)
Definition out_stem (fname : string) : string :=
  let stem := match rsplit_dot fname with Some (before, _) => before | None => fname end in
  sanitize_filename (strip_suffix ".vespertide" stem).
Definition out_dirs (m : emodel) : list string := map sanitize_filename (em_dirs m).
Definition out_file (o : orm) (m : emodel) : string := out_stem (em_file m) +++ "." +++ orm_ext o.
Definition out_path (o : orm) (m : emodel) : path := out_dirs m ++ [out_file o m].

(* ensure_mod_chain (export.rs:286-306, fix 350766d): the components of build_output_path("", rel, SeaOrm), the ".rs" taken
   off the last one again (which gives back the stem), empty components dropped *)
Definition nonempty_name (s : string) : bool := negb (String.eqb s "").
Definition chain_comps (m : emodel) : list string :=
  filter nonempty_name (out_dirs m ++ [out_stem (em_file m)]).

(* ------------------------------------------------------------------ tree primitives *)
Fixpoint get_entry (name : string) (es : dir) : option node :=
  match es with
  | [] => None
  | (n, x) :: r => if String.eqb n name then Some x else get_entry name r
  end.
Fixpoint set_entry (name : string) (x : node) (es : dir) : dir :=
  match es with
  | [] => [(name, x)]
  | (n, y) :: r => if String.eqb n name then (name, x) :: r else (n, y) :: set_entry name x r
  end.

Fixpoint lookup (p : path) (es : dir) : option node :=
  match p with
  | [] => Some (NDir es)
  | n :: r =>
      match get_entry n es with
      | None => None
      | Some x =>
          match r with
          | [] => Some x
          | _ => match x with NDir sub => lookup r sub | NFile _ => None end
          end
      end
  end.
Definition file_at (p : path) (es : dir) : option content :=
  match lookup p es with Some (NFile c) => Some c | _ => None end.
Definition is_dir_at (p : path) (es : dir) : bool :=
  match lookup p es with Some (NDir _) => true | _ => false end.

(* fs::create_dir_all: fails when a regular file is in the way *)
Fixpoint mkdir_p (p : path) (es : dir) : option dir :=
  match p with
  | [] => Some es
  | d :: r =>
      match get_entry d es with
      | None => match mkdir_p r [] with Some sub => Some (set_entry d (NDir sub) es) | None => None end
      | Some (NDir sub) => match mkdir_p r sub with Some sub' => Some (set_entry d (NDir sub') es) | None => None end
      | Some (NFile _) => None
      end
  end.

(* fs::write(path): the parent must be an existing directory, the target must not be a directory *)
Fixpoint write_at (dirs : path) (fname : string) (c : content) (es : dir) : option dir :=
  match dirs with
  | [] =>
      match get_entry fname es with
      | Some (NDir _) => None
      | _ => Some (set_entry fname (NFile c) es)
      end
  | d :: r =>
      match get_entry d es with
      | Some (NDir sub) =>
          match write_at r fname c sub with Some sub' => Some (set_entry d (NDir sub') es) | None => None end
      | _ => None
      end
  end.

(* ------------------------------------------------------------------ clean_dir_recursive (export.rs:151-196) *)
(* files with the extension are removed at every depth; every sub-directory is cleaned recursively
   and then removed iff it is empty AFTER its own recursion; a directory whose name carries the
   extension is a directory, not a file to remove *)
Definition clean_entries_with (clean : node -> node) (ext : string) : dir -> dir :=
  fix go (l : dir) : dir :=
    match l with
    | [] => []
    | (nm, x) :: r =>
        match x with
        | NFile c => if has_ext ext nm then go r else (nm, NFile c) :: go r      (* export.rs:167-171 *)
        | NDir _ =>
            match clean x with                                                   (* export.rs:183-193 *)
            | NDir [] => go r
            | x' => (nm, x') :: go r
            end
        end
    end.
Fixpoint clean_node (ext : string) (n : node) : node :=
  match n with
  | NFile c => NFile c
  | NDir es => NDir (clean_entries_with (clean_node ext) ext es)
  end.
Definition clean_dir (ext : string) (es : dir) : dir :=
  match clean_node ext (NDir es) with NDir es' => es' | NFile _ => es end.

(* ------------------------------------------------------------------ ensure_mod_chain (export.rs:255-302) *)
Definition is_decl (child : string) (l : cline) : bool :=
  match l with LDecl c => String.eqb c child | _ => false end.

(* [comps_rev] is the component list reversed: its head is popped first (the deepest child) *)
Fixpoint mod_chain_go (comps_rev : list string) (es : dir) : option dir :=
  match comps_rev with
  | [] => Some es
  | child :: parents_rev =>
      let dirpath := rev parents_rev in
      match mkdir_p dirpath es with                                  (* export.rs:283-287 *)
      | None => None
      | Some es1 =>
          let existing :=
            match lookup (dirpath ++ ["mod.rs"]) es1 with
            | None => Some []
            | Some (NFile c) => Some c
            | Some (NDir _) => None                                  (* read_to_string on a directory *)
            end in
          match existing with
          | None => None
          | Some c =>
              if existsb (is_decl child) c then mod_chain_go parents_rev es1     (* no duplicate line *)
              else
                match write_at dirpath "mod.rs" (c ++ [LDecl child]) es1 with
                | None => None
                | Some es2 => mod_chain_go parents_rev es2
                end
          end
      end
  end.
Definition ensure_mod_chain (m : emodel) (es : dir) : option dir := mod_chain_go (rev (chain_comps m)) es.

(* ------------------------------------------------------------------ the command *)
Inductive export_error :=
| XNormalize          (* before anything is touched (export.rs:38-47) *)
| XCollision          (* fix 18ab122: two models with one output path, or an output file mod.rs; before anything is touched *)
| XRender             (* AFTER the directory has been cleaned *)
| XIo.                (* a file where a directory is needed or vice versa *)

Definition entity_content (m : emodel) : content := [LEntity (t_name (em_table m))].

Fixpoint write_all (o : orm) (ms : list emodel) (es : dir) : option dir :=
  match ms with
  | [] => Some es
  | m :: r =>
      match mkdir_p (out_dirs m) es with
      | None => None
      | Some es1 =>
          match write_at (out_dirs m) (out_file o m) (entity_content m) es1 with
          | None => None
          | Some es2 => write_all o r es2
          end
      end
  end.
Fixpoint chain_all (ms : list emodel) (es : dir) : option dir :=
  match ms with
  | [] => Some es
  | m :: r => match ensure_mod_chain m es with None => None | Some es1 => chain_all r es1 end
  end.

(* export.rs:50-72 (fix 18ab122): every model needs an output file of its own *)
Fixpoint distinct_paths (l : list path) : bool :=
  match l with
  | [] => true
  | p :: r => (negb (existsb (fun q => if list_eq_dec string_dec p q then true else false) r) && distinct_paths r)%bool
  end.
(* distinct sanitised output paths and no model whose output file is the module index `mod.rs`
   (i.e. no model stem `mod` in a SeaORM export) *)
Definition no_collision (o : orm) (ms : list emodel) : bool :=
  (distinct_paths (map (out_path o) ms)
   && forallb (fun m => negb (String.eqb (out_file o m) "mod.rs")) ms)%bool.
Definition normalize_ok (m : emodel) : bool := match normalize (em_table m) with Ok _ => true | Err _ => false end.

(* the tree is the export root (a missing root directory behaves as an empty one and is created) *)
Definition export (o : orm) (ms : list emodel) (root : dir) : result dir export_error :=
  if negb (forallb normalize_ok ms) then Err XNormalize
  else if negb (no_collision o ms) then Err XCollision
  else
    let cleaned := clean_dir (orm_ext o) root in
    if negb (forallb em_render_ok ms) then Err XRender
    else
      match write_all o ms cleaned with
      | None => Err XIo
      | Some written =>
          match o with
          | SeaOrm => match chain_all ms written with Some t => Ok t | None => Err XIo end
          | _ => Ok written
          end
      end.

(* ------------------------------------------------------------------ flat view and comparisons *)
Inductive fkind := KFile (c : content) | KDir.
Fixpoint flat_node (prefix : path) (name : string) (n : node) : list (path * fkind) :=
  match n with
  | NFile c => [(prefix ++ [name], KFile c)]
  | NDir es =>
      (prefix ++ [name], KDir) ::
      (fix go (l : list (string * node)) : list (path * fkind) :=
         match l with
         | [] => []
         | (nm, x) :: r => flat_node (prefix ++ [name]) nm x ++ go r
         end) es
  end.
Fixpoint flat (es : dir) : list (path * fkind) :=
  match es with
  | [] => []
  | (nm, x) :: r => flat_node [] nm x ++ flat r
  end.

Definition cline_eq_dec (x y : cline) : {x = y} + {x <> y}.
Proof. decide equality; apply string_dec. Defined.
Definition fkind_eq_dec (x y : fkind) : {x = y} + {x <> y}.
Proof. decide equality. apply (list_eq_dec cline_eq_dec). Defined.
Definition flat_entry_eqb (a b : path * fkind) : bool :=
  if list_eq_dec string_dec (fst a) (fst b) then (if fkind_eq_dec (snd a) (snd b) then true else false) else false.
Definition flat_subset (a b : list (path * fkind)) : bool :=
  forallb (fun x => existsb (flat_entry_eqb x) b) a.
(* same set of (path, kind, content) *)
Definition same_tree (a b : dir) : bool := (flat_subset (flat a) (flat b) && flat_subset (flat b) (flat a))%bool.

Definition path_has_ext (e : string) (p : path) : bool := has_ext e (last p "").

(* no component of the model's path is empty after sanitising (true of every path read_dir can deliver, except a file
   whose stem is empty such as `.vespertide.json`) *)
Definition path_names_nonempty (m : emodel) : bool :=
  (forallb nonempty_name (em_dirs m) && nonempty_name (out_stem (em_file m)))%bool.

(* `pub mod` chain from the root mod.rs down to the entity: root/mod.rs declares d1, d1/mod.rs declares d2, ... *)
Fixpoint reachable_from (prefix : path) (comps : list string) (es : dir) : bool :=
  match comps with
  | [] => true
  | c :: r =>
      (match file_at (prefix ++ ["mod.rs"]) es with
       | Some ls => existsb (is_decl c) ls
       | None => false
       end && reachable_from (prefix ++ [c]) r es)%bool
  end.
(* the entity file exists where build_output_path put it and the chain names exactly that place *)
Definition entity_reachable (m : emodel) (es : dir) : bool :=
  (match file_at (out_path SeaOrm m) es with Some _ => true | None => false end
   && reachable_from [] (out_dirs m ++ [out_stem (em_file m)]) es)%bool.
