(* M1: the equivalence-preserving re-speller of the C07 oracle
   (harness/common/src/gener.rs: respell_table rules 1-6, respell_models), as relations.
   One constructor per rewrite, carrying the guard under which the Rust code applies it
   (marked "guard") and, where the Rust guard alone is NOT sufficient for equivalence, an extra
   hypothesis (marked "tightening"; the refuting witnesses are in Proofs/RespellP.v).
   Definitions only. *)
From VV.M1 Require Export Apply.
From Coq Require Export Permutation Relation_Operators.

(* ---------- helpers ---------- *)
(* gener.rs:758  matches!(c.primary_key, Some(Bool(true)) | Some(Object(_))) *)
Definition has_inline_pk (c : column_def) : bool :=
  match c_primary_key c with
  | Some (PKBool true) | Some (PKObj _) => true
  | _ => false
  end.
Definition clear_pk (c : column_def) : column_def := if has_inline_pk c then set_pk None c else c.

(* t.columns.iter().filter(|c| c.name == cn).count() *)
Definition count_name (cn : string) (cols : list column_def) : nat :=
  List.length (filter (fun c => String.eqb (c_name c) cn) cols).

(* the group keys an inline unique / index declaration contributes to (table.rs:111-157, 270-376) *)
Definition inline_keys (v : option str_or_bool_or_array) (cn : string) : list string :=
  match v with
  | Some (SStr n) => [n]
  | Some (SBool true) => [auto_key cn]
  | Some (SArr l) => l
  | Some (SBool false) | None => []
  end.

Inductive key_kind := KUnique | KIndex.
Definition kk_get (k : key_kind) (c : column_def) : option str_or_bool_or_array :=
  match k with KUnique => c_unique c | KIndex => c_index c end.
Definition kk_set (k : key_kind) (v : option str_or_bool_or_array) (c : column_def) : column_def :=
  match k with KUnique => set_unique v c | KIndex => set_index v c end.
(* the unnamed single-column table-level form *)
Definition kk_mk (k : key_kind) (cn : string) : table_constraint :=
  match k with KUnique => CUnique None [cn] | KIndex => CIndex None [cn] end.
(* no column of [others] contributes to group [key] *)
Definition no_other_key (k : key_kind) (key : string) (others : list column_def) : Prop :=
  forall d, In d others -> ~ In key (inline_keys (kk_get k d) (c_name d)).

(* rule 1b: the spelling given to a key column (gener.rs:778-784) *)
Definition pk_spelling (auto : bool) (p : pk_syntax) : Prop :=
  if auto then p = PKObj true else (p = PKBool true \/ p = PKObj false).
Definition pk_inlined (auto : bool) (pkc : list string) (c c' : column_def) : Prop :=
  if mem_str (c_name c) pkc then exists p, pk_spelling auto p /\ c' = set_pk (Some p) c else c' = c.
Definition pk_members (pkc : list string) (cols : list column_def) : list column_def :=
  filter (fun c => mem_str (c_name c) pkc) cols.

(* rule 3: `simple` (gener.rs:848) and the three inline spellings (gener.rs:850-858) *)
Definition simple_ref (rt rc : string) : Prop :=
  contains_char "."%char rt = false /\ contains_char "."%char rc = false /\ rt <> "" /\ rc <> "".
Inductive fk_respelling (rt : string) (rcs : list string) (od ou : option ref_action) : fk_syntax -> Prop :=
| FR_str : forall rc, rcs = [rc] -> simple_ref rt rc -> od = None -> ou = None ->
    fk_respelling rt rcs od ou (FKStr (rt +++ "." +++ rc))
| FR_ref : forall rc, rcs = [rc] -> simple_ref rt rc ->
    fk_respelling rt rcs od ou (FKRef (rt +++ "." +++ rc) od ou)
| FR_obj : fk_respelling rt rcs od ou (FKObj rt rcs od ou).

(* rule 4 (gener.rs:870-884) *)
Inductive default_respelling : default_value -> default_value -> Prop :=
| DR_int : forall n, default_respelling (DInt n) (DStr (Z_to_string n))
| DR_bool : forall b, default_respelling (DBool b) (DStr (bool_to_string b))
| DR_float : forall r, r <> "" (* tightening: f64::to_string() is never empty *) ->
    default_respelling (DFloat r) (DStr r)
| DR_str_int : forall n, default_respelling (DStr (Z_to_string n)) (DInt n)
| DR_str_bool : forall b, default_respelling (DStr (bool_to_string b)) (DBool b).

(* ---------- one rewrite of one table ---------- *)
Inductive respell_step : table_def -> table_def -> Prop :=
(* 1a. inline primary key -> table level (gener.rs:760-767) *)
| RS_pk_to_table : forall nm d cols cs,
    existsb is_pk cs = false ->                          (* guard: !has_table_pk *)
    existsb has_inline_pk cols = true ->                 (* guard: !inline_pk.is_empty() *)
    respell_step (mkTable nm d cols cs)
                 (mkTable nm d (map clear_pk cols)
                          (cs ++ [CPrimaryKey (pk_auto_of cols) (pk_cols_of cols)]))
(* 1b. table-level primary key -> inline (gener.rs:768-789) *)
| RS_pk_to_inline : forall nm d cols cols' A B auto pkc,
    existsb is_pk A = false -> existsb is_pk B = false -> (* guard: exactly one PK constraint *)
    existsb has_inline_pk cols = false ->                (* guard: inline_pk.is_empty() *)
    map c_name (pk_members pkc cols) = pkc ->            (* guard: decl == columns *)
    List.length (pk_members pkc cols) = List.length pkc -> (* guard: distinct *)
    pkc <> [] ->                                         (* tightening *)
    Forall2 (pk_inlined auto pkc) cols cols' ->
    respell_step (mkTable nm d cols (A ++ CPrimaryKey auto pkc :: B)) (mkTable nm d cols' (A ++ B))
(* 2. unnamed single-column unique / index (gener.rs:793-824) *)
| RS_key_to_table : forall k nm d pre c post cs,
    kk_get k c = Some (SBool true) ->                    (* guard: cur *)
    ~ In (kk_mk k (c_name c)) cs ->                      (* guard: tl = None *)
    no_other_key k (auto_key (c_name c)) (pre ++ post) -> (* tightening *)
    respell_step (mkTable nm d (pre ++ c :: post) cs)
                 (mkTable nm d (pre ++ kk_set k None c :: post) (cs ++ [kk_mk k (c_name c)]))
| RS_key_to_inline : forall k nm d pre c post A B,
    kk_get k c = None ->                                 (* guard: cur *)
    ~ In (kk_mk k (c_name c)) A ->                       (* guard: tl = Some(first position) *)
    count_name (c_name c) (pre ++ c :: post) = 1%nat ->  (* guard *)
    no_other_key k (auto_key (c_name c)) (pre ++ post) -> (* tightening *)
    respell_step (mkTable nm d (pre ++ c :: post) (A ++ kk_mk k (c_name c) :: B))
                 (mkTable nm d (pre ++ kk_set k (Some (SBool true)) c :: post) (A ++ B))
| RS_key_drop_false : forall k nm d pre c post cs,
    kk_get k c = Some (SBool false) ->
    respell_step (mkTable nm d (pre ++ c :: post) cs) (mkTable nm d (pre ++ kk_set k None c :: post) cs)
(* 3. foreign keys (gener.rs:826-865) *)
| RS_fk_respell : forall nm d pre c post cs f f' rt rcs od ou,
    c_foreign_key c = Some f ->
    count_name (c_name c) (pre ++ c :: post) = 1%nat ->  (* guard *)
    existsb (fk_hit (c_name c)) cs = false ->            (* guard: !has_tl *)
    fk_of_syntax (c_name c) f = Ok (rt, rcs, od, ou) ->
    fk_respelling rt rcs od ou f' ->
    respell_step (mkTable nm d (pre ++ c :: post) cs) (mkTable nm d (pre ++ set_fk (Some f') c :: post) cs)
| RS_fk_to_table : forall nm d pre c post cs f rt rcs od ou,
    c_foreign_key c = Some f ->
    count_name (c_name c) (pre ++ c :: post) = 1%nat ->  (* guard *)
    existsb (fk_hit (c_name c)) cs = false ->            (* guard: !has_tl *)
    fk_of_syntax (c_name c) f = Ok (rt, rcs, od, ou) ->
    respell_step (mkTable nm d (pre ++ c :: post) cs)
                 (mkTable nm d (pre ++ set_fk None c :: post)
                          (cs ++ [CForeignKey None [c_name c] rt rcs od ou]))
(* 4. default literals (gener.rs:868-886) *)
| RS_default : forall nm d pre c post cs dv dv',
    c_default c = Some dv -> default_respelling dv dv' ->
    respell_step (mkTable nm d (pre ++ c :: post) cs) (mkTable nm d (pre ++ set_default (Some dv') c :: post) cs)
(* 5. integer-enum relabelling (gener.rs:888-899) *)
| RS_int_enum : forall nm d pre c post cs en vals en' vals',
    c_type c = TEnum en (EVInteger vals) ->
    c_default c = None ->                                (* guard *)
    map nv_value vals' = map nv_value vals ->
    respell_step (mkTable nm d (pre ++ c :: post) cs)
                 (mkTable nm d (pre ++ set_type (TEnum en' (EVInteger vals')) c :: post) cs)
(* 6. constraint order (gener.rs:901-903) *)
| RS_perm : forall nm d cols cs cs',
    Permutation cs cs' ->
    respell_step (mkTable nm d cols cs) (mkTable nm d cols cs').

(* respell_table: any number of rewrites (each guard is evaluated on the current table, as the Rust
   loops do); respell_models: table by table, then a shuffle of the table list *)
Definition respell_table : table_def -> table_def -> Prop := clos_refl_trans table_def respell_step.
Definition respell_schema (A B : schema) : Prop :=
  exists M, Forall2 respell_table A M /\ Permutation M B.
